(* C15/C16/C33: executable oracle over the abstract history (list of issued versions) and the case
   checker for the gap-by-gap observation of the real server. *)
From Coq Require Import List NArith ZArith Bool.
From RV Require Export C15.Model C13.Spec.
Import ListNotations.
Local Open Scope N_scope.

(* gap labels: where the validation thread was stopped when the probes ran *)
Definition L_WRITE : N := 0.     (* about to take the history write lock *)
Definition L_READ : N := 1.      (* about to take the history read lock *)
Definition L_UPDATED : N := 2.   (* process_once: update() returned, mark_update_done not yet called *)
Definition L_MARKED : N := 3.    (* process_once: mark_update_done returned, notify not yet sent *)
Definition L_END : N := 4.       (* process_once returned *)

Record acycle := {
  a_data : snapshot; a_ok : bool; a_tupd : Z; a_tdone : Z;
  a_gaps : list (N * list (probe * reply));
  a_notified : bool;        (* a notification was pending for a receiver subscribed before the cycle *)
  a_result_ok : bool }.     (* process_once returned Ok *)

Record case := { c_keep : N; c_cycles : list acycle }.

Definition nonempty_iss (iss : issued) : bool := match iss with [] => false | _ => true end.

Definition head_is (iss : issued) (s : N) (data : list (N * unit)) : bool :=
  match iss with
  | (n, cur) :: _ => (s =? n) && kl_eqb unit_eqb data (origins cur)
  | [] => false
  end.

Definition apply_keys (g : list (N * unit)) (ann wd : list N) : list (N * unit) :=
  fold_left (fun s k => kremove k s) wd (fold_left (fun s k => kinsert k tt s) ann g).

Definition opt_n_eqb (a b : option N) : bool :=
  match a, b with Some x, Some y => x =? y | None, None => true | _, _ => false end.

(* what a client may observe, stated against the abstract history only *)
(* [completed]: some validation cycle has completed (mark_update_done returned). Between the
   installation of the first data set and that moment the server may or may not serve already. *)
Definition answer_ok (k : N) (iss : issued) (completed : bool) (p : probe) (a : reply) : bool :=
  match p, a with
  | PReady, AReady b => if b then nonempty_iss iss else negb completed
  | PNotify, ASerial s => s =? spec_serial iss
  | PFull, AFull s data =>
      match iss with [] => (s =? 0) && match data with [] => true | _ => false end | _ => head_is iss s data end
  | PDiff own c, ADiff r => match iss with [] => true | _ => query_ok k iss own c r end
  | PJson _ _ _, AJson503 => negb completed
  | PJson _ _ src, AJson304 e =>
      (* C16: Not Modified only if the validators were issued for the version being served *)
      nonempty_iss iss && (e =? spec_serial iss) && opt_n_eqb src (Some (spec_serial iss))
  | PJson _ _ _, AJson200 e _ data => head_is iss e data
  | PDelta _, ADelta503 => negb completed
  | PDelta _, ADeltaReset s data => head_is iss s data
  | PDelta ver, ADeltaDelta from to ann wd =>
      match ver, iss with
      | Some (true, c), (n, cur) :: _ =>
          (c =? from) && (to =? n)
          && match find_issued from iss with
             | Some g => kl_eqb unit_eqb (apply_keys (origins g) ann wd) (origins cur)
             | None => false
             end
      | _, _ => false
      end
  | _, _ => false
  end.

Definition gap_ok (k : N) (iss : issued) (completed : bool) (obs : list (probe * reply)) : bool :=
  forallb (fun pa => answer_ok k iss completed (fst pa) (snd pa)) obs.

(* walk the gaps of one cycle; the version changes when the thread reaches L_UPDATED *)
Fixpoint gaps_ok (k : N) (iss : issued) (completed : bool) (d : snapshot) (gaps : list (N * list (probe * reply)))
  : bool * issued * bool :=
  match gaps with
  | [] => (true, iss, completed)
  | (l, obs) :: t =>
      let iss' := if l =? L_UPDATED then spec_update iss d else iss in
      let completed' := completed || ((l =? L_MARKED) && nonempty_iss iss') in
      let '(r, issf, cf) := gaps_ok k iss' completed' d t in
      (gap_ok k iss' completed' obs && r, issf, cf)
  end.

Definition iss_len_eqb (a b : issued) : bool := Nat.eqb (length a) (length b).

Fixpoint cycles_ok (k : N) (iss : issued) (completed : bool) (cs : list acycle) : bool :=
  match cs with
  | [] => true
  | c :: t =>
      let '(r, iss', completed') := gaps_ok k iss completed (a_data c) (a_gaps c) in
      r
      && Bool.eqb (a_result_ok c) (a_ok c)
      (* C33: a failed run leaves the abstract history alone; and a notification is pending exactly when the version changed *)
      && (if a_ok c then true else iss_len_eqb iss iss')
      && Bool.eqb (a_notified c) (negb (iss_len_eqb iss iss'))
      && cycles_ok k iss' completed' t
  end.

Definition spec_okb (c : case) : bool := cycles_ok (c_keep c) [] false (c_cycles c).

(* ---- the model on the same schedule ---- *)
Definition lz_eqb (a b : list (N * unit)) : bool := kl_eqb unit_eqb a b.
Fixpoint nl_eqb (a b : list N) : bool :=
  match a, b with [], [] => true | x :: a', y :: b' => (x =? y) && nl_eqb a' b' | _, _ => false end.

Definition answer_eqb (a b : reply) : bool :=
  match a, b with
  | AReady x, AReady y => Bool.eqb x y
  | ASerial x, ASerial y => x =? y
  | AFull s d, AFull s' d' => (s =? s') && lz_eqb d d'
  | ADiff r, ADiff r' => ans_eqb r r'
  | AJson503, AJson503 => true
  | AJson304 e, AJson304 e' => e =? e'
  | AJson200 e l d, AJson200 e' l' d' => (e =? e') && (l =? l')%Z && lz_eqb d d'
  | ADelta503, ADelta503 => true
  | ADeltaReset s d, ADeltaReset s' d' => (s =? s') && lz_eqb d d'
  | ADeltaDelta f t a w, ADeltaDelta f' t' a' w' => (f =? f') && (t =? t') && nl_eqb a a' && nl_eqb w w'
  | _, _ => false
  end.

Definition gap_agrees (s : srv) (l : N) (g : N * list (probe * reply)) : bool :=
  (fst g =? l) && forallb (fun pa => answer_eqb (respond s (fst pa)) (snd pa)) (snd g).

(* expected gaps of a successful cycle: write (mark_update_start), read + write (update), updated, write
   (mark_update_done), marked, end; of a failed one: write, end *)
Definition cycle_agrees (s : srv) (c : acycle) : bool * srv :=
  if a_ok c then
    let '(s1, chg) := install s (a_data c) (a_tupd c) in
    let s2 := mark_done s1 (a_tdone c) in
    let s3 := do_notify s2 chg in
    (match a_gaps c with
     | [g0; g1; g2; g3; g4; g5; g6] =>
         gap_agrees s L_WRITE g0 && gap_agrees s L_READ g1 && gap_agrees s L_WRITE g2
         && gap_agrees s1 L_UPDATED g3 && gap_agrees s1 L_WRITE g4 && gap_agrees s2 L_MARKED g5
         && gap_agrees s3 L_END g6
     | _ => false
     end && Bool.eqb (a_notified c) chg && a_result_ok c, s3)
  else
    (match a_gaps c with
     | [g0; g1] => gap_agrees s L_WRITE g0 && gap_agrees s L_END g1
     | _ => false
     end && negb (a_notified c) && negb (a_result_ok c), s).

Fixpoint model_agrees_from (s : srv) (cs : list acycle) : bool :=
  match cs with
  | [] => true
  | c :: t => let '(r, s') := cycle_agrees s c in r && model_agrees_from s' t
  end.

Definition model_agrees (c : case) : bool := model_agrees_from (srv_init (c_keep c)) (c_cycles c).

Definition inputs_ok (c : case) : bool :=
  forallb (fun a => snap_sortedb (a_data a) && (0 <=? a_tupd a)%Z && (0 <=? a_tdone a)%Z) (c_cycles c).

Definition check_case (c : case) : N :=
  if negb (inputs_ok c) then 9
  else if negb (spec_okb c) then 2
  else if model_agrees c then 0 else 1.

(* ---- reader-side gaps: a writer cycle injected between two lock acquisitions of ONE reader operation ---- *)
Record rcase := {
  r_keep : N;
  r_pre : list (snapshot * Z * Z);       (* successful cycles before the operation: data, t_upd, t_done *)
  r_probe : probe;
  r_extra : snapshot * Z * Z;            (* the cycle run by the harness if the reader comes back for a second lock acquisition *)
  ri_arrivals : N;                       (* lock acquisitions the operation made *)
  ri_injected : bool;                    (* whether the extra cycle was run in between *)
  ri_reply : reply }.

Definition r_state (c : rcase) : srv :=
  fold_left (fun s x => let '(d, t1, t2) := x in cycle s d true t1 t2) (r_pre c) (srv_init (r_keep c)).

Definition r_issued (c : rcase) : issued := fold_left (fun i x => spec_update i (fst (fst x))) (r_pre c) [].

(* the reply must be what a client may observe at ONE instant: before the injected cycle or after it *)
Definition rspec_okb (c : rcase) : bool :=
  let iss0 := r_issued c in
  let iss1 := spec_update iss0 (fst (fst (r_extra c))) in
  answer_ok (r_keep c) iss0 (nonempty_iss iss0) (r_probe c) (ri_reply c)
  || (ri_injected c && answer_ok (r_keep c) iss1 true (r_probe c) (ri_reply c)).

Definition check_rcase (c : rcase) : N :=
  if negb (forallb (fun x => snap_sortedb (fst (fst x))) (r_extra c :: r_pre c)) then 9
  else if negb (rspec_okb c) then 2
  else if (ri_arrivals c =? 1) && negb (ri_injected c) && answer_eqb (respond (r_state c) (r_probe c)) (ri_reply c)
       then 0 else 1.
