(* C15/C16/C33: the server model's replies satisfy the executable oracle of C15/Spec.v (which is stated
   over the abstract history = list of all issued versions only), in every gap of every validation
   cycle, for every schedule of cycles and every probe.
   The one hypothesis about probes: a conditional request that the model answers with 304 names, in
   its ghost field [src], the version its validators were issued for.  That validators issued by the
   model satisfy this is C16's own theorem (C15/Proofs.v not_modified_only_for_served_version). *)
From Coq Require Import List NArith ZArith Bool Lia PeanoNat.
From RV Require Import Base.KMap Base.Serial32 C11.Model C11.Proofs C11.Spec C11.SpecProofs
  C13.Model C13.Proofs C13.Spec C13.SpecProofs C15.Model C15.Proofs C15.Spec.
Import ListNotations.
Local Open Scope N_scope.

(* ---- key lists of /json-delta against the change set ---- *)
Definition kin (x : N) (l : list N) : bool := existsb (N.eqb x) l.

Lemma lookup_fold_insert x ann (s : list (N * unit)) : ksorted s ->
  ksorted (fold_left (fun s k => kinsert k tt s) ann s) /\
  lookup x (fold_left (fun s k => kinsert k tt s) ann s) = if kin x ann then Some tt else lookup x s.
Proof.
  revert s; induction ann as [|k ann IH]; intros s Hs; cbn [fold_left kin existsb]; [split; [exact Hs|reflexivity]|].
  destruct (IH (kinsert k tt s) (kinsert_sorted k tt s Hs)) as [S L]. split; [exact S|].
  rewrite L. fold (kin x ann). rewrite kinsert_lookup by exact Hs.
  destruct (kin x ann); [rewrite orb_true_r; reflexivity|]. rewrite orb_false_r. reflexivity.
Qed.

Lemma lookup_fold_remove x wd (s : list (N * unit)) : ksorted s ->
  ksorted (fold_left (fun s k => kremove k s) wd s) /\
  lookup x (fold_left (fun s k => kremove k s) wd s) = if kin x wd then None else lookup x s.
Proof.
  revert s; induction wd as [|k wd IH]; intros s Hs; cbn [fold_left kin existsb]; [split; [exact Hs|reflexivity]|].
  destruct (IH (kremove k s) (kremove_sorted k s Hs)) as [S L]. split; [exact S|].
  rewrite L. fold (kin x wd). rewrite kremove_lookup.
  destruct (kin x wd); [rewrite orb_true_r; reflexivity|]. rewrite orb_false_r. reflexivity.
Qed.

Lemma apply_keys_lookup x g ann wd : ksorted g ->
  ksorted (apply_keys g ann wd) /\
  lookup x (apply_keys g ann wd) = if kin x wd then None else if kin x ann then Some tt else lookup x g.
Proof.
  intros Hs. unfold apply_keys. destruct (lookup_fold_insert x ann g Hs) as [S1 L1].
  destruct (lookup_fold_remove x wd _ S1) as [S2 L2]. split; [exact S2|]. rewrite L2, L1. reflexivity.
Qed.

Lemma kin_keys_of x b (d : delta unit) : ksorted d ->
  kin x (keys_of b (wire_of d)) =
  match lookup x d with Some (_, a) => Bool.eqb (is_withdraw a) b | None => false end.
Proof.
  induction d as [|[k [v a]] d IH]; intros Hs; [reflexivity|].
  destruct Hs as [Hl Hs]. specialize (IH Hs).
  unfold keys_of in *. cbn [wire_of map filter fst snd lookup]. fold (wire_of d).
  destruct (Bool.eqb (is_withdraw a) b) eqn:E; cbn [map kin existsb fst snd].
  - fold (kin x (map (fun a0 : N * unit * bool => fst (fst a0)) (filter (fun a0 : N * unit * bool => Bool.eqb (snd a0) b) (wire_of d)))).
    rewrite IH. destruct (N.eqb_spec x k) as [->|NE]; [rewrite E; reflexivity|reflexivity].
  - rewrite IH. destruct (N.eqb_spec x k) as [->|NE]; [rewrite (lookup_lb _ _ Hl), E; reflexivity|reflexivity].
Qed.

Lemma apply_keys_apply g (d : delta unit) : ksorted g -> ksorted d ->
  apply_keys g (keys_of false (wire_of d)) (keys_of true (wire_of d)) = apply g d.
Proof.
  intros Hg Hd. apply ksorted_ext.
  - apply (apply_keys_lookup 0 g _ _ Hg).
  - apply apply_sorted; exact Hg.
  - intros x. rewrite (proj2 (apply_keys_lookup x g _ _ Hg)), !kin_keys_of by exact Hd.
    rewrite apply_lookup by assumption.
    destruct (lookup x d) as [[[] a]|]; [|reflexivity]. destruct a; reflexivity.
Qed.

(* ---- the relation between the server state and the abstract history ---- *)
Record SRel (s : srv) (iss : issued) (completed : bool) : Prop := {
  sr_rel : Rel (hst s) iss;
  sr_created : iss <> [] -> created s <> None;
  sr_completed : completed = true -> iss <> [] }.

Lemma SRel_init k : SRel (srv_init k) [] false.
Proof. constructor; cbn; [apply Rel_init | congruence | discriminate]. Qed.

Lemma exact_sorted h w c d : Inv h w -> w <> [] -> keep h < H31 -> c < M32 -> delta_since h c = Some d ->
  exists g cur, In (c, g) w /\ current h = Some cur /\ papply g d = cur /\ snap_sorted g /\ ksorted (d_origins d).
Proof.
  intros HI Hw K Hc E. rewrite (delta_since_spec h w c HI Hw (win_len_bound _ _ HI K) Hc) in E.
  apply win_answer_In in E as (g & t & DT & HIn & ->).
  destruct (drop_to_suffix c w) as [pre [Ew|Ew]]; [|congruence]. rewrite DT in Ew.
  pose proof (inv_wf _ _ HI) as W. pose proof W as Wsuf. rewrite Ew in Wsuf. apply wf_win_app_r in Wsuf.
  assert (snap_sorted g) as Sg by (cbn [wf_win] in Wsuf; tauto).
  assert (snap_sorted (snd (last t (c, g)))) as Sl.
  { pose proof (wf_win_sorted _ Wsuf) as F. rewrite last_map_snd. cbn [map snd] in F.
    inversion F as [|? ? F0 F']; subst. clear -F0 F'. cbn [snd].
    revert F0. generalize g. induction (map snd t) as [|y l IHl]; intros g0 F0; [exact F0|].
    rewrite last_cons. inversion F'; subst. apply IHl; assumption. }
  exists g, (snd (last t (c, g))). split; [exact HIn|]. split; [|split; [|split; [exact Sg|]]].
  - rewrite (inv_cur _ _ HI). rewrite Ew. rewrite (wlast_app_r pre ((c, g) :: t) (last t (c, g)) eq_refl). reflexivity.
  - apply papply_pconstruct; assumption.
  - cbn [pconstruct_raw d_origins]. apply construct_sorted; [apply Sg | apply Sl].
Qed.

(* a conditional request answered with 304 names the version its validators came from *)
Definition probe_ok (s : srv) (p : probe) : Prop :=
  match p with
  | PDiff _ c => c < M32
  | PDelta (Some (_, c)) => c < M32
  | PJson inm ims src => forall e, respond s p = AJson304 e -> src = Some e
  | _ => True
  end.

Lemma kl_refl (l : list (N * unit)) : kl_eqb unit_eqb l l = true.
Proof. destruct (kl_eqb_spec unit_eqb unit_eqb_spec l l); [reflexivity|congruence]. Qed.

Lemma respond_ok s iss completed p : SRel s iss completed -> keep (hst s) < H31 ->
  N.of_nat (length iss) <= M32 -> probe_ok s p ->
  answer_ok (keep (hst s)) iss completed p (respond s p) = true.
Proof.
  intros [R Cr Cp] K L P.
  destruct iss as [|[n cur] t].
  - (* nothing issued yet *)
    destruct (Rel_nil _ R) as [C D]. assert (completed = false) as -> by (destruct completed; [exfalso; apply Cp; reflexivity|reflexivity]).
    destruct p as [| | |own c|inm ims src|ver]; unfold respond, is_active, serial; rewrite ?C, ?D; try reflexivity.
  - destruct (Rel_head _ _ _ _ R) as [Es Ec].
    destruct (created s) as [cr|] eqn:ECr; [|exfalso; apply Cr; [discriminate|reflexivity]].
    destruct p as [| | |own c|inm ims src|ver].
    + unfold respond, is_active. rewrite Ec. reflexivity.
    + unfold respond. rewrite Es. cbn [answer_ok spec_serial]. apply N.eqb_refl.
    + unfold respond. rewrite Es, Ec. cbn [answer_ok head_is]. rewrite N.eqb_refl, kl_refl. reflexivity.
    + cbn [probe_ok] in P. unfold respond. cbn [answer_ok].
      apply (query_ok_model (hst s) ((n, cur) :: t) own c R ltac:(discriminate) K L P).
    + cbn [probe_ok] in P. unfold respond in *. rewrite Ec, ECr in *. rewrite Es in *.
      destruct (_ || _).
      * specialize (P n eq_refl). subst src. cbn [answer_ok nonempty_iss spec_serial opt_n_eqb andb].
        rewrite N.eqb_refl. reflexivity.
      * cbn [answer_ok head_is]. rewrite N.eqb_refl, kl_refl. reflexivity.
    + unfold respond. rewrite Ec, Es.
      assert (answer_ok (keep (hst s)) ((n, cur) :: t) completed (PDelta ver) (ADeltaReset n (origins cur)) = true) as Reset.
      { cbn [answer_ok head_is]. rewrite N.eqb_refl, kl_refl. reflexivity. }
      destruct ver as [[own c]|]; [|exact Reset]. destruct own; [|exact Reset].
      destruct (delta_since (hst s) c) as [d|] eqn:DS; [|exact Reset].
      cbn [probe_ok] in P.
      pose proof (rel_inv _ _ R) as HI. set (w := rev (firstn (S (length (deltas (hst s)))) ((n, cur) :: t))) in *.
      assert (w <> []) as Hw. { unfold w. cbn [firstn rev]. destruct (rev (firstn (length (deltas (hst s))) t)); discriminate. }
      destruct (exact_sorted _ w c d HI Hw K P DS) as (g & cur' & HIn & Ecur & Pa & Sg & Sd).
      rewrite Ec in Ecur. assert (cur' = cur) as Ecc by congruence. rewrite Ecc in Pa. clear Ecur Ecc cur'.
      assert (In (c, g) ((n, cur) :: t)) as I2. { unfold w in HIn. apply in_rev in HIn. apply (In_firstn _ _ _ HIn). }
      cbn [answer_ok]. rewrite !N.eqb_refl. cbn [andb].
      rewrite (find_issued_In _ c g (rel_wf _ _ R) L I2).
      rewrite apply_keys_apply by (try apply Sg; exact Sd).
      apply (f_equal origins) in Pa. cbn [papply origins] in Pa. rewrite Pa. apply kl_refl.
Qed.

(* ---- steps of the validation thread ---- *)
Lemma chg_spec h iss u : Rel h iss -> snap_sorted u ->
  snd (update h u) = negb (iss_len_eqb iss (spec_update iss u)).
Proof.
  intros R Su. unfold iss_len_eqb. destruct iss as [|[n g] t].
  - destruct (Rel_nil _ R) as [C _]. unfold update. rewrite C. reflexivity.
  - destruct (Rel_head _ _ _ _ R) as [_ Ec]. unfold update. rewrite Ec.
    pose proof (rel_wf _ _ R) as W. cbn [iss_wf] in W. destruct W as (Sg & _).
    cbn [spec_update]. destruct (snap_eqb_spec g u) as [E|NEq].
    + subst u. rewrite (proj2 (pconstruct_none_iff g g Sg Sg) eq_refl). cbn [snd]. rewrite Nat.eqb_refl. reflexivity.
    + cbn [length]. replace (Nat.eqb (S (length t)) (S (S (length t)))) with false
        by (symmetry; apply Nat.eqb_neq; lia).
      destruct (pconstruct g u) eqn:P; [reflexivity|]. exfalso. apply NEq. apply (pconstruct_none_iff g u Sg Su). exact P.
Qed.

Lemma spec_update_nonempty iss u : spec_update iss u <> [].
Proof. destruct iss as [|[n g] t]; cbn [spec_update]; [discriminate|]. destruct (snap_eqb g u); discriminate. Qed.

Lemma adv_created_some c now : adv_created c now <> None.
Proof. unfold adv_created. destruct c as [c0|]; [destruct (_ <=? _)%Z|]; discriminate. Qed.

Lemma SRel_install s iss completed d t : SRel s iss completed -> snap_sorted d ->
  SRel (fst (install s d t)) (spec_update iss d) completed /\
  snd (install s d t) = negb (iss_len_eqb iss (spec_update iss d)) /\
  keep (hst (fst (install s d t))) = keep (hst s).
Proof.
  intros [R Cr Cp] Sd. pose proof (Rel_update _ _ d R Sd) as R'. pose proof (chg_spec _ _ d R Sd) as Ch.
  pose proof (update_keep (hst s) d) as Kp.
  unfold install. destruct (update (hst s) d) as [h' chg] eqn:U. cbn [fst snd hst created] in *.
  split; [|split; [exact Ch | exact Kp]]. constructor; cbn [hst created].
  - exact R'.
  - intros _. destruct chg; [apply adv_created_some|].
    apply Cr. intros ->. cbn in Ch. discriminate.
  - intros _. apply spec_update_nonempty.
Qed.

Lemma SRel_mark s iss completed t b : SRel s iss completed -> SRel (mark_done s t) iss (completed || (b && nonempty_iss iss)).
Proof.
  intros [R Cr Cp]. constructor; cbn [mark_done hst created].
  - exact R.
  - intros _. apply adv_created_some.
  - intros E. apply orb_true_iff in E as [E|E]; [apply Cp; exact E|]. apply andb_true_iff in E as [_ E].
    destruct iss; [discriminate|discriminate].
Qed.

Lemma SRel_notify s iss completed b : SRel s iss completed -> SRel (do_notify s b) iss completed.
Proof. intros [R Cr Cp]. constructor; cbn [do_notify hst created]; assumption. Qed.

(* ---- the case the model itself produces on a schedule (same probes, the model's replies) ---- *)
Definition mgap (s : srv) (l : N) (g : N * list (probe * reply)) : N * list (probe * reply) :=
  (l, map (fun pa => (fst pa, respond s (fst pa))) (snd g)).
Definition nthg (gs : list (N * list (probe * reply))) (i : nat) := nth i gs (0, []).

Definition model_cycle (s : srv) (c : acycle) : acycle * srv :=
  let gs := a_gaps c in
  if a_ok c then
    let '(s1, chg) := install s (a_data c) (a_tupd c) in
    let s2 := mark_done s1 (a_tdone c) in
    let s3 := do_notify s2 chg in
    ({| a_data := a_data c; a_ok := true; a_tupd := a_tupd c; a_tdone := a_tdone c;
        a_gaps := [mgap s L_WRITE (nthg gs 0); mgap s L_READ (nthg gs 1); mgap s L_WRITE (nthg gs 2);
                   mgap s1 L_UPDATED (nthg gs 3); mgap s1 L_WRITE (nthg gs 4); mgap s2 L_MARKED (nthg gs 5);
                   mgap s3 L_END (nthg gs 6)];
        a_notified := chg; a_result_ok := true |}, s3)
  else
    ({| a_data := a_data c; a_ok := false; a_tupd := a_tupd c; a_tdone := a_tdone c;
        a_gaps := [mgap s L_WRITE (nthg gs 0); mgap s L_END (nthg gs 1)];
        a_notified := false; a_result_ok := false |}, s).

Fixpoint model_cycles (s : srv) (cs : list acycle) : list acycle :=
  match cs with
  | [] => []
  | c :: t => let '(c', s') := model_cycle s c in c' :: model_cycles s' t
  end.

Definition model_case (c : case) : case :=
  {| c_keep := c_keep c; c_cycles := model_cycles (srv_init (c_keep c)) (c_cycles c) |}.

(* every probe of the schedule is well formed in the state it is asked in *)
Definition gap_probes_ok (s : srv) (g : N * list (probe * reply)) : Prop :=
  Forall (fun pa => probe_ok s (fst pa)) (snd g).

Definition cycle_probes_ok (s : srv) (c : acycle) : Prop :=
  let gs := a_gaps c in
  if a_ok c then
    let s1 := fst (install s (a_data c) (a_tupd c)) in
    let s2 := mark_done s1 (a_tdone c) in
    let s3 := do_notify s2 (snd (install s (a_data c) (a_tupd c))) in
    gap_probes_ok s (nthg gs 0) /\ gap_probes_ok s (nthg gs 1) /\ gap_probes_ok s (nthg gs 2) /\
    gap_probes_ok s1 (nthg gs 3) /\ gap_probes_ok s1 (nthg gs 4) /\ gap_probes_ok s2 (nthg gs 5) /\
    gap_probes_ok s3 (nthg gs 6)
  else gap_probes_ok s (nthg gs 0) /\ gap_probes_ok s (nthg gs 1).

Fixpoint probes_ok (s : srv) (cs : list acycle) : Prop :=
  match cs with
  | [] => True
  | c :: t => cycle_probes_ok s c /\ probes_ok (snd (model_cycle s c)) t
  end.

Lemma gap_ok_model k s iss completed g : SRel s iss completed -> keep (hst s) = k -> k < H31 ->
  N.of_nat (length iss) <= M32 -> gap_probes_ok s g ->
  gap_ok k iss completed (map (fun pa => (fst pa, respond s (fst pa))) (snd g)) = true.
Proof.
  intros R <- K L P. unfold gap_ok. unfold gap_probes_ok in P.
  induction (snd g) as [|pa obs IH]; [reflexivity|]. inversion P as [|? ? P1 P2]; subst.
  cbn [map forallb fst snd]. rewrite (respond_ok s iss completed (fst pa) R K L P1). cbn [andb]. apply IH. exact P2.
Qed.

Lemma spec_update_length iss u : (length (spec_update iss u) <= S (length iss))%nat.
Proof. destruct iss as [|[n g] t]; cbn [spec_update length]; [lia|]. destruct (snap_eqb g u); cbn [length]; lia. Qed.

Theorem cycles_ok_model k s iss completed cs : SRel s iss completed -> keep (hst s) = k -> k < H31 ->
  N.of_nat (length iss + length cs) <= M32 ->
  Forall (fun c => snap_sorted (a_data c)) cs -> probes_ok s cs ->
  cycles_ok k iss completed (model_cycles s cs) = true.
Proof.
  revert s iss completed; induction cs as [|c cs IH]; intros s iss completed R K Kl L F P; [reflexivity|].
  apply Forall_cons_iff in F as [Sd F']. cbn [probes_ok] in P. destruct P as [Pc Pt].
  cbn [model_cycles]. unfold model_cycle in *. unfold cycle_probes_ok in Pc.
  assert (N.of_nat (length iss) <= M32) as L0 by (cbn [length] in L; lia).
  destruct (a_ok c) eqn:Ok.
  - destruct (SRel_install s iss completed (a_data c) (a_tupd c) R Sd) as (R1 & Ch & K1).
    destruct (install s (a_data c) (a_tupd c)) as [s1 chg] eqn:I. cbn [fst snd] in *.
    set (iss1 := spec_update iss (a_data c)) in *.
    assert (N.of_nat (length iss1) <= M32) as L1.
    { pose proof (spec_update_length iss (a_data c)). fold iss1 in H. cbn [length] in L. lia. }
    pose proof (SRel_mark s1 iss1 completed (a_tdone c) true R1) as R2. cbn [andb] in R2.
    pose proof (SRel_notify _ _ _ chg R2) as R3.
    destruct Pc as (P0 & P1 & P2 & P3 & P4 & P5 & P6).
    unfold mgap. cbn [cycles_ok a_gaps a_data a_ok a_notified a_result_ok gaps_ok snd].
    replace (L_WRITE =? L_UPDATED) with false by reflexivity.
    replace (L_READ =? L_UPDATED) with false by reflexivity.
    replace (L_UPDATED =? L_UPDATED) with true by reflexivity.
    replace (L_MARKED =? L_UPDATED) with false by reflexivity.
    replace (L_END =? L_UPDATED) with false by reflexivity.
    replace (L_WRITE =? L_MARKED) with false by reflexivity.
    replace (L_READ =? L_MARKED) with false by reflexivity.
    replace (L_UPDATED =? L_MARKED) with false by reflexivity.
    replace (L_MARKED =? L_MARKED) with true by reflexivity.
    replace (L_END =? L_MARKED) with false by reflexivity.
    cbn [andb]. rewrite !orb_false_r. fold iss1.
    assert (nonempty_iss iss1 = true) as NE1.
    { unfold iss1. pose proof (spec_update_nonempty iss (a_data c)). destruct (spec_update iss (a_data c)); [congruence|reflexivity]. }
    assert (keep (hst (mark_done s1 (a_tdone c))) = k) as K2 by (cbn [mark_done hst]; lia).
    assert (keep (hst (do_notify (mark_done s1 (a_tdone c)) chg)) = k) as K3 by (cbn [do_notify mark_done hst]; lia).
    assert (keep (hst s1) = k) as K1' by lia.
    rewrite !(gap_ok_model k s iss completed _ R K Kl L0) by assumption.
    rewrite !(gap_ok_model k s1 iss1 completed _ R1 K1' Kl L1) by assumption.
    rewrite NE1 in *.
    rewrite (gap_ok_model k _ iss1 _ _ R2 K2 Kl L1) by assumption.
    rewrite (gap_ok_model k _ iss1 _ _ R3 K3 Kl L1) by assumption.
    cbn [andb Bool.eqb]. rewrite <- Ch. rewrite eqb_reflx. cbn [andb].
    apply (IH _ iss1 _ R3 K3 Kl); [|exact F'|exact Pt].
    pose proof (spec_update_length iss (a_data c)). fold iss1 in H. cbn [length] in L. lia.
  - destruct Pc as (P0 & P1).
    unfold mgap. cbn [cycles_ok a_gaps a_data a_ok a_notified a_result_ok gaps_ok snd].
    replace (L_WRITE =? L_UPDATED) with false by reflexivity.
    replace (L_END =? L_UPDATED) with false by reflexivity.
    replace (L_WRITE =? L_MARKED) with false by reflexivity.
    replace (L_END =? L_MARKED) with false by reflexivity.
    cbn [andb]. rewrite !orb_false_r.
    rewrite !(gap_ok_model k s iss completed _ R K Kl L0) by assumption.
    cbn [andb Bool.eqb]. unfold iss_len_eqb. rewrite Nat.eqb_refl. cbn [andb negb Bool.eqb].
    apply (IH _ iss _ R K Kl); [cbn [length] in L; lia|exact F'|exact Pt].
Qed.

(* the whole oracle on the model's own case *)
Theorem model_satisfies_spec c : c_keep c < H31 -> N.of_nat (length (c_cycles c)) <= M32 ->
  inputs_ok c = true -> probes_ok (srv_init (c_keep c)) (c_cycles c) ->
  spec_okb (model_case c) = true.
Proof.
  intros K L I P. unfold spec_okb, model_case. cbn [c_keep c_cycles].
  apply (cycles_ok_model (c_keep c) (srv_init (c_keep c)) [] false _ (SRel_init _) eq_refl K); [cbn [length]; lia| |exact P].
  unfold inputs_ok in I. rewrite forallb_forall in I. apply Forall_forall. intros a Ha.
  specialize (I a Ha). apply andb_true_iff in I as [I _]. apply andb_true_iff in I as [I _].
  apply snap_sortedb_spec. exact I.
Qed.
