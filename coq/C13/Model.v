(* C13/C14 model: PayloadHistory (src/payload/history.rs), as repaired by the two
   "fix:" commits (push_delta bound, delta_since exact match on serial + 1).
   Executable definitions only. *)
From Coq Require Import List NArith Bool.
From RV Require Export Base.KMap Base.Serial32 C11.Model.
Import ListNotations.
Local Open Scope N_scope.

Record hist := {
  keep : N;                          (* config.history_size (usize) *)
  deltas : list (N * pdelta);        (* newest first; (target serial, change set) *)
  current : option snapshot }.

Definition init (k : N) : hist := {| keep := k; deltas := []; current := None |}.

(* PayloadHistory::serial *)
Definition serial (h : hist) : N := match deltas h with (s, _) :: _ => s | [] => 0 end.

(* PayloadHistory::push_delta *)
Definition push_delta (h : hist) (sd : N * pdelta) : list (N * pdelta) :=
  let ds := if N.max (keep h) 1 <=? N.of_nat (length (deltas h)) then removelast (deltas h) else deltas h in
  sd :: ds.

(* SharedHistory::update (the data-set part); returns the new state and the "changed" flag *)
Definition update (h : hist) (s : snapshot) : hist * bool :=
  match current h with
  | None => ({| keep := keep h; deltas := deltas h; current := Some s |}, true)
  | Some c =>
      match pconstruct c s with
      | Some d => ({| keep := keep h; deltas := push_delta h (sadd (serial h) 1, d); current := Some s |}, true)
      | None => ({| keep := keep h; deltas := deltas h; current := Some s |}, false)
      end
  end.

(* the hook SharedHistory::verif_init_at: one retained change set first -> second at serial s0 + 1 *)
Definition init_at (k s0 : N) (first second : snapshot) : hist :=
  match pconstruct first second with
  | Some d => {| keep := k; deltas := push_delta (init k) (sadd s0 1, d); current := Some second |}
  | None => {| keep := k; deltas := []; current := Some second |}
  end.

(* iter.rev().skip_while(|d| d.serial() != next) *)
Fixpoint skip_until (next : N) (l : list (N * pdelta)) : list (N * pdelta) :=
  match l with
  | [] => []
  | (s, d) :: t => if s =? next then l else skip_until next t
  end.

(* PayloadHistory::delta_since *)
Definition delta_since (h : hist) (c : N) : option pdelta :=
  match deltas h with
  | (s, d) :: _ =>
      if slt s c then None
      else if s =? c then Some pd_empty
      else if s =? sadd c 1 then Some d
      else match skip_until (sadd c 1) (rev (deltas h)) with
           | [] => None
           | (_, d0) :: rest => Some (fold_left pmerge (map snd rest) d0)
           end
  | [] => if c =? 0 then Some pd_empty else None
  end.

(* PayloadSource::diff: RTR session (16 bit) must match; answer tagged with the current serial *)
Definition diff (h : hist) (own_session : bool) (c : N) : option (N * pdelta) :=
  if own_session then
    match delta_since h c with Some d => Some (serial h, d) | None => None end
  else None.

Definition is_active (h : hist) : bool := match current h with Some _ => true | None => false end.
