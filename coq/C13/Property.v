(* C13 — Serial-based synchronisation is exact or refused.
   [Reach h w]: h is reached from an empty history (or from the hook state "one retained change
   set at an arbitrary serial") by any number of updates; w is its ghost window: the last
   (retained change sets + 1) issued (serial, data set) pairs, oldest first.
   Hypothesis [keep h < 2^31]: the retained window must fit in half the serial space. *)
From Coq Require Import List NArith Bool.
From RV Require Import Base.KMap Base.Serial32 C11.Model C11.Proofs C13.Model C13.Proofs C13.Spec C13.SpecProofs.
Import ListNotations.
Local Open Scope N_scope.

Theorem C13_invariant : forall h w, Reach h w -> Inv h w.
Proof. exact Reach_Inv. Qed.

(* an answer is exact: it turns the data issued under the presented serial into the current data,
   is tagged with the current serial, and is only given to the own session *)
Theorem C13_exact_or_refused : forall h w own c tag d,
  Reach h w -> w <> [] -> keep h < H31 -> c < M32 ->
  diff h own c = Some (tag, d) ->
  own = true /\ tag = serial h /\
  exists g cur, In (c, g) w /\ current h = Some cur /\ papply g d = cur.
Proof.
  intros h w own c tag d R Hw K Hc E. unfold diff in E. destruct own; [|discriminate].
  destruct (delta_since h c) as [d'|] eqn:DS; [|discriminate]. inversion E; subst.
  split; [reflexivity|]. split; [reflexivity|].
  exact (exact_or_refused h w c d (Reach_Inv _ _ R) Hw K Hc DS).
Qed.

Theorem C13_current_is_empty : forall h w, Reach h w -> w <> [] -> keep h < H31 ->
  diff h true (serial h) = Some (serial h, pd_empty).
Proof.
  intros h w R Hw K. unfold diff. rewrite (current_is_empty h w (Reach_Inv _ _ R) Hw K). reflexivity.
Qed.

(* every version in the retained window is answered *)
Theorem C13_window_served : forall h w c g, Reach h w -> keep h < H31 -> In (c, g) w ->
  diff h true c <> None.
Proof.
  intros h w c g R K HIn. unfold diff.
  pose proof (window_served h w c g (Reach_Inv _ _ R) K HIn) as N.
  destruct (delta_since h c); [discriminate|congruence].
Qed.

(* the window has one more version than there are retained change sets *)
Theorem C13_window_size : forall h w, Reach h w -> length (deltas h) = pred (length w).
Proof. intros h w R. exact (length_dsteps_deltas h w (Reach_Inv _ _ R)). Qed.

(* anything else is refused: serials outside the window (future, 2^31 away, too old, never issued)
   and every serial of a foreign session *)
Theorem C13_unknown_refused : forall h w c, Reach h w -> w <> [] -> keep h < H31 -> c < M32 ->
  (forall g, ~ In (c, g) w) -> diff h true c = None.
Proof.
  intros h w c R Hw K Hc Hn. unfold diff. rewrite (unknown_refused h w c (Reach_Inv _ _ R) Hw K Hc Hn). reflexivity.
Qed.
Theorem C13_foreign_session_refused : forall h c, diff h false c = None.
Proof. reflexivity. Qed.

(* the abstract answer function *)
Theorem C13_delta_since_spec : forall h w c, Reach h w -> w <> [] -> keep h < H31 -> c < M32 ->
  delta_since h c = win_answer w c.
Proof.
  intros h w c R Hw K Hc. apply delta_since_spec; try assumption; [apply Reach_Inv; exact R|].
  apply (win_len_bound h w (Reach_Inv _ _ R) K).
Qed.

(* The executable oracle evaluated on the implementation (C13.Spec.spec_okb: stated over the abstract
   history = list of ALL issued versions, it never looks at retained change sets) holds of the model's
   observations for every start state, every sequence of data sets and every list of queries, as long as
   fewer than 2^32 versions were issued (serials then do not recur) and history-size < 2^31. *)
Theorem C13_model_satisfies_spec : forall c, inputs_ok c = true -> c_keep c < H31 ->
  N.of_nat (length (final_issued c)) <= M32 -> spec_okb (model_case c) = true.
Proof. exact model_satisfies_spec. Qed.

(* non-vacuity: a wrapped-around history with two retained change sets *)
Example C13_nonvacuous :
  let a := {| origins := [(1, tt)]; rkeys := []; aspas := [] |} in
  let b := {| origins := [(1, tt); (2, tt)]; rkeys := []; aspas := [] |} in
  let c := {| origins := [(2, tt)]; rkeys := []; aspas := [] |} in
  let h := fst (update (init_at 5 4294967295 a b) c) in
  serial h = 1 /\ option_map (fun x => pactions (snd x)) (diff h true 4294967295) = Some [(0, 1, [], true); (0, 2, [], false)]
  /\ diff h true 4294967294 = None /\ diff h true 2147483649 = None /\ diff h true 2 = None.
Proof. repeat split. Qed.

Check C13_exact_or_refused : forall h w own c tag d,
  Reach h w -> w <> [] -> keep h < H31 -> c < M32 ->
  diff h own c = Some (tag, d) ->
  own = true /\ tag = serial h /\
  exists g cur, In (c, g) w /\ current h = Some cur /\ papply g d = cur.
Check C13_unknown_refused : forall h w c, Reach h w -> w <> [] -> keep h < H31 -> c < M32 ->
  (forall g, ~ In (c, g) w) -> diff h true c = None.
Check C13_window_served : forall h w c g, Reach h w -> keep h < H31 -> In (c, g) w ->
  diff h true c <> None.
Check C13_model_satisfies_spec : forall c, inputs_ok c = true -> c_keep c < H31 ->
  N.of_nat (length (final_issued c)) <= M32 -> spec_okb (model_case c) = true.
