(* C13/C14: executable oracle over an abstract history (the list of all versions ever
   issued, newest first) and the case checker. The oracle does not look at retained
   change sets at all: it states what a client may observe. *)
From Coq Require Import List NArith Bool.
From RV Require Export Base.KMap Base.Serial32 C11.Model C11.Spec C13.Model.
Import ListNotations.
Local Open Scope N_scope.

Definition issued := list (N * snapshot).

Definition spec_update (iss : issued) (s : snapshot) : issued :=
  match iss with
  | [] => [(0, s)]
  | (n, g) :: _ => if snap_eqb g s then iss else (sadd n 1, s) :: iss
  end.

Definition spec_serial (iss : issued) : N := match iss with (n, _) :: _ => n | [] => 0 end.

Fixpoint find_issued (c : N) (iss : issued) : option snapshot :=
  match iss with [] => None | (n, g) :: t => if n =? c then Some g else find_issued c t end.

(* one client answer: None = refused (cache reset); Some (tag, origin actions) *)
Definition answer := option (N * list (N * unit * bool)).

(* C13 on one query against the abstract history *)
Definition query_ok (k : N) (iss : issued) (own : bool) (c : N) (a : answer) : bool :=
  match a with
  | Some (tag, acts) =>
      own && (tag =? spec_serial iss)
      && match find_issued c iss, iss with
         | Some g, (_, cur) :: _ =>
             kl_eqb unit_eqb (wapply (origins g) acts) (origins cur)
             && (if c =? spec_serial iss then match acts with [] => true | _ => false end else true)
         | _, _ => false                      (* never issued: must have been refused *)
         end
  | None =>
      (* refusal is wrong for any of the last max(history-size,1) issued serials of our own session *)
      negb own ||
      negb (existsb (fun e => fst e =? c)
              (firstn (N.to_nat (N.min (N.max k 1) (N.of_nat (length iss)))) iss))
  end.

(* the ASPA part of a change set, judged like the route origin part: applied to the ASPAs issued under the
   presented serial it yields exactly the current ASPAs (whether the query had to be answered at all is
   query_ok's business) *)
Definition aspa_answer := option (list (N * list N * bool)).
Definition aspa_query_ok (iss : issued) (c : N) (a : aspa_answer) : bool :=
  match a with
  | Some acts => match find_issued c iss, iss with
                 | Some g, (_, cur) :: _ => kl_eqb nlist_eqb (wapply (aspas g) acts) (aspas cur)
                 | _, _ => true
                 end
  | None => true
  end.

Record case := {
  c_keep : N;
  c_init : option (N * snapshot * snapshot);
  c_updates : list snapshot;
  i_updates : list (bool * N * N);            (* changed flag, serial after, retained change sets *)
  i_ready0 : bool; i_ready : bool;
  i_serial : N;
  i_full : snapshot;
  i_answers : list (bool * N * answer);
  i_aspa_answers : list (bool * N * aspa_answer) }.    (* the ASPA actions of the same answers *)

Definition start_issued (c : case) : issued :=
  match c_init c with Some (s0, a, b) => [(sadd s0 1, b); (s0, a)] | None => [] end.

(* C14 along the updates: changed flag, serial steps by exactly one per change, bound on retained change sets *)
Fixpoint updates_ok (k : N) (iss : issued) (us : list snapshot) (obs : list (bool * N * N)) : bool :=
  match us, obs with
  | [], [] => true
  | u :: us', (chg, ser, nd) :: obs' =>
      let iss' := spec_update iss u in
      Bool.eqb chg (match iss with [] => true | (_, g) :: _ => negb (snap_eqb g u) end)
      && (ser =? spec_serial iss') && (nd <=? N.max k 1)
      && (match iss with [] => ser =? 0 | (n, g) :: _ => if snap_eqb g u then ser =? n else ser =? sadd n 1 end)
      && updates_ok k iss' us' obs'
  | _, _ => false
  end.

Definition final_issued (c : case) : issued := fold_left spec_update (c_updates c) (start_issued c).

Definition spec_okb (c : case) : bool :=
  let iss := final_issued c in
  updates_ok (c_keep c) (start_issued c) (c_updates c) (i_updates c)
  && negb (i_ready0 c)
  && Bool.eqb (i_ready c) (match iss with [] => false | _ => true end)
  && (i_serial c =? spec_serial iss)
  && match iss with [] => true | (_, cur) :: _ => snap_eqb (i_full c) cur end
  (* before the first data set the server answers no query at all (ready() is false), so queries are judged only on an active history *)
  && match iss with
     | [] => true
     | _ => forallb (fun q => let '(own, s, a) := q in query_ok (c_keep c) iss own s a) (i_answers c)
            && forallb (fun q => let '(_, s, a) := q in aspa_query_ok iss s a) (i_aspa_answers c)
     end.

(* ---- the model on the same inputs ---- *)
Definition model_start (c : case) : hist :=
  match c_init c with Some (s0, a, b) => init_at (c_keep c) s0 a b | None => init (c_keep c) end.

Fixpoint model_updates (h : hist) (us : list snapshot) : hist * list (bool * N * N) :=
  match us with
  | [] => (h, [])
  | u :: us' =>
      let '(h', chg) := update h u in
      let '(hf, obs) := model_updates h' us' in
      (hf, (chg, serial h', N.of_nat (length (deltas h'))) :: obs)
  end.

Definition model_answer (h : hist) (own : bool) (c : N) : answer :=
  match diff h own c with
  | Some (tag, d) => Some (tag, wire_of (d_origins d))
  | None => None
  end.

Definition model_aspa_answer (h : hist) (own : bool) (c : N) : aspa_answer :=
  match diff h own c with
  | Some (_, d) => Some (wire_of (d_aspas d))
  | None => None
  end.

Definition aans_eqb (a b : aspa_answer) : bool :=
  match a, b with
  | None, None => true
  | Some x, Some y => wl_eqb nlist_eqb x y
  | _, _ => false
  end.

Definition ans_eqb (a b : answer) : bool :=
  match a, b with
  | None, None => true
  | Some (t, x), Some (t', y) => (t =? t') && wl_eqb unit_eqb x y
  | _, _ => false
  end.

Fixpoint upd_eqb (a b : list (bool * N * N)) : bool :=
  match a, b with
  | [], [] => true
  | (c, s, n) :: a', (c', s', n') :: b' => Bool.eqb c c' && (s =? s') && (n =? n') && upd_eqb a' b'
  | _, _ => false
  end.

Definition model_agrees (c : case) : bool :=
  let '(h, obs) := model_updates (model_start c) (c_updates c) in
  upd_eqb obs (i_updates c)
  && Bool.eqb (is_active h) (i_ready c) && (serial h =? i_serial c)
  && match current h with Some g => snap_eqb g (i_full c) | None => true end
  && forallb (fun q => let '(own, s, a) := q in ans_eqb (model_answer h own s) a) (i_answers c)
  && forallb (fun q => let '(own, s, a) := q in aans_eqb (model_aspa_answer h own s) a) (i_aspa_answers c).

Definition inputs_ok (c : case) : bool :=
  forallb snap_sortedb (c_updates c)
  && match c_init c with
     | Some (s0, a, b) => snap_sortedb a && snap_sortedb b && negb (snap_eqb a b) && (s0 <? M32)
     | None => true
     end
  && forallb (fun q => let '(_, s, _) := q in s <? M32) (i_answers c)
  && forallb (fun q => let '(_, s, _) := q in s <? M32) (i_aspa_answers c).

Definition check_case (c : case) : N :=
  if negb (inputs_ok c) then 9
  else if negb (spec_okb c) then 2
  else if model_agrees c then 0 else 1.
