(* C13/C14: the model's observations satisfy the executable oracle (which is stated over the abstract
   history = list of all issued versions) for every sequence of updates and every query. *)
From Coq Require Import List NArith Bool Lia PeanoNat.
From RV Require Import Base.KMap Base.Serial32 C11.Model C11.Proofs C11.Spec C11.SpecProofs C12.Spec C12.Proofs
  C13.Model C13.Proofs C13.Spec.
Import ListNotations.
Local Open Scope N_scope.

(* well-formed abstract history, newest first *)
Fixpoint iss_wf (iss : issued) : Prop :=
  match iss with
  | [] => True
  | (n, g) :: t =>
      snap_sorted g /\ n < M32 /\
      match t with [] => True | (m, g') :: _ => n = sadd m 1 /\ g' <> g end /\ iss_wf t
  end.

Lemma wf_win_rev_firstn iss k : iss_wf iss -> wf_win (rev (firstn k iss)).
Proof.
  revert k; induction iss as [|[n g] t IH]; intros k W; [destruct k; exact Logic.I|].
  destruct k as [|k]; [exact Logic.I|]. cbn [firstn rev]. cbn [iss_wf] in W. destruct W as (S & L & C & W').
  pose proof (IH k W') as IHk.
  destruct t as [|[m g'] t'].
  - destruct k; cbn [firstn rev app wf_win]; (split; [exact S|]; split; [exact L|]; split; exact Logic.I).
  - destruct k as [|k].
    + cbn [firstn rev app wf_win]. split; [exact S|]. split; [exact L|]. split; exact Logic.I.
    + cbn [firstn rev] in *. destruct C as [C1 C2]. apply wf_win_app; auto.
Qed.

Lemma wlast_rev_firstn x iss k : wlast (rev (firstn (S k) (x :: iss))) = Some x.
Proof. cbn [firstn rev]. apply wlast_app. Qed.

Lemma firstn_S_snoc {A} (l : list A) n d : (n < length l)%nat -> firstn (S n) l = firstn n l ++ [nth n l d].
Proof.
  revert n; induction l as [|x l IH]; intros n H; [cbn in H; lia|].
  destruct n as [|n]; [reflexivity|]. cbn [firstn nth app]. rewrite <- IH by (cbn in H; lia). reflexivity.
Qed.

(* the relation between the model state and the abstract history *)
Record Rel (h : hist) (iss : issued) : Prop := {
  rel_wf : iss_wf iss;
  rel_inv : Inv h (rev (firstn (S (length (deltas h))) iss));
  rel_lt : iss = [] \/ (length (deltas h) < length iss)%nat;
  rel_cnt : N.of_nat (length (deltas h)) = N.min (N.of_nat (pred (length iss))) (N.max (keep h) 1) }.

Lemma Rel_init k : Rel (init k) [].
Proof.
  constructor; cbn; try exact Logic.I; try lia; [apply init_inv | left; reflexivity].
Qed.

Lemma Rel_head h n g t : Rel h ((n, g) :: t) -> serial h = n /\ current h = Some g.
Proof.
  intros R. pose proof (rel_inv _ _ R) as HI.
  pose proof (wlast_rev_firstn (n, g) t (length (deltas h))) as L.
  split; [apply (serial_wlast _ _ _ _ HI L)|]. rewrite (inv_cur _ _ HI), L. reflexivity.
Qed.

Lemma Rel_nil h : Rel h [] -> current h = None /\ deltas h = [].
Proof.
  intros R. pose proof (rel_inv _ _ R) as HI. cbn in HI. split.
  - rewrite (inv_cur _ _ HI). reflexivity.
  - pose proof (inv_deltas _ _ HI) as D. cbn in D. destruct (deltas h) as [|x l]; [reflexivity|].
    cbn in D. destruct (rev l); discriminate.
Qed.

Lemma spec_update_wf iss s : iss_wf iss -> snap_sorted s -> iss_wf (spec_update iss s).
Proof.
  intros W S. destruct iss as [|[n g] t]; cbn [spec_update].
  - cbn [iss_wf]. split; [exact S|]. split; [reflexivity|]. split; exact Logic.I.
  - destruct (snap_eqb_spec g s) as [E|NE]; [exact W|].
    cbn [iss_wf]. split; [exact S|]. split; [apply sadd_lt|].
    split; [split; [reflexivity|exact NE]|]. exact W.
Qed.

Lemma Rel_update h iss s : Rel h iss -> snap_sorted s -> Rel (fst (update h s)) (spec_update iss s).
Proof.
  intros R Ss. pose proof (rel_inv _ _ R) as HI. pose proof (update_inv _ _ s HI Ss) as HI'.
  destruct iss as [|[n g] t].
  - destruct (Rel_nil _ R) as [C D]. unfold update in *. rewrite C in *. cbn [fst] in *.
    unfold upd_win in HI'. rewrite D in HI'. cbn [length firstn rev wlast] in HI'.
    constructor.
    + apply (spec_update_wf [] s); [exact Logic.I|exact Ss].
    + cbn [deltas keep spec_update]. rewrite D. cbn. exact HI'.
    + right. cbn [deltas keep spec_update]. rewrite D. cbn. lia.
    + cbn [deltas keep spec_update]. rewrite D. cbn. lia.
  - destruct (Rel_head _ _ _ _ R) as [Es Ec].
    pose proof (rel_wf _ _ R) as W. cbn [iss_wf] in W. destruct W as (Sg & Ln & Cn & W').
    cbn [spec_update]. unfold update in *. rewrite Ec in *.
    destruct (snap_eqb_spec g s) as [E|NE].
    + subst s. rewrite (proj2 (pconstruct_none_iff g g Sg Sg) eq_refl) in *. cbn [fst] in *.
      constructor; cbn [deltas keep]; try apply R.
      unfold upd_win in HI'. rewrite (wlast_rev_firstn (n, g) t) in HI'.
      rewrite (proj2 (pconstruct_none_iff g g Sg Sg) eq_refl) in HI'. exact HI'.
    + destruct (pconstruct g s) as [d|] eqn:P.
      2:{ exfalso. apply NE. apply (pconstruct_none_iff g s Sg Ss). exact P. }
      cbn [fst] in *. set (nd := length (deltas h)) in *.
      pose proof (rel_cnt _ _ R) as Cnt. pose proof (rel_lt _ _ R) as [Bad|Lt]; [discriminate|].
      fold nd in Cnt, Lt. cbn [length pred] in Cnt, Lt.
      unfold upd_win in HI'. rewrite (wlast_rev_firstn (n, g) t) in HI'. rewrite P in HI'. fold nd in HI'.
      assert (length (push_delta h (sadd (serial h) 1, d)) =
              if N.max (keep h) 1 <=? N.of_nat nd then nd else S nd) as Len.
      { unfold push_delta. fold nd. destruct (N.max (keep h) 1 <=? N.of_nat nd) eqn:Q; cbn [length]; [|reflexivity].
        apply N.leb_le in Q. destruct (deltas h) as [|x l] eqn:D; [cbn in nd; lia|].
        assert (length (removelast (x :: l)) = length l) as ->; [|reflexivity].
        clear. revert x; induction l as [|y l IH]; intros x; [reflexivity|].
        change (removelast (x :: y :: l)) with (x :: removelast (y :: l)). cbn [length]. rewrite IH. reflexivity. }
      constructor; cbn [deltas keep].
      * apply (spec_update_wf ((n, g) :: t) s (rel_wf _ _ R) Ss) || idtac.
        cbn [iss_wf]. split; [exact Ss|]. split; [apply sadd_lt|]. split; [split; [reflexivity|exact NE]|].
        exact (rel_wf _ _ R).
      * rewrite Len. rewrite Es in HI'. rewrite Es.
        destruct (N.max (keep h) 1 <=? N.of_nat nd) eqn:Q.
        -- (* one dropped: tl *)
           cbn [firstn rev]. rewrite (firstn_S_snoc ((n, g) :: t) nd (n, g)) in HI' by (cbn [length]; lia).
           rewrite rev_app_distr in HI'. cbn [rev app tl] in HI'. exact HI'.
        -- cbn [firstn rev]. exact HI'.
      * right. rewrite Len. cbn [length]. destruct (N.max (keep h) 1 <=? N.of_nat nd); lia.
      * rewrite Len. cbn [length pred].
        destruct (N.max (keep h) 1 <=? N.of_nat nd) eqn:Q; [apply N.leb_le in Q|apply N.leb_gt in Q]; lia.
Qed.

(* ---- queries ---- *)
Lemma In_firstn_le {A} (x : A) l m n : (m <= n)%nat -> In x (firstn m l) -> In x (firstn n l).
Proof.
  revert m n; induction l as [|y l IH]; intros m n H I; [destruct m; destruct I|].
  destruct m as [|m]; [destruct I|]. destruct n as [|n]; [lia|]. cbn [firstn] in *.
  destruct I as [E|I]; [left; exact E|right]. apply (IH m n); [lia|exact I].
Qed.

Lemma In_firstn {A} (x : A) l n : In x (firstn n l) -> In x l.
Proof.
  revert n; induction l as [|y l IH]; intros n I; [destruct n; destruct I|].
  destruct n as [|n]; [destruct I|]. cbn [firstn] in I. destruct I as [E|I]; [left; exact E|right; apply (IH n I)].
Qed.

Lemma iss_serial_back n g0 t c g : iss_wf ((n, g0) :: t) -> In (c, g) t ->
  exists j, 1 <= j /\ j <= N.of_nat (length t) /\ n = sadd c j /\ c < M32.
Proof.
  revert n g0; induction t as [|[m g1] t IH]; intros n g0 W I; [destruct I|].
  cbn [iss_wf] in W. destruct W as (_ & _ & (E & _) & W').
  destruct I as [Eq|I].
  - inversion Eq; subst. exists 1. cbn [length]. cbn [iss_wf] in W'. destruct W' as (_ & Lc & _).
    split; [lia|]. split; [lia|]. split; [reflexivity|exact Lc].
  - destruct (IH m g1 W' I) as (j & J1 & J2 & J3 & J4). exists (j + 1). cbn [length].
    split; [lia|]. split; [lia|]. split; [|exact J4]. rewrite E, J3, sadd_sadd. reflexivity.
Qed.

Lemma find_issued_In iss c g : iss_wf iss -> N.of_nat (length iss) <= M32 -> In (c, g) iss ->
  find_issued c iss = Some g.
Proof.
  induction iss as [|[n g0] t IH]; intros W L I; [destruct I|].
  cbn [find_issued]. destruct I as [E|I].
  - inversion E; subst. rewrite N.eqb_refl. reflexivity.
  - destruct (N.eqb_spec n c) as [->|NE].
    + exfalso. destruct (iss_serial_back _ _ _ _ _ W I) as (j & J1 & J2 & J3 & J4).
      rewrite <- (sadd_0 c J4) in J3 at 1. apply sadd_inj in J3; [lia| unfold M32; lia |].
      cbn [length] in L. unfold M32 in *. lia.
    + apply IH; [cbn [iss_wf] in W; tauto | cbn [length] in L; lia | exact I].
Qed.

Lemma keys_existsb_false (l : issued) c :
  (forall g, ~ In (c, g) l) -> existsb (fun e => fst e =? c) l = false.
Proof.
  induction l as [|[n g] t IH]; intros H; [reflexivity|]. cbn [existsb fst].
  destruct (N.eqb_spec n c) as [->|NE]; [exfalso; apply (H g); left; reflexivity|].
  cbn [orb]. apply IH. intros g' I. apply (H g'). right. exact I.
Qed.

Lemma query_ok_model h iss own c : Rel h iss -> iss <> [] -> keep h < H31 ->
  N.of_nat (length iss) <= M32 -> c < M32 ->
  query_ok (keep h) iss own c (model_answer h own c) = true.
Proof.
  intros R NE K L Hc. pose proof (rel_inv _ _ R) as HI. set (w := rev (firstn (S (length (deltas h))) iss)) in *.
  destruct iss as [|[n cur] t]; [congruence|]. destruct (Rel_head _ _ _ _ R) as [Es Ec].
  assert (w <> []) as Hw. { unfold w. cbn [firstn rev]. destruct (rev (firstn (length (deltas h)) t)); discriminate. }
  unfold model_answer, diff. destruct own; [|reflexivity].
  destruct (delta_since h c) as [d|] eqn:DS.
  - (* answered *)
    destruct (exact_or_refused h w c d HI Hw K Hc DS) as (g & cur' & HIn & Ecur & Pa).
    rewrite Ec in Ecur. assert (cur' = cur) as Ecc by congruence. rewrite Ecc in Pa. clear Ecur Ecc cur'.
    assert (In (c, g) ((n, cur) :: t)) as I2. { unfold w in HIn. apply in_rev in HIn. apply (In_firstn _ _ _ HIn). }
    unfold query_ok. cbn [andb spec_serial]. rewrite Es, N.eqb_refl. cbn [andb].
    rewrite (find_issued_In _ c g (rel_wf _ _ R) L I2).
    rewrite wapply_wire. apply (f_equal origins) in Pa. cbn [papply origins] in Pa. rewrite Pa.
    destruct (kl_eqb_spec unit_eqb unit_eqb_spec (origins cur) (origins cur)); [|congruence]. cbn [andb].
    destruct (N.eqb_spec c n) as [->|_]; [|reflexivity].
    rewrite <- Es in DS. rewrite (current_is_empty h w HI Hw K) in DS. inversion DS; subst. reflexivity.
  - (* refused: c is none of the last max(history-size, 1) issued serials *)
    unfold query_ok. cbn [negb orb]. apply negb_true_iff. apply keys_existsb_false. intros g I.
    apply (window_served h w c g HI K); [|exact DS]. unfold w. apply in_rev. rewrite rev_involutive.
    refine (In_firstn_le _ _ _ _ _ I).
    pose proof (rel_cnt _ _ R) as Cnt. cbn [length pred] in Cnt. cbn [length]. lia.
Qed.

Lemma aspa_query_ok_model h iss own c : Rel h iss -> iss <> [] -> keep h < H31 ->
  N.of_nat (length iss) <= M32 -> c < M32 ->
  aspa_query_ok iss c (model_aspa_answer h own c) = true.
Proof.
  intros R NE K L Hc. pose proof (rel_inv _ _ R) as HI. set (w := rev (firstn (S (length (deltas h))) iss)) in *.
  destruct iss as [|[n cur] t]; [congruence|]. destruct (Rel_head _ _ _ _ R) as [Es Ec].
  assert (w <> []) as Hw. { unfold w. cbn [firstn rev]. destruct (rev (firstn (length (deltas h)) t)); discriminate. }
  unfold model_aspa_answer, diff. destruct own; [|reflexivity].
  destruct (delta_since h c) as [d|] eqn:DS; [|reflexivity].
  destruct (exact_or_refused h w c d HI Hw K Hc DS) as (g & cur' & HIn & Ecur & Pa).
  rewrite Ec in Ecur. assert (cur' = cur) as Ecc by congruence. rewrite Ecc in Pa. clear Ecur Ecc cur'.
  assert (In (c, g) ((n, cur) :: t)) as I2. { unfold w in HIn. apply in_rev in HIn. apply (In_firstn _ _ _ HIn). }
  unfold aspa_query_ok. rewrite (find_issued_In _ c g (rel_wf _ _ R) L I2).
  rewrite wapply_wire. apply (f_equal aspas) in Pa. cbn [papply aspas] in Pa. rewrite Pa.
  destruct (kl_eqb_spec nlist_eqb nlist_eqb_spec (aspas cur) (aspas cur)); [reflexivity|congruence].
Qed.

(* ---- updates (C14 part of the oracle) ---- *)
Lemma updates_ok_model k h iss us : Rel h iss -> keep h = k -> Forall snap_sorted us ->
  updates_ok k iss us (snd (model_updates h us)) = true /\
  Rel (fst (model_updates h us)) (fold_left spec_update us iss) /\ keep (fst (model_updates h us)) = k.
Proof.
  revert h iss; induction us as [|u us IH]; intros h iss R K F; [cbn; auto|].
  inversion F as [|? ? Su F']; subst. cbn [model_updates fold_left].
  pose proof (Rel_update h iss u R Su) as R'.
  destruct (update h u) as [h' chg] eqn:U. cbn [fst] in R'.
  assert (keep h' = keep h) as K' by (pose proof (update_keep h u) as Q; rewrite U in Q; exact Q).
  destruct (IH h' (spec_update iss u) R' K' F') as (O & RF & KF).
  destruct (model_updates h' us) as [hf obs] eqn:M. cbn [fst snd] in *.
  split; [|split; assumption].
  cbn [updates_ok]. rewrite O, andb_true_r.
  assert (spec_update iss u <> []) as NE.
  { destruct iss as [|[n g] t]; cbn [spec_update]; [discriminate|]. destruct (snap_eqb g u); discriminate. }
  destruct (spec_update iss u) as [|[n' g'] t'] eqn:SU; [congruence|].
  destruct (Rel_head _ _ _ _ R') as [Es' Ec'].
  pose proof (inv_len _ _ (rel_inv _ _ R')) as Len. rewrite K' in Len.
  apply andb_true_iff; split; [apply andb_true_iff; split; [apply andb_true_iff; split|]|].
  - (* changed flag *)
    assert (chg = snd (update h u)) as -> by (rewrite U; reflexivity).
    destruct iss as [|[n g] t].
    + destruct (Rel_nil _ R) as [C _]. unfold update. rewrite C. reflexivity.
    + destruct (Rel_head _ _ _ _ R) as [_ Ec]. unfold update. rewrite Ec.
      pose proof (rel_wf _ _ R) as W. cbn [iss_wf] in W. destruct W as (Sg & _).
      destruct (snap_eqb_spec g u) as [E|NEq].
      * subst u. rewrite (proj2 (pconstruct_none_iff g g Sg Sg) eq_refl). reflexivity.
      * destruct (pconstruct g u) eqn:P; [reflexivity|]. exfalso. apply NEq. apply (pconstruct_none_iff g u Sg Su). exact P.
  - cbn [spec_serial]. rewrite Es'. apply N.eqb_refl.
  - apply N.leb_le. exact Len.
  - rewrite Es'. destruct iss as [|[n g] t]; cbn [spec_update] in SU.
    + inversion SU; subst. reflexivity.
    + destruct (snap_eqb g u); inversion SU; subst; apply N.eqb_refl.
Qed.

(* ---- the whole oracle ---- *)
Definition model_case (c : case) : case :=
  let '(h, obs) := model_updates (model_start c) (c_updates c) in
  {| c_keep := c_keep c; c_init := c_init c; c_updates := c_updates c;
     i_updates := obs; i_ready0 := false; i_ready := is_active h; i_serial := serial h;
     i_full := match current h with Some g => g | None => {| origins := []; rkeys := []; aspas := [] |} end;
     i_answers := map (fun q => let '(own, s, _) := q in (own, s, model_answer h own s)) (i_answers c);
     i_aspa_answers := map (fun q => let '(own, s, _) := q in (own, s, model_aspa_answer h own s)) (i_aspa_answers c) |}.

Lemma Rel_start c : inputs_ok c = true -> Rel (model_start c) (start_issued c) /\ keep (model_start c) = c_keep c.
Proof.
  unfold inputs_ok, model_start, start_issued. intros H. apply andb_true_iff in H as [H _]. apply andb_true_iff in H as [H _]. apply andb_true_iff in H as [_ H].
  destruct (c_init c) as [[[s0 a] b]|]; [|split; [apply Rel_init|reflexivity]].
  apply andb_true_iff in H as [H L]. apply andb_true_iff in H as [H D]. apply andb_true_iff in H as [Sa Sb].
  apply snap_sortedb_spec in Sa, Sb. apply N.ltb_lt in L. apply negb_true_iff in D.
  assert (a <> b) as Dab. { intros E. destruct (snap_eqb_spec a b); congruence. }
  pose proof (init_at_inv (c_keep c) s0 a b Sa Sb Dab L) as HI.
  unfold init_at in *. destruct (pconstruct a b) as [d|] eqn:P.
  2:{ exfalso. apply Dab. apply (pconstruct_none_iff a b Sa Sb). exact P. }
  split; [|reflexivity].
  assert (length (push_delta (init (c_keep c)) (sadd s0 1, d)) = 1%nat) as Len.
  { unfold push_delta, init. cbn [deltas keep length]. destruct (N.max (c_keep c) 1 <=? N.of_nat 0) eqn:Q; [apply N.leb_le in Q; lia|reflexivity]. }
  constructor; cbn [deltas keep].
  - cbn [iss_wf]. split; [exact Sb|]. split; [apply sadd_lt|]. split; [split; [reflexivity|exact Dab]|].
    split; [exact Sa|]. split; [exact L|]. split; exact Logic.I.
  - rewrite Len. cbn [firstn rev app]. exact HI.
  - right. rewrite Len. cbn. lia.
  - rewrite Len. cbn [length pred]. lia.
Qed.

Lemma fold_spec_update_nonempty us iss : iss <> [] -> fold_left spec_update us iss <> [].
Proof.
  revert iss; induction us as [|u us IH]; intros iss NE; [exact NE|]. cbn [fold_left]. apply IH.
  destruct iss as [|[n g] t]; [congruence|]. cbn [spec_update]. destruct (snap_eqb g u); discriminate.
Qed.

Theorem model_satisfies_spec c : inputs_ok c = true -> c_keep c < H31 ->
  N.of_nat (length (final_issued c)) <= M32 ->
  spec_okb (model_case c) = true.
Proof.
  intros IO K L. destruct (Rel_start c IO) as [R0 K0].
  assert (Forall snap_sorted (c_updates c)) as F.
  { unfold inputs_ok in IO. apply andb_true_iff in IO as [IO _]. apply andb_true_iff in IO as [IO _]. apply andb_true_iff in IO as [IO _].
    apply Forall_forall. intros x Hx. apply snap_sortedb_spec. exact (proj1 (forallb_forall _ _) IO x Hx). }
  destruct (updates_ok_model (c_keep c) _ _ (c_updates c) R0 K0 F) as (O & RF & KF).
  unfold model_case. destruct (model_updates (model_start c) (c_updates c)) as [h obs] eqn:M. cbn [fst snd] in *.
  unfold spec_okb, final_issued, start_issued in *.
  cbn [c_keep c_init c_updates i_updates i_ready0 i_ready i_serial i_full i_answers i_aspa_answers] in *.
  rewrite O. cbn [negb andb].
  remember (fold_left spec_update (c_updates c)
              match c_init c with Some (s0, a, b) => [(sadd s0 1, b); (s0, a)] | None => [] end) as iss eqn:EI.
  destruct iss as [|[n cur] t].
  - destruct (Rel_nil _ RF) as [C D]. unfold is_active, serial. rewrite C, D. reflexivity.
  - destruct (Rel_head _ _ _ _ RF) as [Es Ec]. unfold is_active. rewrite Ec, Es. cbn [Bool.eqb spec_serial andb].
    rewrite N.eqb_refl. destruct (snap_eqb_spec cur cur); [|congruence]. cbn [andb].
    unfold inputs_ok in IO. apply andb_true_iff in IO as [IO IOa]. apply andb_true_iff in IO as [_ IO].
    apply andb_true_iff; split.
    + apply forallb_forall. intros [[own s] a] Hq. apply in_map_iff in Hq as [[[own' s'] a'] [E Hq]].
      inversion E; subst. clear E.
      assert (s < M32) as Ls.
      { pose proof (proj1 (forallb_forall _ _) IO _ Hq) as Q. cbn in Q. apply N.ltb_lt. exact Q. }
      rewrite <- KF. apply query_ok_model; [exact RF|discriminate|rewrite KF; exact K|exact L|exact Ls].
    + apply forallb_forall. intros [[own s] a] Hq. apply in_map_iff in Hq as [[[own' s'] a'] [E Hq]].
      inversion E; subst. clear E.
      assert (s < M32) as Ls.
      { pose proof (proj1 (forallb_forall _ _) IOa _ Hq) as Q. cbn in Q. apply N.ltb_lt. exact Q. }
      apply (aspa_query_ok_model h _ own s RF ltac:(discriminate) ltac:(rewrite KF; exact K) L Ls).
Qed.
