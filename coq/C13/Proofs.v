(* Proofs about the history model: the retained change sets always describe a window of
   consecutively issued versions, and delta_since answers exactly the serials of that window. *)
From Coq Require Import List NArith Bool Lia PeanoNat.
From RV Require Import Base.KMap Base.Serial32 C11.Model C11.Proofs C12.Spec C12.Proofs C13.Model.
Import ListNotations.
Local Open Scope N_scope.

(* ---- the ghost window: the last n+1 issued (serial, data set) pairs, oldest first ---- *)
Definition win := list (N * snapshot).

Fixpoint dsteps (w : win) : list (N * pdelta) :=
  match w with
  | (s0, g0) :: t =>
      match t with
      | (s1, g1) :: _ => (s1, pconstruct_raw g0 g1) :: dsteps t
      | [] => []
      end
  | [] => []
  end.

Fixpoint wf_win (w : win) : Prop :=
  match w with
  | [] => True
  | (s0, g0) :: t =>
      snap_sorted g0 /\ s0 < M32 /\
      match t with [] => True | (s1, g1) :: _ => s1 = sadd s0 1 /\ g0 <> g1 end /\ wf_win t
  end.

Definition wlast (w : win) : option (N * snapshot) :=
  match w with [] => None | x :: t => Some (last t x) end.

Record Inv (h : hist) (w : win) : Prop := {
  inv_deltas : rev (deltas h) = dsteps w;
  inv_wf : wf_win w;
  inv_cur : current h = option_map snd (wlast w);
  inv_zero : deltas h = [] -> forall s g, wlast w = Some (s, g) -> s = 0;
  inv_len : N.of_nat (length (deltas h)) <= N.max (keep h) 1 }.

Lemma dsteps_length w : length (dsteps w) = pred (length w).
Proof.
  induction w as [|[s0 g0] t IH]; [reflexivity|]. destruct t as [|[s1 g1] t']; [reflexivity|].
  cbn [dsteps length pred] in *. rewrite IH. reflexivity.
Qed.

Lemma dsteps_app w s0 g0 s1 g1 :
  dsteps ((w ++ [(s0, g0)]) ++ [(s1, g1)]) = dsteps (w ++ [(s0, g0)]) ++ [(s1, pconstruct_raw g0 g1)].
Proof.
  induction w as [|[a ga] t IH]; [reflexivity|].
  cbn [app]. destruct t as [|[b gb] t'].
  - reflexivity.
  - cbn [app dsteps] in *. rewrite IH. reflexivity.
Qed.

Lemma dsteps_tl w : dsteps (tl w) = tl (dsteps w).
Proof.
  destruct w as [|[s0 g0] t]; [reflexivity|]. destruct t as [|[s1 g1] t']; reflexivity.
Qed.

Lemma wf_win_tl w : wf_win w -> wf_win (tl w).
Proof. destruct w as [|[s0 g0] t]; [tauto|]. cbn. tauto. Qed.

Lemma wf_win_app w s0 g0 s1 g1 :
  wf_win (w ++ [(s0, g0)]) -> s1 = sadd s0 1 -> g0 <> g1 -> snap_sorted g1 ->
  wf_win ((w ++ [(s0, g0)]) ++ [(s1, g1)]).
Proof.
  intros H E D S. induction w as [|[a ga] t IH].
  - cbn [app wf_win] in *. destruct H as (H1 & H2 & _). split; [exact H1|]. split; [exact H2|].
    split; [split; assumption|]. split; [exact S|]. split; [subst; apply sadd_lt|]. split; exact I.
  - cbn [app] in *. destruct t as [|[b gb] t'].
    + cbn [app wf_win] in *. destruct H as (H1 & H2 & H3 & H4). split; [exact H1|]. split; [exact H2|].
      split; [exact H3|]. apply IH. exact H4.
    + cbn [app wf_win] in *. destruct H as (H1 & H2 & H3 & H4). split; [exact H1|]. split; [exact H2|].
      split; [exact H3|]. apply IH. exact H4.
Qed.

Lemma wlast_app w x : wlast (w ++ [x]) = Some x.
Proof.
  destruct w as [|y t]; [reflexivity|]. cbn [app wlast]. f_equal.
  revert y; induction t as [|z t IH]; intros y; [reflexivity|]. cbn [app]. rewrite !last_cons. apply IH.
Qed.

Lemma wlast_split w x : wlast w = Some x -> exists w', w = w' ++ [x].
Proof.
  destruct w as [|y t]; [discriminate|]. cbn [wlast]. intros E. inversion E; subst. clear E.
  revert y; induction t as [|z t IH]; intros y.
  - exists []. reflexivity.
  - rewrite last_cons. destruct (IH z) as [w' Hw]. exists (y :: w'). cbn [app]. rewrite <- Hw. reflexivity.
Qed.

Lemma rev_removelast {A} (l : list A) : rev (removelast l) = tl (rev l).
Proof.
  destruct (rev l) as [|x r] eqn:E.
  - apply (f_equal (@rev A)) in E. rewrite rev_involutive in E. subst. reflexivity.
  - apply (f_equal (@rev A)) in E. rewrite rev_involutive in E. subst. cbn [rev tl].
    rewrite removelast_last. rewrite rev_involutive. reflexivity.
Qed.

(* the serial of the model is the serial of the newest window entry *)
Lemma serial_wlast h w s g : Inv h w -> wlast w = Some (s, g) -> serial h = s.
Proof.
  intros I E. destruct (deltas h) as [|[s' d'] ds] eqn:D.
  - unfold serial. rewrite D. symmetry. apply (inv_zero _ _ I D s g E).
  - unfold serial. rewrite D. pose proof (inv_deltas _ _ I) as R. rewrite D in R. cbn [rev] in R.
    apply wlast_split in E as [w' ->].
    destruct w' as [|y w'] using rev_ind.
    + cbn in R. destruct (rev ds); discriminate.
    + clear IHw'. destruct y as [s0 g0]. rewrite dsteps_app in R.
      apply app_inj_tail in R as [_ R]. inversion R. reflexivity.
Qed.

(* ---- update preserves the invariant ---- *)
Definition upd_win (h : hist) (w : win) (s : snapshot) : win :=
  match wlast w with
  | None => [(0, s)]
  | Some (sn, gn) =>
      match pconstruct gn s with
      | None => w
      | Some _ =>
          (if N.max (keep h) 1 <=? N.of_nat (length (deltas h)) then tl w else w) ++ [(sadd sn 1, s)]
      end
  end.

Lemma Inv_current h w : Inv h w -> current h = None -> w = [].
Proof.
  intros I E. rewrite (inv_cur _ _ I) in E. destruct w as [|x t]; [reflexivity|discriminate].
Qed.

Lemma wlast_sorted w s g : wf_win w -> wlast w = Some (s, g) -> snap_sorted g /\ s < M32.
Proof.
  intros W E. apply wlast_split in E as [w' ->]. induction w' as [|[a ga] t IH].
  - cbn in W. tauto.
  - apply IH. cbn [app] in W. destruct (t ++ [(s, g)]) eqn:Q; [destruct t; discriminate|].
    cbn [wf_win] in W. tauto.
Qed.

Lemma length_dsteps_deltas h w : Inv h w -> length (deltas h) = pred (length w).
Proof. intros I. rewrite <- dsteps_length, <- (inv_deltas _ _ I), rev_length. reflexivity. Qed.

Lemma update_inv h w s : Inv h w -> snap_sorted s -> Inv (fst (update h s)) (upd_win h w s).
Proof.
  intros I Ss. unfold update, upd_win.
  destruct (current h) as [c|] eqn:C.
  - (* active *)
    pose proof (inv_cur _ _ I) as IC. rewrite C in IC.
    destruct (wlast w) as [[sn gn]|] eqn:L; [|discriminate]. cbn [option_map snd] in IC. inversion IC; subst gn. clear IC.
    pose proof (wlast_sorted _ _ _ (inv_wf _ _ I) L) as [Sc Hsn].
    destruct (pconstruct c s) as [d|] eqn:P; cbn [fst].
    + (* changed *)
      assert (d = pconstruct_raw c s) as ->.
      { unfold pconstruct in P. destruct (pd_is_empty (pconstruct_raw c s)); inversion P; reflexivity. }
      assert (c <> s) as Dcs.
      { intros ->. pose proof (proj2 (pconstruct_none_iff s s Ss Ss) eq_refl). congruence. }
      rewrite (serial_wlast _ _ _ _ I L).
      pose proof (wlast_split _ _ L) as [w' Ew].
      pose proof (length_dsteps_deltas _ _ I) as LEN.
      constructor; cbn [deltas keep current].
      * unfold push_delta. cbn [rev].
        destruct (N.max (keep h) 1 <=? N.of_nat (length (deltas h))) eqn:Q.
        -- rewrite rev_removelast, (inv_deltas _ _ I), <- dsteps_tl.
           (* tl w = w'' ++ [(sn,c)] since w has at least two entries *)
           apply N.leb_le in Q.
           destruct w' as [|x w''].
           ++ subst w. cbn [length pred app] in LEN. rewrite LEN in Q. cbn in Q. lia.
           ++ subst w. cbn [app tl]. rewrite dsteps_app. reflexivity.
        -- rewrite (inv_deltas _ _ I). subst w. rewrite dsteps_app. reflexivity.
      * destruct (N.max (keep h) 1 <=? N.of_nat (length (deltas h))) eqn:Q.
        -- apply N.leb_le in Q. destruct w' as [|x w''].
           ++ subst w. cbn [length pred app] in LEN. rewrite LEN in Q. cbn in Q. lia.
           ++ subst w. cbn [app tl]. apply wf_win_app; try assumption; try reflexivity.
              pose proof (inv_wf _ _ I) as W. cbn [app] in W. apply (wf_win_tl _ W).
        -- subst w. apply wf_win_app; try assumption; try reflexivity. apply (inv_wf _ _ I).
      * rewrite wlast_app. reflexivity.
      * unfold push_delta. discriminate.
      * unfold push_delta. cbn [length].
        destruct (N.max (keep h) 1 <=? N.of_nat (length (deltas h))) eqn:Q.
        -- pose proof (inv_len _ _ I) as B. apply N.leb_le in Q.
           destruct (deltas h) as [|x ds] eqn:D; [cbn in Q; lia|].
           assert (length (removelast (x :: ds)) = length ds) as ->.
           { clear. revert x; induction ds as [|y ds IH]; intros x; [reflexivity|].
             change (removelast (x :: y :: ds)) with (x :: removelast (y :: ds)). cbn [length]. rewrite IH. reflexivity. }
           cbn [length] in B. lia.
        -- apply N.leb_gt in Q. lia.
    + (* unchanged *)
      assert (c = s) as <-. { apply (pconstruct_none_iff c s Sc Ss). exact P. }
      constructor; cbn [deltas keep current]; try apply I.
      rewrite L. reflexivity.
  - (* first data set *)
    pose proof (Inv_current _ _ I C) as ->. cbn [wlast fst].
    pose proof (inv_deltas _ _ I) as R. cbn in R.
    assert (deltas h = []) as D. { destruct (deltas h) as [|x ds]; [reflexivity|]. cbn in R. destruct (rev ds); discriminate. }
    constructor; cbn [deltas keep current].
    + rewrite D. reflexivity.
    + cbn [wf_win]. split; [exact Ss|]. split; [reflexivity|]. split; exact Logic.I.
    + reflexivity.
    + intros _ s0 g0 E. cbn in E. inversion E. reflexivity.
    + rewrite D. cbn. lia.
Qed.

Lemma init_inv k : Inv (init k) [].
Proof. constructor; cbn; try reflexivity; try exact I; try discriminate. lia. Qed.

(* ---- what delta_since answers ---- *)
Fixpoint drop_to (c : N) (w : win) : win :=
  match w with
  | [] => []
  | (s, g) :: t => if s =? c then w else drop_to c t
  end.

(* the abstract answer: the change set from the data set issued under serial c to the current one,
   if c is the serial of a version in the retained window *)
Definition win_answer (w : win) (c : N) : option pdelta :=
  match drop_to c w with
  | [] => None
  | (s, g) :: t => Some (pconstruct_raw g (snd (last t (s, g))))
  end.

Lemma sadd1_inj a b : a < M32 -> b < M32 -> sadd a 1 = sadd b 1 -> a = b.
Proof.
  unfold sadd, M32. intros Ha Hb E.
  destruct (N.eq_dec (a + 1) 4294967296) as [Qa|Qa]; destruct (N.eq_dec (b + 1) 4294967296) as [Qb|Qb].
  - lia.
  - rewrite Qa in E. rewrite N.mod_same in E by discriminate. rewrite N.mod_small in E by lia. lia.
  - rewrite Qb in E. rewrite N.mod_same in E by discriminate. rewrite N.mod_small in E by lia. lia.
  - rewrite !N.mod_small in E by lia. lia.
Qed.

Lemma skip_until_dsteps c w : wf_win w -> c < M32 ->
  skip_until (sadd c 1) (dsteps w) = dsteps (drop_to c w).
Proof.
  intros W Hc. induction w as [|[s0 g0] t IH]; [reflexivity|].
  destruct t as [|[s1 g1] t'].
  - cbn [dsteps skip_until drop_to]. destruct (s0 =? c); reflexivity.
  - cbn [wf_win] in W. destruct W as (S0 & L0 & (E1 & D1) & W').
    change (dsteps ((s0, g0) :: (s1, g1) :: t')) with ((s1, pconstruct_raw g0 g1) :: dsteps ((s1, g1) :: t')).
    cbn [skip_until]. change (drop_to c ((s0, g0) :: (s1, g1) :: t')) with
      (if s0 =? c then (s0, g0) :: (s1, g1) :: t' else drop_to c ((s1, g1) :: t')).
    destruct (N.eqb_spec s0 c) as [->|Hne].
    + rewrite E1, N.eqb_refl. reflexivity.
    + destruct (N.eqb_spec s1 (sadd c 1)) as [Heq|_].
      * exfalso. apply Hne. apply sadd1_inj; try assumption. congruence.
      * apply IH. exact W'.
Qed.

Lemma map_snd_dsteps s1 g1 t :
  map snd (dsteps ((s1, g1) :: t)) = psteps g1 (map snd t).
Proof.
  revert s1 g1; induction t as [|[s2 g2] t IH]; intros s1 g1; [reflexivity|].
  change (dsteps ((s1, g1) :: (s2, g2) :: t)) with ((s2, pconstruct_raw g1 g2) :: dsteps ((s2, g2) :: t)).
  cbn [map snd psteps]. rewrite IH. reflexivity.
Qed.

Lemma wf_win_sorted w : wf_win w -> Forall snap_sorted (map snd w).
Proof.
  induction w as [|[s g] t IH]; intros W; [constructor|]. cbn [wf_win] in W. destruct W as (S & _ & _ & W').
  constructor; [exact S | apply IH; exact W'].
Qed.

Lemma last_map_snd (t : win) x : snd (last t x) = last (map snd t) (snd x).
Proof. revert x; induction t as [|y t IH]; intros x; [reflexivity|]. cbn [map]. rewrite !last_cons. apply IH. Qed.

Lemma fold_dsteps s0 g0 s1 g1 t : wf_win ((s0, g0) :: (s1, g1) :: t) ->
  fold_left pmerge (map snd (dsteps ((s1, g1) :: t))) (pconstruct_raw g0 g1) =
  pconstruct_raw g0 (snd (last t (s1, g1))).
Proof.
  intros W. pose proof (wf_win_sorted _ W) as F. cbn [map snd] in F.
  inversion F as [|? ? F0 F']; subst. inversion F' as [|? ? F1 F'']; subst.
  rewrite map_snd_dsteps. rewrite pfold_chain by assumption. rewrite last_map_snd. reflexivity.
Qed.

(* serials along a well-formed window *)
Lemma wf_last_serial s g t : wf_win ((s, g) :: t) -> fst (last t (s, g)) = sadd s (N.of_nat (length t)).
Proof.
  revert s g; induction t as [|[s1 g1] t IH]; intros s g W.
  - cbn. cbn [wf_win] in W. symmetry. apply sadd_0. tauto.
  - rewrite last_cons. cbn [wf_win] in W. destruct W as (_ & _ & (E & _) & W').
    rewrite (IH _ _ W'). rewrite E, sadd_sadd. f_equal. cbn [length]. lia.
Qed.

Lemma drop_to_suffix c w : exists pre, w = pre ++ drop_to c w \/ drop_to c w = [].
Proof.
  induction w as [|[s g] t IH]; [exists []; right; reflexivity|].
  cbn [drop_to]. destruct (s =? c).
  - exists []. left. reflexivity.
  - destruct IH as [pre [E|E]]; [exists ((s, g) :: pre); left; cbn [app]; rewrite <- E; reflexivity | exists []; right; exact E].
Qed.

Lemma drop_to_head c w s g t : drop_to c w = (s, g) :: t -> s = c.
Proof.
  induction w as [|[s0 g0] t0 IH]; [discriminate|]. cbn [drop_to].
  destruct (N.eqb_spec s0 c) as [->|Hne]; intros E; [inversion E; reflexivity | apply IH; exact E].
Qed.

Lemma wf_win_app_r pre w : wf_win (pre ++ w) -> wf_win w.
Proof.
  induction pre as [|[s g] pre IH]; [tauto|]. cbn [app wf_win]. intros (_ & _ & _ & W). apply IH. exact W.
Qed.

Lemma wlast_app_r (pre w : win) x : wlast w = Some x -> wlast (pre ++ w) = Some x.
Proof.
  intros E. apply wlast_split in E as [w' ->]. rewrite app_assoc. apply wlast_app.
Qed.

Lemma drop_to_nil_notin c w s g : drop_to c w = [] -> In (s, g) w -> s <> c.
Proof.
  induction w as [|[s0 g0] t IH]; [intros _ []|]. cbn [drop_to].
  destruct (N.eqb_spec s0 c) as [->|Hne]; [discriminate|]. intros E [H|H].
  - inversion H; subst. exact Hne.
  - apply IH; assumption.
Qed.

Lemma wlast_In w x : wlast w = Some x -> In x w.
Proof. intros E. apply wlast_split in E as [w' ->]. apply in_or_app. right. left. reflexivity. Qed.

Lemma raw_same g : snap_sorted g -> pconstruct_raw g g = pd_empty.
Proof. intros S. apply pd_is_empty_iff. apply raw_empty_iff; [assumption..|reflexivity]. Qed.

Lemma inv_front h w s d ds : Inv h w -> deltas h = (s, d) :: ds ->
  exists w0 a ga gb, w = w0 ++ [(a, ga); (s, gb)] /\ d = pconstruct_raw ga gb /\ s = sadd a 1 /\ a < M32.
Proof.
  intros HI D. pose proof (inv_deltas _ _ HI) as R. rewrite D in R. cbn [rev] in R.
  destruct w as [|x w1] using rev_ind; [cbn in R; destruct (rev ds); discriminate|]. clear IHw1.
  destruct w1 as [|y w0] using rev_ind.
  - cbn in R. destruct x. destruct (rev ds); discriminate.
  - clear IHw0. destruct y as [a ga], x as [b gb]. rewrite dsteps_app in R.
    apply app_inj_tail in R as [_ R]. inversion R; subst. clear R.
    exists w0, a, ga, gb. rewrite <- app_assoc. cbn [app]. split; [reflexivity|]. split; [reflexivity|].
    pose proof (inv_wf _ _ HI) as W. rewrite <- app_assoc in W. cbn [app] in W.
    apply wf_win_app_r in W. cbn [wf_win] in W. tauto.
Qed.

Lemma inv_nodeltas h w : Inv h w -> deltas h = [] -> w <> [] -> exists g, w = [(0, g)].
Proof.
  intros HI D Hw. pose proof (inv_deltas _ _ HI) as R. rewrite D in R. cbn in R.
  destruct w as [|[s g] t]; [congruence|]. destruct t as [|[s1 g1] t']; [|discriminate].
  exists g. f_equal. f_equal. apply (inv_zero _ _ HI D s g). reflexivity.
Qed.

Lemma sadd_ne_0 c k : c < M32 -> 0 < k -> k < M32 -> sadd c k <> c.
Proof.
  intros Hc H0 Hk E. rewrite <- (sadd_0 c Hc) in E at 2. apply sadd_inj in E; [lia|assumption|].
  unfold M32; lia.
Qed.

Lemma sadd_ne_1 c k : c < M32 -> 1 < k -> k < M32 -> sadd c k <> sadd c 1.
Proof. intros Hc H0 Hk E. apply sadd_inj in E; [lia|assumption|]. unfold M32; lia. Qed.

Theorem delta_since_spec h w c : Inv h w -> w <> [] -> N.of_nat (length w) <= H31 -> c < M32 ->
  delta_since h c = win_answer w c.
Proof.
  intros HI Hw Hlen Hc. unfold win_answer. destruct (drop_to c w) as [|[s g] t] eqn:DT.
  - (* c is not the serial of a version in the window: refused *)
    unfold delta_since. destruct (deltas h) as [|[sn d] ds] eqn:D.
    + destruct (inv_nodeltas _ _ HI D Hw) as [g ->]. cbn [drop_to] in DT.
      destruct (N.eqb_spec 0 c) as [E|E]; [discriminate|].
      destruct (N.eqb_spec c 0); [congruence|reflexivity].
    + destruct (inv_front _ _ _ _ _ HI D) as (w0 & a & ga & gb & -> & -> & Es & La).
      assert (a <> c) as Na. { apply (drop_to_nil_notin c _ a ga DT). apply in_or_app. right. left. reflexivity. }
      assert (sn <> c) as Ns. { apply (drop_to_nil_notin c _ sn gb DT). apply in_or_app. right. right. left. reflexivity. }
      destruct (slt sn c); [reflexivity|].
      destruct (N.eqb_spec sn c); [congruence|].
      destruct (N.eqb_spec sn (sadd c 1)) as [E|_].
      { exfalso. apply Na. apply sadd1_inj; try assumption. congruence. }
      pose proof (inv_deltas _ _ HI) as R. rewrite D in R. rewrite R.
      rewrite skip_until_dsteps by (try apply (inv_wf _ _ HI); assumption). rewrite DT. reflexivity.
  - (* c is the serial of a version in the window *)
    pose proof (drop_to_head _ _ _ _ _ DT) as ->.
    destruct (drop_to_suffix c w) as [pre [Ew|Ew]]; [|congruence]. rewrite DT in Ew.
    pose proof (inv_wf _ _ HI) as W. pose proof W as Wsuf. rewrite Ew in Wsuf. apply wf_win_app_r in Wsuf.
    pose proof (wf_last_serial _ _ _ Wsuf) as Ls.
    assert (wlast w = Some (last t (c, g))) as Lw.
    { rewrite Ew. apply wlast_app_r. reflexivity. }
    assert (N.of_nat (length t) < H31) as Hk.
    { rewrite Ew in Hlen. rewrite app_length in Hlen. cbn [length] in Hlen. lia. }
    assert (snap_sorted g) as Sg. { cbn [wf_win] in Wsuf. tauto. }
    unfold delta_since. destruct (deltas h) as [|[sn d] ds] eqn:D.
    + destruct (inv_nodeltas _ _ HI D Hw) as [g0 E0]. rewrite E0 in Ew.
      destruct pre as [|p pre]; [|destruct pre; discriminate]. cbn [app] in Ew. inversion Ew; subst.
      cbn [last snd]. rewrite raw_same by assumption. reflexivity.
    + assert (sn = fst (last t (c, g))) as Esn.
      { pose proof (serial_wlast h w (fst (last t (c, g))) (snd (last t (c, g))) HI) as Q.
        rewrite <- surjective_pairing in Q. specialize (Q Lw). unfold serial in Q. rewrite D in Q. exact Q. }
      rewrite Ls in Esn.
      assert (slt sn c = false) as ->. { rewrite Esn. apply slt_sadd_back; [assumption|lia]. }
      destruct t as [|[s1 g1] t1].
      * cbn [length] in Esn. rewrite sadd_0 in Esn by assumption. subst sn. rewrite N.eqb_refl.
        cbn [last snd]. rewrite raw_same by assumption. reflexivity.
      * destruct t1 as [|[s2 g2] t2].
        -- cbn [length] in Esn. change (N.of_nat 1) with 1 in Esn.
           destruct (N.eqb_spec sn c) as [E|_].
           { exfalso. rewrite Esn in E. revert E. apply sadd_ne_0; [assumption|lia|unfold M32; lia]. }
           subst sn. rewrite N.eqb_refl. cbn [last snd].
           destruct (inv_front _ _ _ _ _ HI D) as (w0 & a & ga & gb & Ew2 & -> & _ & _).
           rewrite Ew2 in Ew.
           assert (w0 ++ [(a, ga); (sadd c 1, gb)] = (w0 ++ [(a, ga)]) ++ [(sadd c 1, gb)]) as R1 by (rewrite <- app_assoc; reflexivity).
           assert (pre ++ [(c, g); (s1, g1)] = (pre ++ [(c, g)]) ++ [(s1, g1)]) as R2 by (rewrite <- app_assoc; reflexivity).
           rewrite R1, R2 in Ew. apply app_inj_tail in Ew as [Ew E2]. apply app_inj_tail in Ew as [_ E1].
           inversion E1; inversion E2; subst. reflexivity.
        -- assert (1 < N.of_nat (length ((s1, g1) :: (s2, g2) :: t2))) as K2 by (cbn [length]; lia).
           destruct (N.eqb_spec sn c) as [E|_].
           { exfalso. rewrite Esn in E. revert E. apply sadd_ne_0; [assumption|lia|unfold M32, H31 in *; lia]. }
           destruct (N.eqb_spec sn (sadd c 1)) as [E|_].
           { exfalso. rewrite Esn in E. revert E. apply sadd_ne_1; [assumption|lia|unfold M32, H31 in *; lia]. }
           pose proof (inv_deltas _ _ HI) as R. rewrite D in R. rewrite R.
           rewrite skip_until_dsteps by assumption. rewrite DT.
           change (dsteps ((c, g) :: (s1, g1) :: (s2, g2) :: t2)) with
             ((s1, pconstruct_raw g g1) :: dsteps ((s1, g1) :: (s2, g2) :: t2)).
           lazy beta iota.
           rewrite (fold_dsteps c g s1 g1 ((s2, g2) :: t2) Wsuf). rewrite !last_cons. reflexivity.
Qed.

(* ---- reachable histories ---- *)
Lemma init_at_inv k s0 a b : snap_sorted a -> snap_sorted b -> a <> b -> s0 < M32 ->
  Inv (init_at k s0 a b) [(s0, a); (sadd s0 1, b)].
Proof.
  intros Sa Sb D L. unfold init_at.
  destruct (pconstruct a b) as [d|] eqn:P.
  - assert (d = pconstruct_raw a b) as ->.
    { unfold pconstruct in P. destruct (pd_is_empty (pconstruct_raw a b)); inversion P; reflexivity. }
    unfold push_delta, init. cbn [deltas keep length].
    assert (N.max k 1 <=? N.of_nat 0 = false) as -> by (apply N.leb_gt; lia).
    constructor; cbn [deltas keep current rev app dsteps wlast last option_map snd length].
    + reflexivity.
    + cbn [wf_win]. split; [exact Sa|]. split; [exact L|]. split; [split; [reflexivity|exact D]|].
      split; [exact Sb|]. split; [apply sadd_lt|]. split; exact Logic.I.
    + reflexivity.
    + discriminate.
    + lia.
  - exfalso. apply D. apply (pconstruct_none_iff a b Sa Sb). exact P.
Qed.

Inductive Reach : hist -> win -> Prop :=
| reach_init k : Reach (init k) []
| reach_init_at k s0 a b : snap_sorted a -> snap_sorted b -> a <> b -> s0 < M32 ->
    Reach (init_at k s0 a b) [(s0, a); (sadd s0 1, b)]
| reach_update h w s : Reach h w -> snap_sorted s -> Reach (fst (update h s)) (upd_win h w s).

Lemma Reach_Inv h w : Reach h w -> Inv h w.
Proof.
  induction 1 as [k|k s0 a b Sa Sb D L|h w s R IH Ss].
  - apply init_inv.
  - apply init_at_inv; assumption.
  - apply update_inv; assumption.
Qed.

Lemma win_len_bound h w : Inv h w -> keep h < H31 -> N.of_nat (length w) <= H31.
Proof.
  intros HI K. pose proof (length_dsteps_deltas _ _ HI) as L. pose proof (inv_len _ _ HI) as B.
  unfold H31 in *. destruct w as [|x t]; [cbn; lia|]. cbn [length pred] in L. cbn [length]. lia.
Qed.

Lemma active_win h w : Inv h w -> (is_active h = true <-> w <> []).
Proof.
  intros HI. unfold is_active. rewrite (inv_cur _ _ HI). destruct w as [|x t]; cbn; split; congruence.
Qed.

Lemma win_answer_In w c d : win_answer w c = Some d ->
  exists g t, drop_to c w = (c, g) :: t /\ In (c, g) w /\ d = pconstruct_raw g (snd (last t (c, g))).
Proof.
  unfold win_answer. destruct (drop_to c w) as [|[s g] t] eqn:DT; [discriminate|].
  intros E. inversion E; subst. pose proof (drop_to_head _ _ _ _ _ DT) as ->.
  exists g, t. split; [reflexivity|]. split; [|reflexivity].
  destruct (drop_to_suffix c w) as [pre [Ew|Ew]]; [|congruence].
  rewrite Ew, DT. apply in_or_app. right. left. reflexivity.
Qed.

Theorem exact_or_refused h w c d : Inv h w -> w <> [] -> keep h < H31 -> c < M32 ->
  delta_since h c = Some d ->
  exists g cur, In (c, g) w /\ current h = Some cur /\ papply g d = cur.
Proof.
  intros HI Hw K Hc E. rewrite (delta_since_spec h w c HI Hw (win_len_bound _ _ HI K) Hc) in E.
  apply win_answer_In in E as (g & t & DT & HIn & ->).
  destruct (drop_to_suffix c w) as [pre [Ew|Ew]]; [|congruence]. rewrite DT in Ew.
  pose proof (inv_wf _ _ HI) as W. pose proof W as Wsuf. rewrite Ew in Wsuf. apply wf_win_app_r in Wsuf.
  exists g, (snd (last t (c, g))). split; [exact HIn|]. split.
  - rewrite (inv_cur _ _ HI). rewrite Ew. rewrite (wlast_app_r pre ((c, g) :: t) (last t (c, g)) eq_refl). reflexivity.
  - apply papply_pconstruct.
    + cbn [wf_win] in Wsuf. tauto.
    + pose proof (wf_win_sorted _ Wsuf) as F. rewrite last_map_snd. cbn [map snd] in F.
      inversion F as [|? ? F0 F']; subst. clear -F0 F'. cbn [snd].
      revert F0. generalize g. induction (map snd t) as [|y l IHl]; intros g0 F0; [exact F0|].
      rewrite last_cons. inversion F'; subst. apply IHl; assumption.
Qed.

Theorem window_served h w c g : Inv h w -> keep h < H31 -> In (c, g) w -> delta_since h c <> None.
Proof.
  intros HI K HIn. assert (w <> []) as Hw by (intros ->; destruct HIn).
  assert (c < M32) as Hc.
  { pose proof (inv_wf _ _ HI) as W. clear -W HIn. induction w as [|[s0 g0] t IH]; [destruct HIn|].
    cbn [wf_win] in W. destruct HIn as [E|HIn]; [inversion E; subst; tauto | apply IH; tauto]. }
  rewrite (delta_since_spec h w c HI Hw (win_len_bound _ _ HI K) Hc). unfold win_answer.
  destruct (drop_to c w) as [|[s g'] t] eqn:DT; [|discriminate].
  exfalso. apply (drop_to_nil_notin c w c g DT HIn). reflexivity.
Qed.

Theorem unknown_refused h w c : Inv h w -> w <> [] -> keep h < H31 -> c < M32 ->
  (forall g, ~ In (c, g) w) -> delta_since h c = None.
Proof.
  intros HI Hw K Hc Hn. rewrite (delta_since_spec h w c HI Hw (win_len_bound _ _ HI K) Hc). unfold win_answer.
  destruct (drop_to c w) as [|[s g] t] eqn:DT; [reflexivity|]. exfalso.
  pose proof (drop_to_head _ _ _ _ _ DT) as ->. apply (Hn g).
  destruct (drop_to_suffix c w) as [pre [Ew|Ew]]; [|congruence]. rewrite Ew, DT. apply in_or_app. right. left. reflexivity.
Qed.

Theorem current_is_empty h w : Inv h w -> w <> [] -> keep h < H31 ->
  delta_since h (serial h) = Some pd_empty.
Proof.
  intros HI Hw K. unfold delta_since, serial. destruct (deltas h) as [|[sn d] ds] eqn:D.
  - reflexivity.
  - destruct (inv_front _ _ _ _ _ HI D) as (w0 & a & ga & gb & Ew & _ & Es & La).
    assert (sn < M32) as Ls by (rewrite Es; apply sadd_lt).
    assert (slt sn sn = false) as ->.
    { rewrite <- (sadd_0 sn Ls) at 1. apply slt_sadd_back; [exact Ls|unfold H31; lia]. }
    rewrite N.eqb_refl. reflexivity.
Qed.

(* C14 *)
Lemma update_serial h s :
  serial (fst (update h s)) = if is_active h && snd (update h s) then sadd (serial h) 1 else serial h.
Proof.
  unfold update, is_active. destruct (current h) as [c|]; [|reflexivity].
  destruct (pconstruct c s) as [d|]; cbn [fst snd andb]; reflexivity.
Qed.

Lemma update_changed h s : snap_sorted s -> (forall c, current h = Some c -> snap_sorted c) ->
  (snd (update h s) = true <-> current h <> Some s).
Proof.
  intros Ss Hc. unfold update. destruct (current h) as [c|] eqn:C.
  - specialize (Hc c eq_refl). destruct (pconstruct c s) as [d|] eqn:P; cbn [snd].
    + split; [|reflexivity]. intros _ E. inversion E; subst.
      pose proof (proj2 (pconstruct_none_iff s s Ss Ss) eq_refl). congruence.
    + split; [discriminate|]. intros N. exfalso. apply N. f_equal. apply (pconstruct_none_iff c s Hc Ss). exact P.
  - cbn [snd]. split; [discriminate|reflexivity].
Qed.

Lemma update_keep h s : keep (fst (update h s)) = keep h.
Proof. unfold update. destruct (current h) as [c|]; [destruct (pconstruct c s)|]; reflexivity. Qed.
