(* C28/C27 model: the binary codecs of Routinator's local cache.

   Transcribed from (working tree of /repo, i.e. with the C27 fix of
   src/utils/binio.rs applied: `read_vec`, `cmp::min` in the map decoder):
     src/utils/binio.rs                 Compose/Parse impls
     src/store.rs                       StoredPointHeader, UpdateStatus, StoredManifest,
                                        StoredObject, StoredStatus  (read / write)
     src/collector/rrdp/archive.rs      RepositoryState (parse / compose)
     rpki-0.19.3 src/uri.rs             Rsync::from_bytes, Https::from_bytes  (validity only)
     rpki-0.19.3 src/repository/x509.rs Serial::from_array
     chrono-0.4.45                      Utc.timestamp_opt(secs, 0).single()   (range only)

   Encoders are total functions to byte strings (the `excessively large URI`
   error of the URI encoders is the side condition [lenN u < 2^32] of the
   well-formedness predicates).  Decoders are [reader]s (Base/Bytes.v): their
   result can be a panic and they leave a trace of capacity requests.
   64-bit target: usize::try_from(u64) and usize::try_from(u32) cannot fail.
   Definitions only; no proofs. *)
From Coq Require Import List NArith ZArith Bool.
From RV Require Export Base.Bytes.
Import ListNotations.
Local Open Scope N_scope.

(* ------------------------------------------------------------------ *)
(* rpki::uri — which byte strings are URIs (concrete instance used by the
   correspondence check; the theorems are stated for arbitrary predicates) *)

(* is_u8_uri_ascii: '!' | '$'..=';' | '=' | 'A'..='Z' | '_' | 'a'..='z' | '~' *)
Definition is_uri_ascii (ch : N) : bool :=
  (ch =? 33) || ((36 <=? ch) && (ch <=? 59)) || (ch =? 61) || ((65 <=? ch) && (ch <=? 90))
  || (ch =? 95) || ((97 <=? ch) && (ch <=? 122)) || (ch =? 126).

Definition to_lower (ch : N) : N := if (65 <=? ch) && (ch <=? 90) then ch + 32 else ch.

(* starts_with_ignore_case *)
Definition starts_with_ic (s expected : list N) : bool :=
  (length expected <=? length s)%nat
  && bytes_eqb (map to_lower (firstn (length expected) s)) (map to_lower expected).

Definition HTTPS_PREFIX : list N := [104; 116; 116; 112; 115; 58; 47; 47].   (* "https://" *)
Definition RSYNC_PREFIX : list N := [114; 115; 121; 110; 99; 58; 47; 47].    (* "rsync://" *)

(* slice.split(|ch| ch == sep): never empty *)
Fixpoint split_on (sep : N) (l cur : list N) : list (list N) :=
  match l with
  | [] => [rev_append cur []]
  | x :: t => if x =? sep then rev_append cur [] :: split_on sep t [] else split_on sep t (x :: cur)
  end.

Definition is_dot_segment (it : list N) : bool := bytes_eqb it [46] || bytes_eqb it [46; 46].

(* Rsync::check_path: no "." / ".." segment before the first empty segment,
   an empty segment only at the very end *)
Fixpoint check_path_items (items : list (list N)) : bool :=
  match items with
  | [] => true
  | [] :: rest => match rest with [] => true | _ => false end
  | it :: rest => if is_dot_segment it then false else check_path_items rest
  end.

(* Rsync::from_bytes *)
Definition rsync_validb (s : list N) : bool :=
  forallb is_uri_ascii s && starts_with_ic s RSYNC_PREFIX &&
  (let parts := split_on 47 (skipn 8 s) [] in
   check_path_items parts &&
   match parts with
   | authority :: module :: _ :: _ =>
       negb (Nat.eqb (length authority) 0) && negb (Nat.eqb (length module) 0)
   | _ => false
   end).

(* Https::from_bytes *)
Definition https_validb (s : list N) : bool :=
  forallb is_uri_ascii s && starts_with_ic s HTTPS_PREFIX.

(* chrono: Utc.timestamp_opt(secs, 0).single() is Some exactly for
   -262143-01-01T00:00:00Z ..= +262142-12-31T23:59:59Z *)
Definition TIME_MIN : Z := (-8334601228800)%Z.
Definition TIME_MAX : Z := 8210266876799%Z.
Definition time_okb (t : Z) : bool := (TIME_MIN <=? t)%Z && (t <=? TIME_MAX)%Z.

(* ------------------------------------------------------------------ *)
(* record types *)

Inductive upd_status := Success (t : Z) | LastAttempt (t : Z).

Record header := mkHeader {
  h_manifest_uri : list N; h_rpki_notify : option (list N); h_status : upd_status }.

Record manifest := mkManifest {
  m_not_after : Z; m_number : list N; m_this_update : Z; m_ca_repository : list N;
  m_manifest : list N; m_crl_uri : list N; m_crl : list N }.

Record object := mkObject { o_uri : list N; o_hash : option (list N); o_content : list N }.

Record state := mkState {
  s_notify : list N; s_session : list N; s_serial : N; s_updated : Z; s_best_before : Z;
  s_last_modified : option Z; s_etag : option (list N); s_deltas : list (N * list N) }.

(* constants of the decoders *)
Definition CHUNK : N := 65536.          (* binio.rs read_vec: CHUNK *)
Definition MAP_PREALLOC : N := 65536.   (* binio.rs HashMap::parse: cmp::min(len, 65536) entries *)
Definition ENTRY : N := 40.             (* size_of::<(u64, rrdp::Hash)>() *)

Section Codec.
Variables rsync_valid https_valid : list N -> bool.

(* ---------------- fixed width ---------------- *)

Definition read_be (w : nat) : reader N :=
  bind (read_exact (N.of_nat w)) (fun c => ret (be_dec c)).

Definition enc_u8 (n : N) : list N := be_enc 1 n.
Definition read_u8 : reader N := read_be 1.
Definition enc_u32 (n : N) : list N := be_enc 4 n.
Definition read_u32 : reader N := read_be 4.
Definition enc_u64 (n : N) : list N := be_enc 8 n.
Definition read_u64 : reader N := read_be 8.

Definition enc_i64 (z : Z) : list N := i64_enc z.
Definition read_i64 : reader Z := bind (read_exact 8) (fun c => ret (i64_dec c)).

(* Option<i64>: tag octet 0 / 1 *)
Definition enc_opt_i64 (o : option Z) : list N :=
  match o with Some z => enc_u8 1 ++ enc_i64 z | None => enc_u8 0 end.
Definition read_opt_i64 : reader (option Z) :=
  bind read_u8 (fun tag =>
    if tag =? 0 then ret None
    else if tag =? 1 then bind read_i64 (fun z => ret (Some z))
    else fail_format).

(* ---------------- length-prefixed data ---------------- *)

(* binio.rs read_vec (the C27 fix): the declared length is not trusted; the
   buffer is created with capacity min(len, CHUNK) and then resized chunk by
   chunk, each chunk being filled with read_exact before the next resize.
   [acc] is the buffer so far; one loop iteration per chunk. The fuel is the
   number of input bytes plus one (every iteration consumes at least a byte). *)
Fixpoint read_chunks (fuel : nat) (len : N) (acc : list N) : reader (list N) :=
  fun b =>
    let start := lenN acc in
    if len <=? start then ret acc b
    else match fuel with
         | O => panic_with OutOfFuel b
         | S f =>
             let n := N.min (len - start) CHUNK in
             bind (alloc (start + n))                        (* res.resize(start + n, 0) *)
               (fun _ => bind (read_exact n)                 (* source.read_exact(&mut res[start..]) *)
                  (fun c => read_chunks f len (acc ++ c))) b
         end.

Definition read_vec (len : N) : reader (list N) :=
  fun b => bind (alloc (N.min len CHUNK))                     (* Vec::with_capacity(min(len, CHUNK)) *)
             (fun _ => read_chunks (S (length b)) len []) b.

(* uri::Rsync / uri::Https: u32 length, bytes, from_bytes *)
Definition enc_uri (u : list N) : list N := enc_u32 (lenN u) ++ u.
Definition read_uri (valid : list N -> bool) : reader (list N) :=
  bind read_u32 (fun len =>
    bind (read_vec len) (fun bits =>
      if valid bits then ret bits else fail_format)).
Definition read_rsync : reader (list N) := read_uri rsync_valid.
Definition read_https : reader (list N) := read_uri https_valid.

(* Option<uri::Https>: length 0 is None *)
Definition enc_opt_https (o : option (list N)) : list N :=
  match o with Some u => enc_uri u | None => enc_u32 0 end.
Definition read_opt_https : reader (option (list N)) :=
  bind read_u32 (fun len =>
    if len =? 0 then ret None
    else bind (read_vec len) (fun bits =>
           if https_valid bits then ret (Some bits) else fail_format)).

(* Bytes: u64 length, bytes *)
Definition enc_bytes (d : list N) : list N := enc_u64 (lenN d) ++ d.
Definition read_bytes : reader (list N) := bind read_u64 read_vec.

(* Option<Bytes>: length u64::MAX is None *)
Definition enc_opt_bytes (o : option (list N)) : list N :=
  match o with Some d => enc_bytes d | None => enc_u64 U64_MAX end.
Definition read_opt_bytes : reader (option (list N)) :=
  bind read_u64 (fun len =>
    if len =? U64_MAX then ret None
    else bind (read_vec len) (fun d => ret (Some d))).

(* ---------------- fixed-size blobs ---------------- *)

Definition enc_raw (d : list N) : list N := d.
Definition read_uuid : reader (list N) := read_exact 16.
Definition read_hash : reader (list N) := read_exact 32.
(* Serial::from_array: the left-most bit must be 0 *)
Definition serial_okb (d : list N) : bool := hd 0 d <? 128.
Definition read_serial : reader (list N) :=
  bind (read_exact 20) (fun d => if serial_okb d then ret d else fail_format).

(* ---------------- times (whole seconds) ---------------- *)

Definition enc_time (t : Z) : list N := enc_i64 t.
Definition read_time : reader Z :=
  bind read_i64 (fun z => if time_okb z then ret z else fail_format).

(* Option<Time>: i64::MIN is None *)
Definition enc_opt_time (o : option Z) : list N :=
  match o with Some t => enc_i64 t | None => enc_i64 I64_MIN end.
Definition read_opt_time : reader (option Z) :=
  bind read_i64 (fun z =>
    if (z =? I64_MIN)%Z then ret None
    else if time_okb z then ret (Some z) else fail_format).

(* ---------------- HashMap<u64, rrdp::Hash> ---------------- *)

(* the entries in the order the encoder iterates the map *)
Definition enc_entry (e : N * list N) : list N := enc_u64 (fst e) ++ enc_raw (snd e).
Definition enc_map (m : list (N * list N)) : list N := enc_u64 (lenN m) ++ flat_map enc_entry m.

(* for _ in 0..len { if res.insert(K::parse?, V::parse?).is_some() { duplicate keys } }
   [seen]: the keys inserted so far; the table must have room for one more
   entry at every insert (a request; hashbrown only reallocates when full). *)
Fixpoint read_entries (fuel : nat) (n : N) (seen : list N) : reader (list (N * list N)) :=
  fun b =>
    if n =? 0 then ret [] b
    else match fuel with
         | O => panic_with OutOfFuel b
         | S f =>
             bind read_u64 (fun k =>
               bind read_hash (fun h =>
                 if existsb (N.eqb k) seen then fail_format
                 else bind (alloc ((lenN seen + 1) * ENTRY)) (fun _ =>
                        bind (read_entries f (n - 1) (k :: seen)) (fun tl =>
                          ret ((k, h) :: tl))))) b
         end.

Definition read_map : reader (list (N * list N)) :=
  bind read_u64 (fun len =>
    bind (alloc (N.min len MAP_PREALLOC * ENTRY))              (* HashMap::with_capacity(min(len, 65536)) *)
      (fun _ => fun b => read_entries (S (length b)) len [] b)).

(* ---------------- store.rs records ---------------- *)

(* UpdateStatus::write / read *)
Definition enc_status (s : upd_status) : list N :=
  match s with
  | Success t => enc_u8 0 ++ enc_time t
  | LastAttempt t => enc_u8 1 ++ enc_time t
  end.
Definition read_status : reader upd_status :=
  bind read_u8 (fun tag =>
    if tag =? 0 then bind read_time (fun t => ret (Success t))
    else if tag =? 1 then bind read_time (fun t => ret (LastAttempt t))
    else fail_format).

(* StoredPointHeader::write / read, VERSION = 2 *)
Definition enc_header (h : header) : list N :=
  enc_u8 2 ++ enc_uri (h_manifest_uri h) ++ enc_opt_https (h_rpki_notify h) ++ enc_status (h_status h).
Definition read_header : reader header :=
  bind read_u8 (fun version =>
    if negb (version =? 2) then fail_format
    else bind read_rsync (fun m =>
         bind read_opt_https (fun n =>
         bind read_status (fun s => ret (mkHeader m n s))))).

(* StoredManifest::write / read *)
Definition enc_manifest (m : manifest) : list N :=
  enc_time (m_not_after m) ++ enc_raw (m_number m) ++ enc_time (m_this_update m) ++
  enc_uri (m_ca_repository m) ++ enc_bytes (m_manifest m) ++ enc_uri (m_crl_uri m) ++ enc_bytes (m_crl m).
Definition read_manifest : reader manifest :=
  bind read_time (fun na =>
  bind read_serial (fun num =>
  bind read_time (fun tu =>
  bind read_rsync (fun ca =>
  bind read_bytes (fun mft =>
  bind read_rsync (fun cu =>
  bind read_bytes (fun crl => ret (mkManifest na num tu ca mft cu crl)))))))).

(* `Err(err) if err.is_eof() => return Ok(None)`: the position of the source
   after a failed read is unspecified; the model says everything was consumed. *)
Definition eof_is_none {A} (r : reader A) : reader (option A) :=
  fun b => match r b with
           | (Ok (a, b'), t) => (Ok (Some a, b'), t)
           | (ErrEof, t) => (Ok (None, []), t)
           | (ErrFormat, t) => (ErrFormat, t)
           | (Panic p, t) => (Panic p, t)
           end.

(* StoredObject::write / read: URI, hash type octet (0 none, 1 SHA-256 + 32 octets), content *)
Definition enc_object (o : object) : list N :=
  enc_uri (o_uri o) ++
  match o_hash o with Some h => enc_u8 1 ++ enc_raw h | None => enc_u8 0 end ++
  enc_bytes (o_content o).
Definition read_object : reader (option object) :=
  bind (eof_is_none read_rsync) (fun ou =>
    match ou with
    | None => ret None
    | Some uri =>
        bind read_u8 (fun tag =>
          bind (if tag =? 0 then ret None
                else if tag =? 1 then
                  bind (alloc 32) (fun _ =>                       (* vec![0u8; digest_len()] *)
                    bind (read_exact 32) (fun h => ret (Some h)))
                else fail_format)
            (fun hash => bind read_bytes (fun content => ret (Some (mkObject uri hash content)))))
    end).

(* StoredStatus::write / read, VERSION = 0 *)
Definition enc_stored_status (t : Z) : list N := enc_u8 0 ++ enc_time t.
Definition read_stored_status : reader Z :=
  bind read_u8 (fun version => if negb (version =? 0) then fail_format else read_time).

(* RepositoryState::compose / parse, VERSION = 1 *)
Definition enc_state (s : state) : list N :=
  enc_u8 1 ++ enc_uri (s_notify s) ++ enc_raw (s_session s) ++ enc_u64 (s_serial s) ++
  enc_i64 (s_updated s) ++ enc_i64 (s_best_before s) ++ enc_opt_i64 (s_last_modified s) ++
  enc_opt_bytes (s_etag s) ++ enc_map (s_deltas s).
Definition read_state : reader state :=
  bind read_u8 (fun version =>
    if negb (version =? 1) then fail_format
    else bind read_https (fun notify =>
         bind read_uuid (fun session =>
         bind read_u64 (fun serial =>
         bind read_i64 (fun updated =>
         bind read_i64 (fun best =>
         bind read_opt_i64 (fun lm =>
         bind read_opt_bytes (fun etag =>
         bind read_map (fun deltas =>
           ret (mkState notify session serial updated best lm etag deltas)))))))))).

(* ---------------- well-formed values: what the Rust types guarantee ---------------- *)

Definition wf_uri (valid : list N -> bool) (u : list N) : bool :=
  bytes_okb u && valid u && (lenN u <? P32).
Definition wf_blob (d : list N) : bool := bytes_okb d && (lenN d <=? ISIZE_MAX).
Definition wf_fixed (w : nat) (d : list N) : bool := bytes_okb d && Nat.eqb (length d) w.
Definition wf_serial (d : list N) : bool := wf_fixed 20 d && serial_okb d.
Definition wf_opt {A} (f : A -> bool) (o : option A) : bool :=
  match o with Some x => f x | None => true end.
Fixpoint nodupb (l : list N) : bool :=
  match l with [] => true | x :: t => negb (existsb (N.eqb x) t) && nodupb t end.
Definition wf_map (m : list (N * list N)) : bool :=
  forallb (fun e => (fst e <? P64) && wf_fixed 32 (snd e)) m && nodupb (map fst m)
  && (lenN m * ENTRY <=? ISIZE_MAX).       (* the map exists in memory *)
Definition wf_status (s : upd_status) : bool :=
  match s with Success t => time_okb t | LastAttempt t => time_okb t end.
Definition wf_header (h : header) : bool :=
  wf_uri rsync_valid (h_manifest_uri h) && wf_opt (wf_uri https_valid) (h_rpki_notify h) && wf_status (h_status h).
Definition wf_manifest (m : manifest) : bool :=
  time_okb (m_not_after m) && wf_serial (m_number m) && time_okb (m_this_update m) &&
  wf_uri rsync_valid (m_ca_repository m) && wf_blob (m_manifest m) &&
  wf_uri rsync_valid (m_crl_uri m) && wf_blob (m_crl m).
Definition wf_object (o : object) : bool :=
  wf_uri rsync_valid (o_uri o) && wf_opt (wf_fixed 32) (o_hash o) && wf_blob (o_content o).
Definition wf_state (s : state) : bool :=
  wf_uri https_valid (s_notify s) && wf_fixed 16 (s_session s) && (s_serial s <? P64) &&
  i64_okb (s_updated s) && i64_okb (s_best_before s) && wf_opt i64_okb (s_last_modified s) &&
  wf_opt wf_blob (s_etag s) && wf_map (s_deltas s).

(* ---------------- all kinds under one roof (for the correspondence) ---------------- *)

Inductive kind :=
| KU8 | KU32 | KU64 | KI64 | KOptI64 | KRsync | KHttps | KOptHttps | KBytes | KOptBytes
| KUuid | KHash | KSerial | KTime | KOptTime | KMap
| KHeader | KStatus | KManifest | KObject | KStoredStatus | KState.

Inductive value :=
| VU8 (n : N) | VU32 (n : N) | VU64 (n : N) | VI64 (z : Z) | VOptI64 (o : option Z)
| VRsync (u : list N) | VHttps (u : list N) | VOptHttps (o : option (list N))
| VBytes (d : list N) | VOptBytes (o : option (list N))
| VUuid (d : list N) | VHash (d : list N) | VSerial (d : list N)
| VTime (t : Z) | VOptTime (o : option Z)
| VMap (m : list (N * list N))
| VHeader (h : header) | VStatus (s : upd_status) | VManifest (m : manifest)
| VObject (o : object)
| VEnd                       (* StoredObject::read returned Ok(None): no further object *)
| VStoredStatus (t : Z) | VState (s : state).

Definition kind_of (v : value) : kind :=
  match v with
  | VU8 _ => KU8 | VU32 _ => KU32 | VU64 _ => KU64 | VI64 _ => KI64 | VOptI64 _ => KOptI64
  | VRsync _ => KRsync | VHttps _ => KHttps | VOptHttps _ => KOptHttps
  | VBytes _ => KBytes | VOptBytes _ => KOptBytes
  | VUuid _ => KUuid | VHash _ => KHash | VSerial _ => KSerial
  | VTime _ => KTime | VOptTime _ => KOptTime | VMap _ => KMap
  | VHeader _ => KHeader | VStatus _ => KStatus | VManifest _ => KManifest
  | VObject _ => KObject | VEnd => KObject
  | VStoredStatus _ => KStoredStatus | VState _ => KState
  end.

Definition encode (v : value) : list N :=
  match v with
  | VU8 n => enc_u8 n | VU32 n => enc_u32 n | VU64 n => enc_u64 n | VI64 z => enc_i64 z
  | VOptI64 o => enc_opt_i64 o
  | VRsync u => enc_uri u | VHttps u => enc_uri u | VOptHttps o => enc_opt_https o
  | VBytes d => enc_bytes d | VOptBytes o => enc_opt_bytes o
  | VUuid d => enc_raw d | VHash d => enc_raw d | VSerial d => enc_raw d
  | VTime t => enc_time t | VOptTime o => enc_opt_time o
  | VMap m => enc_map m
  | VHeader h => enc_header h | VStatus s => enc_status s | VManifest m => enc_manifest m
  | VObject o => enc_object o
  | VEnd => []
  | VStoredStatus t => enc_stored_status t | VState s => enc_state s
  end.

Definition rmap {A B} (f : A -> B) (r : reader A) : reader B := bind r (fun a => ret (f a)).

Definition decode (k : kind) : reader value :=
  match k with
  | KU8 => rmap VU8 read_u8 | KU32 => rmap VU32 read_u32 | KU64 => rmap VU64 read_u64
  | KI64 => rmap VI64 read_i64 | KOptI64 => rmap VOptI64 read_opt_i64
  | KRsync => rmap VRsync read_rsync | KHttps => rmap VHttps read_https
  | KOptHttps => rmap VOptHttps read_opt_https
  | KBytes => rmap VBytes read_bytes | KOptBytes => rmap VOptBytes read_opt_bytes
  | KUuid => rmap VUuid read_uuid | KHash => rmap VHash read_hash | KSerial => rmap VSerial read_serial
  | KTime => rmap VTime read_time | KOptTime => rmap VOptTime read_opt_time
  | KMap => rmap VMap read_map
  | KHeader => rmap VHeader read_header | KStatus => rmap VStatus read_status
  | KManifest => rmap VManifest read_manifest
  | KObject => rmap (fun o => match o with Some o => VObject o | None => VEnd end) read_object
  | KStoredStatus => rmap VStoredStatus read_stored_status
  | KState => rmap VState read_state
  end.

(* VEnd is not a value that is ever written *)
Definition wf_value (v : value) : bool :=
  match v with
  | VU8 n => n <? P8 | VU32 n => n <? P32 | VU64 n => n <? P64 | VI64 z => i64_okb z
  | VOptI64 o => wf_opt i64_okb o
  | VRsync u => wf_uri rsync_valid u | VHttps u => wf_uri https_valid u
  | VOptHttps o => wf_opt (wf_uri https_valid) o
  | VBytes d => wf_blob d | VOptBytes o => wf_opt wf_blob o
  | VUuid d => wf_fixed 16 d | VHash d => wf_fixed 32 d | VSerial d => wf_serial d
  | VTime t => time_okb t | VOptTime o => wf_opt time_okb o
  | VMap m => wf_map m
  | VHeader h => wf_header h | VStatus s => wf_status s | VManifest m => wf_manifest m
  | VObject o => wf_object o
  | VEnd => false
  | VStoredStatus t => time_okb t | VState s => wf_state s
  end.

End Codec.
