(* C28/C27: helpers shared by the two Spec files: the codecs instantiated with
   the URI predicates of the rpki crate, boolean equality of values (hash maps
   as sets of entries), the outside view [dres] of one decoder run, and a
   compact notation for long byte strings in generated case files.
   Definitions only. *)
From Coq Require Import List NArith ZArith Bool.
From RV Require Export C28.Model.
Import ListNotations.
Local Open Scope N_scope.

(* compact notation for long byte strings in generated case files:
   start, start + d, start + 2d, ... (mod 256), [len] bytes *)
Fixpoint arith_nat (len : nat) (start d : N) : list N :=
  match len with O => [] | S l => start :: arith_nat l ((start + d) mod 256) d end.
Definition arith (start d len : N) : list N := arith_nat (N.to_nat len) start d.

(* the codecs with the URI predicates of the rpki crate *)
Definition decodeC : kind -> reader value := decode rsync_validb https_validb.
Definition wf_valueC : value -> bool := wf_value rsync_validb https_validb.

(* ---------------- equality of values (hash maps: as sets of entries) ---------------- *)

Definition opt_eqb {A} (f : A -> A -> bool) (a b : option A) : bool :=
  match a, b with Some x, Some y => f x y | None, None => true | _, _ => false end.

Fixpoint entries_eqb (a b : list (N * list N)) : bool :=
  match a, b with
  | [], [] => true
  | (k, h) :: a', (k', h') :: b' => (k =? k') && bytes_eqb h h' && entries_eqb a' b'
  | _, _ => false
  end.

Fixpoint ins_entry (e : N * list N) (l : list (N * list N)) : list (N * list N) :=
  match l with
  | [] => [e]
  | x :: t => if fst e <=? fst x then e :: l else x :: ins_entry e t
  end.
Definition sort_entries (m : list (N * list N)) : list (N * list N) := fold_right ins_entry [] m.
Definition map_eqb (a b : list (N * list N)) : bool := entries_eqb (sort_entries a) (sort_entries b).

Definition status_eqb (a b : upd_status) : bool :=
  match a, b with
  | Success x, Success y => (x =? y)%Z
  | LastAttempt x, LastAttempt y => (x =? y)%Z
  | _, _ => false
  end.

Definition header_eqb (a b : header) : bool :=
  bytes_eqb (h_manifest_uri a) (h_manifest_uri b) && opt_eqb bytes_eqb (h_rpki_notify a) (h_rpki_notify b)
  && status_eqb (h_status a) (h_status b).

Definition manifest_eqb (a b : manifest) : bool :=
  (m_not_after a =? m_not_after b)%Z && bytes_eqb (m_number a) (m_number b)
  && (m_this_update a =? m_this_update b)%Z && bytes_eqb (m_ca_repository a) (m_ca_repository b)
  && bytes_eqb (m_manifest a) (m_manifest b) && bytes_eqb (m_crl_uri a) (m_crl_uri b)
  && bytes_eqb (m_crl a) (m_crl b).

Definition object_eqb (a b : object) : bool :=
  bytes_eqb (o_uri a) (o_uri b) && opt_eqb bytes_eqb (o_hash a) (o_hash b) && bytes_eqb (o_content a) (o_content b).

Definition state_eqb (a b : state) : bool :=
  bytes_eqb (s_notify a) (s_notify b) && bytes_eqb (s_session a) (s_session b)
  && (s_serial a =? s_serial b) && (s_updated a =? s_updated b)%Z
  && (s_best_before a =? s_best_before b)%Z && opt_eqb Z.eqb (s_last_modified a) (s_last_modified b)
  && opt_eqb bytes_eqb (s_etag a) (s_etag b) && map_eqb (s_deltas a) (s_deltas b).

Definition value_eqb (a b : value) : bool :=
  match a, b with
  | VU8 x, VU8 y | VU32 x, VU32 y | VU64 x, VU64 y => x =? y
  | VI64 x, VI64 y | VTime x, VTime y | VStoredStatus x, VStoredStatus y => (x =? y)%Z
  | VOptI64 x, VOptI64 y | VOptTime x, VOptTime y => opt_eqb Z.eqb x y
  | VRsync x, VRsync y | VHttps x, VHttps y | VBytes x, VBytes y
  | VUuid x, VUuid y | VHash x, VHash y | VSerial x, VSerial y => bytes_eqb x y
  | VOptHttps x, VOptHttps y | VOptBytes x, VOptBytes y => opt_eqb bytes_eqb x y
  | VMap x, VMap y => map_eqb x y
  | VHeader x, VHeader y => header_eqb x y
  | VStatus x, VStatus y => status_eqb x y
  | VManifest x, VManifest y => manifest_eqb x y
  | VObject x, VObject y => object_eqb x y
  | VEnd, VEnd => true
  | VState x, VState y => state_eqb x y
  | _, _ => false
  end.

(* ---------------- observations ---------------- *)

(* what a decoder run can look like from outside *)
Inductive dres :=
| DOk (v : value) (rest : list N)
| DEof | DFormat
| DOther          (* fatal I/O error, or a decoded value outside the format's value domain *)
| DPanic | DAbort.

Definition dres_of (r : res (value * list N)) : dres :=
  match r with
  | Ok (v, b) => DOk v b
  | ErrEof => DEof
  | ErrFormat => DFormat
  | Panic _ => DPanic
  end.

(* after "no further object" the position of the source is unspecified *)
Definition dres_eqb (a b : dres) : bool :=
  match a, b with
  | DOk VEnd _, DOk VEnd _ => true
  | DOk v r, DOk v' r' => value_eqb v v' && bytes_eqb r r'
  | DEof, DEof | DFormat, DFormat | DOther, DOther | DPanic, DPanic | DAbort, DAbort => true
  | _, _ => false
  end.
