(* C28: round-trip lemmas for every codec of C28/Model.v.
   [rt_*]: decoding the encoding of a well-formed value, followed by any
   bytes [rest], returns the value and leaves exactly [rest]. *)
From Coq Require Import List NArith ZArith Lia Bool.
From RV Require Import Base.Bytes C28.Model.
Import ListNotations.
Local Open Scope N_scope.

(* ------------------------------------------------------------------ *)
(* small facts *)

Lemma run_read_vec len b :
  run (read_vec len) b =
  run (bind (alloc (N.min len CHUNK)) (fun _ => read_chunks (S (length b)) len [])) b.
Proof. reflexivity. Qed.

Lemma run_entries_top len b :
  run (fun b0 => read_entries (S (length b0)) len [] b0) b = run (read_entries (S (length b)) len []) b.
Proof. reflexivity. Qed.

Lemma read_chunks_S rfuel len acc b :
  read_chunks (S rfuel) len acc b =
  if len <=? lenN acc then ret acc b
  else bind (alloc (lenN acc + N.min (len - lenN acc) CHUNK))
         (fun _ => bind (read_exact (N.min (len - lenN acc) CHUNK))
            (fun c => read_chunks rfuel len (acc ++ c))) b.
Proof. reflexivity. Qed.

Lemma read_chunks_O len acc b :
  read_chunks O len acc b = if len <=? lenN acc then ret acc b else panic_with OutOfFuel b.
Proof. reflexivity. Qed.

Lemma read_entries_S f n seen b :
  read_entries (S f) n seen b =
  if n =? 0 then ret [] b
  else bind read_u64 (fun k =>
         bind read_hash (fun h =>
           if existsb (N.eqb k) seen then fail_format
           else bind (alloc ((lenN seen + 1) * ENTRY)) (fun _ =>
                  bind (read_entries f (n - 1) (k :: seen)) (fun tl => ret ((k, h) :: tl))))) b.
Proof. reflexivity. Qed.

Lemma read_entries_O n seen b :
  read_entries O n seen b = if n =? 0 then ret [] b else panic_with OutOfFuel b.
Proof. reflexivity. Qed.

Lemma lenN_zero_nil {A} (l : list A) : lenN l = 0 -> l = [].
Proof. destruct l; [reflexivity|]. rewrite lenN_cons. lia. Qed.

Lemma wf_fixed_spec w d : wf_fixed w d = true -> bytes_okb d = true /\ length d = w.
Proof. unfold wf_fixed. rewrite andb_true_iff, Nat.eqb_eq. tauto. Qed.

Lemma nodupb_spec l : nodupb l = true -> NoDup l.
Proof.
  induction l as [|x t IH]; intros H; [constructor|].
  cbn [nodupb] in H. apply andb_true_iff in H as [H1 H2]. constructor; [|exact (IH H2)].
  intros HI. apply negb_true_iff in H1.
  assert (E : existsb (N.eqb x) t = true).
  { apply existsb_exists. exists x. split; [exact HI | apply N.eqb_refl]. }
  congruence.
Qed.

Lemma existsb_notin k seen : ~ In k seen -> existsb (N.eqb k) seen = false.
Proof.
  intros H. destruct (existsb (N.eqb k) seen) eqn:E; [|reflexivity].
  apply existsb_exists in E as (x & Hx & Hk). apply N.eqb_eq in Hk. subst. contradiction.
Qed.

(* ------------------------------------------------------------------ *)
(* fixed width *)

Lemma rt_read_be w n rest :
  n < 256 ^ N.of_nat w -> run (read_be w) (be_enc w n ++ rest) = Ok (n, rest).
Proof.
  intros H. unfold read_be.
  erewrite run_bind_ok by (rewrite <- (be_enc_lenN w n); apply run_read_exact_app).
  rewrite run_ret, be_dec_enc by exact H. reflexivity.
Qed.

Lemma rt_u8 n rest : n <? P8 = true -> run read_u8 (enc_u8 n ++ rest) = Ok (n, rest).
Proof. intros H. apply N.ltb_lt in H. apply rt_read_be. exact H. Qed.
Lemma rt_u32 n rest : n <? P32 = true -> run read_u32 (enc_u32 n ++ rest) = Ok (n, rest).
Proof. intros H. apply N.ltb_lt in H. apply rt_read_be. exact H. Qed.
Lemma rt_u64 n rest : n <? P64 = true -> run read_u64 (enc_u64 n ++ rest) = Ok (n, rest).
Proof. intros H. apply N.ltb_lt in H. apply rt_read_be. exact H. Qed.

Lemma rt_i64 z rest : i64_okb z = true -> run read_i64 (enc_i64 z ++ rest) = Ok (z, rest).
Proof.
  intros H. unfold read_i64, enc_i64.
  erewrite run_bind_ok by (change 8 with (N.of_nat 8); rewrite <- (be_enc_lenN 8 (u64_of_i64 z)); apply run_read_exact_app).
  rewrite run_ret. fold (i64_enc z). rewrite i64_dec_enc by exact H. reflexivity.
Qed.

Lemma rt_opt_i64 o rest :
  wf_opt i64_okb o = true -> run read_opt_i64 (enc_opt_i64 o ++ rest) = Ok (o, rest).
Proof.
  intros H. unfold read_opt_i64. destruct o as [z|]; cbn [enc_opt_i64 wf_opt] in *.
  - rewrite <- app_assoc. erewrite run_bind_ok by (apply rt_u8; reflexivity).
    cbn [N.eqb Pos.eqb]. erewrite run_bind_ok by (apply rt_i64; exact H). reflexivity.
  - erewrite run_bind_ok by (apply rt_u8; reflexivity). reflexivity.
Qed.

(* ------------------------------------------------------------------ *)
(* read_vec *)

Lemma read_chunks_ok fuel : forall len acc data rest,
  lenN acc + lenN data = len -> (length data < fuel)%nat -> len <= ISIZE_MAX ->
  run (read_chunks fuel len acc) (data ++ rest) = Ok (acc ++ data, rest).
Proof.
  induction fuel as [|f IH]; intros len acc data rest Hlen Hf Hmax; [lia|].
  unfold run. rewrite read_chunks_S.
  destruct (N.leb_spec len (lenN acc)) as [Hle|Hgt].
  - assert (data = []) by (apply lenN_zero_nil; lia). subst data.
    cbn [app]. rewrite app_nil_r. reflexivity.
  - set (n := N.min (len - lenN acc) CHUNK).
    assert (Hn1 : 1 <= n) by (unfold n, CHUNK; lia).
    assert (Hn2 : n <= lenN data) by (unfold n; lia).
    pose (c := firstn (N.to_nat n) data). pose (d := skipn (N.to_nat n) data).
    assert (Hcd : data = c ++ d) by (symmetry; apply firstn_skipn).
    assert (Hc : lenN c = n).
    { unfold c, lenN in *. rewrite firstn_length. lia. }
    assert (Hd : (length d < f)%nat).
    { unfold d. rewrite skipn_length. unfold lenN in Hn2. lia. }
    fold (run (bind (alloc (lenN acc + n)) (fun _ => bind (read_exact n) (fun c0 => read_chunks f len (acc ++ c0)))) (data ++ rest)).
    erewrite run_bind_ok by (apply run_alloc; unfold n; lia).
    rewrite Hcd, <- app_assoc.
    erewrite run_bind_ok by (rewrite <- Hc; apply run_read_exact_app).
    rewrite IH; [rewrite app_assoc; reflexivity | | exact Hd | exact Hmax].
    rewrite lenN_app, Hc. rewrite Hcd, lenN_app, Hc in Hlen. lia.
Qed.

Lemma rt_read_vec data rest :
  lenN data <= ISIZE_MAX -> run (read_vec (lenN data)) (data ++ rest) = Ok (data, rest).
Proof.
  intros H. rewrite run_read_vec.
  erewrite run_bind_ok by (apply run_alloc; unfold CHUNK; lia).
  rewrite read_chunks_ok with (acc := []); [reflexivity | rewrite lenN_nil; lia | | exact H].
  rewrite app_length. lia.
Qed.

Lemma wf_uri_spec valid u :
  wf_uri valid u = true -> bytes_okb u = true /\ valid u = true /\ lenN u < P32.
Proof. unfold wf_uri. rewrite !andb_true_iff, N.ltb_lt. tauto. Qed.

Lemma P32_le_isize (u : list N) : lenN u < P32 -> lenN u <= ISIZE_MAX.
Proof. unfold P32, ISIZE_MAX. lia. Qed.

Lemma rt_uri valid u rest :
  wf_uri valid u = true -> run (read_uri valid) (enc_uri u ++ rest) = Ok (u, rest).
Proof.
  intros H. apply wf_uri_spec in H as (_ & Hv & Hl).
  unfold read_uri, enc_uri. rewrite <- app_assoc.
  erewrite run_bind_ok by (apply rt_u32; apply N.ltb_lt; exact Hl).
  erewrite run_bind_ok by (apply rt_read_vec; apply P32_le_isize; exact Hl).
  rewrite Hv. reflexivity.
Qed.

Lemma rt_rsync rv u rest : wf_uri rv u = true -> run (read_rsync rv) (enc_uri u ++ rest) = Ok (u, rest).
Proof. apply rt_uri. Qed.
Lemma rt_https hv u rest : wf_uri hv u = true -> run (read_https hv) (enc_uri u ++ rest) = Ok (u, rest).
Proof. apply rt_uri. Qed.

Section WithUri.
Variable hv : list N -> bool.
Hypothesis hv_nonempty : hv [] = false.

Lemma rt_opt_https o rest :
  wf_opt (wf_uri hv) o = true -> run (read_opt_https hv) (enc_opt_https o ++ rest) = Ok (o, rest).
Proof.
  intros H. unfold read_opt_https. destruct o as [u|]; cbn [enc_opt_https wf_opt] in *.
  - apply wf_uri_spec in H as (_ & Hv & Hl).
    unfold enc_uri. rewrite <- app_assoc.
    erewrite run_bind_ok by (apply rt_u32; apply N.ltb_lt; exact Hl).
    destruct (N.eqb_spec (lenN u) 0) as [E|E].
    + apply lenN_zero_nil in E. subst u. congruence.
    + erewrite run_bind_ok by (apply rt_read_vec; apply P32_le_isize; exact Hl).
      rewrite Hv. reflexivity.
  - rewrite <- (app_nil_l rest) at 1. rewrite app_nil_l.
    erewrite run_bind_ok by (apply rt_u32; reflexivity). reflexivity.
Qed.

End WithUri.

Lemma wf_blob_spec d : wf_blob d = true -> bytes_okb d = true /\ lenN d <= ISIZE_MAX.
Proof. unfold wf_blob. rewrite andb_true_iff, N.leb_le. tauto. Qed.

Lemma rt_bytes d rest : wf_blob d = true -> run read_bytes (enc_bytes d ++ rest) = Ok (d, rest).
Proof.
  intros H. apply wf_blob_spec in H as (_ & Hl).
  unfold read_bytes, enc_bytes. rewrite <- app_assoc.
  erewrite run_bind_ok by (apply rt_u64; apply N.ltb_lt; unfold P64, ISIZE_MAX in *; lia).
  apply rt_read_vec. exact Hl.
Qed.

Lemma rt_opt_bytes o rest :
  wf_opt wf_blob o = true -> run read_opt_bytes (enc_opt_bytes o ++ rest) = Ok (o, rest).
Proof.
  intros H. unfold read_opt_bytes. destruct o as [d|]; cbn [enc_opt_bytes wf_opt] in *.
  - apply wf_blob_spec in H as (_ & Hl).
    unfold enc_bytes. rewrite <- app_assoc.
    erewrite run_bind_ok by (apply rt_u64; apply N.ltb_lt; unfold P64, ISIZE_MAX in *; lia).
    destruct (N.eqb_spec (lenN d) U64_MAX) as [E|E]; [unfold U64_MAX, ISIZE_MAX in *; lia|].
    erewrite run_bind_ok by (apply rt_read_vec; exact Hl). reflexivity.
  - erewrite run_bind_ok by (apply rt_u64; reflexivity). reflexivity.
Qed.

(* ------------------------------------------------------------------ *)
(* fixed-size blobs, times *)

Lemma rt_fixed (w : nat) d rest :
  wf_fixed w d = true -> run (read_exact (N.of_nat w)) (enc_raw d ++ rest) = Ok (d, rest).
Proof.
  intros H. apply wf_fixed_spec in H as (_ & Hl). unfold enc_raw.
  rewrite <- Hl. apply run_read_exact_app.
Qed.

Lemma rt_uuid d rest : wf_fixed 16 d = true -> run read_uuid (enc_raw d ++ rest) = Ok (d, rest).
Proof. apply (rt_fixed 16). Qed.
Lemma rt_hash d rest : wf_fixed 32 d = true -> run read_hash (enc_raw d ++ rest) = Ok (d, rest).
Proof. apply (rt_fixed 32). Qed.

Lemma rt_serial d rest : wf_serial d = true -> run read_serial (enc_raw d ++ rest) = Ok (d, rest).
Proof.
  intros H. unfold wf_serial in H. apply andb_true_iff in H as [H1 H2].
  unfold read_serial. erewrite run_bind_ok by (apply (rt_fixed 20); exact H1).
  rewrite H2. reflexivity.
Qed.

Lemma time_okb_i64 t : time_okb t = true -> i64_okb t = true.
Proof.
  unfold time_okb, i64_okb, TIME_MIN, TIME_MAX, I64_MIN, I64_MAX.
  rewrite !andb_true_iff, !Z.leb_le. lia.
Qed.

Lemma rt_time t rest : time_okb t = true -> run read_time (enc_time t ++ rest) = Ok (t, rest).
Proof.
  intros H. unfold read_time, enc_time.
  erewrite run_bind_ok by (apply rt_i64; apply time_okb_i64; exact H).
  rewrite H. reflexivity.
Qed.

Lemma rt_opt_time o rest :
  wf_opt time_okb o = true -> run read_opt_time (enc_opt_time o ++ rest) = Ok (o, rest).
Proof.
  intros H. unfold read_opt_time. destruct o as [t|]; cbn [enc_opt_time wf_opt] in *.
  - erewrite run_bind_ok by (apply rt_i64; apply time_okb_i64; exact H).
    destruct (Z.eqb_spec t I64_MIN) as [E|E].
    + subst t. discriminate H.
    + rewrite H. reflexivity.
  - erewrite run_bind_ok by (apply rt_i64; reflexivity). reflexivity.
Qed.

(* ------------------------------------------------------------------ *)
(* hash maps *)

Definition entry_ok (e : N * list N) : bool := (fst e <? P64) && wf_fixed 32 (snd e).

Lemma entries_length m : (length m <= length (flat_map enc_entry m))%nat.
Proof.
  induction m as [|e m IH]; [cbn; lia|].
  cbn [flat_map length]. rewrite app_length. unfold enc_entry at 1, enc_u64.
  rewrite app_length, be_enc_length. lia.
Qed.

Lemma read_entries_ok : forall m fuel seen rest,
  (length m < fuel)%nat ->
  forallb entry_ok m = true -> NoDup (map fst m) ->
  (forall k, In k (map fst m) -> ~ In k seen) ->
  (lenN seen + lenN m) * ENTRY <= ISIZE_MAX ->
  run (read_entries fuel (lenN m) seen) (flat_map enc_entry m ++ rest) = Ok (m, rest).
Proof.
  induction m as [|[k h] m IH]; intros fuel seen rest Hf Hok Hnd Hseen Hmax.
  - destruct fuel; [lia|]. unfold run. rewrite read_entries_S. reflexivity.
  - destruct fuel as [|f]; [cbn in Hf; lia|].
    cbn [forallb] in Hok. apply andb_true_iff in Hok as [Hk Hok].
    unfold entry_ok in Hk. cbn [fst snd] in Hk. apply andb_true_iff in Hk as [Hk Hh].
    cbn [map fst] in Hnd, Hseen. inversion Hnd as [|? ? Hnotin Hnd']; subst.
    unfold run. rewrite read_entries_S.
    destruct (N.eqb_spec (lenN ((k, h) :: m)) 0) as [E|_]; [rewrite lenN_cons in E; lia|].
    fold (run (bind read_u64 (fun k0 =>
         bind read_hash (fun h0 =>
           if existsb (N.eqb k0) seen then fail_format
           else bind (alloc ((lenN seen + 1) * ENTRY)) (fun _ =>
                  bind (read_entries f (lenN ((k, h) :: m) - 1) (k0 :: seen)) (fun tl => ret ((k0, h0) :: tl))))))
         (flat_map enc_entry ((k, h) :: m) ++ rest)).
    cbn [flat_map]. unfold enc_entry at 1. cbn [fst snd]. rewrite <- !app_assoc.
    erewrite run_bind_ok by (apply rt_u64; exact Hk).
    erewrite run_bind_ok by (apply rt_hash; exact Hh).
    rewrite existsb_notin by (apply Hseen; left; reflexivity).
    rewrite lenN_cons in Hmax.
    erewrite run_bind_ok by (apply run_alloc; unfold ENTRY in *; lia).
    replace (lenN ((k, h) :: m) - 1) with (lenN m) by (rewrite lenN_cons; lia).
    erewrite run_bind_ok; [reflexivity|].
    apply IH.
    + cbn [length] in Hf. lia.
    + exact Hok.
    + exact Hnd'.
    + intros k' Hin [E|Hin']; [subst; contradiction|]. apply (Hseen k'); [right; exact Hin | exact Hin'].
    + rewrite lenN_cons. unfold ENTRY in *. lia.
Qed.

Lemma rt_map m rest : wf_map m = true -> run read_map (enc_map m ++ rest) = Ok (m, rest).
Proof.
  intros H. unfold wf_map in H. apply andb_true_iff in H as [H Hl]. apply andb_true_iff in H as [Hok Hnd].
  apply N.leb_le in Hl. apply nodupb_spec in Hnd.
  unfold read_map, enc_map. rewrite <- app_assoc.
  erewrite run_bind_ok by (apply rt_u64; apply N.ltb_lt; unfold P64, ISIZE_MAX, ENTRY in *; lia).
  erewrite run_bind_ok by (apply run_alloc; unfold MAP_PREALLOC, ISIZE_MAX, ENTRY in *; lia).
  cbv beta. rewrite run_entries_top. apply read_entries_ok.
  - rewrite app_length. pose proof (entries_length m). lia.
  - exact Hok.
  - exact Hnd.
  - intros k _ [].
  - rewrite lenN_nil. lia.
Qed.

(* ------------------------------------------------------------------ *)
(* records *)

Ltac step lem := erewrite run_bind_ok by (apply lem; assumption).

Lemma rt_status s rest : wf_status s = true -> run read_status (enc_status s ++ rest) = Ok (s, rest).
Proof.
  intros H. unfold read_status. destruct s as [t|t]; cbn [enc_status wf_status] in *; rewrite <- app_assoc.
  - erewrite run_bind_ok by (apply rt_u8; reflexivity). cbn [N.eqb]. step rt_time. reflexivity.
  - erewrite run_bind_ok by (apply rt_u8; reflexivity). cbn [N.eqb Pos.eqb]. step rt_time. reflexivity.
Qed.

Lemma rt_stored_status t rest :
  time_okb t = true -> run read_stored_status (enc_stored_status t ++ rest) = Ok (t, rest).
Proof.
  intros H. unfold read_stored_status, enc_stored_status. rewrite <- app_assoc.
  erewrite run_bind_ok by (apply rt_u8; reflexivity). cbn [N.eqb negb]. apply rt_time. exact H.
Qed.

Section Records.
Variables rv hv : list N -> bool.
Hypothesis hv_nonempty : hv [] = false.

Lemma rt_header h rest :
  wf_header rv hv h = true -> run (read_header rv hv) (enc_header h ++ rest) = Ok (h, rest).
Proof.
  intros H. unfold wf_header in H. apply andb_true_iff in H as [H H3]. apply andb_true_iff in H as [H1 H2].
  unfold read_header, enc_header. rewrite <- !app_assoc.
  erewrite run_bind_ok by (apply rt_u8; reflexivity). cbn [N.eqb Pos.eqb negb].
  step rt_rsync. erewrite run_bind_ok by (apply rt_opt_https; assumption). step rt_status.
  destruct h; reflexivity.
Qed.

Lemma rt_manifest m rest :
  wf_manifest rv m = true -> run (read_manifest rv) (enc_manifest m ++ rest) = Ok (m, rest).
Proof.
  intros H. unfold wf_manifest in H. do 6 (apply andb_true_iff in H as [H ?]).
  unfold read_manifest, enc_manifest. rewrite <- !app_assoc.
  step rt_time. step rt_serial. step rt_time. step rt_rsync. step rt_bytes. step rt_rsync. step rt_bytes.
  destruct m; reflexivity.
Qed.

Lemma run_eof_is_none_ok {A} (r : reader A) b a b' :
  run r b = Ok (a, b') -> run (eof_is_none r) b = Ok (Some a, b').
Proof. unfold run, eof_is_none. destruct (r b) as [x t]. cbn [fst]. intros ->. reflexivity. Qed.

Lemma rt_object o rest :
  wf_object rv o = true -> run (read_object rv) (enc_object o ++ rest) = Ok (Some o, rest).
Proof.
  intros H. unfold wf_object in H. apply andb_true_iff in H as [H H3]. apply andb_true_iff in H as [H1 H2].
  unfold read_object, enc_object. rewrite <- !app_assoc.
  erewrite run_bind_ok by (apply run_eof_is_none_ok; apply rt_rsync; assumption).
  destruct o as [u [h|] c]; cbn [o_hash o_uri o_content wf_opt] in *; rewrite <- ?app_assoc.
  - erewrite run_bind_ok by (apply rt_u8; reflexivity). cbn [N.eqb Pos.eqb].
    erewrite run_bind_ok.
    2:{ erewrite run_bind_ok by (apply run_alloc; unfold ISIZE_MAX; lia).
        erewrite run_bind_ok by (apply (rt_fixed 32); exact H2). apply run_ret. }
    step rt_bytes. reflexivity.
  - erewrite run_bind_ok by (apply rt_u8; reflexivity). cbn [N.eqb].
    erewrite run_bind_ok by apply run_ret.
    step rt_bytes. reflexivity.
Qed.

Lemma rt_state s rest :
  wf_state hv s = true -> run (read_state hv) (enc_state s ++ rest) = Ok (s, rest).
Proof.
  intros H. unfold wf_state in H. do 7 (apply andb_true_iff in H as [H ?]).
  unfold read_state, enc_state. rewrite <- !app_assoc.
  erewrite run_bind_ok by (apply rt_u8; reflexivity). cbn [N.eqb Pos.eqb negb].
  step rt_https. step rt_uuid. step rt_u64. step rt_i64. step rt_i64. step rt_opt_i64.
  step rt_opt_bytes. step rt_map.
  destruct s; reflexivity.
Qed.

(* every kind *)
Theorem rt_value v rest :
  wf_value rv hv v = true -> run (decode rv hv (kind_of v)) (encode v ++ rest) = Ok (v, rest).
Proof.
  intros H. destruct v; cbn [kind_of decode encode wf_value] in *; unfold rmap;
    try discriminate H.
  - step rt_u8. reflexivity.
  - step rt_u32. reflexivity.
  - step rt_u64. reflexivity.
  - step rt_i64. reflexivity.
  - step rt_opt_i64. reflexivity.
  - step rt_rsync. reflexivity.
  - step rt_https. reflexivity.
  - erewrite run_bind_ok by (apply rt_opt_https; assumption). reflexivity.
  - step rt_bytes. reflexivity.
  - step rt_opt_bytes. reflexivity.
  - step rt_uuid. reflexivity.
  - step rt_hash. reflexivity.
  - step rt_serial. reflexivity.
  - step rt_time. reflexivity.
  - step rt_opt_time. reflexivity.
  - step rt_map. reflexivity.
  - erewrite run_bind_ok by (apply rt_header; assumption). reflexivity.
  - step rt_status. reflexivity.
  - step rt_manifest. reflexivity.
  - step rt_object. reflexivity.
  - step rt_stored_status. reflexivity.
  - step rt_state. reflexivity.
Qed.

End Records.
