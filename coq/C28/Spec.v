(* C28: the property as an executable oracle, and the case checker of the
   correspondence run.  No proofs here.

   One case = one value [c_val] of some record type (hash maps listed in the
   order the implementation's HashMap iterated them), the bytes [c_rest]
   that followed it in the input, what the real encoder wrote ([c_enc]) and
   what the real decoder returned on [c_enc ++ c_rest] ([c_dec]). *)
From Coq Require Import List NArith ZArith Bool.
From RV Require Export C28.Model C28.Values.
Import ListNotations.
Local Open Scope N_scope.

Record obs := { o_enc : option (list N); o_dec : dres }.

Definition model_obs (v : value) (rest : list N) : obs :=
  {| o_enc := Some (encode v);
     o_dec := dres_of (run (decodeC (kind_of v)) (encode v ++ rest)) |}.

(* C28, executable: the value was written, and reading the written bytes
   (whatever follows them) yields an equal value and leaves exactly what followed *)
Definition spec_okb (v : value) (rest : list N) (o : obs) : bool :=
  match o_enc o, o_dec o with
  | Some _, DOk v' rest' => value_eqb v' v && bytes_eqb rest' rest
  | _, _ => false
  end.

(* Result codes: 0 property holds on the implementation's output, the model
   encoder produces the same bytes and the model decoder returns on the
   implementation's bytes what the implementation's decoder returned;
   1 property holds but model and implementation differ; 2 the property fails
   on the implementation's output; 9 the value is not well-formed. *)
Record case := { c_val : value; c_rest : list N; c_enc : option (list N); c_dec : dres }.

Definition check_case (c : case) : N :=
  if negb (wf_valueC (c_val c) && bytes_okb (c_rest c)) then 9
  else if negb (spec_okb (c_val c) (c_rest c) {| o_enc := c_enc c; o_dec := c_dec c |}) then 2
  else match c_enc c with
       | Some e =>
           if bytes_eqb e (encode (c_val c))
              && dres_eqb (dres_of (run (decodeC (kind_of (c_val c))) (e ++ c_rest c))) (c_dec c)
           then 0 else 1
       | None => 1
       end.
