(* C28: the model satisfies the executable oracle of C28/Spec.v. *)
From Coq Require Import List NArith ZArith Lia Bool.
From RV Require Import Base.Bytes C28.Model C28.Values C28.Spec C28.Proofs.
Import ListNotations.
Local Open Scope N_scope.

Lemma opt_eqb_refl {A} (f : A -> A -> bool) (o : option A) :
  (forall x, f x x = true) -> opt_eqb f o o = true.
Proof. intros H. destruct o; [apply H | reflexivity]. Qed.

Lemma entries_eqb_refl m : entries_eqb m m = true.
Proof.
  induction m as [|[k h] m IH]; [reflexivity|].
  cbn [entries_eqb]. rewrite N.eqb_refl, bytes_eqb_refl, IH. reflexivity.
Qed.

Lemma map_eqb_refl m : map_eqb m m = true.
Proof. apply entries_eqb_refl. Qed.

Lemma status_eqb_refl s : status_eqb s s = true.
Proof. destruct s; cbn; apply Z.eqb_refl. Qed.

Lemma value_eqb_refl v : value_eqb v v = true.
Proof.
  destruct v; cbn [value_eqb];
    rewrite ?N.eqb_refl, ?Z.eqb_refl, ?bytes_eqb_refl, ?map_eqb_refl, ?status_eqb_refl;
    try reflexivity;
    try (apply opt_eqb_refl; (apply Z.eqb_refl || apply bytes_eqb_refl)).
  - destruct h as [m n s]. unfold header_eqb. cbn [h_manifest_uri h_rpki_notify h_status].
    rewrite bytes_eqb_refl, status_eqb_refl, (opt_eqb_refl bytes_eqb n bytes_eqb_refl). reflexivity.
  - destruct m. unfold manifest_eqb. cbn.
    rewrite !Z.eqb_refl, !bytes_eqb_refl. reflexivity.
  - destruct o as [u h c]. unfold object_eqb. cbn [o_uri o_hash o_content].
    rewrite !bytes_eqb_refl, (opt_eqb_refl bytes_eqb h bytes_eqb_refl). reflexivity.
  - destruct s as [a b c d e f g h]. unfold state_eqb.
    cbn [s_notify s_session s_serial s_updated s_best_before s_last_modified s_etag s_deltas].
    rewrite !bytes_eqb_refl, N.eqb_refl, !Z.eqb_refl, map_eqb_refl,
      (opt_eqb_refl Z.eqb f Z.eqb_refl), (opt_eqb_refl bytes_eqb g bytes_eqb_refl). reflexivity.
Qed.

Lemma https_validb_nonempty : https_validb [] = false.
Proof. reflexivity. Qed.

Theorem model_satisfies_spec v rest :
  wf_valueC v = true -> spec_okb v rest (model_obs v rest) = true.
Proof.
  intros H. unfold spec_okb, model_obs, decodeC. cbn [o_enc o_dec].
  rewrite (rt_value rsync_validb https_validb https_validb_nonempty v rest H).
  cbn [dres_of]. rewrite value_eqb_refl, bytes_eqb_refl. reflexivity.
Qed.
