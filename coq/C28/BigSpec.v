(* C28, stream `big`: round trips of records that are too large to be written out as Coq terms (a delta map
   of more than 65536 entries is 2.6 MB).  The implementation encodes and decodes, the harness compares the
   value read back with the value written; Coq judges the digest.  Oracle only: the theorems of C28 cover
   values of every size, the tie for these sizes is this digest. *)
From Coq Require Import List NArith Bool.
Import ListNotations.
Local Open Scope N_scope.

Record bcase := {
  b_state : bool;      (* a whole repository state record (true) or the bare map (false) *)
  b_n : N;             (* entries of the delta map *)
  b_rest : N;          (* bytes appended behind the record *)
  i_enc_len : N; i_dec_ok : bool; i_entries : N; i_rest : N; i_equal : bool }.

(* the map is written as a u64 count and 40 bytes per entry *)
Definition check_bcase (c : bcase) : N :=
  if i_dec_ok c && i_equal c && (i_entries c =? b_n c) && (i_rest c =? b_rest c)
     && (if b_state c then 8 + 40 * b_n c <? i_enc_len c else i_enc_len c =? 8 + 40 * b_n c)
  then 0 else 2.
