(* C28 — Every persisted record reads back as written.
   Only statements, [exact], an [Example] of non-vacuity and [Check] pins.

   Shape of every theorem: for every well-formed value v and every byte string
   rest, running the decoder on (encoding of v) ++ rest returns v and leaves
   exactly rest — the value is read back equal and exactly the bytes written
   are consumed.  Well-formed = what the Rust types guarantee (C28/Model.v,
   [wf_*]): URIs are accepted by rpki's from_bytes (an arbitrary predicate
   [rv]/[hv] here; the only fact used is that the empty string is not an https
   URI) and shorter than 2^32, byte strings fit in memory, times are whole
   seconds in chrono's range, serial numbers are 20 octets with a clear top
   bit, hashes are 32 octets, map keys are distinct.  Times with a sub-second
   part (Time::now()) are written truncated to the second: DESIGN.md section 8. *)
From Coq Require Import List NArith ZArith Bool.
From RV Require Import Base.Bytes C28.Model C28.Values C28.Spec C28.Proofs C28.SpecProofs.
Import ListNotations.
Local Open Scope N_scope.

(* ---------------- src/utils/binio.rs ---------------- *)

Theorem C28_roundtrip_u8 : forall n rest, n <? P8 = true -> run read_u8 (enc_u8 n ++ rest) = Ok (n, rest).
Proof. exact rt_u8. Qed.
Theorem C28_roundtrip_u32 : forall n rest, n <? P32 = true -> run read_u32 (enc_u32 n ++ rest) = Ok (n, rest).
Proof. exact rt_u32. Qed.
Theorem C28_roundtrip_u64 : forall n rest, n <? P64 = true -> run read_u64 (enc_u64 n ++ rest) = Ok (n, rest).
Proof. exact rt_u64. Qed.
Theorem C28_roundtrip_i64 : forall z rest, i64_okb z = true -> run read_i64 (enc_i64 z ++ rest) = Ok (z, rest).
Proof. exact rt_i64. Qed.
Theorem C28_roundtrip_opt_i64 : forall o rest,
  wf_opt i64_okb o = true -> run read_opt_i64 (enc_opt_i64 o ++ rest) = Ok (o, rest).
Proof. exact rt_opt_i64. Qed.
Theorem C28_roundtrip_rsync : forall rv u rest,
  wf_uri rv u = true -> run (read_rsync rv) (enc_uri u ++ rest) = Ok (u, rest).
Proof. exact rt_rsync. Qed.
Theorem C28_roundtrip_https : forall hv u rest,
  wf_uri hv u = true -> run (read_https hv) (enc_uri u ++ rest) = Ok (u, rest).
Proof. exact rt_https. Qed.
Theorem C28_roundtrip_opt_https : forall hv, hv [] = false -> forall o rest,
  wf_opt (wf_uri hv) o = true -> run (read_opt_https hv) (enc_opt_https o ++ rest) = Ok (o, rest).
Proof. exact rt_opt_https. Qed.
Theorem C28_roundtrip_bytes : forall d rest, wf_blob d = true -> run read_bytes (enc_bytes d ++ rest) = Ok (d, rest).
Proof. exact rt_bytes. Qed.
Theorem C28_roundtrip_opt_bytes : forall o rest,
  wf_opt wf_blob o = true -> run read_opt_bytes (enc_opt_bytes o ++ rest) = Ok (o, rest).
Proof. exact rt_opt_bytes. Qed.
Theorem C28_roundtrip_uuid : forall d rest, wf_fixed 16 d = true -> run read_uuid (enc_raw d ++ rest) = Ok (d, rest).
Proof. exact rt_uuid. Qed.
Theorem C28_roundtrip_hash : forall d rest, wf_fixed 32 d = true -> run read_hash (enc_raw d ++ rest) = Ok (d, rest).
Proof. exact rt_hash. Qed.
Theorem C28_roundtrip_serial : forall d rest, wf_serial d = true -> run read_serial (enc_raw d ++ rest) = Ok (d, rest).
Proof. exact rt_serial. Qed.
Theorem C28_roundtrip_time : forall t rest, time_okb t = true -> run read_time (enc_time t ++ rest) = Ok (t, rest).
Proof. exact rt_time. Qed.
Theorem C28_roundtrip_opt_time : forall o rest,
  wf_opt time_okb o = true -> run read_opt_time (enc_opt_time o ++ rest) = Ok (o, rest).
Proof. exact rt_opt_time. Qed.

(* HashMap<u64, rrdp::Hash>: [m] lists the entries in the order the encoder
   iterates the map — any order at all, the keys only have to be distinct. *)
Theorem C28_roundtrip_map : forall m rest, wf_map m = true -> run read_map (enc_map m ++ rest) = Ok (m, rest).
Proof. exact rt_map. Qed.

(* ---------------- src/store.rs ---------------- *)

Theorem C28_roundtrip_update_status : forall s rest,
  wf_status s = true -> run read_status (enc_status s ++ rest) = Ok (s, rest).
Proof. exact rt_status. Qed.
Theorem C28_roundtrip_header : forall rv hv, hv [] = false -> forall h rest,
  wf_header rv hv h = true -> run (read_header rv hv) (enc_header h ++ rest) = Ok (h, rest).
Proof. exact rt_header. Qed.
Theorem C28_roundtrip_manifest : forall rv m rest,
  wf_manifest rv m = true -> run (read_manifest rv) (enc_manifest m ++ rest) = Ok (m, rest).
Proof. exact rt_manifest. Qed.
Theorem C28_roundtrip_object : forall rv o rest,
  wf_object rv o = true -> run (read_object rv) (enc_object o ++ rest) = Ok (Some o, rest).
Proof. exact rt_object. Qed.
Theorem C28_roundtrip_stored_status : forall t rest,
  time_okb t = true -> run read_stored_status (enc_stored_status t ++ rest) = Ok (t, rest).
Proof. exact rt_stored_status. Qed.

(* ---------------- src/collector/rrdp/archive.rs ---------------- *)

Theorem C28_roundtrip_state : forall hv s rest,
  wf_state hv s = true -> run (read_state hv) (enc_state s ++ rest) = Ok (s, rest).
Proof. exact rt_state. Qed.

(* ---------------- all of them, and the oracle ---------------- *)

Theorem C28_roundtrip_value : forall rv hv, hv [] = false -> forall v rest,
  wf_value rv hv v = true -> run (decode rv hv (kind_of v)) (encode v ++ rest) = Ok (v, rest).
Proof. exact rt_value. Qed.

(* the empty string is not an https URI for rpki (Https::from_bytes needs the scheme) *)
Theorem C28_https_nonempty : https_validb [] = false.
Proof. exact https_validb_nonempty. Qed.

(* the executable oracle evaluated on the implementation's output is satisfied by the model on every input *)
Theorem C28_model_satisfies_spec : forall v rest,
  wf_valueC v = true -> spec_okb v rest (model_obs v rest) = true.
Proof. exact model_satisfies_spec. Qed.

(* premises are satisfiable on non-trivial values; the encodings are the ones Routinator writes *)
Example C28_nonvacuous :
  let h := mkHeader [114; 115; 121; 110; 99; 58; 47; 47; 97; 47; 98; 47; 99] None (LastAttempt 1700000000%Z) in
  let st := mkState [104; 116; 116; 112; 115; 58; 47; 47; 104; 47; 110]
              [1; 2; 3; 4; 5; 6; 7; 8; 9; 10; 11; 12; 13; 14; 15; 16] 7 (-12)%Z 5%Z (Some 0%Z) (Some [34; 97; 34])
              [(19, arith 3 1 32); (18, arith 200 5 32)] in
  wf_header rsync_validb https_validb h = true /\
  enc_header h = [2; 0; 0; 0; 13; 114; 115; 121; 110; 99; 58; 47; 47; 97; 47; 98; 47; 99;
                  0; 0; 0; 0; 1; 0; 0; 0; 0; 101; 83; 241; 0] /\
  wf_state https_validb st = true /\
  lenN (enc_state st) = 164 /\
  firstn 5 (enc_state st) = [1; 0; 0; 0; 11] /\
  run (read_state https_validb) (enc_state st ++ [9; 9]) = Ok (st, [9; 9]).
Proof. vm_compute. repeat split; reflexivity. Qed.

Check C28_roundtrip_value : forall rv hv, hv [] = false -> forall v rest,
  wf_value rv hv v = true -> run (decode rv hv (kind_of v)) (encode v ++ rest) = Ok (v, rest).
Check C28_roundtrip_header : forall rv hv, hv [] = false -> forall h rest,
  wf_header rv hv h = true -> run (read_header rv hv) (enc_header h ++ rest) = Ok (h, rest).
Check C28_roundtrip_manifest : forall rv m rest,
  wf_manifest rv m = true -> run (read_manifest rv) (enc_manifest m ++ rest) = Ok (m, rest).
Check C28_roundtrip_object : forall rv o rest,
  wf_object rv o = true -> run (read_object rv) (enc_object o ++ rest) = Ok (Some o, rest).
Check C28_roundtrip_stored_status : forall t rest,
  time_okb t = true -> run read_stored_status (enc_stored_status t ++ rest) = Ok (t, rest).
Check C28_roundtrip_state : forall hv s rest,
  wf_state hv s = true -> run (read_state hv) (enc_state s ++ rest) = Ok (s, rest).
Check C28_roundtrip_map : forall m rest, wf_map m = true -> run read_map (enc_map m ++ rest) = Ok (m, rest).
Check C28_model_satisfies_spec : forall v rest,
  wf_valueC v = true -> spec_okb v rest (model_obs v rest) = true.
