(* C14 — Serials advance once per change and retained history is bounded. *)
From Coq Require Import List NArith Bool.
From RV Require Import Base.KMap Base.Serial32 C11.Model C11.Proofs C13.Model C13.Proofs C13.Spec C13.SpecProofs.
Import ListNotations.
Local Open Scope N_scope.

(* the serial moves by exactly one (mod 2^32) when an active history receives a different data set,
   and not at all otherwise *)
Theorem C14_serial_step : forall h s,
  serial (fst (update h s)) = if is_active h && snd (update h s) then sadd (serial h) 1 else serial h.
Proof. exact update_serial. Qed.

(* "changed" is reported exactly when the data set differs from the current one (or there was none) *)
Theorem C14_changed_iff : forall h w s, Reach h w -> snap_sorted s ->
  (snd (update h s) = true <-> current h <> Some s).
Proof.
  intros h w s R Ss. apply update_changed; [exact Ss|]. intros c C.
  pose proof (Reach_Inv _ _ R) as HI. pose proof (inv_cur _ _ HI) as IC. rewrite C in IC.
  destruct (wlast w) as [[sn gn]|] eqn:L; [|discriminate]. cbn in IC. inversion IC; subst.
  apply (wlast_sorted _ _ _ (inv_wf _ _ HI) L).
Qed.

Theorem C14_first_serial_zero : forall k s, serial (fst (update (init k) s)) = 0.
Proof. reflexivity. Qed.

(* never more retained change sets than max(history-size, 1), for every configuration *)
Theorem C14_bounded : forall h w, Reach h w -> N.of_nat (length (deltas h)) <= N.max (keep h) 1.
Proof. intros h w R. exact (inv_len h w (Reach_Inv _ _ R)). Qed.

Theorem C14_keep_constant : forall h s, keep (fst (update h s)) = keep h.
Proof. exact update_keep. Qed.

(* the executable oracle of the shared history stream (its C14 part: changed flag, serial steps of exactly
   one per change, first serial 0, at most max(history-size, 1) retained change sets after every update)
   accepts what the model observes, for every start state and sequence of data sets *)
Theorem C14_model_satisfies_spec : forall c, inputs_ok c = true -> c_keep c < H31 ->
  N.of_nat (length (final_issued c)) <= M32 -> spec_okb (model_case c) = true.
Proof. exact model_satisfies_spec. Qed.

Example C14_nonvacuous :
  let a := {| origins := [(1, tt)]; rkeys := []; aspas := [] |} in
  let b := {| origins := []; rkeys := []; aspas := [] |} in
  let run := fold_left (fun h s => fst (update h s)) [a; b; a; b; b; a] (init 0) in
  serial run = 4 /\ length (deltas run) = 1%nat.
Proof. split; reflexivity. Qed.

Check C14_bounded : forall h w, Reach h w -> N.of_nat (length (deltas h)) <= N.max (keep h) 1.
Check C14_serial_step : forall h s,
  serial (fst (update h s)) = if is_active h && snd (update h s) then sadd (serial h) 1 else serial h.
