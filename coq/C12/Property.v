(* C12 — Merged deltas equal the direct delta. *)
From Coq Require Import List NArith Bool.
From RV Require Import Base.KMap C11.Model C11.Proofs C11.Spec C12.Spec C12.Proofs.
Import ListNotations.
Local Open Scope N_scope.

Theorem C12_merge_pair : forall a b c, snap_sorted a -> snap_sorted b -> snap_sorted c ->
  pmerge (pconstruct_raw a b) (pconstruct_raw b c) = pconstruct_raw a c.
Proof. exact pmerge_pconstruct. Qed.

(* any sequence of data sets: folding merge over the consecutive change sets
   (in the order PayloadHistory::delta_since folds them) gives the direct change set *)
Theorem C12_chain_std : forall s0 s1 ss, ksorted s0 -> ksorted s1 -> Forall ksorted ss ->
  fold_left smerge (steps unit_eqb tt s1 ss) (sconstruct s0 s1) = sconstruct s0 (last ss s1).
Proof. exact (fold_merge_chain unit_eqb tt unit_eqb_spec). Qed.

Theorem C12_chain_aspa : forall s0 s1 ss, ksorted s0 -> ksorted s1 -> Forall ksorted ss ->
  fold_left amerge (steps nlist_eqb [] s1 ss) (aconstruct s0 s1) = aconstruct s0 (last ss s1).
Proof. exact (fold_merge_chain nlist_eqb [] nlist_eqb_spec). Qed.

(* runs that did not change the data push no change set; skipping them changes nothing *)
Theorem C12_skip_empty_std : forall ds d,
  fold_left smerge (filter nonempty ds) d = fold_left smerge ds d.
Proof. exact (fold_merge_skip_empty unit_eqb). Qed.
Theorem C12_skip_empty_aspa : forall ds d,
  fold_left amerge (filter nonempty ds) d = fold_left amerge ds d.
Proof. exact (fold_merge_skip_empty nlist_eqb). Qed.

(* hence the catching-up client ends with the same data as the step-by-step client *)
Theorem C12_catch_up : forall a b c, snap_sorted a -> snap_sorted b -> snap_sorted c ->
  papply a (pmerge (pconstruct_raw a b) (pconstruct_raw b c)) =
  papply (papply a (pconstruct_raw a b)) (pconstruct_raw b c).
Proof.
  intros a b c Ha Hb Hc. rewrite pmerge_pconstruct by assumption.
  rewrite !papply_pconstruct by assumption. reflexivity.
Qed.

(* the executable oracle (merged = direct, same order and counts, catches up to the last data set)
   holds of the model's merge of the retained non-empty change sets, for every sequence of data sets *)
Theorem C12_model_satisfies_spec : forall s0 ss, snap_sorted s0 -> Forall snap_sorted ss ->
  spec_okb12 s0 ss (model_merged s0 ss) = true.
Proof. exact model_merged_ok. Qed.

Theorem C12_merged_is_direct : forall s0 ss, snap_sorted s0 -> Forall snap_sorted ss ->
  match merged_of s0 ss with
  | None => forallb pd_is_empty (psteps s0 ss) = true /\ last ss s0 = s0
  | Some d => forallb pd_is_empty (psteps s0 ss) = false /\ d = pconstruct_raw s0 (last ss s0)
  end.
Proof. exact merged_of_spec. Qed.

Example C12_nonvacuous :
  let a := [(10, [1; 2])] in let b := [(10, [3])] in let c := [(10, [1; 2]); (11, [])] in
  ksorted a /\ ksorted b /\ ksorted c /\
  amerge (aconstruct a b) (aconstruct b c) = [(11, ([], Announce))].
Proof. split; [|split; [|split]]; try (apply ksortedb_spec; reflexivity). reflexivity. Qed.

Check C12_merge_pair : forall a b c, snap_sorted a -> snap_sorted b -> snap_sorted c ->
  pmerge (pconstruct_raw a b) (pconstruct_raw b c) = pconstruct_raw a c.
Check C12_chain_aspa : forall s0 s1 ss, ksorted s0 -> ksorted s1 -> Forall ksorted ss ->
  fold_left amerge (steps nlist_eqb [] s1 ss) (aconstruct s0 s1) = aconstruct s0 (last ss s1).
Check C12_model_satisfies_spec : forall s0 ss, snap_sorted s0 -> Forall snap_sorted ss ->
  spec_okb12 s0 ss (model_merged s0 ss) = true.
