(* C12: merging the consecutive change sets of a sequence of data sets.
   Executable oracle and case checker. *)
From Coq Require Import List NArith Bool.
From RV Require Export Base.KMap C11.Model C11.Spec.
Import ListNotations.
Local Open Scope N_scope.

(* consecutive raw change sets (empty ones included) *)
Fixpoint psteps (s0 : snapshot) (ss : list snapshot) : list pdelta :=
  match ss with
  | [] => []
  | s1 :: ss' => pconstruct_raw s0 s1 :: psteps s1 ss'
  end.

Definition pd_nonempty (d : pdelta) : bool := negb (pd_is_empty d).

(* what the history keeps (non-empty change sets only) folded oldest-first with merge,
   as PayloadHistory::delta_since does *)
Definition merged_of (s0 : snapshot) (ss : list snapshot) : option pdelta :=
  match filter pd_nonempty (psteps s0 ss) with
  | [] => None
  | d :: ds => Some (fold_left pmerge ds d)
  end.

Definition obs_of_pdelta (d : pdelta) : obs :=
  {| o_none := false; o_origins := wire_of (d_origins d); o_rkeys := wire_of (d_rkeys d);
     o_aspas := wire_of (d_aspas d); o_alen := pannounce_len d; o_wlen := pwithdraw_len d |}.

Definition obs_none : obs :=
  {| o_none := true; o_origins := []; o_rkeys := []; o_aspas := []; o_alen := 0; o_wlen := 0 |}.

Definition model_merged (s0 : snapshot) (ss : list snapshot) : obs :=
  match merged_of s0 ss with None => obs_none | Some d => obs_of_pdelta d end.

(* The property: the merged change set lists the same actions, in the same order, with the
   same counts, as the direct change set first -> last; applying it to the first data set
   gives the last. [o_none] = no non-empty consecutive change set existed. *)
Definition spec_okb12 (s0 : snapshot) (ss : list snapshot) (merged : obs) : bool :=
  let direct := pconstruct_raw s0 (last ss s0) in
  wl_eqb unit_eqb (o_origins merged) (wire_of (d_origins direct))
  && wl_eqb unit_eqb (o_rkeys merged) (wire_of (d_rkeys direct))
  && wl_eqb nlist_eqb (o_aspas merged) (wire_of (d_aspas direct))
  && (o_alen merged =? pannounce_len direct) && (o_wlen merged =? pwithdraw_len direct)
  && kl_eqb unit_eqb (wapply (origins s0) (o_origins merged)) (origins (last ss s0))
  && kl_eqb unit_eqb (wapply (rkeys s0) (o_rkeys merged)) (rkeys (last ss s0))
  && kl_eqb nlist_eqb (wapply (aspas s0) (o_aspas merged)) (aspas (last ss s0))
  && Bool.eqb (o_none merged) (forallb pd_is_empty (psteps s0 ss)).

Record case := { c_first : snapshot; c_rest : list snapshot; c_merged : obs; c_direct : obs }.

Definition check_case (c : case) : N :=
  if negb (forallb snap_sortedb (c_first c :: c_rest c)) then 9
  else if negb (spec_okb12 (c_first c) (c_rest c) (c_merged c)
                && spec_okb (c_first c) (last (c_rest c) (c_first c)) (c_direct c)) then 2
  else if obs_eqb (model_merged (c_first c) (c_rest c)) (c_merged c)
          && obs_eqb (model_obs (c_first c) (last (c_rest c) (c_first c))) (c_direct c) then 0 else 1.
