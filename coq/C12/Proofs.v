(* C12: the model's merged change set satisfies the oracle for every sequence of data sets. *)
From Coq Require Import List NArith Bool Lia PeanoNat.
From RV Require Import Base.KMap C11.Model C11.Proofs C11.Spec C11.SpecProofs C12.Spec.
Import ListNotations.
Local Open Scope N_scope.

Lemma pd_is_empty_iff d : pd_is_empty d = true <-> d = pd_empty.
Proof.
  destruct d as [o k a]; unfold pd_is_empty, pd_empty; cbn [d_origins d_rkeys d_aspas].
  destruct o, k, a; split; intros H; try discriminate; try reflexivity; inversion H.
Qed.

Lemma pmerge_empty_r d : pmerge d pd_empty = d.
Proof.
  destruct d as [o k a]; unfold pmerge, pd_empty, smerge, amerge; cbn [d_origins d_rkeys d_aspas].
  rewrite !merge_nil_r. reflexivity.
Qed.

Lemma pmerge_empty_l d : pmerge pd_empty d = d.
Proof.
  destruct d as [o k a]; unfold pmerge, pd_empty, smerge, amerge; cbn [d_origins d_rkeys d_aspas].
  rewrite !merge_nil_l, !only2_fm_id. reflexivity.
Qed.

Lemma raw_empty_iff a b : snap_sorted a -> snap_sorted b ->
  (pd_is_empty (pconstruct_raw a b) = true <-> a = b).
Proof.
  intros Ha Hb. rewrite <- (pconstruct_none_iff a b Ha Hb). unfold pconstruct.
  destruct (pd_is_empty (pconstruct_raw a b)); split; congruence.
Qed.

Lemma pfold_chain s0 s1 ss : snap_sorted s0 -> snap_sorted s1 -> Forall snap_sorted ss ->
  fold_left pmerge (psteps s1 ss) (pconstruct_raw s0 s1) = pconstruct_raw s0 (last ss s1).
Proof.
  revert s1; induction ss as [|s2 ss IH]; intros s1 H0 H1 Hs; cbn [psteps fold_left]; [reflexivity|].
  inversion Hs as [|? ? H2 Hs']; subst.
  rewrite pmerge_pconstruct by assumption. rewrite IH by assumption. rewrite last_cons. reflexivity.
Qed.

Lemma pfold_skip_empty ds d :
  fold_left pmerge (filter pd_nonempty ds) d = fold_left pmerge ds d.
Proof.
  revert d; induction ds as [|x ds IH]; intros d; cbn [filter fold_left]; [reflexivity|].
  unfold pd_nonempty at 1. destruct (pd_is_empty x) eqn:E; cbn [negb fold_left].
  - apply pd_is_empty_iff in E. subst x. rewrite pmerge_empty_r. apply IH.
  - apply IH.
Qed.

Lemma merged_of_spec s0 ss : snap_sorted s0 -> Forall snap_sorted ss ->
  match merged_of s0 ss with
  | None => forallb pd_is_empty (psteps s0 ss) = true /\ last ss s0 = s0
  | Some d => forallb pd_is_empty (psteps s0 ss) = false /\ d = pconstruct_raw s0 (last ss s0)
  end.
Proof.
  revert s0; induction ss as [|s1 ss IH]; intros s0 H0 Hs.
  - cbn. split; reflexivity.
  - inversion Hs as [|? ? H1 Hs']; subst. unfold merged_of. cbn [psteps filter forallb].
    unfold pd_nonempty at 1. destruct (pd_is_empty (pconstruct_raw s0 s1)) eqn:E; cbn [negb andb].
    + apply (raw_empty_iff s0 s1 H0 H1) in E. subst s1.
      specialize (IH s0 H0 Hs'). unfold merged_of in IH. rewrite last_cons. exact IH.
    + split; [reflexivity|]. rewrite pfold_skip_empty. rewrite pfold_chain by assumption.
      rewrite last_cons. reflexivity.
Qed.

Lemma wl_eqb_refl {V} (veqb : V -> V -> bool) (Hr : forall v, veqb v v = true) (l : list (N * V * bool)) :
  wl_eqb veqb l l = true.
Proof.
  unfold wl_eqb. rewrite Nat.eqb_refl. cbn [andb].
  induction l as [|[[k v] w] l IH]; cbn [combine forallb]; [reflexivity|].
  rewrite N.eqb_refl, Hr, eqb_reflx, IH. reflexivity.
Qed.

Lemma unit_eqb_refl v : unit_eqb v v = true. Proof. reflexivity. Qed.
Lemma nlist_eqb_refl v : nlist_eqb v v = true.
Proof. destruct (nlist_eqb_spec v v); congruence. Qed.

Lemma last_sorted s0 ss : snap_sorted s0 -> Forall snap_sorted ss -> snap_sorted (last ss s0).
Proof.
  revert s0; induction ss as [|s1 ss IH]; intros s0 H0 Hs; [exact H0|].
  inversion Hs; subst. rewrite last_cons. apply IH; assumption.
Qed.

Theorem model_merged_ok s0 ss : snap_sorted s0 -> Forall snap_sorted ss ->
  spec_okb12 s0 ss (model_merged s0 ss) = true.
Proof.
  intros H0 Hs. pose proof (merged_of_spec s0 ss H0 Hs) as M.
  pose proof (last_sorted s0 ss H0 Hs) as HL.
  pose proof (papply_pconstruct s0 (last ss s0) H0 HL) as PA.
  unfold spec_okb12, model_merged. destruct (merged_of s0 ss) as [d|].
  - destruct M as [Mf ->]. set (dd := pconstruct_raw s0 (last ss s0)) in *.
    unfold obs_of_pdelta. cbn [o_none o_origins o_rkeys o_aspas o_alen o_wlen].
    rewrite !(wl_eqb_refl unit_eqb unit_eqb_refl), (wl_eqb_refl nlist_eqb nlist_eqb_refl), !N.eqb_refl.
    rewrite !wapply_wire. rewrite Mf. cbn [andb Bool.eqb].
    unfold papply in PA. fold dd in PA.
    assert (apply (origins s0) (d_origins dd) = origins (last ss s0)) as -> by (exact (f_equal origins PA)).
    assert (apply (rkeys s0) (d_rkeys dd) = rkeys (last ss s0)) as -> by (exact (f_equal rkeys PA)).
    assert (apply (aspas s0) (d_aspas dd) = aspas (last ss s0)) as -> by (exact (f_equal aspas PA)).
    destruct (kl_eqb_spec unit_eqb unit_eqb_spec (origins (last ss s0)) (origins (last ss s0))); [|congruence].
    destruct (kl_eqb_spec unit_eqb unit_eqb_spec (rkeys (last ss s0)) (rkeys (last ss s0))); [|congruence].
    destruct (kl_eqb_spec nlist_eqb nlist_eqb_spec (aspas (last ss s0)) (aspas (last ss s0))); [|congruence].
    reflexivity.
  - destruct M as [Mf ML]. rewrite ML in *. rewrite Mf.
    assert (pconstruct_raw s0 s0 = pd_empty) as E.
    { apply pd_is_empty_iff. apply raw_empty_iff; [assumption..|reflexivity]. }
    rewrite E. unfold obs_none, pd_empty, pannounce_len, pwithdraw_len.
    cbn [o_none o_origins o_rkeys o_aspas o_alen o_wlen d_origins d_rkeys d_aspas wire_of map].
    unfold wapply; cbn [fold_left].
    destruct (kl_eqb_spec unit_eqb unit_eqb_spec (origins s0) (origins s0)); [|congruence].
    destruct (kl_eqb_spec unit_eqb unit_eqb_spec (rkeys s0) (rkeys s0)); [|congruence].
    destruct (kl_eqb_spec nlist_eqb nlist_eqb_spec (aspas s0) (aspas s0)); [|congruence].
    reflexivity.
Qed.
