(* C18: the chunks the model produces satisfy the executable oracle, for every header and item list
   (and the case checker returns 0 on them). *)
From Coq Require Import List NArith Bool.
From RV Require Import Base.Json Base.JsonDoc Base.JsonEmit C18.Model C18.Proofs C18.Spec.
Import ListNotations.
Local Open Scope N_scope.

Lemma tok_eqb_refl t : tok_eqb t t = true.
Proof. destruct t; cbn [tok_eqb]; try reflexivity; apply list_eqb_refl. Qed.

Lemma toks_eqb_refl ts : toks_eqb ts ts = true.
Proof. induction ts as [|t ts IH]; [reflexivity|]. cbn [toks_eqb]. rewrite tok_eqb_refl, IH. reflexivity. Qed.

Lemma chunks_eqb_refl cs : chunks_eqb cs cs = true.
Proof. induction cs as [|c cs IH]; [reflexivity|]. cbn [chunks_eqb]. rewrite list_eqb_refl, IH. reflexivity. Qed.

Definition model_case (c : case) : case :=
  {| c_reset := c_reset c; c_head := c_head c; c_items := c_items c; i_chunks := model_chunks c |}.

Lemma model_lexes c : inputs_ok c = true -> lexes (concat (model_chunks c)) (toks (doc_of c)).
Proof.
  intros I. unfold inputs_ok in I. apply andb_true_iff in I as [Hh Hi]. unfold model_chunks, doc_of.
  destruct (c_reset c).
  - destruct (snapshot_pieces_ok (c_head c) (map fst (c_items c)) Hh Hi) as [K E].
    apply stream_lexes; [discriminate|exact K|exact E|apply snapshot_tokens].
  - destruct (delta_pieces_ok (c_head c) (c_items c) Hh Hi) as [K E].
    apply stream_lexes; [discriminate|exact K|exact E|apply delta_tokens].
Qed.

Theorem model_satisfies_spec c : inputs_ok c = true ->
  spec_okb (model_case c) = true /\ check_case (model_case c) = 0.
Proof.
  intros I.
  assert (spec_okb (model_case c) = true) as S.
  { unfold spec_okb. cbn [model_case i_chunks]. change (doc_of (model_case c)) with (doc_of c).
    pose proof (model_lexes c I) as L. rewrite (lexes_fuel _ _ L). rewrite toks_eqb_refl. cbn [andb].
    unfold json_validb. rewrite (json_parse_of_lexes _ _ L). reflexivity. }
  split; [exact S|]. unfold check_case. change (inputs_ok (model_case c)) with (inputs_ok c). rewrite I, S. cbn [negb].
  change (model_chunks (model_case c)) with (model_chunks c). cbn [model_case i_chunks]. rewrite chunks_eqb_refl. reflexivity.
Qed.
