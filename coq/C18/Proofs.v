From Coq Require Import List NArith Bool Lia.
From RV Require Import Base.Json Base.JsonDoc Base.JsonEmit C18.Model.
Import ListNotations.
Local Open Scope N_scope.

(* ---- chunking never changes the bytes ---- *)
Lemma concat_chunks_from T cur ps : concat (chunks_from T cur ps) = cur ++ concat ps.
Proof.
  revert cur; induction ps as [|p ps IH]; intros cur; cbn [chunks_from concat].
  - rewrite app_nil_r. reflexivity.
  - destruct (T <? N.of_nat (List.length cur)); cbn [concat]; rewrite IH; [reflexivity|]. rewrite app_assoc. reflexivity.
Qed.

Theorem chunks_independent T ps : concat (chunks T ps) = concat ps.
Proof. destruct ps as [|p ps]; [reflexivity|]. cbn [chunks concat]. apply concat_chunks_from. Qed.

Lemma chunks_from_nonempty T cur ps : chunks_from T cur ps <> [].
Proof.
  revert cur; induction ps as [|p ps IH]; intros cur; cbn [chunks_from]; [discriminate|].
  destruct (T <? N.of_nat (List.length cur)); [discriminate|apply IH].
Qed.

(* every chunk but the last one is longer than the threshold *)
Theorem chunks_from_long T cur ps :
  Forall (fun c => T < N.of_nat (List.length c)) (removelast (chunks_from T cur ps)).
Proof.
  revert cur; induction ps as [|p ps IH]; intros cur; cbn [chunks_from]; [constructor|].
  destruct (N.ltb_spec T (N.of_nat (List.length cur))) as [L|L]; [|apply IH].
  pose proof (chunks_from_nonempty T p ps) as NE.
  destruct (chunks_from T p ps) as [|c cs] eqn:E; [congruence|].
  change (removelast (cur :: c :: cs)) with (cur :: removelast (c :: cs)).
  constructor; [exact L|]. rewrite <- E. apply IH.
Qed.

(* ---- bytes of the pieces ---- *)
Lemma emit_concat ps : emit (concat ps) = concat (map emit ps).
Proof. induction ps as [|p ps IH]; [reflexivity|]. cbn [concat map]. rewrite emit_app, IH. reflexivity. Qed.

Lemma concat_pieces_bytes ps : ps <> [] -> concat (pieces_bytes ps) = emit (concat ps) ++ trailer.
Proof.
  intros NE. unfold pieces_bytes. rewrite emit_concat.
  destruct (rev (map emit ps)) as [|l r] eqn:R.
  - apply (f_equal (@rev _)) in R. rewrite rev_involutive in R. destruct ps; [congruence|discriminate].
  - apply (f_equal (@rev _)) in R. rewrite rev_involutive in R. cbn [rev] in R. rewrite R.
    cbn [rev]. rewrite !concat_app. cbn [concat]. rewrite !app_nil_r, app_assoc. reflexivity.
Qed.

(* ---- tokens of the pieces are the tokens of the document ---- *)
Lemma provs_tokens ps :
  map snd (provs_tw true ps) = tsep (map toks (map JStr ps)).
Proof.
  destruct ps as [|p ps]; [reflexivity|]. cbn [provs_tw map app snd].
  revert p; induction ps as [|q ps IH]; intros p; [reflexivity|].
  cbn [provs_tw map app snd tsep toks] in *. rewrite IH. reflexivity.
Qed.

Lemma item_tokens it : map snd (item_tw it) = toks (item_json it).
Proof.
  destruct it as [asn prefix ml|ki asn info|cust provs]; try reflexivity.
  cbn [item_tw item_json]. rewrite !map_app, provs_tokens.
  cbn [toks map fst snd tsep]. cbn [app]. rewrite <- !app_assoc. reflexivity.
Qed.

Lemma tsep_cons (x : list token) rest : tsep (x :: rest) = x ++ flat_map (fun y => TComma :: y) rest.
Proof.
  revert x; induction rest as [|y rest IH]; intros x; [cbn; rewrite app_nil_r; reflexivity|].
  change (tsep (x :: y :: rest)) with (x ++ TComma :: tsep (y :: rest)). rewrite IH. reflexivity.
Qed.

Lemma items_tokens_rest its :
  map snd (concat (items_tw false its)) = flat_map (fun y => TComma :: y) (map toks (map item_json its)).
Proof.
  induction its as [|it its IH]; [reflexivity|].
  change (items_tw false (it :: its)) with ((([] : list N, TComma) :: item_tw it) :: items_tw false its).
  change (map toks (map item_json (it :: its))) with (toks (item_json it) :: map toks (map item_json its)).
  unfold tw in *. rewrite concat_cons, map_app. cbn [flat_map]. rewrite IH. cbn [map snd]. rewrite item_tokens. reflexivity.
Qed.

Lemma items_tokens its :
  map snd (concat (items_tw true its)) = tsep (map toks (map item_json its)).
Proof.
  destruct its as [|it its]; [reflexivity|].
  change (items_tw true (it :: its)) with (item_tw it :: items_tw false its).
  change (map toks (map item_json (it :: its))) with (toks (item_json it) :: map toks (map item_json its)).
  pose proof (items_tokens_rest its) as R. unfold tw in *.
  rewrite concat_cons, tsep_cons, map_app, item_tokens, R. reflexivity.
Qed.

Lemma delta_tokens h d : map snd (concat (delta_pieces_tw h d)) = toks (delta_doc h d).
Proof.
  unfold delta_pieces_tw, delta_doc.
  pose proof (items_tokens (map fst (filter (fun x => negb (snd x)) d))) as A.
  pose proof (items_tokens (map fst (filter (fun x => snd x) d))) as W. unfold tw in *.
  rewrite concat_cons, concat_app, concat_cons, concat_app. cbn [concat].
  rewrite !map_app, A, W. cbn [toks map fst snd tsep delta_header_tw separator_tw footer_tw app].
  rewrite <- ?app_assoc. cbn [app]. rewrite <- ?app_assoc. reflexivity.
Qed.

Lemma snapshot_tokens h its : map snd (concat (snapshot_pieces_tw h its)) = toks (snapshot_doc h its).
Proof.
  unfold snapshot_pieces_tw, snapshot_doc.
  pose proof (items_tokens its) as A. unfold tw in *.
  rewrite concat_cons, concat_app. cbn [concat].
  rewrite !map_app, A. cbn [toks map fst snd tsep snapshot_header_tw footer_tw app].
  rewrite <- ?app_assoc. cbn [app]. rewrite <- ?app_assoc. reflexivity.
Qed.

(* ---- the emitted text satisfies the emitter's side condition ---- *)
Lemma ends_in_num_app_r (a b : list tw) : b <> [] -> ends_in_num (a ++ b) = ends_in_num b.
Proof.
  intros NE. unfold ends_in_num. rewrite rev_app_distr. destruct (rev b) as [|x r] eqn:R; [|reflexivity].
  apply (f_equal (@rev _)) in R. rewrite rev_involutive in R. cbn in R. congruence.
Qed.

Lemma twl_okb_app (a b : list tw) : twl_okb a = true -> twl_okb b = true -> ends_in_num a = false ->
  twl_okb (a ++ b) = true.
Proof.
  induction a as [|x a IH]; intros Ka Kb E; [exact Kb|].
  cbn [app twl_okb] in *. apply andb_true_iff in Ka as [Ka K4]. apply andb_true_iff in Ka as [Ka K3].
  assert (ends_in_num a = false \/ a = []) as Ea.
  { destruct a as [|y a']; [right; reflexivity|left]. rewrite <- E. symmetry.
    apply (ends_in_num_app_r [x] (y :: a')). discriminate. }
  rewrite Ka. cbn [andb]. apply andb_true_iff; split.
  - destruct (snd x) eqn:T; try reflexivity. destruct a as [|y a']; [|exact K3].
    exfalso. unfold ends_in_num in E. cbn in E. destruct x as [w t]. cbn in T. subst t. discriminate.
  - destruct Ea as [Ea| ->]; [apply IH; assumption | exact Kb].
Qed.

Lemma provs_ok first ps : twl_okb (provs_tw first ps ++ [([], TRBrack); (nl ++ nl ++ sp 4, TRBrace)]) = true.
Proof.
  revert first; induction ps as [|p ps IH]; intros first; [reflexivity|].
  cbn [provs_tw]. destruct first; rewrite <- app_assoc; cbn [app twl_okb fst snd forallb tok_okb andb]; apply IH.
Qed.

Lemma item_ok it : item_okb it = true -> twl_okb (item_tw it) = true /\ ends_in_num (item_tw it) = false.
Proof.
  destruct it as [asn prefix ml|ki asn info|cust provs]; cbn [item_okb]; intros H.
  - split; [|reflexivity]. cbn. rewrite H. reflexivity.
  - split; reflexivity.
  - split.
    + cbn [item_tw]. cbn [app twl_okb fst snd forallb tok_okb andb nl sp repeat is_ws]. cbn. apply provs_ok.
    + cbn [item_tw]. rewrite app_assoc. rewrite ends_in_num_app_r by discriminate. reflexivity.
Qed.

Lemma items_ok first its : forallb item_okb its = true ->
  twl_okb (concat (items_tw first its)) = true /\
  (its <> [] -> ends_in_num (concat (items_tw first its)) = false).
Proof.
  revert first; induction its as [|it its IH]; intros first H; [split; [reflexivity|congruence]|].
  cbn [forallb] in H. apply andb_true_iff in H as [H1 H2].
  destruct (item_ok it H1) as [K E]. destruct (IH false H2) as [K' E'].
  cbn [items_tw]. unfold tw in *. rewrite concat_cons.
  assert (twl_okb ((if first then [] else [([], TComma)]) ++ item_tw it) = true /\
          ends_in_num ((if first then [] else [([], TComma)]) ++ item_tw it) = false) as [K1 E1].
  { destruct first; cbn [app]; [split; assumption|]. split.
    - cbn [twl_okb fst snd forallb tok_okb andb]. exact K.
    - rewrite <- E. apply (ends_in_num_app_r [([], TComma)] (item_tw it)). destruct it; discriminate. }
  split.
  - apply twl_okb_app; assumption.
  - intros _. destruct its as [|y its'].
    + cbn [items_tw concat]. rewrite app_nil_r. exact E1.
    + rewrite ends_in_num_app_r; [apply E'; discriminate|].
      cbn [items_tw]. rewrite concat_cons. destruct y; discriminate.
Qed.

Lemma filter_items_ok (d : list (item * bool)) p : forallb item_okb (map fst d) = true ->
  forallb item_okb (map fst (filter p d)) = true.
Proof.
  induction d as [|x d IH]; [reflexivity|]. cbn [map forallb filter]. intros H.
  apply andb_true_iff in H as [H1 H2]. destruct (p x); cbn [map forallb]; [rewrite H1|]; apply IH; exact H2.
Qed.

Lemma header_ok h : head_okb h = true ->
  twl_okb (delta_header_tw h) = true /\ twl_okb (snapshot_header_tw h) = true.
Proof.
  unfold head_okb. intros H. apply andb_true_iff in H as [H H3]. apply andb_true_iff in H as [H1 H2].
  split; cbn; rewrite ?H1, ?H2, ?H3; reflexivity.
Qed.

Lemma delta_pieces_ok h d : head_okb h = true -> forallb item_okb (map fst d) = true ->
  twl_okb (concat (delta_pieces_tw h d)) = true /\ ends_in_num (concat (delta_pieces_tw h d)) = false.
Proof.
  intros Hh Hd. unfold delta_pieces_tw.
  set (ann := map fst (filter (fun x => negb (snd x)) d)). set (wd := map fst (filter (fun x => snd x) d)).
  destruct (items_ok true ann (filter_items_ok d _ Hd)) as [Ka Ea].
  destruct (items_ok true wd (filter_items_ok d _ Hd)) as [Kw Ew].
  destruct (header_ok h Hh) as [Kh _]. unfold tw in *.
  rewrite concat_cons, concat_app, concat_cons, concat_app. cbn [concat]. rewrite app_nil_r.
  split.
  - apply twl_okb_app; [exact Kh| |reflexivity].
    assert (twl_okb (separator_tw ++ concat (items_tw true wd) ++ footer_tw) = true) as Ks.
    { apply twl_okb_app; [reflexivity| |reflexivity].
      destruct wd as [|w wd']; [reflexivity|]. apply twl_okb_app; [exact Kw|reflexivity|apply Ew; discriminate]. }
    destruct ann as [|a ann']; [exact Ks|]. apply twl_okb_app; [exact Ka|exact Ks|apply Ea; discriminate].
  - rewrite !app_assoc. apply ends_in_num_app_r. discriminate.
Qed.

Lemma snapshot_pieces_ok h its : head_okb h = true -> forallb item_okb its = true ->
  twl_okb (concat (snapshot_pieces_tw h its)) = true /\ ends_in_num (concat (snapshot_pieces_tw h its)) = false.
Proof.
  intros Hh Hd. unfold snapshot_pieces_tw.
  destruct (items_ok true its Hd) as [Ka Ea]. destruct (header_ok h Hh) as [_ Kh]. unfold tw in *.
  rewrite concat_cons, concat_app. cbn [concat]. rewrite app_nil_r. split.
  - apply twl_okb_app; [exact Kh| |reflexivity].
    destruct its as [|a its']; [reflexivity|]. apply twl_okb_app; [exact Ka|reflexivity|apply Ea; discriminate].
  - rewrite !app_assoc. apply ends_in_num_app_r. discriminate.
Qed.

Lemma lexes_trailer : lexes trailer [].
Proof. apply lexes_ws; [reflexivity|apply lexes_nil]. Qed.

Lemma stream_lexes T (ps : list (list tw)) v : ps <> [] ->
  twl_okb (concat ps) = true -> ends_in_num (concat ps) = false -> map snd (concat ps) = toks v ->
  lexes (concat (chunks T (pieces_bytes ps))) (toks v).
Proof.
  intros NE K E Tk. rewrite chunks_independent, (concat_pieces_bytes ps NE). rewrite <- Tk.
  pose proof (emit_lexes (concat ps) K trailer [] (fun H => ltac:(congruence)) lexes_trailer) as P.
  rewrite app_nil_r in P. exact P.
Qed.

(* C18: whatever the chunk threshold, the concatenated chunks are one JSON document that reads back as
   the document listing exactly the announced and withdrawn items of the change set *)
Theorem delta_stream_exact T h d : head_okb h = true -> forallb item_okb (map fst d) = true ->
  json_parse (concat (delta_stream T h d)) = Some (delta_doc h d).
Proof.
  intros Hh Hd. destruct (delta_pieces_ok h d Hh Hd) as [K E]. apply json_parse_of_lexes.
  apply stream_lexes; [discriminate|exact K|exact E|apply delta_tokens].
Qed.

Theorem snapshot_stream_exact T h its : head_okb h = true -> forallb item_okb its = true ->
  json_parse (concat (snapshot_stream T h its)) = Some (snapshot_doc h its).
Proof.
  intros Hh Hd. destruct (snapshot_pieces_ok h its Hh Hd) as [K E]. apply json_parse_of_lexes.
  apply stream_lexes; [discriminate|exact K|exact E|apply snapshot_tokens].
Qed.

Theorem delta_stream_threshold_independent T1 T2 h d :
  concat (delta_stream T1 h d) = concat (delta_stream T2 h d).
Proof. unfold delta_stream. rewrite !chunks_independent. reflexivity. Qed.

Theorem snapshot_stream_threshold_independent T1 T2 h its :
  concat (snapshot_stream T1 h its) = concat (snapshot_stream T2 h its).
Proof. unfold snapshot_stream. rewrite !chunks_independent. reflexivity. Qed.
