(* C18 model: the /json-delta response bodies (src/http/delta.rs DeltaStream, SnapshotStream):
   what bytes are written for the header, every item, the separator and the footer, and how the
   iterator groups them into chunks. Texts are lists of (whitespace, token) pairs (Base/JsonEmit);
   formatted fields (ASNs, prefixes, key identifiers, base64 keys, times) are inputs, as the
   implementation formats them with Display impls of the rpki crate and chrono. *)
From Coq Require Import List NArith Bool String Ascii.
From RV Require Export Base.Json Base.JsonDoc Base.JsonEmit.
Import ListNotations.
Local Open Scope N_scope.

Definition bs (s : string) : list N := map N_of_ascii (list_ascii_of_string s).
Definition sp (n : nat) : list N := repeat 32 n.
Definition nl : list N := [10].
Definition K (s : string) : token := TStr (bs s).

Inductive item :=
| IOrigin (asn prefix maxlen : list N)             (* "AS64500", "10.0.0.0/8", digits *)
| IKey (ki asn info : list N)
| IAspa (cust : list N) (provs : list (list N)).

(* append_payload, without the leading comma *)
Fixpoint provs_tw (first : bool) (ps : list (list N)) : list tw :=
  match ps with
  | [] => []
  | p :: t => (if first then [([], TStr p)] else [([], TComma); (sp 1, TStr p)]) ++ provs_tw false t
  end.

Definition item_tw (it : item) : list tw :=
  match it with
  | IOrigin asn prefix ml =>
      [ (nl ++ sp 4, TLBrace);
        (nl ++ sp 8, K "type"); ([], TColon); (sp 1, K "routeOrigin"); ([], TComma);
        (nl ++ sp 8, K "asn"); ([], TColon); (sp 1, TStr asn); ([], TComma);
        (nl ++ sp 8, K "prefix"); ([], TColon); (sp 1, TStr prefix); ([], TComma);
        (nl ++ sp 8, K "maxLength"); ([], TColon); (sp 1, TNum ml);
        (nl ++ sp 4, TRBrace) ]
  | IKey ki asn info =>
      [ (nl ++ sp 4, TLBrace);
        (nl ++ sp 8, K "type"); ([], TColon); (sp 1, K "routerKey"); ([], TComma);
        (nl ++ sp 8, K "keyIdentifier"); ([], TColon); (sp 1, TStr ki); ([], TComma);
        (nl ++ sp 8, K "asn"); ([], TColon); (sp 1, TStr asn); ([], TComma);
        (nl ++ sp 8, K "keyInfo"); ([], TColon); (sp 1, TStr info);
        (nl ++ sp 20 ++ nl ++ sp 4, TRBrace) ]          (* the format string has a raw line break here *)
  | IAspa cust provs =>
      [ (nl ++ sp 2, TLBrace);
        (nl ++ sp 6, K "type"); ([], TColon); (sp 1, K "aspa"); ([], TComma);
        (nl ++ sp 20 ++ nl ++ sp 6, K "customerAsn"); ([], TColon); (sp 1, TStr cust); ([], TComma);   (* raw line break *)
        (nl ++ sp 6, K "providerAsns"); ([], TColon); (sp 1, TLBrack) ]
      ++ provs_tw true provs ++
      [ ([], TRBrack); (nl ++ nl ++ sp 4, TRBrace) ]
  end.

Record head := { h_session : list N; h_serial : list N; h_from : list N; h_generated : list N; h_gentime : list N }.

Definition delta_header_tw (h : head) : list tw :=
  [ ([], TLBrace);
    (nl ++ sp 2, K "reset"); ([], TColon); (sp 1, TFalse); ([], TComma);
    (nl ++ sp 2, K "session"); ([], TColon); (sp 1, TStr (h_session h)); ([], TComma);
    (nl ++ sp 2, K "serial"); ([], TColon); (sp 1, TNum (h_serial h)); ([], TComma);
    (nl ++ sp 2, K "fromSerial"); ([], TColon); (sp 1, TNum (h_from h)); ([], TComma);
    (nl ++ sp 2, K "generated"); ([], TColon); (sp 1, TNum (h_generated h)); ([], TComma);
    (nl ++ sp 2, K "generatedTime"); ([], TColon); (sp 1, TStr (h_gentime h)); ([], TComma);
    (nl ++ sp 2, K "announced"); ([], TColon); (sp 1, TLBrack) ].

Definition snapshot_header_tw (h : head) : list tw :=
  [ ([], TLBrace);
    (nl ++ sp 2, K "reset"); ([], TColon); (sp 1, TTrue); ([], TComma);
    (nl ++ sp 2, K "session"); ([], TColon); (sp 1, TStr (h_session h)); ([], TComma);
    (nl ++ sp 2, K "serial"); ([], TColon); (sp 1, TNum (h_serial h)); ([], TComma);
    (nl ++ sp 2, K "generated"); ([], TColon); (sp 1, TNum (h_generated h)); ([], TComma);
    (nl ++ sp 2, K "generatedTime"); ([], TColon); (sp 1, TStr (h_gentime h)); ([], TComma);
    (nl ++ sp 2, K "announced"); ([], TColon); (sp 1, TLBrack) ].

Definition separator_tw : list tw :=
  [ (nl ++ sp 2, TRBrack); ([], TComma); (nl ++ sp 2, K "withdrawn"); ([], TColon); (sp 1, TLBrack) ].

Definition footer_tw : list tw := [ (nl ++ sp 2, TRBrack); (nl, TRBrace) ].
Definition trailer : list N := nl.     (* the footer ends with a line break after the closing brace *)

(* the items of a list: the first without, the others with a leading comma (the [first] flag) *)
Fixpoint items_tw (first : bool) (its : list item) : list (list tw) :=
  match its with
  | [] => []
  | it :: t => ((if first then [] else [([], TComma)]) ++ item_tw it) :: items_tw false t
  end.

(* the pieces in the order the iterator appends them *)
Definition delta_pieces_tw (h : head) (d : list (item * bool)) : list (list tw) :=
  let ann := map fst (filter (fun x => negb (snd x)) d) in
  let wd := map fst (filter (fun x => snd x) d) in
  delta_header_tw h :: items_tw true ann ++ separator_tw :: items_tw true wd ++ [footer_tw].

Definition snapshot_pieces_tw (h : head) (its : list item) : list (list tw) :=
  snapshot_header_tw h :: items_tw true its ++ [footer_tw].

Definition pieces_bytes (ps : list (list tw)) : list (list N) :=
  match rev (map emit ps) with
  | last :: r => rev ((last ++ trailer) :: r)
  | [] => []
  end.

(* Iterator::next: a chunk is returned as soon as it is longer than the threshold (checked before
   appending the next piece) or when the footer has been appended *)
Fixpoint chunks_from (T : N) (cur : list N) (ps : list (list N)) : list (list N) :=
  match ps with
  | [] => [cur]
  | p :: ps' =>
      if T <? N.of_nat (List.length cur) then cur :: chunks_from T p ps'
      else chunks_from T (cur ++ p) ps'
  end.

Definition chunks (T : N) (ps : list (list N)) : list (list N) :=
  match ps with [] => [] | p :: ps' => chunks_from T p ps' end.

Definition delta_stream (T : N) (h : head) (d : list (item * bool)) : list (list N) :=
  chunks T (pieces_bytes (delta_pieces_tw h d)).
Definition snapshot_stream (T : N) (h : head) (its : list item) : list (list N) :=
  chunks T (pieces_bytes (snapshot_pieces_tw h its)).

(* ---- the documents the responses are supposed to be ---- *)
Definition item_json (it : item) : json :=
  match it with
  | IOrigin asn prefix ml =>
      JObj [(bs "type", JStr (bs "routeOrigin")); (bs "asn", JStr asn); (bs "prefix", JStr prefix); (bs "maxLength", JNum ml)]
  | IKey ki asn info =>
      JObj [(bs "type", JStr (bs "routerKey")); (bs "keyIdentifier", JStr ki); (bs "asn", JStr asn); (bs "keyInfo", JStr info)]
  | IAspa cust provs =>
      JObj [(bs "type", JStr (bs "aspa")); (bs "customerAsn", JStr cust); (bs "providerAsns", JArr (map JStr provs))]
  end.

Definition delta_doc (h : head) (d : list (item * bool)) : json :=
  JObj [ (bs "reset", JFalse); (bs "session", JStr (h_session h)); (bs "serial", JNum (h_serial h));
         (bs "fromSerial", JNum (h_from h)); (bs "generated", JNum (h_generated h));
         (bs "generatedTime", JStr (h_gentime h));
         (bs "announced", JArr (map item_json (map fst (filter (fun x => negb (snd x)) d))));
         (bs "withdrawn", JArr (map item_json (map fst (filter (fun x => snd x) d)))) ].

Definition snapshot_doc (h : head) (its : list item) : json :=
  JObj [ (bs "reset", JTrue); (bs "session", JStr (h_session h)); (bs "serial", JNum (h_serial h));
         (bs "generated", JNum (h_generated h)); (bs "generatedTime", JStr (h_gentime h));
         (bs "announced", JArr (map item_json its)) ].

(* well-formed inputs: the numeric fields are JSON numbers *)
Definition item_okb (it : item) : bool :=
  match it with IOrigin _ _ ml => num_wfb ml | _ => true end.
Definition head_okb (h : head) : bool :=
  num_wfb (h_serial h) && num_wfb (h_from h) && num_wfb (h_generated h).
