(* C18: executable oracle and case checker. *)
From Coq Require Import List NArith Bool.
From RV Require Export C18.Model.
Import ListNotations.
Local Open Scope N_scope.

Definition tok_eqb (a b : token) : bool :=
  match a, b with
  | TLBrace, TLBrace | TRBrace, TRBrace | TLBrack, TLBrack | TRBrack, TRBrack
  | TColon, TColon | TComma, TComma | TTrue, TTrue | TFalse, TFalse | TNull, TNull => true
  | TStr x, TStr y => list_eqb x y
  | TNum x, TNum y => list_eqb x y
  | _, _ => false
  end.

Fixpoint toks_eqb (a b : list token) : bool :=
  match a, b with
  | [], [] => true
  | x :: a', y :: b' => tok_eqb x y && toks_eqb a' b'
  | _, _ => false
  end.

Record case := {
  c_reset : bool;                       (* snapshot (reset) or delta response *)
  c_head : head;
  c_items : list (item * bool);         (* in iteration order; the flag is "withdraw" (always false for a snapshot) *)
  i_chunks : list (list N) }.           (* the chunks the real iterator produced *)

Definition THRESHOLD : N := 64000.

Definition doc_of (c : case) : json :=
  if c_reset c then snapshot_doc (c_head c) (map fst (c_items c)) else delta_doc (c_head c) (c_items c).

(* the property on the implementation's bytes: whatever the chunking, the concatenation is a single
   valid JSON document whose tokens are those of the document listing exactly the items *)
Definition spec_okb (c : case) : bool :=
  let bytes := concat (i_chunks c) in
  match lex (S (List.length bytes)) bytes with
  | Some ts => toks_eqb ts (toks (doc_of c)) && json_validb bytes
  | None => false
  end.

Definition model_chunks (c : case) : list (list N) :=
  if c_reset c then snapshot_stream THRESHOLD (c_head c) (map fst (c_items c))
  else delta_stream THRESHOLD (c_head c) (c_items c).

Fixpoint chunks_eqb (a b : list (list N)) : bool :=
  match a, b with
  | [], [] => true
  | x :: a', y :: b' => list_eqb x y && chunks_eqb a' b'
  | _, _ => false
  end.

Definition inputs_ok (c : case) : bool := head_okb (c_head c) && forallb item_okb (map fst (c_items c)).

Definition check_case (c : case) : N :=
  if negb (inputs_ok c) then 9
  else if negb (spec_okb c) then 2
  else if chunks_eqb (model_chunks c) (i_chunks c) then 0 else 1.
