(* C18 — JSON delta and snapshot streams are well-formed and exact. *)
From Coq Require Import List NArith Bool.
From RV Require Import Base.Json Base.JsonDoc Base.JsonEmit C18.Model C18.Proofs C18.Spec C18.SpecProofs.
Import ListNotations.
Local Open Scope N_scope.

(* for EVERY chunk threshold, change set and header: the concatenated chunks are a single JSON document
   that parses to the document listing exactly the announced and the withdrawn items, with the session
   and serials of the header *)
Theorem C18_delta_stream_exact : forall T h d, head_okb h = true -> forallb item_okb (map fst d) = true ->
  json_parse (concat (delta_stream T h d)) = Some (delta_doc h d).
Proof. exact delta_stream_exact. Qed.

Theorem C18_snapshot_stream_exact : forall T h its, head_okb h = true -> forallb item_okb its = true ->
  json_parse (concat (snapshot_stream T h its)) = Some (snapshot_doc h its).
Proof. exact snapshot_stream_exact. Qed.

(* where the output is split never changes the bytes *)
Theorem C18_delta_threshold_independent : forall T1 T2 h d,
  concat (delta_stream T1 h d) = concat (delta_stream T2 h d).
Proof. exact delta_stream_threshold_independent. Qed.
Theorem C18_snapshot_threshold_independent : forall T1 T2 h its,
  concat (snapshot_stream T1 h its) = concat (snapshot_stream T2 h its).
Proof. exact snapshot_stream_threshold_independent. Qed.

Theorem C18_chunks_independent : forall T ps, concat (chunks T ps) = concat ps.
Proof. exact chunks_independent. Qed.

(* every chunk except the last is longer than the threshold *)
Theorem C18_chunks_long : forall T cur ps,
  Forall (fun c => T < N.of_nat (List.length c)) (removelast (chunks_from T cur ps)).
Proof. exact chunks_from_long. Qed.

(* the executable oracle (lex the concatenated chunks, compare the tokens with those of the document
   listing exactly the items, validate) accepts the chunks the model produces, for every header and
   item list, and the case checker returns 0 on them *)
Theorem C18_model_satisfies_spec : forall c, inputs_ok c = true ->
  spec_okb (model_case c) = true /\ check_case (model_case c) = 0.
Proof. exact model_satisfies_spec. Qed.

Example C18_nonvacuous :
  let h := {| h_session := [49]; h_serial := [50]; h_from := [49]; h_generated := [51]; h_gentime := [52] |} in
  let d := [(IOrigin [65; 83; 49] [49; 47; 56] [56], false); (IAspa [65] [[66]; [67]], true)] in
  head_okb h = true /\ forallb item_okb (map fst d) = true /\
  List.length (delta_stream 100 h d) = 4%nat /\ List.length (delta_stream 64000 h d) = 1%nat.
Proof. repeat split. Qed.

Check C18_delta_stream_exact : forall T h d, head_okb h = true -> forallb item_okb (map fst d) = true ->
  json_parse (concat (delta_stream T h d)) = Some (delta_doc h d).
Check C18_model_satisfies_spec : forall c, inputs_ok c = true ->
  spec_okb (model_case c) = true /\ check_case (model_case c) = 0.
