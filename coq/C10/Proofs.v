(* C10: lemmas about load_ta, process_tal and histories. *)
From Coq Require Import List NArith Bool Arith Lia.
From RV Require Import C10.Model.
Import ListNotations.
Local Open Scope N_scope.

Definition shift (u : option (nat * tacert)) : option (nat * tacert) := option_map (fun x => (S (fst x), snd x)) u.

(* the first URI whose effective certificate has the TAL's key and validates *)
Fixpoint first_usable (es : list (option tacert)) : option (nat * tacert) :=
  match es with
  | [] => None
  | Some c :: es' => if usable c then Some (0%nat, c) else shift (first_usable es')
  | None :: es' => shift (first_usable es')
  end.

(* ---------- load_ta ---------- *)

Lemma decoded_decodes : forall s c, decoded s = Some c -> s = Some c /\ tc_decodes c = true.
Proof. intros [x|] c; cbn; [|discriminate]. destruct (tc_decodes x) eqn:E; [|discriminate]. intros H; inversion H; subst; auto. Qed.

(* what load_ta returns decodes, and is the download (then stored) or the stored copy (download absent or undecodable) *)
Lemma load_ta_cases : forall coll dl st c, fst (load_ta coll dl st) = Some c ->
  tc_decodes c = true /\
  ((coll = true /\ dl = Some c /\ snd (load_ta coll dl st) = Some c)
   \/ ((coll = false \/ dl = None \/ exists x, dl = Some x /\ tc_decodes x = false)
       /\ st = Some c /\ snd (load_ta coll dl st) = st)).
Proof.
  intros coll dl st c. unfold load_ta. destruct coll; cbn [fst snd].
  - destruct dl as [x|].
    + destruct (tc_decodes x) eqn:E; cbn [fst snd].
      * intros H; inversion H; subst. auto.
      * intros H. apply decoded_decodes in H. destruct H as [-> Hd]. split; [exact Hd|]. right. repeat split; eauto.
    + cbn [fst snd]. intros H. apply decoded_decodes in H. destruct H as [-> Hd]. split; [exact Hd|]. right. auto.
  - intros H. apply decoded_decodes in H. destruct H as [-> Hd]. split; [exact Hd|]. right. auto.
Qed.

(* the stored file after load_ta: unchanged, or a download that decodes *)
Lemma load_ta_store : forall coll dl st,
  snd (load_ta coll dl st) = st
  \/ (coll = true /\ exists c, dl = Some c /\ tc_decodes c = true /\ snd (load_ta coll dl st) = Some c).
Proof.
  intros coll dl st. unfold load_ta. destruct coll; [|left; reflexivity].
  destruct dl as [x|]; [|left; reflexivity].
  destruct (tc_decodes x) eqn:E; [right; eauto|left; reflexivity].
Qed.

(* a download that does not decode never replaces the stored copy *)
Lemma load_ta_undecodable_keeps : forall coll c st, tc_decodes c = false -> snd (load_ta coll (Some c) st) = st.
Proof. intros coll c st H. unfold load_ta. destruct coll; [rewrite H|]; reflexivity. Qed.

(* the stored copy is used when the download fails *)
Lemma load_ta_fallback : forall coll dl st c,
  (coll = false \/ dl = None \/ exists x, dl = Some x /\ tc_decodes x = false) ->
  st = Some c -> tc_decodes c = true -> load_ta coll dl st = (Some c, Some c).
Proof.
  intros coll dl st c H -> Hd. unfold load_ta, decoded. rewrite Hd.
  destruct H as [->|[->|[x [-> Hx]]]]; [reflexivity|destruct coll; reflexivity|destruct coll; [rewrite Hx|]; reflexivity].
Qed.

(* ---------- process_tal ---------- *)

Lemma process_tal_used : forall coll st dls, fst (process_tal coll dls st) = first_usable (effs coll dls st).
Proof.
  intros coll. induction st as [|s st IH]; intros dls; [reflexivity|].
  cbn [process_tal effs first_usable]. unfold effective.
  destruct (load_ta coll (hd None dls) s) as [cert s'] eqn:E. cbn [fst].
  specialize (IH (tl dls)). destruct (process_tal coll (tl dls) st) as [u st''] eqn:E2. cbn [fst] in IH.
  destruct cert as [c|]; [destruct (usable c)|]; cbn [fst]; try reflexivity; rewrite <- IH; reflexivity.
Qed.

Lemma process_tal_length : forall coll st dls, length (snd (process_tal coll dls st)) = length st.
Proof.
  intros coll. induction st as [|s st IH]; intros dls; [reflexivity|].
  cbn [process_tal]. destruct (load_ta coll (hd None dls) s) as [cert s'].
  specialize (IH (tl dls)). destruct (process_tal coll (tl dls) st) as [u st''] eqn:E2. cbn [snd] in IH.
  destruct cert as [c|]; [destruct (usable c)|]; cbn [snd length]; congruence.
Qed.

(* every stored file after the loop is the old one or this run's decodable download *)
Definition entry_step (coll : bool) (dl s s' : option tacert) : Prop :=
  s' = s \/ (coll = true /\ exists c, dl = Some c /\ tc_decodes c = true /\ s' = Some c).

Lemma entry_same : forall coll (l : list (option tacert)) st, length l = length st ->
  Forall2 (fun ds s' => entry_step coll (fst ds) (snd ds) s') (combine l st) st.
Proof.
  intros coll l. induction l as [|d l IH]; intros [|x st] H; cbn [combine]; try discriminate; constructor.
  - left. reflexivity.
  - apply IH. cbn [length] in H. congruence.
Qed.

Lemma process_tal_store : forall coll st dls,
  Forall2 (fun ds s' => entry_step coll (fst ds) (snd ds) s')
          (combine (map (fun k => nth k dls None) (seq 0 (length st))) st) (snd (process_tal coll dls st)).
Proof.
  intros coll. induction st as [|s st IH]; intros dls; [constructor|].
  cbn [process_tal length seq map combine].
  pose proof (load_ta_store coll (hd None dls) s) as Hs.
  destruct (load_ta coll (hd None dls) s) as [cert s'] eqn:E. cbn [snd] in Hs.
  specialize (IH (tl dls)). destruct (process_tal coll (tl dls) st) as [u st''] eqn:E2. cbn [snd] in IH.
  assert (Hhd : nth 0 dls None = hd None dls) by (destruct dls; reflexivity).
  assert (Htl : map (fun k => nth k dls None) (seq 1 (length st)) = map (fun k => nth k (tl dls) None) (seq 0 (length st))).
  { rewrite <- seq_shift, map_map. apply map_ext. intros k. destruct dls; [destruct k; reflexivity|reflexivity]. }
  assert (Hrest_same : Forall2 (fun ds s'0 => entry_step coll (fst ds) (snd ds) s'0)
            (combine (map (fun k => nth k (tl dls) None) (seq 0 (length st))) st) st).
  { apply entry_same. rewrite map_length, seq_length. reflexivity. }
  rewrite Hhd, Htl.
  destruct cert as [c|]; [destruct (usable c)|]; cbn [snd]; constructor; cbn [fst snd]; try exact Hs; try exact IH.
  exact Hrest_same.
Qed.

(* properties of first_usable *)
Lemma first_usable_sound : forall es j c, first_usable es = Some (j, c) ->
  nth_error es j = Some (Some c) /\ usable c = true.
Proof.
  induction es as [|e es IH]; intros j c H; [discriminate|]. cbn [first_usable] in H.
  assert (Hshift : shift (first_usable es) = Some (j, c) -> nth_error (e :: es) j = Some (Some c) /\ usable c = true).
  { unfold shift. destruct (first_usable es) as [[j' c']|] eqn:E; cbn; [|discriminate].
    intros H'; inversion H'; subst. cbn [nth_error]. apply IH. reflexivity. }
  destruct e as [x|]; [destruct (usable x) eqn:Eu|]; auto.
  inversion H; subst. auto.
Qed.

Lemma first_usable_none : forall es, first_usable es = None ->
  Forall (fun e => match e with Some c => usable c = false | None => True end) es.
Proof.
  induction es as [|e es IH]; intros H; [constructor|]. cbn [first_usable] in H.
  assert (Hs : shift (first_usable es) = None -> first_usable es = None).
  { unfold shift. destruct (first_usable es); cbn; [discriminate|reflexivity]. }
  destruct e as [x|]; [destruct (usable x) eqn:Eu; [discriminate|]|]; constructor; auto.
Qed.

Lemma first_usable_first : forall es j c, first_usable es = Some (j, c) ->
  forall k x, (k < j)%nat -> nth_error es k = Some (Some x) -> usable x = false.
Proof.
  induction es as [|e es IH]; intros j c H k x Hk Hn; [discriminate|]. cbn [first_usable] in H.
  assert (Hshift : shift (first_usable es) = Some (j, c) -> exists j', j = S j' /\ first_usable es = Some (j', c)).
  { unfold shift. destruct (first_usable es) as [[j' c']|]; cbn; [|discriminate]. intros H'; inversion H'; subst. eauto. }
  destruct e as [y|]; [destruct (usable y) eqn:Eu|].
  - inversion H; subst. lia.
  - destruct (Hshift H) as [j' [-> Hf]]. destruct k; [cbn in Hn; inversion Hn; subst; exact Eu|].
    cbn [nth_error] in Hn. eapply IH; eauto. lia.
  - destruct (Hshift H) as [j' [-> Hf]]. destruct k; [cbn in Hn; discriminate|].
    cbn [nth_error] in Hn. eapply IH; eauto. lia.
Qed.

Lemma first_usable_complete : forall es j c, nth_error es j = Some (Some c) -> usable c = true ->
  (forall k x, (k < j)%nat -> nth_error es k = Some (Some x) -> usable x = false) ->
  first_usable es = Some (j, c).
Proof.
  induction es as [|e es IH]; intros j c Hn Hu Hfirst; [destruct j; discriminate|].
  destruct j as [|j].
  - cbn in Hn. inversion Hn; subst. cbn [first_usable]. rewrite Hu. reflexivity.
  - cbn [nth_error] in Hn. cbn [first_usable].
    assert (IH' : first_usable es = Some (j, c)).
    { apply IH; auto. intros k x Hk Hx. apply (Hfirst (S k) x); [lia|exact Hx]. }
    destruct e as [y|]; [|rewrite IH'; reflexivity].
    rewrite (Hfirst 0%nat y); [rewrite IH'; reflexivity|lia|reflexivity].
Qed.

Lemma effs_nth : forall coll st dls j s, nth_error st j = Some s ->
  nth_error (effs coll dls st) j = Some (effective coll (nth j dls None) s).
Proof.
  intros coll. induction st as [|s0 st IH]; intros dls j s H; [destruct j; discriminate|].
  destruct j as [|j]; cbn [nth_error effs] in *.
  - inversion H; subst. destruct dls; reflexivity.
  - rewrite (IH (tl dls) j s H). destruct dls; [destruct j; reflexivity|reflexivity].
Qed.

(* ---------- histories: the store never holds an undecodable file ---------- *)

Definition Dec (st : list (option tacert)) : Prop :=
  Forall (fun s => match s with Some c => tc_decodes c = true | None => True end) st.

Lemma Dec_process_tal : forall coll st dls, Dec st -> Dec (snd (process_tal coll dls st)).
Proof.
  intros coll st dls H. pose proof (process_tal_store coll st dls) as HS.
  remember (combine (map (fun k => nth k dls None) (seq 0 (length st))) st) as l eqn:El.
  assert (Hl : Forall (fun ds => match snd ds with Some c => tc_decodes c = true | None => True end) l).
  { subst l. clear HS. revert H. generalize (map (fun k : nat => nth k dls None) (seq 0 (length st))).
    induction st as [|s st IH]; intros l H; destruct l; cbn [combine]; constructor; inversion H; subst; auto. }
  clear El. induction HS as [|ds s' l st' Hstep _ IH]; [constructor|].
  inversion Hl; subst. constructor; [|apply IH; assumption].
  destruct Hstep as [->|[_ [c [_ [Hd ->]]]]]; assumption.
Qed.

Lemma Dec_cleanup : forall st, Dec (cleanup_ta st).
Proof.
  induction st as [|s st IH]; [constructor|]. cbn [cleanup_ta map]. constructor; [|exact IH].
  destruct s as [c|]; [|exact I]. destruct (tc_decodes c) eqn:E; cbn [andb]; [destruct (negb (tc_expired c)); [exact E|exact I]|exact I].
Qed.

Lemma Dec_step : forall st r, Dec st -> Dec (snd (step st r)).
Proof.
  intros st r H. unfold step. pose proof (Dec_process_tal (r_collector r) st (r_dls r) H) as H1.
  destruct (process_tal (r_collector r) (r_dls r) st) as [u st1]. cbn [snd] in *.
  destruct (r_dirty r); [exact H1|apply Dec_cleanup].
Qed.

Theorem history_store_decodes : forall runs st, Dec st -> Forall (fun x => Dec (snd x)) (history st runs).
Proof.
  induction runs as [|r runs IH]; intros st H; [constructor|].
  cbn [history]. pose proof (Dec_step st r H) as H1. destruct (step st r) as [u st']. cbn [snd] in H1.
  constructor; [exact H1|apply IH; exact H1].
Qed.

(* ---------- statements about single URIs of the loop ---------- *)

Lemma effs_length : forall coll st dls, length (effs coll dls st) = length st.
Proof. intros coll. induction st as [|s st IH]; intros dls; cbn [effs length]; [reflexivity|]. rewrite IH. reflexivity. Qed.

Lemma effs_nth_inv : forall coll st dls j e, nth_error (effs coll dls st) j = Some e ->
  exists s, nth_error st j = Some s /\ e = effective coll (nth j dls None) s.
Proof.
  intros coll st dls j e H.
  destruct (nth_error st j) as [s|] eqn:En.
  - exists s. split; [reflexivity|]. rewrite (effs_nth coll st dls j s En) in H. inversion H. reflexivity.
  - exfalso. apply nth_error_None in En. assert (nth_error (effs coll dls st) j <> None) by congruence.
    apply nth_error_Some in H0. rewrite effs_length in H0. lia.
Qed.

Lemma process_tal_nth : forall coll st dls j s, nth_error st j = Some s ->
  exists s', nth_error (snd (process_tal coll dls st)) j = Some s' /\ entry_step coll (nth j dls None) s s'.
Proof.
  intros coll. induction st as [|s0 st IH]; intros dls j s H; [destruct j; discriminate|].
  cbn [process_tal].
  pose proof (load_ta_store coll (hd None dls) s0) as Hl.
  destruct (load_ta coll (hd None dls) s0) as [cert s'] eqn:E. cbn [snd] in Hl.
  specialize (IH (tl dls)). destruct (process_tal coll (tl dls) st) as [u st''] eqn:E2. cbn [snd] in IH.
  assert (Hhd : nth 0 dls None = hd None dls) by (destruct dls; reflexivity).
  assert (Htl : forall k, nth (S k) dls None = nth k (tl dls) None) by (intros k; destruct dls; [destruct k|]; reflexivity).
  destruct j as [|j]; cbn [nth_error] in H.
  - inversion H; subst s0. exists s'. rewrite Hhd. split; [|exact Hl].
    destruct cert as [c|]; [destruct (usable c)|]; reflexivity.
  - destruct (IH j s H) as [s'' [Hn Hs]]. rewrite Htl.
    destruct cert as [c|]; [destruct (usable c)|]; cbn [snd nth_error]; eauto.
    exists s. split; [exact H|left; reflexivity].
Qed.
