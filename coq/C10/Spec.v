(* C10: the property as an executable oracle over a history of runs on one cache, the observation
   records and the case checker.  No proofs here. *)
From Coq Require Import List NArith Bool Arith.
From RV Require Export C10.Model.
Import ListNotations.
Local Open Scope N_scope.

(* What is observed of one run:
   ro_res     0 = the run returned Ok and the payload is that of at most one trust anchor certificate, 3 = else
   ro_used    the TAL URI (index) and the certificate (identity of its bytes) whose publication point contributed
              payload (every certificate of a case points to its own publication point); None = the TAL
              contributed nothing
   ro_stored  per TAL URI: identity of the bytes of the stored trust anchor file after the run *)
Record run_obs := { ro_res : N; ro_used : option (nat * N); ro_stored : list (option N) }.

Definition tacert_eqb (a b : tacert) : bool :=
  (tc_id a =? tc_id b) && Bool.eqb (tc_decodes a) (tc_decodes b) && Bool.eqb (tc_key_ok a) (tc_key_ok b)
  && Bool.eqb (tc_valid a) (tc_valid b) && Bool.eqb (tc_expired a) (tc_expired b).

Fixpoint nodupb (l : list N) : bool :=
  match l with [] => true | x :: t => negb (existsb (N.eqb x) t) && nodupb t end.

Definition oid (s : option tacert) : option N := option_map tc_id s.

(* the stored files as records, from the identities the implementation shows and the catalogue of the case *)
Fixpoint rebuild (cat : list (list tacert)) (ids : list (option N)) : list (option tacert) :=
  match cat with
  | [] => []
  | cj :: cat' =>
      match hd None ids with
      | Some i => find (fun c => tc_id c =? i) cj
      | None => None
      end :: rebuild cat' (tl ids)
  end.

Definition on_eqb (a b : option N) : bool :=
  match a, b with Some x, Some y => x =? y | None, None => true | _, _ => false end.

(* per URI: a stored file after the run is the one stored before or this run's download, and then the download decodes *)
Fixpoint store_frame (collector : bool) (dls : list (option tacert)) (prev post : list (option N)) : bool :=
  match post with
  | [] => true
  | p :: post' =>
      match p with
      | None => true
      | Some i =>
          on_eqb (hd None prev) (Some i)
          || (collector && match hd None dls with Some c => (tc_id c =? i) && tc_decodes c | None => false end)
      end && store_frame collector (tl dls) (tl prev) post'
  end.

(* The property for one run, given the stored files the implementation showed before the run:
   - a certificate is used only if it is what load_ta yields for its URI (a download that decodes, else the
     stored copy), its key is the TAL's key and it validates as a trust anchor;
   - the TAL contributes nothing only if no URI yields such a certificate (in particular a good stored copy is
     used when the download is missing or undecodable);
   - a download that does not decode never becomes the stored file. *)
Definition spec_run (cat : list (list tacert)) (prev : list (option N)) (r : runspec) (o : run_obs) : bool :=
  let es := effs (r_collector r) (r_dls r) (rebuild cat prev) in
  (ro_res o =? 0) && Nat.eqb (length (ro_stored o)) (length cat)
  && match ro_used o with
     | Some (j, i) => match nth_error es j with
                      | Some (Some c) => (tc_id c =? i) && usable c
                      | _ => false
                      end
     | None => forallb (fun e => match e with Some c => negb (usable c) | None => true end) es
     end
  && store_frame (r_collector r) (r_dls r) prev (ro_stored o).

Fixpoint spec_runs (cat : list (list tacert)) (prev : list (option N)) (runs : list runspec) (obs : list run_obs) : bool :=
  match runs, obs with
  | [], [] => true
  | r :: runs', o :: obs' => spec_run cat prev r o && spec_runs cat (ro_stored o) runs' obs'
  | _, _ => false
  end.

Definition spec_okb (cat : list (list tacert)) (runs : list runspec) (obs : list run_obs) : bool :=
  spec_runs cat (map (fun _ => None) cat) runs obs.

Definition obs_of (x : option (nat * tacert) * list (option tacert)) : run_obs :=
  {| ro_res := 0; ro_used := option_map (fun u => (fst u, tc_id (snd u))) (fst x); ro_stored := map oid (snd x) |}.

Definition model_obs (cat : list (list tacert)) (runs : list runspec) : list run_obs :=
  map obs_of (history (map (fun _ => None) cat) runs).

Fixpoint olist_eqb (a b : list (option N)) : bool :=
  match a, b with
  | [], [] => true
  | x :: a', y :: b' => on_eqb x y && olist_eqb a' b'
  | _, _ => false
  end.
Definition run_obs_eqb (a b : run_obs) : bool :=
  (ro_res a =? ro_res b)
  && match ro_used a, ro_used b with
     | Some (j, i), Some (j', i') => Nat.eqb j j' && (i =? i')
     | None, None => true
     | _, _ => false
     end
  && olist_eqb (ro_stored a) (ro_stored b).
Fixpoint obs_eqb (a b : list run_obs) : bool :=
  match a, b with
  | [], [] => true
  | x :: a', y :: b' => run_obs_eqb x y && obs_eqb a' b'
  | _, _ => false
  end.

(* well-formed case: within a URI's catalogue identities are unique; every served file is in the
   catalogue of its URI; one served entry per URI *)
Fixpoint dls_ok (cat : list (list tacert)) (dls : list (option tacert)) : bool :=
  match cat, dls with
  | [], [] => true
  | cj :: cat', d :: dls' =>
      match d with Some c => existsb (tacert_eqb c) cj | None => true end && dls_ok cat' dls'
  | _, _ => false
  end.
Definition wf_case (cat : list (list tacert)) (runs : list runspec) : bool :=
  forallb (fun cj => nodupb (map tc_id cj)) cat && forallb (fun r => dls_ok cat (r_dls r)) runs.

Record case := { c_cat : list (list tacert); c_runs : list runspec; c_impl : list run_obs }.

(* 0 = property holds on the implementation's observations and the model predicts them exactly (which URI wins,
   which files are stored); 1 = property holds, model differs; 2 = property violated; 9 = ill-formed case *)
Definition check_case (k : case) : N :=
  if negb (wf_case (c_cat k) (c_runs k)) then 9
  else if negb (spec_okb (c_cat k) (c_runs k) (c_impl k)) then 2
  else if obs_eqb (model_obs (c_cat k) (c_runs k)) (c_impl k) then 0 else 1.
