(* C10 — Trust anchors are bound to their TAL key.

   Model of
     /repo/src/engine.rs  Run::process_tal_task  (URIs of the TAL in order; per URI: load_ta, key comparison with the
                                                  TAL, validate_ta; the FIRST URI that passes is used and the loop
                                                  ends; URIs behind it are not touched; none passes -> the TAL
                                                  contributes nothing)
     /repo/src/engine.rs  Run::load_ta           (collector copy if there is one AND it decodes -> update_ta, use it;
                                                  otherwise the stored copy if it decodes)
     /repo/src/store.rs   Run::load_ta / update_ta (one file per TAL URI, read / overwritten)
     /repo/src/store.rs   Run::cleanup_ta        (after a successful run unless dirty: files that do not decode or
                                                  whose notAfter has passed are deleted)

   A certificate is identified by the identity of its bytes (tc_id) and carries the verdict bits of the
   rpki crate.  Definitions only; no proofs here. *)
From Coq Require Import List NArith Bool.
Import ListNotations.
Local Open Scope N_scope.

Record tacert := {
  tc_id : N;             (* identity of the bytes *)
  tc_decodes : bool;     (* Cert::decode succeeds *)
  tc_key_ok : bool;      (* subject_public_key_info() == tal.key_info() *)
  tc_valid : bool;       (* Cert::validate_ta succeeds (validity period, self-signature, resources, SIA) *)
  tc_expired : bool }.   (* validity().not_after() <= now (cleanup_ta) *)

Definition decoded (s : option tacert) : option tacert :=
  match s with Some c => if tc_decodes c then Some c else None | None => None end.

(* Run::load_ta for one URI: dl = what collector.load_ta returns (None: no file / no answer),
   st = the stored file.  Result: the decoded certificate (if any) and the stored file afterwards. *)
Definition load_ta (collector : bool) (dl st : option tacert) : option tacert * option tacert :=
  match (if collector then dl else None) with
  | Some c => if tc_decodes c then (Some c, Some c)       (* store.update_ta(uri, &bytes); return it *)
              else (decoded st, st)
  | None => (decoded st, st)
  end.

Definition usable (c : tacert) : bool := tc_key_ok c && tc_valid c.

(* Run::process_tal_task: for uri in tal.uris() { ... continue / return } *)
Fixpoint process_tal (collector : bool) (dls st : list (option tacert)) : option (nat * tacert) * list (option tacert) :=
  match st with
  | [] => (None, [])
  | s :: st' =>
      let '(cert, s') := load_ta collector (hd None dls) s in
      (* `continue`: the remaining URIs *)
      let next := let '(u, st'') := process_tal collector (tl dls) st' in
                  (option_map (fun x => (S (fst x), snd x)) u, s' :: st'') in
      match cert with
      | Some c => if usable c                                  (* key == TAL key, then validate_ta *)
                  then (Some (0%nat, c), s' :: st')            (* process_ta ...; return: later URIs untouched *)
                  else next
      | None => next
      end
  end.

(* cleanup_ta *)
Definition cleanup_ta (st : list (option tacert)) : list (option tacert) :=
  map (fun s => match s with
                | Some c => if tc_decodes c && negb (tc_expired c) then Some c else None
                | None => None
                end) st.

Record runspec := {
  r_collector : bool;                 (* Engine::new(config, update = true) *)
  r_dirty : bool;                     (* config.dirty_repository: no cleanup after the run *)
  r_dls : list (option tacert) }.     (* per TAL URI: the file served there in this run *)

Definition step (st : list (option tacert)) (r : runspec) : option (nat * tacert) * list (option tacert) :=
  let '(u, st1) := process_tal (r_collector r) (r_dls r) st in
  (u, if r_dirty r then st1 else cleanup_ta st1).

Fixpoint history (st : list (option tacert)) (runs : list runspec) : list (option (nat * tacert) * list (option tacert)) :=
  match runs with
  | [] => []
  | r :: runs' => let '(u, st') := step st r in (u, st') :: history st' runs'
  end.

(* the certificate the engine gets to see for a URI: the download if it decodes, else the stored copy if it decodes *)
Definition effective (collector : bool) (dl st : option tacert) : option tacert :=
  fst (load_ta collector dl st).

Fixpoint effs (collector : bool) (dls st : list (option tacert)) : list (option tacert) :=
  match st with
  | [] => []
  | s :: st' => effective collector (hd None dls) s :: effs collector (tl dls) st'
  end.

