(* C10: the model satisfies the executable oracle on every well-formed history. *)
From Coq Require Import List NArith Bool Arith Lia.
From RV Require Import C10.Model C10.Proofs C10.Spec.
Import ListNotations.
Local Open Scope N_scope.

Lemma on_eqb_refl : forall a, on_eqb a a = true.
Proof. intros [x|]; cbn; [apply N.eqb_refl|reflexivity]. Qed.

Lemma tacert_eqb_eq : forall a b, tacert_eqb a b = true -> a = b.
Proof.
  intros [i1 d1 k1 v1 e1] [i2 d2 k2 v2 e2]. unfold tacert_eqb. cbn.
  rewrite !andb_true_iff. intros [[[[Hi Hd] Hk] Hv] He].
  apply N.eqb_eq in Hi. apply Bool.eqb_prop in Hd, Hk, Hv, He. subst. reflexivity.
Qed.

Lemma nodupb_NoDup : forall l, nodupb l = true -> NoDup l.
Proof.
  induction l as [|x l IH]; intros H; [constructor|]. cbn [nodupb] in H. apply andb_true_iff in H. destruct H as [Hx Hl].
  constructor; [|apply IH; exact Hl]. intros Hin. apply negb_true_iff in Hx.
  assert (existsb (N.eqb x) l = true) by (apply existsb_exists; exists x; split; [exact Hin|apply N.eqb_refl]). congruence.
Qed.

Lemma find_id : forall cj c, NoDup (map tc_id cj) -> In c cj -> find (fun x => tc_id x =? tc_id c) cj = Some c.
Proof.
  induction cj as [|y cj IH]; intros c Hnd Hin; [destruct Hin|]. cbn [find].
  inversion Hnd as [|? ? Hny Hnd']; subst. destruct Hin as [->|Hin].
  - rewrite N.eqb_refl. reflexivity.
  - destruct (tc_id y =? tc_id c) eqn:E; [|apply IH; assumption].
    apply N.eqb_eq in E. exfalso. apply Hny. rewrite E. apply in_map. exact Hin.
Qed.

(* every stored file is one of the catalogue of its URI *)
Definition InCat (cat : list (list tacert)) (st : list (option tacert)) : Prop :=
  Forall2 (fun cj s => match s with Some c => In c cj | None => True end) cat st.

Lemma InCat_init : forall cat, InCat cat (map (fun _ => None) cat).
Proof. induction cat as [|cj cat IH]; constructor; [exact I|exact IH]. Qed.

Lemma InCat_length : forall cat st, InCat cat st -> length st = length cat.
Proof. intros cat st H. induction H; cbn [length]; congruence. Qed.

Lemma rebuild_oid : forall cat st, forallb (fun cj => nodupb (map tc_id cj)) cat = true -> InCat cat st ->
  rebuild cat (map oid st) = st.
Proof.
  intros cat st Hnd H. induction H as [|cj s cat st Hs _ IH]; [reflexivity|].
  cbn [forallb] in Hnd. apply andb_true_iff in Hnd. destruct Hnd as [Hcj Hnd].
  cbn [map rebuild hd tl]. rewrite (IH Hnd). f_equal. destruct s as [c|]; cbn [oid option_map]; [|reflexivity].
  apply find_id; [apply nodupb_NoDup; exact Hcj|exact Hs].
Qed.

Lemma InCat_process_tal : forall coll cat st, InCat cat st -> forall dls, dls_ok cat dls = true ->
  InCat cat (snd (process_tal coll dls st)).
Proof.
  intros coll cat st H. induction H as [|cj s cat st Hs Hrest IH]; intros dls Hok; [constructor|].
  destruct dls as [|d dls]; [discriminate|]. cbn [dls_ok] in Hok. apply andb_true_iff in Hok. destruct Hok as [Hd Hok].
  cbn [process_tal hd tl].
  pose proof (load_ta_store coll d s) as Hl.
  destruct (load_ta coll d s) as [cert s'] eqn:E. cbn [snd] in Hl.
  specialize (IH dls Hok). destruct (process_tal coll dls st) as [u st''] eqn:E2. cbn [snd] in IH.
  assert (Hs' : match s' with Some c => In c cj | None => True end).
  { destruct Hl as [->|[_ [c [-> [_ ->]]]]]; [exact Hs|].
    apply existsb_exists in Hd. destruct Hd as [y [Hy He]]. apply tacert_eqb_eq in He. subst y. exact Hy. }
  destruct cert as [c|]; [destruct (usable c)|]; cbn [snd]; constructor; assumption.
Qed.

Lemma InCat_cleanup : forall cat st, InCat cat st -> InCat cat (cleanup_ta st).
Proof.
  intros cat st H. induction H as [|cj s cat st Hs _ IH]; [constructor|].
  cbn [cleanup_ta map]. constructor; [|exact IH].
  destruct s as [c|]; [|exact I]. destruct (tc_decodes c && negb (tc_expired c)); [exact Hs|exact I].
Qed.

Lemma InCat_step : forall cat st r, InCat cat st -> dls_ok cat (r_dls r) = true -> InCat cat (snd (step st r)).
Proof.
  intros cat st r H Hok. unfold step. pose proof (InCat_process_tal (r_collector r) cat st H (r_dls r) Hok) as H1.
  destruct (process_tal (r_collector r) (r_dls r) st) as [u st1]. cbn [snd] in *.
  destruct (r_dirty r); [exact H1|apply InCat_cleanup; exact H1].
Qed.

(* ---------- the store frame ---------- *)

Lemma store_frame_same : forall coll st dls, store_frame coll dls (map oid st) (map oid st) = true.
Proof.
  intros coll. induction st as [|s st IH]; intros dls; [reflexivity|].
  cbn [map store_frame hd tl]. rewrite IH, andb_true_r. destruct (oid s) as [i|] eqn:E; [|reflexivity].
  cbn [on_eqb]. rewrite N.eqb_refl. reflexivity.
Qed.

Lemma store_frame_process_tal : forall coll st dls,
  store_frame coll dls (map oid st) (map oid (snd (process_tal coll dls st))) = true.
Proof.
  intros coll. induction st as [|s st IH]; intros dls; [reflexivity|].
  cbn [process_tal].
  pose proof (load_ta_store coll (hd None dls) s) as Hl.
  destruct (load_ta coll (hd None dls) s) as [cert s'] eqn:E. cbn [snd] in Hl.
  specialize (IH (tl dls)). destruct (process_tal coll (tl dls) st) as [u st''] eqn:E2. cbn [snd] in IH.
  assert (Hhead : match oid s' with
                  | Some i => on_eqb (oid s) (Some i)
                              || (coll && match hd None dls with Some c => (tc_id c =? i) && tc_decodes c | None => false end)
                  | None => true
                  end = true).
  { destruct Hl as [->|[-> [c [Hd [Hdec ->]]]]].
    - destruct (oid s) as [i|]; [|reflexivity]. cbn [on_eqb]. rewrite N.eqb_refl. reflexivity.
    - cbn [oid option_map]. rewrite Hd, N.eqb_refl, Hdec. cbn. apply orb_true_r. }
  destruct cert as [c|]; [destruct (usable c)|]; cbn [snd map store_frame hd tl]; rewrite Hhead; cbn [andb];
    try exact IH. apply store_frame_same.
Qed.

Lemma store_frame_cleanup : forall coll st1 dls prev,
  store_frame coll dls prev (map oid st1) = true -> store_frame coll dls prev (map oid (cleanup_ta st1)) = true.
Proof.
  intros coll. induction st1 as [|s st1 IH]; intros dls prev H; [reflexivity|].
  cbn [cleanup_ta map store_frame] in *. apply andb_true_iff in H. destruct H as [Hh Ht].
  apply andb_true_iff. split; [|apply IH; exact Ht].
  destruct s as [c|]; [|reflexivity]. destruct (tc_decodes c && negb (tc_expired c)); [exact Hh|reflexivity].
Qed.

(* ---------- one run ---------- *)

Lemma cleanup_length : forall st, length (cleanup_ta st) = length st.
Proof. intros. unfold cleanup_ta. apply map_length. Qed.

Lemma spec_run_model : forall cat st r,
  forallb (fun cj => nodupb (map tc_id cj)) cat = true -> InCat cat st ->
  spec_run cat (map oid st) r (obs_of (step st r)) = true.
Proof.
  intros cat st r Hnd HI. unfold spec_run, obs_of.
  rewrite (rebuild_oid cat st Hnd HI).
  unfold step.
  pose proof (process_tal_used (r_collector r) st (r_dls r)) as Hu.
  pose proof (process_tal_length (r_collector r) st (r_dls r)) as Hlen.
  pose proof (store_frame_process_tal (r_collector r) st (r_dls r)) as Hf.
  destruct (process_tal (r_collector r) (r_dls r) st) as [u st1]. cbn [fst snd] in *.
  cbn [ro_res ro_used ro_stored]. rewrite N.eqb_refl. cbn [andb].
  assert (Hl : length (map oid (if r_dirty r then st1 else cleanup_ta st1)) = length cat).
  { rewrite map_length. destruct (r_dirty r); [|rewrite cleanup_length]; rewrite Hlen; apply InCat_length; exact HI. }
  rewrite Hl, Nat.eqb_refl. cbn [andb].
  assert (Hfr : store_frame (r_collector r) (r_dls r) (map oid st) (map oid (if r_dirty r then st1 else cleanup_ta st1)) = true).
  { destruct (r_dirty r); [exact Hf|apply store_frame_cleanup; exact Hf]. }
  rewrite Hfr, andb_true_r.
  destruct u as [[j c]|]; cbn [option_map fst snd].
  - symmetry in Hu. apply first_usable_sound in Hu. destruct Hu as [Hn Hus]. rewrite Hn, N.eqb_refl, Hus. reflexivity.
  - symmetry in Hu. apply first_usable_none in Hu. apply forallb_forall. intros e He.
    rewrite Forall_forall in Hu. specialize (Hu e He). destruct e as [c|]; [rewrite Hu|]; reflexivity.
Qed.

Lemma spec_runs_model : forall cat runs st,
  forallb (fun cj => nodupb (map tc_id cj)) cat = true -> forallb (fun r => dls_ok cat (r_dls r)) runs = true ->
  InCat cat st -> spec_runs cat (map oid st) runs (map obs_of (history st runs)) = true.
Proof.
  intros cat. induction runs as [|r runs IH]; intros st Hnd Hok HI; [reflexivity|].
  cbn [forallb] in Hok. apply andb_true_iff in Hok. destruct Hok as [Hr Hok].
  cbn [history]. pose proof (spec_run_model cat st r Hnd HI) as Hs. pose proof (InCat_step cat st r HI Hr) as HI'.
  destruct (step st r) as [u st'] eqn:Es. cbn [snd] in HI'. cbn [map spec_runs]. rewrite Hs. cbn [andb].
  unfold obs_of at 1. cbn [ro_stored snd]. apply IH; assumption.
Qed.

Theorem model_satisfies_spec : forall cat runs, wf_case cat runs = true -> spec_okb cat runs (model_obs cat runs) = true.
Proof.
  intros cat runs Hwf. unfold wf_case in Hwf. apply andb_true_iff in Hwf. destruct Hwf as [Hnd Hok].
  unfold spec_okb, model_obs.
  pose proof (spec_runs_model cat runs (map (fun _ => None) cat) Hnd Hok (InCat_init cat)) as H.
  rewrite map_map in H. cbn [oid option_map] in H. exact H.
Qed.
