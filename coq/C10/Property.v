(* C10 — Trust anchors are bound to their TAL key.
   Only statements, [exact], examples, [Check] pins. *)
From Coq Require Import List NArith Bool Arith Lia.
From RV Require Import C10.Model C10.Proofs C10.Spec C10.SpecProofs.
Import ListNotations.
Local Open Scope N_scope.

(* A certificate is used only if it decodes, its key equals the TAL key and it validates as a trust anchor; and it
   is what load_ta yields for its URI: this run's download, or -- only when there is no collector, no file, or the
   file does not decode -- the stored copy. *)
Theorem C10_used_only_if_bound : forall coll dls st j c,
  fst (process_tal coll dls st) = Some (j, c) ->
  tc_decodes c = true /\ tc_key_ok c = true /\ tc_valid c = true /\
  exists s, nth_error st j = Some s /\
    ((coll = true /\ nth j dls None = Some c)
     \/ ((coll = false \/ nth j dls None = None \/ exists x, nth j dls None = Some x /\ tc_decodes x = false) /\ s = Some c)).
Proof.
  intros coll dls st j c H. rewrite process_tal_used in H. apply first_usable_sound in H. destruct H as [Hn Hu].
  apply effs_nth_inv in Hn. destruct Hn as [s [Hs He]]. unfold effective in He. symmetry in He.
  apply load_ta_cases in He. destruct He as [Hd Hsrc].
  unfold usable in Hu. apply andb_true_iff in Hu. destruct Hu as [Hk Hv].
  repeat split; try assumption. exists s. split; [exact Hs|].
  destruct Hsrc as [[Hc [Hdl _]]|[Hfail [Hst _]]]; auto.
Qed.

(* Which URI wins, exactly: the first one whose effective certificate is usable. *)
Theorem C10_first_usable_wins : forall coll dls st,
  fst (process_tal coll dls st) = first_usable (effs coll dls st).
Proof. intros. apply process_tal_used. Qed.

(* A downloaded certificate that does not decode never replaces the stored copy. *)
Theorem C10_undecodable_never_replaces : forall coll dls st j c s,
  nth j dls None = Some c -> tc_decodes c = false -> nth_error st j = Some s ->
  nth_error (snd (process_tal coll dls st)) j = Some s.
Proof.
  intros coll dls st j c s Hd Hdec Hs. destruct (process_tal_nth coll st dls j s Hs) as [s' [Hn Hstep]].
  rewrite Hn. f_equal. destruct Hstep as [->|[_ [x [Hx [Hxd _]]]]]; [reflexivity|]. rewrite Hd in Hx. inversion Hx; subst. congruence.
Qed.

(* Any stored file after the loop is the old one or a download of this run that decodes. *)
Theorem C10_store_changes_only_by_decodable_download : forall coll dls st j s,
  nth_error st j = Some s ->
  exists s', nth_error (snd (process_tal coll dls st)) j = Some s' /\
    (s' = s \/ (coll = true /\ exists c, nth j dls None = Some c /\ tc_decodes c = true /\ s' = Some c)).
Proof. intros. apply process_tal_nth. assumption. Qed.

(* The stored copy is used when the download fails (and no earlier URI yields a usable certificate). *)
Theorem C10_stored_copy_used_when_download_fails : forall coll dls st j c,
  nth_error st j = Some (Some c) -> tc_decodes c = true -> tc_key_ok c = true -> tc_valid c = true ->
  (coll = false \/ nth j dls None = None \/ exists x, nth j dls None = Some x /\ tc_decodes x = false) ->
  (forall k x, (k < j)%nat -> nth_error (effs coll dls st) k = Some (Some x) -> usable x = false) ->
  fst (process_tal coll dls st) = Some (j, c).
Proof.
  intros coll dls st j c Hs Hd Hk Hv Hfail Hfirst. rewrite process_tal_used.
  apply first_usable_complete; [|unfold usable; rewrite Hk, Hv; reflexivity|exact Hfirst].
  rewrite (effs_nth coll st dls j (Some c) Hs). unfold effective.
  rewrite (load_ta_fallback coll (nth j dls None) (Some c) c Hfail eq_refl Hd). reflexivity.
Qed.

(* A TAL contributes nothing exactly if no URI yields a usable certificate. *)
Theorem C10_all_uris_fail_iff_nothing : forall coll dls st,
  fst (process_tal coll dls st) = None <->
  Forall (fun e => match e with Some c => usable c = false | None => True end) (effs coll dls st).
Proof.
  intros coll dls st. rewrite process_tal_used. split; [apply first_usable_none|].
  induction (effs coll dls st) as [|e es IH]; intros H; [reflexivity|]. inversion H; subst. cbn [first_usable].
  destruct e as [c|]; [rewrite H2|]; rewrite (IH H3); reflexivity.
Qed.

(* Over histories that start with an empty store, every stored trust anchor file decodes. *)
Theorem C10_store_never_holds_undecodable : forall runs n,
  Forall (fun x => Dec (snd x)) (history (repeat None n) runs).
Proof.
  intros runs n. apply history_store_decodes. unfold Dec. induction n; cbn [repeat]; constructor; auto.
Qed.

Theorem C10_model_satisfies_spec : forall cat runs, wf_case cat runs = true ->
  spec_okb cat runs (model_obs cat runs) = true.
Proof. exact model_satisfies_spec. Qed.

(* Non-vacuity: one URI; a good certificate, then garbage, then nothing, then a certificate with another key. *)
Definition ex_good : tacert := {| tc_id := 1; tc_decodes := true; tc_key_ok := true; tc_valid := true; tc_expired := false |}.
Definition ex_garbage : tacert := {| tc_id := 2; tc_decodes := false; tc_key_ok := false; tc_valid := false; tc_expired := false |}.
Definition ex_wrong : tacert := {| tc_id := 4; tc_decodes := true; tc_key_ok := false; tc_valid := true; tc_expired := false |}.

Example C10_nonvacuous :
  let run dl := {| r_collector := true; r_dirty := false; r_dls := [dl] |} in
  map obs_of (history [None] [run (Some ex_good); run (Some ex_garbage); run None; run (Some ex_wrong); run None])
  = [ {| ro_res := 0; ro_used := Some (0%nat, 1); ro_stored := [Some 1] |};
      {| ro_res := 0; ro_used := Some (0%nat, 1); ro_stored := [Some 1] |};      (* garbage: stored copy kept and used *)
      {| ro_res := 0; ro_used := Some (0%nat, 1); ro_stored := [Some 1] |};      (* missing: stored copy used *)
      {| ro_res := 0; ro_used := None; ro_stored := [Some 4] |};                 (* decodes, wrong key: stored, not used *)
      {| ro_res := 0; ro_used := None; ro_stored := [Some 4] |} ]
  /\ check_case {| c_cat := [[ex_good; ex_garbage]];
                   c_runs := [run (Some ex_good); run (Some ex_garbage)];
                   c_impl := [ {| ro_res := 0; ro_used := Some (0%nat, 1); ro_stored := [Some 1] |};
                               {| ro_res := 0; ro_used := None; ro_stored := [Some 2] |} ] |} = 2.
Proof. split; vm_compute; reflexivity. Qed.

Check C10_used_only_if_bound : forall coll dls st j c,
  fst (process_tal coll dls st) = Some (j, c) ->
  tc_decodes c = true /\ tc_key_ok c = true /\ tc_valid c = true /\
  exists s, nth_error st j = Some s /\
    ((coll = true /\ nth j dls None = Some c)
     \/ ((coll = false \/ nth j dls None = None \/ exists x, nth j dls None = Some x /\ tc_decodes x = false) /\ s = Some c)).
Check C10_undecodable_never_replaces : forall coll dls st j c s,
  nth j dls None = Some c -> tc_decodes c = false -> nth_error st j = Some s ->
  nth_error (snd (process_tal coll dls st)) j = Some s.
Check C10_stored_copy_used_when_download_fails : forall coll dls st j c,
  nth_error st j = Some (Some c) -> tc_decodes c = true -> tc_key_ok c = true -> tc_valid c = true ->
  (coll = false \/ nth j dls None = None \/ exists x, nth j dls None = Some x /\ tc_decodes x = false) ->
  (forall k x, (k < j)%nat -> nth_error (effs coll dls st) k = Some (Some x) -> usable x = false) ->
  fst (process_tal coll dls st) = Some (j, c).
Check C10_all_uris_fail_iff_nothing : forall coll dls st,
  fst (process_tal coll dls st) = None <->
  Forall (fun e => match e with Some c => usable c = false | None => True end) (effs coll dls st).
Check C10_model_satisfies_spec : forall cat runs, wf_case cat runs = true ->
  spec_okb cat runs (model_obs cat runs) = true.
