(* C34: executable oracle and case checker. The real clock cannot be stopped, so the harness
   brackets it: [eps] is an upper bound on the time that passed between mark_update_done's clock
   reading and refresh_wait's, [e_lo, e_hi] bracket (deadline - completion time). *)
From Coq Require Import ZArith NArith Bool.
From RV Require Export C34.Model.
Local Open Scope Z_scope.

Record case := {
  c_refresh : Z; c_min : option Z;
  c_expiry : option (Z * Z);     (* deadline minus completion time: lower and upper bracket, may be negative *)
  c_eps : Z;
  i_wait : Z }.

Definition base (c : case) : Z := match c_min c with None => c_refresh c | Some m => m end.

(* the property *)
Definition spec_okb (c : case) : bool :=
  (base c <=? i_wait c) && (i_wait c <=? Z.max (c_refresh c) (base c))
  && match c_min c, c_expiry c with
     | Some m, Some (_, e_hi) => i_wait c <=? Z.max m (Z.min (c_refresh c) e_hi)   (* brought forward to the deadline, not below min-refresh *)
     | _, _ => true
     end.

(* the model with the clock anywhere inside the bracket *)
Definition model_hi (c : case) : Z :=
  wait_after_run 0 0 (c_refresh c) (c_min c) (match c_expiry c with Some (_, hi) => Some hi | None => None end).
Definition model_lo (c : case) : Z :=
  wait_after_run 0 (c_eps c) (c_refresh c) (c_min c) (match c_expiry c with Some (lo, _) => Some lo | None => None end).

Definition inputs_ok (c : case) : bool :=
  (0 <=? c_refresh c) && (0 <=? c_eps c) && match c_min c with Some m => 0 <=? m | None => true end
  && match c_expiry c with Some (lo, hi) => lo <=? hi | None => true end.

Definition check_case (c : case) : N :=
  if negb (inputs_ok c) then 9%N
  else if negb (spec_okb c) then 2%N
  else if (model_lo c <=? i_wait c) && (i_wait c <=? model_hi c) then 0%N else 1%N.
