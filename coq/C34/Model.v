(* C34 model: scheduling of the next validation run (src/payload/history.rs mark_update_done,
   refresh_wait; used by Server::run after a successful regular run). Times and durations are
   nanoseconds in Z; durations are non-negative. *)
From Coq Require Import ZArith Bool.
Local Open Scope Z_scope.

(* mark_update_done at time [now]: next_update_start = now + refresh, brought forward to the data
   set's refresh deadline [expiry] (snapshot.refresh()) when that is earlier *)
Definition next_update_start (now refresh : Z) (expiry : option Z) : Z :=
  let n := now + refresh in
  match expiry with Some e => if e <? n then e else n | None => n end.

(* refresh_wait at time [now']: max(next_update_start - now' (or 0 when in the past), min_refresh or refresh) *)
Definition refresh_wait (next now' refresh : Z) (min_refresh : option Z) : Z :=
  let wait_time := match min_refresh with None => refresh | Some m => m end in
  Z.max (Z.max (next - now') 0) wait_time.

Definition wait_after_run (now now' refresh : Z) (min_refresh expiry : option Z) : Z :=
  refresh_wait (next_update_start now refresh expiry) now' refresh min_refresh.
