(* C34 — Next-run scheduling respects refresh and min-refresh. *)
From Coq Require Import ZArith NArith Bool Lia.
From RV Require Import C34.Model C34.Spec.
Local Open Scope Z_scope.

(* min-refresh unset: the wait is exactly refresh, whatever the data set's deadline *)
Theorem C34_no_min_refresh : forall now now' refresh expiry, 0 <= refresh -> now <= now' ->
  wait_after_run now now' refresh None expiry = refresh.
Proof.
  intros now now' r e Hr Hn. unfold wait_after_run, refresh_wait, next_update_start.
  destruct e as [e|]; [destruct (Z.ltb_spec e (now + r))|]; lia.
Qed.

(* min-refresh set: never shorter than min-refresh, never longer than the larger of the two *)
Theorem C34_bounds : forall now now' refresh m expiry, 0 <= refresh -> 0 <= m -> now <= now' ->
  m <= wait_after_run now now' refresh (Some m) expiry <= Z.max refresh m.
Proof.
  intros now now' r m e Hr Hm Hn. unfold wait_after_run, refresh_wait, next_update_start.
  destruct e as [e|]; [destruct (Z.ltb_spec e (now + r))|]; lia.
Qed.

(* ... and exactly: the time left until min(completion + refresh, deadline), but not below min-refresh *)
Theorem C34_formula : forall now now' refresh m expiry, 0 <= refresh -> 0 <= m -> now <= now' ->
  wait_after_run now now' refresh (Some m) expiry =
  Z.max m (match expiry with Some e => Z.min (now + refresh) e | None => now + refresh end - now').
Proof.
  intros now now' r m e Hr Hm Hn. unfold wait_after_run, refresh_wait, next_update_start.
  destruct e as [e|]; [destruct (Z.ltb_spec e (now + r))|]; lia.
Qed.

(* the oracle holds of the model for every clock position inside the bracket *)
Theorem C34_model_satisfies_spec : forall r m e d, 0 <= r -> (forall x, m = Some x -> 0 <= x) -> 0 <= d ->
  let w := wait_after_run 0 d r m e in
  (match m with None => r | Some x => x end) <= w <= Z.max r (match m with None => r | Some x => x end) /\
  (forall x ev, m = Some x -> e = Some ev -> w <= Z.max x (Z.min r ev)).
Proof.
  intros r m e d Hr Hm Hd w. subst w. unfold wait_after_run, refresh_wait, next_update_start. split.
  - destruct m as [x|]; [specialize (Hm x eq_refl)|]; destruct e as [ev|]; try destruct (Z.ltb_spec ev (0 + r)); lia.
  - intros x ev -> ->. specialize (Hm x eq_refl). destruct (Z.ltb_spec ev (0 + r)); lia.
Qed.

Example C34_nonvacuous :
  wait_after_run 100 101 600 (Some 60) (Some 400) = 299 /\
  wait_after_run 100 101 600 (Some 60) (Some 120) = 60 /\
  wait_after_run 100 101 600 None (Some 120) = 600.
Proof. repeat split. Qed.

Check C34_bounds : forall now now' refresh m expiry, 0 <= refresh -> 0 <= m -> now <= now' ->
  m <= wait_after_run now now' refresh (Some m) expiry <= Z.max refresh m.
