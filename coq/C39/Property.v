(* C39 — The data refresh deadline never exceeds contributing objects' expiry.
   Only statements, [exact], an [Example] of non-vacuity and [Check] pins. *)
From Coq Require Import List ZArith NArith Bool.
From RV Require Import C39.Model C39.Spec C39.Proofs C39.Exact.
Import ListNotations.
Local Open Scope Z_scope.

(* For every validated tree (any number of trust anchors, any depth, any objects, any processing order):
   the deadline attached to the snapshot is <= every time listed in [all_bounds] - for every object that
   contributed payload: its own (EE) certificate's notAfter and, for every CA from its publication point up to
   the trust anchor, the CRL's nextUpdate, the manifest's nextUpdate, the manifest EE certificate's notAfter and
   the CA / TA certificate's notAfter. *)
Theorem C39_deadline_bound : forall c tals d b t,
  deadline c tals = Some d -> In b (all_bounds c tals) -> In t b -> d <= t.
Proof. exact deadline_bound. Qed.

(* a data set to which some object contributed payload has a deadline *)
Theorem C39_deadline_exists : forall c tals, all_bounds c tals <> [] -> deadline c tals <> None.
Proof. exact deadline_exists. Qed.

(* the deadline is the refresh value of a publication point that was pushed to the report *)
Theorem C39_deadline_attained : forall c tals d, deadline c tals = Some d -> In d (flat_map (run_tal c) tals).
Proof. exact deadline_attained. Qed.

(* the deadline equals an order-free expression: the minimum, over the accepted publication points that have at
   least one contributing object, of min(times on the point's chain, its contributing objects' expiry times) *)
Theorem C39_deadline_exact : forall c tals, forallb is_sub tals = true -> deadline c tals = exact_deadline c tals.
Proof. exact deadline_exact. Qed.

(* ... hence the (random) order in which the engine processes the objects of each publication point is irrelevant *)
Theorem C39_order_irrelevant : forall c tals tals',
  forallb is_sub tals = true -> Forall2 reorder tals tals' -> deadline c tals = deadline c tals'.
Proof. exact deadline_order_irrelevant. Qed.

(* the executable oracle evaluated on the implementation's deadline holds of the model on every input *)
Theorem C39_model_satisfies_spec : forall c tals, spec_okb c tals (model_obs c tals) = true.
Proof. exact model_satisfies_spec. Qed.

(* and it means what it says *)
Theorem C39_spec_sound : forall c tals d, spec_okb c tals (Some d) = true ->
  forall b t, In b (all_bounds c tals) -> In t b -> d <= t.
Proof. exact spec_okb_sound. Qed.

(* non-vacuity: a TA (expires 900) -> CA (cert 800; manifest EE 700, nextUpdates 600 / 50) with a ROA (EE 400),
   an ASPA that is switched off (EE 10), and below it a CA whose ROA is the only payload of that point; an empty
   sibling CA with early times and a rejected CA contribute nothing.  The CRL nextUpdate 50 of the middle CA
   is the deadline; the switched-off ASPA (10) and the empty CA (5) do not count. *)
Example C39_nonvacuous :
  let c := {| enable_aspa := false; enable_bgpsec := true |} in
  let tals := [Sub 900 true 890 880 870
                 [Leaf LSkip 1;
                  Sub 800 true 700 600 50
                    [Leaf (LRoa true) 400; Leaf LAspa 10;
                     Sub 750 true 740 730 720 [Leaf (LRoa true) 300; Leaf (LRoa false) 2];
                     Sub 5 true 5 5 5 [Leaf LSkip 1];
                     Sub 4 false 4 4 4 []]]] in
  deadline c tals = Some 50 /\ exact_deadline c tals = Some 50 /\
  all_bounds c tals = [[400; 50; 600; 700; 800; 870; 880; 890; 900];
                       [300; 720; 730; 740; 750; 50; 600; 700; 800; 870; 880; 890; 900]] /\
  spec_okb c tals (Some 50) = true /\ spec_okb c tals (Some 51) = false /\ spec_okb c tals None = false.
Proof. vm_compute. repeat split. Qed.

Check C39_deadline_bound : forall c tals d b t,
  deadline c tals = Some d -> In b (all_bounds c tals) -> In t b -> d <= t.
Check C39_deadline_exists : forall c tals, all_bounds c tals <> [] -> deadline c tals <> None.
Check C39_order_irrelevant : forall c tals tals',
  forallb is_sub tals = true -> Forall2 reorder tals tals' -> deadline c tals = deadline c tals'.
Check C39_model_satisfies_spec : forall c tals, spec_okb c tals (model_obs c tals) = true.
