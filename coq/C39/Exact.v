(* C39: the deadline computed by the (order-dependent) transcription equals an order-free expression,
   hence it does not depend on the order in which a publication point's objects are processed. *)
From Coq Require Import List ZArith NArith Bool Lia Permutation.
From RV Require Import C39.Model C39.Spec C39.Proofs.
Import ListNotations.
Local Open Scope Z_scope.

(* ---- lists with the same minimum ------------------------------------------- *)
Definition dom (l l' : list Z) : Prop := forall x, In x l -> exists y, In y l' /\ y <= x.
Definition equimin (l l' : list Z) : Prop := dom l l' /\ dom l' l.

Lemma dom_refl : forall l, dom l l.
Proof. intros l x Hx. exists x. split; [exact Hx | lia]. Qed.

Lemma dom_trans : forall a b c, dom a b -> dom b c -> dom a c.
Proof.
  intros a b c H1 H2 x Hx. destruct (H1 x Hx) as (y & Hy & Hle). destruct (H2 y Hy) as (z & Hz & Hle2).
  exists z. split; [exact Hz | lia].
Qed.

Lemma dom_app : forall a a' b b', dom a a' -> dom b b' -> dom (a ++ b) (a' ++ b').
Proof.
  intros a a' b b' H1 H2 x Hx. apply in_app_or in Hx. destruct Hx as [Hx|Hx].
  - destruct (H1 x Hx) as (y & Hy & Hle). exists y. split; [apply in_or_app; now left | exact Hle].
  - destruct (H2 x Hx) as (y & Hy & Hle). exists y. split; [apply in_or_app; now right | exact Hle].
Qed.

Lemma equimin_refl : forall l, equimin l l.
Proof. intros l. split; apply dom_refl. Qed.
Lemma equimin_sym : forall a b, equimin a b -> equimin b a.
Proof. intros a b [H1 H2]. now split. Qed.
Lemma equimin_trans : forall a b c, equimin a b -> equimin b c -> equimin a c.
Proof. intros a b c [H1 H2] [H3 H4]. split; eapply dom_trans; eauto. Qed.
Lemma equimin_app : forall a a' b b', equimin a a' -> equimin b b' -> equimin (a ++ b) (a' ++ b').
Proof. intros a a' b b' [H1 H2] [H3 H4]. split; now apply dom_app. Qed.

Lemma equimin_minl : forall l l', equimin l l' -> minl l = minl l'.
Proof.
  intros l l' [H1 H2]. destruct (minl l) as [d|] eqn:E; destruct (minl l') as [d'|] eqn:E'.
  - f_equal. pose proof (minl_in _ _ E) as Hd. pose proof (minl_in _ _ E') as Hd'.
    destruct (H1 d Hd) as (y & Hy & Hle). destruct (H2 d' Hd') as (y' & Hy' & Hle').
    pose proof (minl_le _ _ _ E' Hy). pose proof (minl_le _ _ _ E Hy'). lia.
  - apply minl_none in E'. subst l'. pose proof (minl_in _ _ E) as Hd. destruct (H1 d Hd) as (y & [] & _).
  - apply minl_none in E. subst l. pose proof (minl_in _ _ E') as Hd. destruct (H2 d' Hd) as (y & [] & _).
  - reflexivity.
Qed.

Lemma equimin_perm : forall l l', Permutation l l' -> equimin l l'.
Proof.
  intros l l' HP. split; intros x Hx; exists x; (split; [|lia]).
  - eapply Permutation_in; eauto.
  - eapply Permutation_in; [apply Permutation_sym|]; eauto.
Qed.

(* lowering every element by a value that another element already undercuts does not change the minimum *)
Lemma equimin_absorb : forall h t L, h <= t -> equimin ([h] ++ map (Z.min t) L) ([h] ++ L).
Proof.
  intros h t L Hle. split; intros x Hx; apply in_app_or in Hx; destruct Hx as [[<-|[]]|Hx].
  - exists h. split; [now left | lia].
  - apply in_map_iff in Hx. destruct Hx as (y & <- & Hy).
    destruct (Z.min_spec t y) as [[_ ->]|[_ ->]].
    + exists h. split; [now left | lia].
    + exists y. split; [apply in_or_app; now right | lia].
  - exists h. split; [now left | lia].
  - exists (Z.min t x). split; [apply in_or_app; right; apply in_map_iff; now exists x | lia].
Qed.

(* ---- lowering the initial value lowers every pushed value ---------------------- *)
Definition pj (j : Z) (p : pp) : pp := {| refresh := Z.min j (refresh p); nonempty := nonempty p |}.

Lemma process_leaf_pj : forall c j p k na, process_leaf c (pj j p) k na = pj j (process_leaf c p k na).
Proof.
  intros c j p k na. destruct k as [[]| | |]; cbn [process_leaf]; try reflexivity;
    try destruct (enable_aspa c); try destruct (enable_bgpsec c); try reflexivity;
    unfold pj, update_refresh, add_payload; cbn [refresh nonempty]; f_equal; lia.
Qed.

Lemma go_pp_pj : forall c j os p, go_pp c (pj j p) os = pj j (go_pp c p os).
Proof.
  induction os as [|o os IH]; intros p; cbn [go_pp]; [reflexivity|].
  destruct o as [k na|]; [|apply IH]. rewrite process_leaf_pj. apply IH.
Qed.

Lemma go_subs_pj : forall c j (rn : Z -> node -> list Z) os,
  Forall (fun o => forall i, rn (Z.min j i) o = map (Z.min j) (rn i o)) os ->
  forall p, go_subs rn c (pj j p) os = map (Z.min j) (go_subs rn c p os).
Proof.
  intros c j rn os HF. induction HF as [|o os Ho HF IH]; intros p; cbn [go_subs]; [reflexivity|].
  destruct o as [k na|na a m1 m2 m3 sub].
  - rewrite process_leaf_pj. apply IH.
  - rewrite map_app, <- IH. f_equal. unfold new_ca, pj. cbn [refresh].
    rewrite <- Z.min_assoc. apply Ho.
Qed.

Lemma point_validity_min : forall j i a b d, point_validity (Z.min j i) a b d = Z.min j (point_validity i a b d).
Proof. intros. unfold point_validity. lia. Qed.

Lemma run_node_shift : forall c n j i, run_node c (Z.min j i) n = map (Z.min j) (run_node c i n).
Proof.
  intros c. induction n as [k na|na a m1 m2 m3 objs HF] using node_ind'; intros j i; [reflexivity|].
  cbn [run_node]. destruct a; [|reflexivity].
  rewrite point_validity_min.
  change {| refresh := Z.min j (point_validity i m1 m2 m3); nonempty := false |}
    with (pj j {| refresh := point_validity i m1 m2 m3; nonempty := false |}).
  set (p0 := {| refresh := point_validity i m1 m2 m3; nonempty := false |}).
  rewrite go_pp_pj, map_app. f_equal.
  - unfold pj. cbn [nonempty refresh]. now destruct (nonempty (go_pp c p0 objs)).
  - apply go_subs_pj. eapply Forall_impl; [|exact HF]. intros o Ho i'. apply Ho.
Qed.

Lemma fold_min_shift : forall l r t, fold_right Z.min (Z.min t r) l = Z.min t (fold_right Z.min r l).
Proof. induction l as [|x l IH]; intros r t; cbn [fold_right]; [reflexivity|]. rewrite IH. lia. Qed.

Lemma exact_shift : forall c n j i, exact c (Z.min j i) n = map (Z.min j) (exact c i n).
Proof.
  intros c. induction n as [k na|na a m1 m2 m3 objs HF] using node_ind'; intros j i; [reflexivity|].
  cbn [exact]. destruct a; [|reflexivity]. rewrite point_validity_min, map_app. f_equal.
  - destruct (own_times c objs); [reflexivity|]. cbn [map]. f_equal. apply fold_min_shift.
  - set (cm := point_validity i m1 m2 m3). clearbody cm. induction HF as [|o os Ho HF IH]; [reflexivity|].
    cbn [flat_map]. rewrite map_app, <- IH. f_equal. rewrite <- Z.min_assoc. apply Ho.
Qed.

(* ---- the object loop, order-free ---------------------------------------------- *)
Lemma process_leaf_spec : forall c p k na,
  process_leaf c p k na =
    if contributes c k then {| refresh := Z.min (refresh p) na; nonempty := true |} else p.
Proof.
  intros c p k na. destruct k as [[]| | |]; cbn [process_leaf contributes]; try reflexivity;
    try destruct (enable_aspa c); try destruct (enable_bgpsec c); reflexivity.
Qed.

Lemma go_pp_refresh : forall c os p, refresh (go_pp c p os) = fold_right Z.min (refresh p) (own_times c os).
Proof.
  induction os as [|o os IH]; intros p; cbn [go_pp]; [reflexivity|].
  destruct o as [k na|]; [|apply IH].
  rewrite IH, process_leaf_spec. unfold own_times. cbn [flat_map]. fold (own_times c os).
  destruct (contributes c k); [|reflexivity]. cbn [refresh app fold_right].
  rewrite (Z.min_comm (refresh p) na). apply fold_min_shift.
Qed.

Lemma go_pp_nonempty_iff : forall c os p,
  nonempty (go_pp c p os) = nonempty p || match own_times c os with [] => false | _ => true end.
Proof.
  induction os as [|o os IH]; intros p; cbn [go_pp]; [now rewrite orb_false_r|].
  destruct o as [k na|]; [|apply IH].
  rewrite IH, process_leaf_spec. unfold own_times. cbn [flat_map]. fold (own_times c os).
  destruct (contributes c k); [|reflexivity]. cbn [nonempty app]. now rewrite orb_true_r.
Qed.

Definition hp (p : pp) : list Z := if nonempty p then [refresh p] else [].

Definition exact_ok (c : cfg) (n : node) : Prop := forall i, equimin (run_node c i n) (exact c i n).

Lemma loop_exact : forall c objs, Forall (exact_ok c) objs -> forall p,
  equimin (hp (go_pp c p objs) ++ go_subs (fun i o => run_node c i o) c p objs)
          (hp (go_pp c p objs) ++ flat_map (fun o => exact c (Z.min (refresh p) (node_na o)) o) objs).
Proof.
  intros c objs HF. induction HF as [|o objs Ho HF IH]; intros p; [apply equimin_refl|].
  destruct o as [k na|na a m1 m2 m3 sub].
  - (* a leaf: later children see the lowered refresh, but then this point is pushed with a value <= it *)
    cbn [go_pp go_subs flat_map exact app]. specialize (IH (process_leaf c p k na)).
    eapply equimin_trans; [exact IH|]. rewrite process_leaf_spec.
    destruct (contributes c k) eqn:Ek; [|apply equimin_refl].
    set (P := go_pp c {| refresh := Z.min (refresh p) na; nonempty := true |} objs).
    assert (Hne : nonempty P = true) by (apply go_pp_nonempty; reflexivity).
    assert (Hle : refresh P <= na).
    { pose proof (go_pp_le c objs {| refresh := Z.min (refresh p) na; nonempty := true |}). cbn [refresh] in H.
      fold P in H. lia. }
    unfold hp. rewrite Hne. cbn [refresh].
    assert (E : flat_map (fun o => exact c (Z.min (Z.min (refresh p) na) (node_na o)) o) objs
              = map (Z.min na) (flat_map (fun o => exact c (Z.min (refresh p) (node_na o)) o) objs)).
    { clear. induction objs as [|o os IHo]; [reflexivity|]. cbn [flat_map]. rewrite map_app, <- IHo. f_equal.
      rewrite <- exact_shift. f_equal. lia. }
    rewrite E. apply equimin_absorb. exact Hle.
  - (* a child CA *)
    cbn [go_pp go_subs flat_map node_na]. specialize (IH p).
    set (h := hp (go_pp c p objs)) in *.
    set (A := run_node c (new_ca p na) (Sub na a m1 m2 m3 sub)).
    set (A' := exact c (Z.min (refresh p) na) (Sub na a m1 m2 m3 sub)).
    set (B := go_subs (fun i o => run_node c i o) c p objs) in *.
    set (B' := flat_map (fun o => exact c (Z.min (refresh p) (node_na o)) o) objs) in *.
    assert (HA : equimin A A') by (apply Ho).
    eapply equimin_trans; [apply equimin_perm; apply Permutation_app_swap_app|].
    eapply equimin_trans; [|apply equimin_perm; apply Permutation_app_swap_app].
    apply equimin_app; assumption.
Qed.

Lemma exact_ok_all : forall c n, exact_ok c n.
Proof.
  intros c. induction n as [k na|na a m1 m2 m3 objs HF] using node_ind'; intros i; [apply equimin_refl|].
  cbn [run_node exact]. destruct a; [|apply equimin_refl].
  set (p0 := {| refresh := point_validity i m1 m2 m3; nonempty := false |}).
  pose proof (loop_exact c objs HF p0) as H. unfold hp in H.
  rewrite go_pp_refresh, go_pp_nonempty_iff in H. cbn [refresh nonempty orb] in H.
  rewrite go_pp_refresh, go_pp_nonempty_iff. cbn [refresh nonempty orb].
  destruct (own_times c objs); exact H.
Qed.

Theorem deadline_exact : forall c tals, forallb is_sub tals = true -> deadline c tals = exact_deadline c tals.
Proof.
  intros c tals Hs. unfold deadline, exact_deadline. apply equimin_minl.
  induction tals as [|n tals IH]; [apply equimin_refl|].
  cbn [forallb] in Hs. apply andb_true_iff in Hs. destruct Hs as [Hn Hs].
  cbn [flat_map]. apply equimin_app; [|now apply IH].
  destruct n as [|na a m1 m2 m3 objs]; [discriminate|]. cbn [run_tal node_na]. unfold new_ta. apply exact_ok_all.
Qed.

(* ---- processing order is irrelevant ------------------------------------------------ *)
(* the same tree up to the order of the objects inside every publication point *)
Inductive reorder : node -> node -> Prop :=
| ro_leaf : forall k na, reorder (Leaf k na) (Leaf k na)
| ro_sub : forall na a m1 m2 m3 objs objs' objs'',
    Forall2 reorder objs objs' -> Permutation objs' objs'' ->
    reorder (Sub na a m1 m2 m3 objs) (Sub na a m1 m2 m3 objs'').

Lemma reorder_na : forall n n', reorder n n' -> node_na n = node_na n'.
Proof. intros n n' H. destruct H; reflexivity. Qed.

Lemma own_times_perm : forall c l l', Permutation l l' -> Permutation (own_times c l) (own_times c l').
Proof.
  intros c l l' H. unfold own_times. induction H; cbn [flat_map].
  - constructor.
  - now apply Permutation_app_head.
  - rewrite !app_assoc. apply Permutation_app_tail. apply Permutation_app_comm.
  - eapply Permutation_trans; eauto.
Qed.

Lemma flat_map_perm : forall (f : node -> list Z) l l', Permutation l l' -> Permutation (flat_map f l) (flat_map f l').
Proof.
  intros f l l' H. induction H; cbn [flat_map].
  - constructor.
  - now apply Permutation_app_head.
  - rewrite !app_assoc. apply Permutation_app_tail. apply Permutation_app_comm.
  - eapply Permutation_trans; eauto.
Qed.

Lemma fold_min_perm : forall r l l', Permutation l l' -> fold_right Z.min r l = fold_right Z.min r l'.
Proof.
  intros r l l' H. induction H; cbn [fold_right]; lia.
Qed.

Lemma own_times_forall2 : forall c l l', Forall2 reorder l l' -> own_times c l = own_times c l'.
Proof.
  intros c l l' H. unfold own_times. induction H as [|x y l l' Hxy H IH]; [reflexivity|].
  cbn [flat_map]. rewrite IH. f_equal. destruct Hxy; reflexivity.
Qed.

Section ReorderInd.
(* induction principle that also gives the property for the children *)
Variable P : node -> node -> Prop.
Hypothesis Hl : forall k na, P (Leaf k na) (Leaf k na).
Hypothesis Hs : forall na a m1 m2 m3 objs objs' objs'',
  Forall2 reorder objs objs' -> Forall2 P objs objs' -> Permutation objs' objs'' ->
  P (Sub na a m1 m2 m3 objs) (Sub na a m1 m2 m3 objs'').
Fixpoint reorder_ind' n n' (H : reorder n n') {struct H} : P n n' :=
  match H in reorder a b return P a b with
  | ro_leaf k na => Hl k na
  | ro_sub na a m1 m2 m3 objs objs' objs'' HF HP =>
      Hs na a m1 m2 m3 objs objs' objs'' HF
         ((fix f l l' (h : Forall2 reorder l l') {struct h} : Forall2 P l l' :=
             match h in Forall2 _ a b return Forall2 P a b with
             | Forall2_nil _ => Forall2_nil P
             | Forall2_cons x y hxy ht => Forall2_cons x y (reorder_ind' x y hxy) (f _ _ ht)
             end) objs objs' HF) HP
  end.
End ReorderInd.

Lemma exact_reorder : forall c n n', reorder n n' -> forall i, equimin (exact c i n) (exact c i n').
Proof.
  intros c n n' H. induction H as [k na|na a m1 m2 m3 objs objs' objs'' HF HP Hperm] using reorder_ind'; intros i;
    [apply equimin_refl|].
  cbn [exact]. destruct a; [|apply equimin_refl].
  set (cm := point_validity i m1 m2 m3).
  assert (Eown : Permutation (own_times c objs) (own_times c objs'')).
  { rewrite (own_times_forall2 c objs objs' HF). now apply own_times_perm. }
  apply equimin_app.
  - rewrite (fold_min_perm cm _ _ Eown).
    destruct (own_times c objs) eqn:E1; destruct (own_times c objs'') eqn:E2; try apply equimin_refl.
    + apply Permutation_nil in Eown. discriminate.
    + apply Permutation_sym, Permutation_nil in Eown. discriminate.
  - eapply equimin_trans; [|apply equimin_perm; apply flat_map_perm; exact Hperm].
    clear Hperm Eown. induction HP as [|x y l l' Hxy HP IH]; [apply equimin_refl|].
    cbn [flat_map]. inversion HF as [|? ? ? ? Hr HF']; subst. apply equimin_app; [|now apply IH].
    rewrite (reorder_na _ _ Hr). apply Hxy.
Qed.

Theorem deadline_order_irrelevant : forall c tals tals',
  forallb is_sub tals = true -> Forall2 reorder tals tals' -> deadline c tals = deadline c tals'.
Proof.
  intros c tals tals' Hs HF.
  assert (Hs' : forallb is_sub tals' = true).
  { clear -Hs HF. induction HF as [|x y l l' Hxy HF IH]; [reflexivity|]. cbn [forallb] in *.
    apply andb_true_iff in Hs. destruct Hs as [Hx Hs]. rewrite (IH Hs), andb_true_r.
    destruct Hxy; [discriminate|reflexivity]. }
  rewrite (deadline_exact c tals Hs), (deadline_exact c tals' Hs'). unfold exact_deadline. apply equimin_minl.
  clear Hs Hs'. induction HF as [|x y l l' Hxy HF IH]; [apply equimin_refl|].
  cbn [flat_map]. apply equimin_app; [|exact IH]. rewrite (reorder_na _ _ Hxy). now apply exact_reorder.
Qed.
