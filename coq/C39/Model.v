(* C39 model: how the refresh deadline of a data set is accumulated.
   Hand transcription of
     /repo/src/payload/validation.rs  ValidationReport::process_ta, PubPoint::{new_ta,new_ca,update_refresh,is_empty},
                                      PubPointProcessor::{point_validity,process_ca,process_roa,process_aspa,
                                      process_router_cert,commit,cancel}, ValidationReport::into_snapshot,
                                      SnapshotBuilder::{process_pub_point,update_refresh}
     /repo/src/engine.rs              ValidPointManifest::point_validity, PubPoint::process_collected /
                                      process_stored (point_validity first, then the objects in some order,
                                      then accept_point -> commit), process_ca_cer (-> process_ca at the time the
                                      certificate is met), process_ca_task (children after the parent).
   Times are whole seconds relative to an arbitrary origin (Z).  No proofs here.

   What is NOT modelled: validation itself (the tree below contains verdicts: which objects reached the
   processor, which points were accepted), the payload items (only whether an object added any), the
   aborted-update path (process_collected aborts after some objects, then process_stored runs on the same
   processor), threads. *)
From Coq Require Import List ZArith Bool.
Import ListNotations.
Local Open Scope Z_scope.

(* switches of ValidationReport that decide whether an object type adds payload *)
Record cfg := { enable_aspa : bool; enable_bgpsec : bool }.

(* an object of a publication point that is NOT a CA certificate, as the processor sees it *)
Inductive leafkind :=
| LRoa (kept : bool)   (* valid ROA handed to process_roa; kept = add_roa pushed at least one origin
                          (at least one prefix passes limit-v4-len / limit-v6-len) *)
| LAspa                (* valid ASPA handed to process_aspa *)
| LRouter              (* valid router certificate handed to process_router_cert that passes its four checks *)
| LSkip.               (* never reaches the processor (invalid, GBR, CRL, unknown type) or returns early *)

(* [Sub na accepted mft_na mft_next crl_next objs]: a CA certificate with notAfter [na] that passed validation
   (process_ca was called), together with the publication point it certifies:
   accepted = a valid manifest+CRL was found (collected or stored) so that point_validity and accept_point ran;
   otherwise the point was rejected before point_validity (reject_point -> cancel).
   mft_na = notAfter of the manifest's EE certificate, mft_next / crl_next = the nextUpdate fields,
   objs = the objects in the order the engine processed them.
   A trust anchor is a top-level [Sub] whose [na] is the TA certificate's notAfter.
   [Leaf k na]: any other object; na = notAfter of its (EE) certificate. *)
Inductive node :=
| Leaf (k : leafkind) (na : Z)
| Sub (na : Z) (accepted : bool) (mft_na mft_next crl_next : Z) (objs : list node).

(* payload::validation::PubPoint, reduced to [refresh] and [!is_empty()] *)
Record pp := { refresh : Z; nonempty : bool }.

(* PubPoint::update_refresh *)
Definition update_refresh (p : pp) (t : Z) : pp := {| refresh := Z.min (refresh p) t; nonempty := nonempty p |}.
(* add_roa (with any = true) / add_aspa / add_router_key *)
Definition add_payload (p : pp) : pp := {| refresh := refresh p; nonempty := true |}.

(* PubPoint::new_ta *)
Definition new_ta (na : Z) : Z := na.
(* PubPoint::new_ca: cmp::min(parent.refresh, cert.notAfter) *)
Definition new_ca (parent : pp) (na : Z) : Z := Z.min (refresh parent) na.

(* engine ValidPointManifest::point_validity: stale = min(manifest nextUpdate, CRL nextUpdate);
   PubPointProcessor::point_validity: refresh = min(refresh, min(manifest EE notAfter, stale)) *)
Definition point_validity (r mft_na mft_next crl_next : Z) : Z :=
  Z.min r (Z.min mft_na (Z.min mft_next crl_next)).

(* process_roa / process_aspa / process_router_cert *)
Definition process_leaf (c : cfg) (p : pp) (k : leafkind) (na : Z) : pp :=
  match k with
  | LRoa kept => if kept then update_refresh (add_payload p) na else p    (* if add_roa(..) { update_refresh } *)
  | LAspa => if enable_aspa c then add_payload (update_refresh p na) else p
  | LRouter => if enable_bgpsec c then add_payload (update_refresh p na) else p
  | LSkip => p
  end.

(* the object loop of process_collected / process_stored, written as two projections of the same loop
   (the processor's final state; what the child CA tasks created on the way push to the report).
   [rn init child] is what processing the child CA with a processor created by process_ca
   (PubPoint::new_ca at THIS moment of the loop) later pushes. *)
Fixpoint go_pp (c : cfg) (p : pp) (os : list node) {struct os} : pp :=
  match os with
  | [] => p
  | Leaf k na :: t => go_pp c (process_leaf c p k na) t
  | Sub _ _ _ _ _ _ :: t => go_pp c p t
  end.

Section GoSubs.
Variable rn : Z -> node -> list Z.
Variable c : cfg.
Fixpoint go_subs (p : pp) (os : list node) {struct os} : list Z :=
  match os with
  | [] => []
  | o :: t =>
      match o with
      | Leaf k na => go_subs (process_leaf c p k na) t
      | Sub na _ _ _ _ _ => rn (new_ca p na) o ++ go_subs p t
      end
  end.
End GoSubs.

(* the refresh values of the publication points pushed to the report (commit pushes iff !is_empty()) by the CA
   task for [n], whose processor was created with refresh [init], and by all tasks below it *)
Fixpoint run_node (c : cfg) (init : Z) (n : node) {struct n} : list Z :=
  match n with
  | Leaf _ _ => []
  | Sub _ accepted mft_na mft_next crl_next objs =>
      if accepted then
        let p0 := {| refresh := point_validity init mft_na mft_next crl_next; nonempty := false |} in
        let p := go_pp c p0 objs in
        (if nonempty p then [refresh p] else []) ++ go_subs (fun i o => run_node c i o) c p0 objs
      else []
  end.

(* process_ta: PubPoint::new_ta(cert) *)
Definition run_tal (c : cfg) (n : node) : list Z :=
  match n with
  | Leaf _ _ => []
  | Sub na _ _ _ _ _ => run_node c (new_ta na) n
  end.

(* SnapshotBuilder::update_refresh *)
Definition snap_update (acc : option Z) (t : Z) : option Z :=
  match acc with Some old => Some (Z.min old t) | None => Some t end.

Definition minl (l : list Z) : option Z := fold_left snap_update l None.

(* into_snapshot: every pushed point goes through process_pub_point -> update_refresh(point.refresh);
   the result is PayloadSnapshot::refresh() *)
Definition deadline (c : cfg) (tals : list node) : option Z := minl (flat_map (run_tal c) tals).
