(* C39: the property as an executable oracle, and the case checker of the correspondence run.
   No proofs here. *)
From Coq Require Import List ZArith NArith Bool.
From RV Require Export C39.Model.
Import ListNotations.
Local Open Scope Z_scope.

(* does an object add payload to its publication point? *)
Definition contributes (c : cfg) (k : leafkind) : bool :=
  match k with
  | LRoa kept => kept
  | LAspa => enable_aspa c
  | LRouter => enable_bgpsec c
  | LSkip => false
  end.

(* One entry per object that contributed payload: its own notAfter followed by every time on its chain:
   for each CA from its publication point up to the trust anchor the CRL's nextUpdate, the manifest's
   nextUpdate, the manifest EE certificate's notAfter and the CA (or TA) certificate's notAfter.
   [chain] = the times collected above [n]. *)
Fixpoint bounds (c : cfg) (chain : list Z) (n : node) {struct n} : list (list Z) :=
  match n with
  | Leaf _ _ => []
  | Sub na accepted mft_na mft_next crl_next objs =>
      if accepted then
        let chain' := crl_next :: mft_next :: mft_na :: na :: chain in
        flat_map (fun o => match o with
                           | Leaf k t => if contributes c k then [t :: chain'] else []
                           | Sub _ _ _ _ _ _ => bounds c chain' o
                           end) objs
      else []
  end.

Definition all_bounds (c : cfg) (tals : list node) : list (list Z) := flat_map (bounds c []) tals.

(* The property: if any object contributed payload there IS a deadline, and the deadline is no later than any
   time on the chain of any contributing object nor the object's own expiry. *)
Definition spec_okb (c : cfg) (tals : list node) (obs : option Z) : bool :=
  match obs with
  | None => match all_bounds c tals with [] => true | _ => false end
  | Some d => forallb (fun b => forallb (fun t => d <=? t) b) (all_bounds c tals)
  end.

Definition model_obs (c : cfg) (tals : list node) : option Z := deadline c tals.

Definition is_sub (n : node) : bool := match n with Sub _ _ _ _ _ _ => true | Leaf _ _ => false end.

Definition oz_eqb (a b : option Z) : bool :=
  match a, b with
  | Some x, Some y => x =? y
  | None, None => true
  | _, _ => false
  end.

(* One correspondence case: the validated tree as the generator's ground truth describes it, and
   PayloadSnapshot::refresh() of the real run (seconds relative to the same origin).
   Result codes: 0 oracle true and model = implementation; 1 oracle true, model differs;
   2 oracle false on the implementation's deadline; 9 a top-level node is not a trust anchor. *)
Record case := { c_cfg : cfg; c_tals : list node; c_impl : option Z }.

Definition check_case (k : case) : N :=
  if negb (forallb is_sub (c_tals k)) then 9%N
  else if negb (spec_okb (c_cfg k) (c_tals k) (c_impl k)) then 2%N
  else if oz_eqb (model_obs (c_cfg k) (c_tals k)) (c_impl k) then 0%N else 1%N.

(* ---- an order-free description of the deadline (used by the theorem that the order in which the engine
   happens to process the objects of a publication point - it shuffles them - does not matter) ---- *)
Definition own_times (c : cfg) (objs : list node) : list Z :=
  flat_map (fun o => match o with
                     | Leaf k t => if contributes c k then [t] else []
                     | Sub _ _ _ _ _ _ => []
                     end) objs.

Definition node_na (n : node) : Z := match n with Leaf _ na => na | Sub na _ _ _ _ _ => na end.

(* [cm] = the minimum of the times on the chain above (and including) the CA's own certificate.  Every accepted
   point with at least one contributing object yields min(chain, manifest/CRL times, its contributing objects'
   expiry times); nothing else yields anything. *)
Fixpoint exact (c : cfg) (cm : Z) (n : node) {struct n} : list Z :=
  match n with
  | Leaf _ _ => []
  | Sub _ accepted mft_na mft_next crl_next objs =>
      if accepted then
        let cm' := point_validity cm mft_na mft_next crl_next in
        (match own_times c objs with [] => [] | _ => [fold_right Z.min cm' (own_times c objs)] end)
        ++ flat_map (fun o => exact c (Z.min cm' (node_na o)) o) objs
      else []
  end.

Definition exact_deadline (c : cfg) (tals : list node) : option Z :=
  minl (flat_map (fun n => exact c (node_na n) n) tals).
