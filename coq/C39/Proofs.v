(* C39 proofs: the deadline is a lower bound of every time on the chain of every contributing object. *)
From Coq Require Import List ZArith NArith Bool Lia.
From RV Require Import C39.Model C39.Spec.
Import ListNotations.
Local Open Scope Z_scope.

(* ---- induction over the nested tree ------------------------------------ *)
Section NodeInd.
Variable P : node -> Prop.
Hypothesis Hleaf : forall k na, P (Leaf k na).
Hypothesis Hsub : forall na a m1 m2 m3 objs, Forall P objs -> P (Sub na a m1 m2 m3 objs).
Fixpoint node_ind' (n : node) : P n :=
  match n with
  | Leaf k na => Hleaf k na
  | Sub na a m1 m2 m3 objs =>
      Hsub na a m1 m2 m3 objs
        ((fix f (l : list node) : Forall P l :=
            match l with
            | [] => Forall_nil P
            | x :: t => Forall_cons x (node_ind' x) (f t)
            end) objs)
  end.
End NodeInd.

(* ---- the running minimum ------------------------------------------------ *)
Lemma fold_some : forall l a, exists d, fold_left snap_update l (Some a) = Some d /\ d <= a
  /\ (forall x, In x l -> d <= x) /\ (d = a \/ In d l).
Proof.
  induction l as [|x l IH]; intros a; cbn [fold_left snap_update].
  - exists a. repeat split; [lia | intros ? [] | now left].
  - destruct (IH (Z.min a x)) as (d & E & Hle & Hall & Hin). exists d. split; [exact E|].
    split; [lia|]. split.
    + intros y [<-|Hy]; [lia | now apply Hall].
    + destruct Hin as [->|Hin]; [|right; now right].
      destruct (Z.min_spec a x) as [[_ ->]|[_ ->]]; [now left | right; now left].
Qed.

Lemma minl_nil : minl [] = None.
Proof. reflexivity. Qed.

Lemma minl_cons : forall x l, exists d, minl (x :: l) = Some d /\ d <= x /\ (forall y, In y l -> d <= y)
  /\ In d (x :: l).
Proof.
  intros x l. unfold minl. cbn [fold_left snap_update].
  destruct (fold_some l x) as (d & E & H1 & H2 & H3). exists d. repeat split; auto.
  destruct H3 as [->|H3]; [now left | now right].
Qed.

Lemma minl_le : forall l d x, minl l = Some d -> In x l -> d <= x.
Proof.
  intros [|y l] d x E Hx; [destruct Hx|].
  destruct (minl_cons y l) as (d' & E' & H1 & H2 & _). rewrite E in E'. injection E' as <-.
  destruct Hx as [<-|Hx]; [exact H1 | now apply H2].
Qed.

Lemma minl_in : forall l d, minl l = Some d -> In d l.
Proof.
  intros [|y l] d E; [discriminate|].
  destruct (minl_cons y l) as (d' & E' & _ & _ & H). rewrite E in E'. now injection E' as <-.
Qed.

Lemma minl_none : forall l, minl l = None <-> l = [].
Proof.
  intros [|y l]; split; intros H; try reflexivity; try discriminate.
  destruct (minl_cons y l) as (d' & E' & _). rewrite H in E'. discriminate.
Qed.

(* ---- the object loop only lowers refresh and never forgets payload ------- *)
Lemma process_leaf_le : forall c p k na, refresh (process_leaf c p k na) <= refresh p.
Proof.
  intros c p k na. destruct k as [[]| | |]; cbn [process_leaf];
    try destruct (enable_aspa c); try destruct (enable_bgpsec c);
    cbn [update_refresh add_payload refresh]; lia.
Qed.

Lemma process_leaf_nonempty : forall c p k na, nonempty p = true -> nonempty (process_leaf c p k na) = true.
Proof.
  intros c p k na H. destruct k as [[]| | |]; cbn [process_leaf];
    try destruct (enable_aspa c); try destruct (enable_bgpsec c);
    cbn [update_refresh add_payload nonempty]; auto.
Qed.

Lemma process_leaf_contributes : forall c p k na, contributes c k = true ->
  nonempty (process_leaf c p k na) = true /\ refresh (process_leaf c p k na) <= na.
Proof.
  intros c p k na H. destruct k as [[]| | |]; cbn [contributes] in H; try discriminate; cbn [process_leaf];
    rewrite ?H; cbn [update_refresh add_payload nonempty refresh]; split; auto; lia.
Qed.

Lemma go_pp_le : forall c os p, refresh (go_pp c p os) <= refresh p.
Proof.
  induction os as [|o os IH]; intros p; cbn [go_pp]; [lia|].
  destruct o as [k na|]; [|apply IH]. specialize (IH (process_leaf c p k na)).
  pose proof (process_leaf_le c p k na). lia.
Qed.

Lemma go_pp_nonempty : forall c os p, nonempty p = true -> nonempty (go_pp c p os) = true.
Proof.
  induction os as [|o os IH]; intros p H; cbn [go_pp]; [exact H|].
  destruct o as [k na|]; [|now apply IH]. apply IH. now apply process_leaf_nonempty.
Qed.

(* ---- the bound ------------------------------------------------------------ *)

(* what one publication point's loop guarantees, given the guarantee for its children *)
Definition node_ok (c : cfg) (n : node) : Prop :=
  forall init chain, (forall t, In t (node_na n :: chain) -> init <= t) ->
  forall b, In b (bounds c chain n) ->
  exists r, In r (run_node c init n) /\ forall t, In t b -> r <= t.

Lemma loop_ok : forall c chain' objs, Forall (node_ok c) objs ->
  forall p, (forall t, In t chain' -> refresh p <= t) ->
  forall b, In b (flat_map (fun o => match o with
                                   | Leaf k t => if contributes c k then [t :: chain'] else []
                                   | Sub _ _ _ _ _ _ => bounds c chain' o
                                   end) objs) ->
  exists r, ((r = refresh (go_pp c p objs) /\ nonempty (go_pp c p objs) = true)
             \/ In r (go_subs (fun i o => run_node c i o) c p objs))
            /\ forall t, In t b -> r <= t.
Proof.
  intros c chain' objs HF. induction HF as [|o objs Ho HF IH]; intros p Hp b Hb; [destruct Hb|].
  cbn [flat_map] in Hb. apply in_app_or in Hb.
  destruct o as [k na|na a m1 m2 m3 sub].
  - (* a leaf *)
    cbn [go_pp go_subs]. pose proof (process_leaf_le c p k na) as Hle.
    destruct Hb as [Hb|Hb].
    + destruct (contributes c k) eqn:Ek; [|destruct Hb]. destruct Hb as [<-|[]].
      destruct (process_leaf_contributes c p k na Ek) as [Hne Hna].
      exists (refresh (go_pp c (process_leaf c p k na) objs)). split.
      * left. split; [reflexivity | now apply go_pp_nonempty].
      * pose proof (go_pp_le c objs (process_leaf c p k na)) as H2.
        intros t [<-|Ht]; [lia | specialize (Hp t Ht); lia].
    + apply (IH (process_leaf c p k na)); [|exact Hb]. intros t Ht. specialize (Hp t Ht). lia.
  - (* a child CA *)
    cbn [go_pp go_subs]. destruct Hb as [Hb|Hb].
    + assert (Hi : forall t, In t (node_na (Sub na a m1 m2 m3 sub) :: chain') -> new_ca p na <= t).
      { unfold new_ca. cbn [node_na]. intros t [<-|Ht]; [lia | specialize (Hp t Ht); lia]. }
      destruct (Ho (new_ca p na) chain' Hi b Hb) as (r & Hr & Hrb).
      exists r. split; [right; apply in_or_app; now left | exact Hrb].
    + destruct (IH p Hp b Hb) as (r & [Hr|Hr] & Hrb); exists r; (split; [|exact Hrb]).
      * now left.
      * right. apply in_or_app. now right.
Qed.

Lemma node_ok_all : forall c n, node_ok c n.
Proof.
  intros c. induction n as [k na|na a m1 m2 m3 objs HF] using node_ind'; intros init chain Hinit b Hb.
  - destruct Hb.
  - cbn [bounds] in Hb. cbn [run_node]. destruct a; [|destruct Hb].
    set (p0 := {| refresh := point_validity init m1 m2 m3; nonempty := false |}).
    assert (Hp0 : forall t, In t (m3 :: m2 :: m1 :: na :: chain) -> refresh p0 <= t).
    { unfold p0, point_validity. cbn [refresh]. cbn [node_na] in Hinit.
      intros t [<-|[<-|[<-|Ht]]]; try lia. specialize (Hinit t Ht). lia. }
    destruct (loop_ok c (m3 :: m2 :: m1 :: na :: chain) objs HF p0 Hp0 b Hb) as (r & Hr & Hrb).
    + exists r. split; [|exact Hrb]. apply in_or_app. destruct Hr as [[-> Hne]|Hr]; [left|now right].
      fold p0. rewrite Hne. now left.
Qed.

Lemma all_bounds_run : forall c tals b, In b (all_bounds c tals) ->
  exists r, In r (flat_map (run_tal c) tals) /\ forall t, In t b -> r <= t.
Proof.
  intros c tals b Hb. unfold all_bounds in Hb. apply in_flat_map in Hb. destruct Hb as (n & Hn & Hb).
  destruct n as [k na|na a m1 m2 m3 objs]; [destruct Hb|].
  assert (Hi : forall t, In t (node_na (Sub na a m1 m2 m3 objs) :: []) -> new_ta na <= t).
  { unfold new_ta. cbn [node_na]. intros t [<-|[]]. lia. }
  destruct (node_ok_all c (Sub na a m1 m2 m3 objs) (new_ta na) [] Hi b Hb) as (r & Hr & Hrb).
  - exists r. split; [|exact Hrb]. apply in_flat_map. exists (Sub na a m1 m2 m3 objs). split; [exact Hn|exact Hr].
Qed.

(* the deadline is no later than any time on the chain of a contributing object, nor its own expiry *)
Theorem deadline_bound : forall c tals d b t,
  deadline c tals = Some d -> In b (all_bounds c tals) -> In t b -> d <= t.
Proof.
  intros c tals d b t Hd Hb Ht. destruct (all_bounds_run c tals b Hb) as (r & Hr & Hrb).
  pose proof (minl_le _ _ _ Hd Hr). specialize (Hrb t Ht). lia.
Qed.

(* a data set with payload has a deadline *)
Theorem deadline_exists : forall c tals, all_bounds c tals <> [] -> deadline c tals <> None.
Proof.
  intros c tals Hne Hd. destruct (all_bounds c tals) as [|b bs] eqn:E; [now apply Hne|].
  destruct (all_bounds_run c tals b) as (r & Hr & _); [rewrite E; now left|].
  unfold deadline in Hd. apply minl_none in Hd. rewrite Hd in Hr. destruct Hr.
Qed.

(* the deadline is the refresh value of some publication point that was pushed (so it is not arbitrary) *)
Theorem deadline_attained : forall c tals d, deadline c tals = Some d -> In d (flat_map (run_tal c) tals).
Proof. intros c tals d H. now apply minl_in. Qed.

Theorem model_satisfies_spec : forall c tals, spec_okb c tals (model_obs c tals) = true.
Proof.
  intros c tals. unfold spec_okb, model_obs. destruct (deadline c tals) as [d|] eqn:Ed.
  - apply forallb_forall. intros b Hb. apply forallb_forall. intros t Ht. apply Z.leb_le.
    exact (deadline_bound c tals d b t Ed Hb Ht).
  - destruct (all_bounds c tals) as [|b bs] eqn:E; [reflexivity|].
    exfalso. apply (deadline_exists c tals); [rewrite E; discriminate | exact Ed].
Qed.

(* the oracle means what it says *)
Theorem spec_okb_sound : forall c tals d, spec_okb c tals (Some d) = true ->
  forall b t, In b (all_bounds c tals) -> In t b -> d <= t.
Proof.
  intros c tals d H b t Hb Ht. unfold spec_okb in H. rewrite forallb_forall in H.
  specialize (H b Hb). rewrite forallb_forall in H. apply Z.leb_le. now apply H.
Qed.
