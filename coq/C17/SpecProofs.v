(* C17: the model's own observation satisfies the executable oracle at the end of every schedule
   that respects the writer's program order and leaves the handler quiescent (returned or stuck). *)
From Coq Require Import List NArith Bool Lia.
From RV Require Import C17.Model C17.Proofs C17.Spec.
Import ListNotations.
Local Open Scope N_scope.

Definition installs (evs : list ev) : N :=
  N.of_nat (length (filter (fun e => match e with Install => true | _ => false end) evs)).

Lemma hstep_ver b presented s : ver (hstep b presented s) = ver s.
Proof.
  unfold hstep. destruct (pc s); destruct b; try destruct presented as [p|]; try destruct (ver s =? p);
    try destruct (sub s <? gen s); reflexivity.
Qed.

Lemma run_ver b presented evs s : ver (run b presented s evs) = ver s + installs evs.
Proof.
  unfold run, installs. revert s; induction evs as [|e evs IH]; intros s; cbn [fold_left filter length]; [cbn; lia|].
  rewrite IH. destruct e; cbn [step ver filter length]; rewrite ?hstep_ver; lia.
Qed.

(* a reported version lies between the version at arrival and the current one *)
Definition Between (v0 : N) (s : st) : Prop :=
  v0 <= ver s /\ forall r, resp s = Some r -> v0 <= r /\ r <= ver s.

Lemma between_step b presented v0 s e : Between v0 s -> Between v0 (step b presented s e).
Proof.
  intros [B1 B2]. destruct e; cbn [step].
  - split; cbn [ver resp]; [lia|]. intros r E. specialize (B2 r E). lia.
  - split; cbn [ver resp]; [lia|exact B2].
  - unfold hstep. destruct (pc s); destruct b; try destruct presented as [p|]; try destruct (ver s =? p);
      try destruct (sub s <? gen s); split; cbn [ver resp]; try exact B1; try exact B2;
      try (intros r E; discriminate); try (intros r E; inversion E; subst; lia).
Qed.

Lemma between_run b presented v0 evs s : Between v0 s -> Between v0 (run b presented s evs).
Proof.
  unfold run. revert s; induction evs as [|e evs IH]; intros s B; cbn [fold_left]; [exact B|].
  apply IH. apply between_step. exact B.
Qed.

Definition model_case (c : case) : case :=
  {| c_v0 := c_v0 c; c_presented := c_presented c; c_events := c_events c;
     i_done := pc_done (model_final c); i_resp := resp (model_final c); i_stuck := stuck (model_final c) |}.

Theorem model_satisfies_spec c : writer_ok false (c_events c) = true ->
  (pc_done (model_final c) || stuck (model_final c) = true) ->
  spec_okb (model_case c) = true /\ check_case (model_case c) = 0.
Proof.
  intros W Q.
  assert (spec_okb (model_case c) = true) as S.
  { assert (final_ver (model_case c) = ver (model_final c)) as FV.
    { unfold final_ver, model_final, model_case. cbn [c_events c_v0]. rewrite run_ver. cbn [start ver]. reflexivity. }
    unfold spec_okb. rewrite FV. unfold model_case. cbn [i_done i_stuck i_resp c_presented c_v0 c_events]. rewrite Q. cbn [andb].
    apply andb_true_iff; split.
    - destruct (stuck (model_final c)) eqn:St; [|reflexivity].
      pose proof (blocks_only_while_current (c_presented c) (c_v0 c) 0 (c_events c) W St) as E.
      fold (model_final c) in E. rewrite E. apply N.eqb_refl.
    - destruct (pc_done (model_final c)) eqn:D; [|reflexivity].
      assert (Between (c_v0 c) (model_final c)) as [B1 B2].
      { apply between_run. split; cbn [start ver resp]; [lia|discriminate]. }
      assert (exists r, resp (model_final c) = Some r) as [r Er].
      { (* a finished handler has reported *)
        clear -D. unfold model_final, run in *. unfold pc_done in D.
        assert (forall evs s, (pc s = HDone -> exists r, resp s = Some r) ->
                  pc (fold_left (step true (c_presented c)) evs s) = HDone ->
                  exists r, resp (fold_left (step true (c_presented c)) evs s) = Some r) as G.
        { induction evs as [|e evs IH]; intros s Hs; cbn [fold_left]; [exact Hs|]. apply IH.
          destruct e; cbn [step pc resp]; try exact Hs.
          unfold hstep. destruct (pc s) eqn:P; try destruct (c_presented c) as [p|]; try destruct (ver s =? p);
            try destruct (sub s <? gen s); cbn [pc resp]; try discriminate; try (intros _; eexists; reflexivity).
          all: try (rewrite P; exact Hs). all: intros Hd; try discriminate; try (apply Hs; exact Hd). }
        apply G; [cbn; discriminate|]. destruct (pc (fold_left _ _ _)); try discriminate. reflexivity. }
      rewrite Er. destruct (B2 r Er) as [L1 L2].
      apply andb_true_iff; split; apply N.leb_le; assumption. }
  split; [exact S|]. unfold check_case. cbn [c_events model_case]. rewrite W. cbn [negb].
  rewrite S. cbn [negb]. unfold model_final at 1 2 3. cbn [model_case c_presented c_v0 c_events i_done i_resp i_stuck].
  fold (model_final c). rewrite !eqb_reflx.
  assert (opt_eqb (resp (model_final c)) (resp (model_final c)) = true) as ->.
  { destruct (resp (model_final c)); cbn [opt_eqb]; [apply N.eqb_refl|reflexivity]. }
  reflexivity.
Qed.
