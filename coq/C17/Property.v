(* C17 — Notify long-poll never waits for a change that already happened. *)
From Coq Require Import List NArith Bool.
From RV Require Import C17.Model C17.Proofs C17.Spec C17.SpecProofs.
Import ListNotations.
Local Open Scope N_scope.

(* For every interleaving of the handler's steps (subscribe, check, wait-polls) with any number of
   validation cycles (install ... notify), if the handler is stuck - waiting with no wake-up
   delivered or on its way - then the version it was given is the one being served. Equivalently:
   whenever the served version differs from the presented one at any moment after the request
   arrived, a wake-up is delivered or pending, and [C17_wakeup_finishes] ends the request. *)
Theorem C17_blocks_only_while_current : forall presented v g evs,
  writer_ok false evs = true ->
  let s := run true presented (start v g) evs in
  stuck s = true -> presented = Some (ver s).
Proof. exact blocks_only_while_current. Qed.

Theorem C17_wakeup_finishes : forall presented s,
  pc s = HWaiting -> sub s < gen s ->
  pc (hstep true presented s) = HDone /\ resp (hstep true presented s) = Some (ver s).
Proof. exact wakeup_finishes. Qed.

(* the ordering before the fix (check, then subscribe) violates the property *)
Theorem C17_old_order_refuted :
  exists evs, writer_ok false evs = true /\
    let s := run false (Some 5) (start 5 0) evs in
    stuck s = true /\ ver s <> 5.
Proof. exact old_order_refuted. Qed.

(* the executable oracle accepts what the model observes at the end of every schedule that respects the
   writer's program order and leaves the handler quiescent (returned, or stuck), and the case checker
   returns 0 on it *)
Theorem C17_model_satisfies_spec : forall c, writer_ok false (c_events c) = true ->
  pc_done (model_final c) || stuck (model_final c) = true ->
  spec_okb (model_case c) = true /\ check_case (model_case c) = 0.
Proof. exact model_satisfies_spec. Qed.

(* the oracle is satisfied by the model at the end of every quiescent schedule in which the handler was polled last *)
Example C17_nonvacuous :
  let s := run true (Some 5) (start 5 0) [H; H; Install; H; Notify; H] in
  pc s = HDone /\ resp s = Some 6 /\
  stuck (run true (Some 5) (start 5 0) [H; H; H]) = true.
Proof. repeat split. Qed.

Check C17_blocks_only_while_current : forall presented v g evs,
  writer_ok false evs = true ->
  let s := run true presented (start v g) evs in
  stuck s = true -> presented = Some (ver s).
Check C17_model_satisfies_spec : forall c, writer_ok false (c_events c) = true ->
  pc_done (model_final c) || stuck (model_final c) = true ->
  spec_okb (model_case c) = true /\ check_case (model_case c) = 0.
