(* C17 model: the /json-delta/notify long poll (src/http/delta.rs handle_notify_get_or_head,
   as repaired: subscribe before the version check) against the validation thread
   (src/operation.rs process_once: install the new version, later notify).
   Atomic steps: the handler's subscribe / check / wait-poll, the writer's install / notify.
   The notification channel (tokio broadcast behind rpki's NotifySender) is modelled as a
   generation counter: a receiver created at generation g is woken by any later notify. *)
From Coq Require Import List NArith Bool.
Import ListNotations.
Local Open Scope N_scope.

Inductive hpc := HStart | HSubscribed | HWaiting | HRespond | HDone.

Record st := {
  ver : N;            (* served version (serial); the session never changes while running *)
  gen : N;            (* number of notifications sent *)
  pending : bool;     (* the writer has installed a version and not yet notified *)
  pc : hpc;
  sub : N;            (* generation at which the handler subscribed *)
  resp : option N }.  (* version reported by the handler when done *)

Inductive ev := Install | Notify | H.

(* [presented = None]: no or foreign (session, serial): need_wait = false *)
Definition hstep (order_fixed : bool) (presented : option N) (s : st) : st :=
  let check (s : st) : st :=
    match presented with
    | Some p => if ver s =? p
                then {| ver := ver s; gen := gen s; pending := pending s; pc := HWaiting; sub := sub s; resp := None |}
                else {| ver := ver s; gen := gen s; pending := pending s; pc := HRespond; sub := sub s; resp := None |}
    | None => {| ver := ver s; gen := gen s; pending := pending s; pc := HRespond; sub := sub s; resp := None |}
    end in
  match pc s with
  | HStart =>
      if order_fixed
      then {| ver := ver s; gen := gen s; pending := pending s; pc := HSubscribed; sub := gen s; resp := None |}
      else (* old order: check first; subscribing happens in the next step *)
        match presented with
        | Some p => if ver s =? p
                    then {| ver := ver s; gen := gen s; pending := pending s; pc := HSubscribed; sub := sub s; resp := None |}
                    else {| ver := ver s; gen := gen s; pending := pending s; pc := HRespond; sub := sub s; resp := None |}
        | None => {| ver := ver s; gen := gen s; pending := pending s; pc := HRespond; sub := sub s; resp := None |}
        end
  | HSubscribed =>
      if order_fixed then check s
      else {| ver := ver s; gen := gen s; pending := pending s; pc := HWaiting; sub := gen s; resp := None |}
  | HWaiting =>
      if sub s <? gen s
      then {| ver := ver s; gen := gen s; pending := pending s; pc := HDone; sub := sub s; resp := Some (ver s) |}
      else s
  | HRespond =>   (* the response reads (session, serial) under its own read lock *)
      {| ver := ver s; gen := gen s; pending := pending s; pc := HDone; sub := sub s; resp := Some (ver s) |}
  | HDone => s
  end.

Definition step (order_fixed : bool) (presented : option N) (s : st) (e : ev) : st :=
  match e with
  | Install => {| ver := ver s + 1; gen := gen s; pending := true; pc := pc s; sub := sub s; resp := resp s |}
  | Notify => {| ver := ver s; gen := gen s + 1; pending := false; pc := pc s; sub := sub s; resp := resp s |}
  | H => hstep order_fixed presented s
  end.

Definition run (order_fixed : bool) (presented : option N) (s : st) (evs : list ev) : st :=
  fold_left (step order_fixed presented) evs s.

Definition start (v g : N) : st :=
  {| ver := v; gen := g; pending := false; pc := HStart; sub := 0; resp := None |}.

(* writer program order: Install and Notify alternate, starting with Install *)
Fixpoint writer_ok (pend : bool) (evs : list ev) : bool :=
  match evs with
  | [] => true
  | Install :: t => negb pend && writer_ok true t
  | Notify :: t => pend && writer_ok false t
  | H :: t => writer_ok pend t
  end.

(* the handler is stuck: waiting with no wake-up delivered or on its way *)
Definition stuck (s : st) : bool :=
  match pc s with HWaiting => negb (sub s <? gen s) && negb (pending s) | _ => false end.
