(* C17: executable oracle and case checker. *)
From Coq Require Import List NArith Bool.
From RV Require Export C17.Model.
Import ListNotations.
Local Open Scope N_scope.

Record case := {
  c_v0 : N;                       (* serial when the request arrives *)
  c_presented : option N;         (* Some serial of the own session, None = no / foreign version *)
  c_events : list ev;             (* schedule: writer installs/notifies and handler steps *)
  i_done : bool;                  (* the real handler returned *)
  i_resp : option N;              (* serial it reported *)
  i_stuck : bool }.               (* not returned, its waker not woken, writer quiescent *)

Definition final_ver (c : case) : N :=
  c_v0 c + N.of_nat (length (filter (fun e => match e with Install => true | _ => false end) (c_events c))).

(* the property on the implementation's observation, at the end of a schedule that leaves the writer quiescent *)
Definition spec_okb (c : case) : bool :=
  (i_done c || i_stuck c)
  && (if i_stuck c then match c_presented c with Some p => p =? final_ver c | None => false end else true)
  && (if i_done c then match i_resp c with Some r => (c_v0 c <=? r) && (r <=? final_ver c) | None => false end else true).

Definition model_final (c : case) : st := run true (c_presented c) (start (c_v0 c) 0) (c_events c).

Definition pc_done (s : st) : bool := match pc s with HDone => true | _ => false end.

Definition opt_eqb (a b : option N) : bool :=
  match a, b with Some x, Some y => x =? y | None, None => true | _, _ => false end.

Definition check_case (c : case) : N :=
  if negb (writer_ok false (c_events c)) then 9
  else if negb (spec_okb c) then 2
  else if Bool.eqb (pc_done (model_final c)) (i_done c)
          && opt_eqb (resp (model_final c)) (i_resp c)
          && Bool.eqb (stuck (model_final c)) (i_stuck c) then 0 else 1.
