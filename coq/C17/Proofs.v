From Coq Require Import List NArith Bool Lia.
From RV Require Import C17.Model.
Import ListNotations.
Local Open Scope N_scope.

(* Invariant of the repaired ordering. [p]: the presented version. *)
Definition Good (presented : option N) (s : st) : Prop :=
  (pc s = HStart \/ sub s <= gen s) /\
  (pc s = HWaiting -> exists p, presented = Some p /\ (ver s <> p -> sub s < gen s \/ pending s = true)).

Lemma good_start presented v g : Good presented (start v g).
Proof. split; [left; reflexivity | discriminate]. Qed.

Lemma good_step presented s e : Good presented s ->
  (e = Notify -> pending s = true) -> Good presented (step true presented s e).
Proof.
  intros [G1 G2] Hn. destruct e; cbn [step].
  - (* Install *) split; cbn [pc sub gen ver pending]; [exact G1|].
    intros W. destruct (G2 W) as [p [Ep _]]. exists p. split; [exact Ep|]. intros _. right. reflexivity.
  - (* Notify *) split; cbn [pc sub gen ver pending].
    + destruct G1 as [G1|G1]; [left; exact G1 | right; lia].
    + intros W. destruct (G2 W) as [p [Ep Hp]]. exists p. split; [exact Ep|]. intros D. left.
      destruct G1 as [G1|G1]; [congruence|lia].
  - (* handler step *)
    unfold hstep. case_eq (pc s); intros P.
    + split; cbn [pc sub gen]; [right; lia | discriminate].
    + destruct presented as [p|].
      * destruct (N.eqb_spec (ver s) p) as [E|E]; split; cbn [pc sub gen ver pending]; try discriminate.
        -- destruct G1 as [G1|G1]; [congruence | right; exact G1].
        -- intros _. exists p. split; [reflexivity|]. intros D. congruence.
        -- destruct G1 as [G1|G1]; [congruence | right; exact G1].
      * split; cbn [pc sub gen]; [|discriminate]. destruct G1 as [G1|G1]; [congruence | right; exact G1].
    + destruct (sub s <? gen s) eqn:L.
      * split; cbn [pc sub gen]; [|discriminate]. destruct G1 as [G1|G1]; [congruence | right; exact G1].
      * split; [exact G1|exact G2].
    + split; cbn [pc sub gen]; [|discriminate]. destruct G1 as [G1|G1]; [congruence | right; exact G1].
    + split; [exact G1|exact G2].
Qed.

(* pending flag follows the writer's program order *)
Lemma run_good presented evs s : Good presented s -> writer_ok (pending s) evs = true ->
  Good presented (run true presented s evs).
Proof.
  unfold run. revert s; induction evs as [|e evs IH]; intros s G W; cbn [fold_left]; [exact G|].
  apply IH.
  - apply good_step; [exact G|]. intros ->. cbn [writer_ok] in W. apply andb_true_iff in W. tauto.
  - destruct e; cbn [writer_ok step pending] in *.
    + apply andb_true_iff in W. tauto.
    + apply andb_true_iff in W. tauto.
    + unfold hstep. destruct (pc s); try destruct presented as [p|]; try destruct (ver s =? p);
        try destruct (sub s <? gen s); cbn [pending]; exact W.
Qed.

(* Main theorem: under every interleaving respecting the writer's program order, whenever the
   handler is stuck (waiting, no wake-up delivered or coming) the presented version is current. *)
Theorem blocks_only_while_current presented v g evs :
  writer_ok false evs = true ->
  let s := run true presented (start v g) evs in
  stuck s = true -> presented = Some (ver s).
Proof.
  intros W s St. pose proof (run_good presented evs (start v g) (good_start presented v g) W) as [G1 G2].
  fold s in G1, G2. unfold stuck in St. destruct (pc s) eqn:P; try discriminate.
  apply andb_true_iff in St as [S1 S2]. apply negb_true_iff in S1, S2. apply N.ltb_ge in S1.
  destruct (G2 eq_refl) as [p [Ep Hp]]. rewrite Ep. f_equal.
  destruct (N.eq_dec (ver s) p) as [E|D]; [symmetry; exact E|].
  destruct (Hp D) as [L|Pd]; [lia | congruence].
Qed.

(* once a wake-up is there, one more handler step finishes the request with the current version *)
Theorem wakeup_finishes presented s :
  pc s = HWaiting -> sub s < gen s ->
  pc (hstep true presented s) = HDone /\ resp (hstep true presented s) = Some (ver s).
Proof.
  intros P L. unfold hstep. rewrite P. apply N.ltb_lt in L. rewrite L. split; reflexivity.
Qed.

(* the response always reports the version served at the moment the handler finished *)
Lemma resp_current_step b presented s e :
  (pc s = HDone -> True) ->
  pc s <> HDone -> pc (step b presented s e) = HDone -> resp (step b presented s e) = Some (ver (step b presented s e)).
Proof.
  intros _ ND. destruct e; cbn [step pc resp ver]; try congruence.
  unfold hstep. destruct (pc s) eqn:P; try congruence;
    destruct b; try destruct presented as [p|]; try destruct (ver s =? p); try destruct (sub s <? gen s);
    cbn [pc resp ver]; try congruence; try reflexivity.
Qed.

(* The old ordering (check, then subscribe) loses the wake-up. *)
Theorem old_order_refuted :
  exists evs, writer_ok false evs = true /\
    let s := run false (Some 5) (start 5 0) evs in
    stuck s = true /\ ver s <> 5.
Proof.
  exists [H; Install; Notify; H]. split; [reflexivity|]. cbn. split; [reflexivity|]. discriminate.
Qed.
