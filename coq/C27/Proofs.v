(* C27: every decoder of C28/Model.v (the fixed code) is [safe]: on every
   input it returns a value or an error, never a panic, and every capacity
   request is at most the input length plus a constant.  Plus: the decoders of
   the unfixed code are not. *)
From Coq Require Import List NArith ZArith Lia Bool.
From RV Require Import Base.Bytes C28.Model C28.Proofs C27.Model.
Import ListNotations.
Local Open Scope N_scope.

(* ------------------------------------------------------------------ *)
(* inversion of runs *)

Lemma safe_at_ext {A} c L (r r' : reader A) b : r b = r' b -> safe_at c L r' b -> safe_at c L r b.
Proof. unfold safe_at, run, trace. intros ->. auto. Qed.

Lemma run_bind_inv {A B} (r : reader A) (f : A -> reader B) b x b2 :
  run (bind r f) b = Ok (x, b2) -> exists a b1, run r b = Ok (a, b1) /\ run (f a) b1 = Ok (x, b2).
Proof.
  unfold run, bind. destruct (r b) as [[[a b1]| | |p] t]; cbn [fst]; try discriminate.
  destruct (f a b1) as [y t'] eqn:E. cbn [fst]. intros ->.
  exists a, b1. rewrite E. split; reflexivity.
Qed.

Lemma run_ret_inv {A} (a : A) b x b' : run (ret a) b = Ok (x, b') -> x = a /\ b' = b.
Proof. unfold run, ret. cbn. intros E. inversion E. auto. Qed.

Lemma run_alloc_inv n b a b' : run (alloc n) b = Ok (a, b') -> b' = b.
Proof. unfold run, alloc. destruct (n <=? ISIZE_MAX); cbn; intros E; inversion E. reflexivity. Qed.

Lemma run_read_exact_inv n b c b' :
  run (read_exact n) b = Ok (c, b') -> lenN c = n /\ lenN b = n + lenN b'.
Proof.
  unfold run, read_exact. destruct (split_at n b) as [[x y]|] eqn:E; cbn; intros E'; inversion E'; subst.
  apply split_at_some in E. tauto.
Qed.

Lemma run_read_be_inv w b n b' : run (read_be w) b = Ok (n, b') -> lenN b = N.of_nat w + lenN b'.
Proof.
  unfold read_be. intros H. apply run_bind_inv in H as (c & b1 & H1 & H2).
  apply run_read_exact_inv in H1 as [_ H1]. apply run_ret_inv in H2 as [_ ->]. exact H1.
Qed.

(* ------------------------------------------------------------------ *)
(* primitives *)

Ltac sf :=
  repeat match goal with
  | |- safe _ (ret _) => apply safe_ret
  | |- safe _ fail_format => apply safe_fail_format
  | |- safe _ fail_eof => apply safe_fail_eof
  | |- safe _ (read_exact _) => apply safe_read_exact
  | |- safe _ (bind _ _) => apply safe_bind; [| intros ?]
  | |- safe _ (if ?c then _ else _) => destruct c
  | |- safe _ (match ?o with Some _ => _ | None => _ end) => destruct o
  end.

Lemma safe_read_be c w : safe c (read_be w).
Proof. unfold read_be. sf. Qed.

Lemma safe_read_i64 c : safe c read_i64.
Proof. unfold read_i64. sf. Qed.

Lemma safe_read_opt_i64 c : safe c read_opt_i64.
Proof. unfold read_opt_i64, read_u8. sf; try apply safe_read_be; try apply safe_read_i64. Qed.

(* read_vec: the chunk loop *)
Lemma read_chunks_safe_at fuel : forall len acc b L,
  (length b < fuel)%nat -> lenN acc + lenN b <= L -> L + CHUNK <= ISIZE_MAX ->
  safe_at CHUNK L (read_chunks fuel len acc) b.
Proof.
  induction fuel as [|f IH]; intros len acc b L Hf HL HI; [lia|].
  apply (safe_at_ext _ _ _
    (if len <=? lenN acc then ret acc
     else bind (alloc (lenN acc + N.min (len - lenN acc) CHUNK))
            (fun _ => bind (read_exact (N.min (len - lenN acc) CHUNK))
               (fun c => read_chunks f len (acc ++ c))))).
  { rewrite read_chunks_S. destruct (len <=? lenN acc); reflexivity. }
  destruct (N.leb_spec len (lenN acc)) as [Hle|Hgt].
  - apply safe_ret; lia.
  - set (n := N.min (len - lenN acc) CHUNK).
    assert (Hn1 : 1 <= n) by (unfold n, CHUNK; lia).
    assert (Hn2 : n <= CHUNK) by (unfold n; lia).
    apply safe_at_bind.
    + apply safe_at_alloc; lia.
    + intros a b1 E. apply run_alloc_inv in E. subst b1.
      apply safe_at_bind.
      * apply safe_read_exact; lia.
      * intros c b2 E. apply run_read_exact_inv in E as [Ec Eb].
        apply IH; [unfold lenN in *; lia | rewrite lenN_app; lia | exact HI].
Qed.

Lemma safe_read_vec c len : CHUNK <= c -> safe c (read_vec len).
Proof.
  intros Hc. apply (safe_weaken CHUNK); [exact Hc|].
  intros L b HL HI.
  apply (safe_at_ext _ _ _ (bind (alloc (N.min len CHUNK)) (fun _ => read_chunks (S (length b)) len []))); [reflexivity|].
  apply safe_at_bind.
  - apply safe_at_alloc; lia.
  - intros a b1 E. apply run_alloc_inv in E. subst b1.
    apply read_chunks_safe_at; [lia | rewrite lenN_nil; lia | exact HI].
Qed.

Lemma safe_read_uri c valid : CHUNK <= c -> safe c (read_uri valid).
Proof. intros Hc. unfold read_uri, read_u32. sf; first [apply safe_read_be | apply safe_read_vec; exact Hc]. Qed.

Lemma safe_read_opt_https c hv : CHUNK <= c -> safe c (read_opt_https hv).
Proof. intros Hc. unfold read_opt_https, read_u32. sf; first [apply safe_read_be | apply safe_read_vec; exact Hc]. Qed.

Lemma safe_read_bytes c : CHUNK <= c -> safe c read_bytes.
Proof. intros Hc. unfold read_bytes, read_u64. sf; first [apply safe_read_be | apply safe_read_vec; exact Hc]. Qed.

Lemma safe_read_opt_bytes c : CHUNK <= c -> safe c read_opt_bytes.
Proof. intros Hc. unfold read_opt_bytes, read_u64. sf; first [apply safe_read_be | apply safe_read_vec; exact Hc]. Qed.

Lemma safe_read_serial c : safe c read_serial.
Proof. unfold read_serial. sf. Qed.

Lemma safe_read_time c : safe c read_time.
Proof. unfold read_time. sf; try apply safe_read_i64. Qed.

Lemma safe_read_opt_time c : safe c read_opt_time.
Proof. unfold read_opt_time. sf; try apply safe_read_i64. Qed.

(* the map loop *)
Lemma read_entries_safe_at fuel : forall n seen b L c,
  (length b < fuel)%nat -> lenN seen * ENTRY + lenN b <= L -> L + c <= ISIZE_MAX ->
  safe_at c L (read_entries fuel n seen) b.
Proof.
  induction fuel as [|f IH]; intros n seen b L c Hf HL HI; [lia|].
  apply (safe_at_ext _ _ _
    (if n =? 0 then ret []
     else bind read_u64 (fun k =>
            bind read_hash (fun h =>
              if existsb (N.eqb k) seen then fail_format
              else bind (alloc ((lenN seen + 1) * ENTRY)) (fun _ =>
                     bind (read_entries f (n - 1) (k :: seen)) (fun tl => ret ((k, h) :: tl))))))).
  { rewrite read_entries_S. destruct (n =? 0); reflexivity. }
  destruct (n =? 0).
  - apply safe_ret; lia.
  - apply safe_at_bind; [apply safe_read_be; lia|].
    intros k b1 E1. apply run_read_be_inv in E1. change (N.of_nat 8) with 8 in E1.
    apply safe_at_bind; [apply safe_read_exact; lia|].
    intros h b2 E2. apply run_read_exact_inv in E2 as [_ E2].
    destruct (existsb (N.eqb k) seen); [apply safe_fail_format; lia|].
    unfold ENTRY in *.
    apply safe_at_bind; [apply safe_at_alloc; lia|].
    intros a b3 E3. apply run_alloc_inv in E3. subst b3.
    apply safe_at_bind.
    + apply IH; [unfold lenN in *; lia | rewrite lenN_cons; lia | exact HI].
    + intros tl b4 E4. apply safe_ret; [|exact HI].
      assert (S4 : safe_at c L (read_entries f (n - 1) (k :: seen)) b2).
      { apply IH; [unfold lenN in *; lia | rewrite lenN_cons; lia | exact HI]. }
      destruct S4 as (_ & _ & S4). specialize (S4 _ _ E4). lia.
Qed.

Lemma safe_read_map c : MAP_PREALLOC * ENTRY <= c -> safe c read_map.
Proof.
  intros Hc. unfold read_map, read_u64. apply safe_bind; [apply safe_read_be|]. intros len.
  apply safe_bind.
  - apply safe_alloc_const. unfold MAP_PREALLOC, ENTRY in *. lia.
  - intros _ L b HL HI.
    apply (safe_at_ext _ _ _ (read_entries (S (length b)) len [])); [reflexivity|].
    apply read_entries_safe_at; [lia | change (lenN (@nil N)) with 0; lia | exact HI].
Qed.

(* ------------------------------------------------------------------ *)
(* records *)

Lemma safe_read_status c : safe c read_status.
Proof. unfold read_status, read_u8. sf; try apply safe_read_be; apply safe_read_time. Qed.

Lemma safe_read_stored_status c : safe c read_stored_status.
Proof. unfold read_stored_status, read_u8. sf; try apply safe_read_be; apply safe_read_time. Qed.

Lemma safe_eof_is_none {A} c (r : reader A) : safe c r -> safe c (eof_is_none r).
Proof.
  intros H L b HL HI. destruct (H L b HL HI) as (H1 & H2 & H3).
  unfold safe_at, run, trace, eof_is_none in *.
  destruct (r b) as [[[a b']| | |p] t]; cbn [fst snd] in *.
  - split; [exact I|]. split; [exact H2|]. intros a0 b0 E. inversion E; subst. apply (H3 _ _ eq_refl).
  - split; [exact I|]. split; [exact H2|]. intros a0 b0 E. inversion E; subst. rewrite lenN_nil. lia.
  - split; [exact I|]. split; [exact H2|]. intros; discriminate.
  - contradiction.
Qed.

Section Records.
Variables rv hv : list N -> bool.

Lemma safe_read_header c : CHUNK <= c -> safe c (read_header rv hv).
Proof.
  intros Hc. unfold read_header, read_u8, read_rsync. sf; try apply safe_read_be.
  - apply safe_read_uri; exact Hc.
  - apply safe_read_opt_https; exact Hc.
  - apply safe_read_status.
Qed.

Lemma safe_read_manifest c : CHUNK <= c -> safe c (read_manifest rv).
Proof.
  intros Hc. unfold read_manifest, read_rsync. sf;
    first [ apply safe_read_time | apply safe_read_serial | apply safe_read_uri; exact Hc
          | apply safe_read_bytes; exact Hc ].
Qed.

Lemma safe_read_object c : CHUNK <= c -> safe c (read_object rv).
Proof.
  intros Hc. unfold read_object, read_u8, read_rsync.
  apply safe_bind; [apply safe_eof_is_none; apply safe_read_uri; exact Hc|].
  intros [uri|]; [|apply safe_ret].
  apply safe_bind; [apply safe_read_be|]. intros tag.
  apply safe_bind.
  - destruct (tag =? 0); [apply safe_ret|]. destruct (tag =? 1); [|apply safe_fail_format].
    apply safe_bind; [apply safe_alloc_const; unfold CHUNK in *; lia|]. intros _. sf.
  - intros hash. apply safe_bind; [apply safe_read_bytes; exact Hc|]. intros content. apply safe_ret.
Qed.

Lemma safe_read_state c : CHUNK <= c -> MAP_PREALLOC * ENTRY <= c -> safe c (read_state hv).
Proof.
  intros Hc Hm. unfold read_state, read_u8, read_https, read_uuid, read_u64. sf;
    first [ apply safe_read_be | apply safe_read_uri; exact Hc | apply safe_read_i64
          | apply safe_read_opt_i64 | apply safe_read_opt_bytes; exact Hc | apply safe_read_map; exact Hm ].
Qed.

Lemma safe_rmap {A B} c (f : A -> B) (r : reader A) : safe c r -> safe c (rmap f r).
Proof. intros H. unfold rmap. apply safe_bind; [exact H|]. intros a. apply safe_ret. Qed.

Theorem safe_decode k : safe (kind_const k) (decode rv hv k).
Proof.
  destruct k; cbn [decode kind_const]; apply safe_rmap;
    unfold read_u8, read_u32, read_u64, read_rsync, read_https, read_uuid, read_hash;
    first [ apply safe_read_be | apply safe_read_i64 | apply safe_read_opt_i64
          | apply safe_read_uri; lia | apply safe_read_opt_https; lia
          | apply safe_read_bytes; lia | apply safe_read_opt_bytes; lia
          | apply safe_read_exact | apply safe_read_serial | apply safe_read_time | apply safe_read_opt_time
          | apply safe_read_map; unfold CHUNK; lia
          | apply safe_read_header; lia | apply safe_read_status | apply safe_read_manifest; lia
          | apply safe_read_object; lia | apply safe_read_stored_status
          | apply safe_read_state; unfold CHUNK; lia ].
Qed.

(* the statement without the bookkeeping of [safe] *)
Theorem decode_total_bounded k b :
  lenN b + kind_const k <= ISIZE_MAX ->
  no_panic (run (decode rv hv k) b) /\
  Forall (fun n => n <= lenN b + kind_const k) (trace (decode rv hv k) b) /\
  (forall v b', run (decode rv hv k) b = Ok (v, b') -> lenN b' <= lenN b).
Proof. intros H. apply (safe_decode k (lenN b) b); [lia | exact H]. Qed.

End Records.

(* ------------------------------------------------------------------ *)
(* the decoders before the fix *)

Lemma unfixed_bytes_panics :
  run read_bytes_unfixed (be_enc 8 (U64_MAX - 1)) = Panic CapacityOverflow.
Proof. vm_compute. reflexivity. Qed.

Lemma unfixed_bytes_allocates :
  run read_bytes_unfixed (be_enc 8 (P32 * 256)) = ErrEof /\
  trace read_bytes_unfixed (be_enc 8 (P32 * 256)) = [1099511627776].
Proof. vm_compute. split; reflexivity. Qed.

Lemma unfixed_uri_allocates valid :
  trace (read_uri_unfixed valid) [255; 255; 255; 255] = [4294967295].
Proof. vm_compute. reflexivity. Qed.

Lemma unfixed_map_panics :
  run read_map_unfixed (be_enc 8 P63) = Panic CapacityOverflow.
Proof. vm_compute. reflexivity. Qed.

Lemma unfixed_map_preallocates :
  run read_map_unfixed (be_enc 8 0) = Ok ([], []) /\ trace read_map_unfixed (be_enc 8 0) = [2621440].
Proof. vm_compute. split; reflexivity. Qed.
