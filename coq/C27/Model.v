(* C27 model.

   The decoders of the working tree (with the fix of src/utils/binio.rs) are
   the [reader]s of C28/Model.v; they are re-exported here.

   This file adds (a) the decoders as they were BEFORE the fix (pinned commit
   1718bd9 of /repo), so that the defect is a theorem about a model and not
   only a test log, and (b) the two whole-file readers of src/store.rs that
   are built from the record decoders: `Store::status` and
   `StoredPoint::open` followed by the iteration over the stored objects.
   Definitions only. *)
From Coq Require Import List NArith ZArith Bool.
From RV Require Export C28.Model.
Import ListNotations.
Local Open Scope N_scope.

(* ------------------------------------------------------------------ *)
(* before the fix: binio.rs at 1718bd9 *)

(* `let mut bits = vec![0u8; len]; source.read_exact(&mut bits)?;` *)
Definition read_vec_unfixed (len : N) : reader (list N) :=
  bind (alloc len) (fun _ => read_exact len).

Definition read_bytes_unfixed : reader (list N) :=
  bind (read_be 8) read_vec_unfixed.

Definition read_uri_unfixed (valid : list N -> bool) : reader (list N) :=
  bind (read_be 4) (fun len =>
    bind (read_vec_unfixed len) (fun bits => if valid bits then ret bits else fail_format)).

(* `HashMap::with_capacity(cmp::max(len, 65536))` followed by the same loop *)
Definition read_map_unfixed : reader (list (N * list N)) :=
  bind (read_be 8) (fun len =>
    bind (alloc (N.max len MAP_PREALLOC * ENTRY))
      (fun _ => fun b => read_entries (S (length b)) len [] b)).

(* the constant of the allocation bound: one read chunk; for the map decoder
   also the capped pre-allocation of 65536 entries *)
Definition kind_const (k : kind) : N :=
  match k with
  | KMap | KState => CHUNK + MAP_PREALLOC * ENTRY
  | _ => CHUNK
  end.

(* ------------------------------------------------------------------ *)
(* whole files (src/store.rs) *)

Inductive pend :=
| PEnd          (* iteration ended: `StoredObject::read` returned Ok(None) *)
| PError        (* iteration yielded a non-fatal ParseError *)
| PFatal        (* ... a fatal one (I/O error) *)
| PEndless.     (* harness guard: more than 10^6 objects *)

Inductive fres :=
| FStatus (t : option Z)                       (* Store::status: Ok(Some(last_update)) / Ok(None) *)
| FFailed                                      (* Err(Failed): reported error, run ends *)
| FPoint (has_manifest : bool) (objects : N) (e : pend)
| FPanic | FAbort.

Section Files.
Variables rsync_valid https_valid : list N -> bool.

(* Store::status on an existing status.bin *)
Definition status_file : list N -> fres * list N :=
  fun b => match read_stored_status b with
           | (Ok (t, _), tr) => (FStatus (Some t), tr)
           | (Panic _, tr) => (FPanic, tr)
           | (_, tr) => (FFailed, tr)
           end.

(* `impl Iterator for StoredPoint`: StoredObject::read until None or an error *)
Fixpoint read_objects (fuel : nat) (n : N) (b : list N) : N * pend * list N :=
  match fuel with
  | O => (n, PEndless, [])
  | S f =>
      match read_object rsync_valid b with
      | (Ok (Some _, b'), tr) => let '(n', e, tr') := read_objects f (n + 1) b' in (n', e, tr ++ tr')
      | (Ok (None, _), tr) => (n, PEnd, tr)
      | (Panic _, tr) => (n, PFatal, tr)       (* never: C27_no_panic_object *)
      | (_, tr) => (n, PError, tr)
      end
  end.

(* StoredPoint::open on an existing file, then all objects.
   Header unreadable (EOF, bad version, bad format): the point is created anew.
   LastAttempt: the header is rewritten, no manifest, no objects.
   Manifest unreadable: Err(Failed). *)
Definition point_file : list N -> fres * list N :=
  fun b =>
    match read_header rsync_valid https_valid b with
    | (Ok (h, b'), tr) =>
        match h_status h with
        | LastAttempt _ => (FPoint false 0 PEnd, tr)
        | Success _ =>
            match read_manifest rsync_valid b' with
            | (Ok (_, b''), tr') =>
                let '(n, e, tr'') := read_objects (S (length b'')) 0 b'' in
                (FPoint true n e, tr ++ tr' ++ tr'')
            | (Panic _, tr') => (FPanic, tr ++ tr')
            | (_, tr') => (FFailed, tr ++ tr')
            end
        end
    | (Panic _, tr) => (FPanic, tr)
    | (_, tr) => (FPoint false 0 PEnd, tr)
    end.

End Files.
