(* C27, stream `archives`: corrupted RRDP archive FILES (the memory-mapped
   format of src/utils/archive.rs as used by src/collector/rrdp/archive.rs)
   run through every reader entry point of `RrdpArchive`.

   ORACLE ONLY.  There is NO byte-level model of the archive reader
   (`Archive::open`, `find`, `fetch`, `ObjectsIter`, `verify`, `StorageRead`,
   `mmapimpl::Mmap` of utils/archive.rs are not transcribed), so nothing is
   compared with a model here and NO theorem is stated or claimed for this
   stream: it is a negative test of the implementation against the property's
   oracle, on the inputs the harness generates, and nothing more.  (C26 models
   the archive as an abstract heap of headers for well-formed files and
   operation sequences; it says nothing about arbitrary bytes.)

   One case = the length of the byte string that was put where the collector
   keeps the archive of a repository, what each reader operation did with it
   in a child process (in this order: open; load_state; load_object for every
   name of the original archive and for one name that was never published;
   objects() iterated until its end or first error; try_open; verify), and the
   largest single allocation request the counting allocator saw during these
   operations.  No proofs here. *)
From Coq Require Import List NArith Bool.
From RV Require Export C27.Spec.
Import ListNotations.
Local Open Scope N_scope.

(* What one reader operation did. *)
Inductive aout :=
| AOk        (* the data (or "no such object", or the end of the iteration, or the statistics) *)
| ARetry     (* RunFailed::retry / a corrupt-archive error: the file is discarded and fetched again *)
| AFatal     (* RunFailed::fatal: the run ends with a reported error *)
| APanic     (* the operation panicked (caught in the worker) *)
| ADied      (* the worker process died during the operation (abort, failed allocation, signal) *)
| AHang      (* the worker burnt its CPU-time budget inside the operation and was killed *)
| AEndless   (* objects() yielded more items than a file of this size can hold: it does not end *)
| ASkipped.  (* not run: the archive could not be opened, or the worker was already gone *)

(* the data, or discarded and re-fetched, or a reported error *)
Definition aout_okb (o : aout) : bool :=
  match o with
  | AOk | ARetry | AFatal | ASkipped => true
  | APanic | ADied | AHang | AEndless => false
  end.

(* The constant of the allocation bound is that of the decoders stream for the
   repository state record (one read chunk plus the capped pre-allocation of
   the delta map, [kind_const KState]): the state is decoded out of the archive
   by `load_state`; everything else the readers allocate is a copy of a part of
   the file. *)
Definition archive_alloc_bound (len : N) : N := ALLOC_FACTOR * (len + kind_const KState) + SLACK.

Definition archive_spec_okb (len : N) (ops : list aout) (alloc : N) : bool :=
  forallb aout_okb ops && (alloc <=? archive_alloc_bound len).

Record acase := { a_len : N; a_ops : list aout; a_alloc : N }.

(* Result codes: 0 the oracle holds on what the implementation did; 2 it does
   not (an operation panicked, the process died or hung, an iteration does not
   end, or a single allocation exceeded the bound).  There is no code 1: nothing
   is compared with a model. *)
Definition check_acase (c : acase) : N :=
  if archive_spec_okb (a_len c) (a_ops c) (a_alloc c) then 0 else 2.
