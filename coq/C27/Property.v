(* C27 — Corrupt local data never crashes Routinator.
   Only statements, [exact], [Example]s and [Check] pins.

   Scope: the decoders of src/utils/binio.rs, the records of src/store.rs and
   the RRDP repository state (src/collector/rrdp/archive.rs), and the two
   whole-file readers of src/store.rs.  The object archive file format
   (src/utils/archive.rs) is NOT covered here (see C26).

   The theorems are about the decoders of the working tree, i.e. with the fix
   of src/utils/binio.rs (read_vec; cmp::min in the map decoder).  The decoders
   of the pinned commit violate the property: [C27_unfixed_*].

   A reader's result can be [Panic]; its trace lists every capacity request
   in bytes.  [b] ranges over ALL byte strings; the premise
   [lenN b + c <= ISIZE_MAX] only says the input fits into the address space
   (a request above isize::MAX is Rust's capacity-overflow panic).  URI
   validity [rv]/[hv] is arbitrary. *)
From Coq Require Import List NArith ZArith Bool.
From RV Require Import Base.Bytes C28.Model C28.Values C27.Model C27.Spec C27.Proofs C27.FileProofs C27.SpecProofs.
Import ListNotations.
Local Open Scope N_scope.

(* every decoder: no panic; every request <= |b| + c; it never "un-reads" *)
Theorem C27_total_bounded : forall rv hv k b,
  lenN b + kind_const k <= ISIZE_MAX ->
  no_panic (run (decode rv hv k) b) /\
  Forall (fun n => n <= lenN b + kind_const k) (trace (decode rv hv k) b) /\
  (forall v b', run (decode rv hv k) b = Ok (v, b') -> lenN b' <= lenN b).
Proof. exact decode_total_bounded. Qed.

(* the same in compositional form (what is proved by induction over the code) *)
Theorem C27_safe_decode : forall rv hv k, safe (kind_const k) (decode rv hv k).
Proof. exact safe_decode. Qed.

(* the two loops: the chunked read of a length-prefixed block, the map entries *)
Theorem C27_safe_read_vec : forall c len, CHUNK <= c -> safe c (read_vec len).
Proof. exact safe_read_vec. Qed.
Theorem C27_safe_read_map : forall c, MAP_PREALLOC * ENTRY <= c -> safe c read_map.
Proof. exact safe_read_map. Qed.

(* the records, by name *)
Theorem C27_safe_header : forall rv hv c, CHUNK <= c -> safe c (read_header rv hv).
Proof. exact safe_read_header. Qed.
Theorem C27_safe_manifest : forall rv c, CHUNK <= c -> safe c (read_manifest rv).
Proof. exact safe_read_manifest. Qed.
Theorem C27_safe_object : forall rv c, CHUNK <= c -> safe c (read_object rv).
Proof. exact safe_read_object. Qed.
Theorem C27_safe_stored_status : forall c, safe c read_stored_status.
Proof. exact safe_read_stored_status. Qed.
Theorem C27_safe_state : forall hv c, CHUNK <= c -> MAP_PREALLOC * ENTRY <= c -> safe c (read_state hv).
Proof. exact safe_read_state. Qed.

(* Vec's amortised growth: an actual allocation is below twice the request that triggered it *)
Theorem C27_vec_growth : forall cap need, cap < need -> vec_grow cap need <= 2 * need.
Proof. exact vec_grow_le. Qed.

(* whole files: status.bin through Store::status; a stored point through
   StoredPoint::open and the iteration over its objects (which always ends) *)
Theorem C27_status_file : forall b, lenN b + CHUNK <= ISIZE_MAX ->
  fres_good (fst (status_file b)) /\ Forall (fun n => n <= lenN b + CHUNK) (snd (status_file b)).
Proof. exact status_file_ok. Qed.
Theorem C27_point_file : forall rv hv b, lenN b + CHUNK <= ISIZE_MAX ->
  fres_good (fst (point_file rv hv b)) /\ Forall (fun n => n <= lenN b + CHUNK) (snd (point_file rv hv b)).
Proof. exact point_file_ok. Qed.

(* the executable oracles evaluated on the implementation are satisfied by the model on every input *)
Theorem C27_model_satisfies_spec : forall k b,
  lenN b + kind_const k <= ISIZE_MAX -> spec_okb k b (model_obs k b) = true.
Proof. exact model_satisfies_spec. Qed.
Theorem C27_file_model_satisfies_spec : forall is_status b,
  lenN b + CHUNK <= ISIZE_MAX -> file_spec_okb b (file_model is_status b) = true.
Proof. exact file_model_satisfies_spec. Qed.

(* before the fix (commit 1718bd9): witnesses by computation *)
Theorem C27_unfixed_bytes_panics :
  run read_bytes_unfixed (be_enc 8 (U64_MAX - 1)) = Panic CapacityOverflow.
Proof. exact unfixed_bytes_panics. Qed.
Theorem C27_unfixed_bytes_allocates :
  run read_bytes_unfixed (be_enc 8 (P32 * 256)) = ErrEof /\
  trace read_bytes_unfixed (be_enc 8 (P32 * 256)) = [1099511627776].
Proof. exact unfixed_bytes_allocates. Qed.
Theorem C27_unfixed_uri_allocates : forall valid,
  trace (read_uri_unfixed valid) [255; 255; 255; 255] = [4294967295].
Proof. exact unfixed_uri_allocates. Qed.
Theorem C27_unfixed_map_panics : run read_map_unfixed (be_enc 8 P63) = Panic CapacityOverflow.
Proof. exact unfixed_map_panics. Qed.
Theorem C27_unfixed_map_preallocates :
  run read_map_unfixed (be_enc 8 0) = Ok ([], []) /\ trace read_map_unfixed (be_enc 8 0) = [2621440].
Proof. exact unfixed_map_preallocates. Qed.

(* non-vacuity: the same inputs on the fixed decoders; a corrupt length inside a
   state record; requests are really recorded *)
Example C27_nonvacuous :
  run read_bytes (be_enc 8 (U64_MAX - 1)) = ErrEof /\
  trace read_bytes (be_enc 8 (U64_MAX - 1)) = [65536; 65536] /\
  trace (read_uri https_validb) [255; 255; 255; 255] = [65536; 65536] /\
  run read_map (be_enc 8 P63) = ErrEof /\ trace read_map (be_enc 8 P63) = [2621440] /\
  trace read_map (be_enc 8 0) = [0] /\
  run read_bytes (be_enc 8 3 ++ [1; 2; 3; 4]) = Ok ([1; 2; 3], [4]) /\
  trace read_bytes (be_enc 8 3 ++ [1; 2; 3; 4]) = [3; 3].
Proof. vm_compute. repeat split; reflexivity. Qed.

Check C27_total_bounded : forall rv hv k b,
  lenN b + kind_const k <= ISIZE_MAX ->
  no_panic (run (decode rv hv k) b) /\
  Forall (fun n => n <= lenN b + kind_const k) (trace (decode rv hv k) b) /\
  (forall v b', run (decode rv hv k) b = Ok (v, b') -> lenN b' <= lenN b).
Check C27_point_file : forall rv hv b, lenN b + CHUNK <= ISIZE_MAX ->
  fres_good (fst (point_file rv hv b)) /\ Forall (fun n => n <= lenN b + CHUNK) (snd (point_file rv hv b)).
Check C27_model_satisfies_spec : forall k b,
  lenN b + kind_const k <= ISIZE_MAX -> spec_okb k b (model_obs k b) = true.
Check C27_file_model_satisfies_spec : forall is_status b,
  lenN b + CHUNK <= ISIZE_MAX -> file_spec_okb b (file_model is_status b) = true.
