(* C27: the whole-file readers of src/store.rs built from the record decoders
   (Store::status, StoredPoint::open + iteration) never panic, always end, and
   keep every capacity request within the file length plus one chunk. *)
From Coq Require Import List NArith ZArith Lia Bool.
From RV Require Import Base.Bytes C28.Model C28.Proofs C27.Model C27.Proofs.
Import ListNotations.
Local Open Scope N_scope.

Definition fres_good (r : fres) : Prop :=
  match r with
  | FStatus _ | FFailed => True
  | FPoint _ _ e => e = PEnd \/ e = PError
  | FPanic | FAbort => False
  end.

Lemma status_file_ok b :
  lenN b + CHUNK <= ISIZE_MAX ->
  fres_good (fst (status_file b)) /\ Forall (fun n => n <= lenN b + CHUNK) (snd (status_file b)).
Proof.
  intros HI. destruct (safe_read_stored_status CHUNK (lenN b) b (N.le_refl _) HI) as (H1 & H2 & _).
  unfold status_file, run, trace in *.
  destruct (read_stored_status b) as [[[t b']| | |p] tr]; cbn [fst snd] in *;
    try (split; [exact I | exact H2]). contradiction.
Qed.

Section Point.
Variables rv hv : list N -> bool.

(* what follows the URI in StoredObject::read *)
Definition object_tail (uri : list N) : reader (option object) :=
  bind read_u8 (fun tag =>
    bind (if tag =? 0 then ret None
          else if tag =? 1 then
            bind (alloc 32) (fun _ => bind (read_exact 32) (fun h => ret (Some h)))
          else fail_format)
      (fun hash => bind read_bytes (fun content => ret (Some (mkObject uri hash content))))).

Lemma safe_object_tail uri : safe CHUNK (object_tail uri).
Proof.
  unfold object_tail, read_u8.
  apply safe_bind; [apply safe_read_be|]. intros tag.
  apply safe_bind.
  - destruct (tag =? 0); [apply safe_ret|]. destruct (tag =? 1); [|apply safe_fail_format].
    apply safe_bind; [apply safe_alloc_const; unfold CHUNK; lia|]. intros _.
    apply safe_bind; [apply safe_read_exact|]. intros h. apply safe_ret.
  - intros hash. apply safe_bind; [apply safe_read_bytes; lia|]. intros content. apply safe_ret.
Qed.

Lemma read_object_progress b o b' :
  lenN b + CHUNK <= ISIZE_MAX -> run (read_object rv) b = Ok (Some o, b') -> lenN b' < lenN b.
Proof.
  intros HI H. unfold read_object in H. apply run_bind_inv in H as (ou & b1 & H1 & H2).
  destruct ou as [uri|]; [|apply run_ret_inv in H2 as [E _]; discriminate E].
  fold (object_tail uri) in H2.
  assert (Hu : run (read_rsync rv) b = Ok (uri, b1)).
  { unfold run, eof_is_none in *. destruct (read_rsync rv b) as [[[x y]| | |p] t]; cbn [fst] in *;
      inversion H1; reflexivity. }
  unfold read_rsync, read_uri in Hu. apply run_bind_inv in Hu as (len & b0 & Hb & Hrest).
  apply run_read_be_inv in Hb. change (N.of_nat 4) with 4 in Hb.
  assert (S1 : safe CHUNK (bind (read_vec len) (fun bits => if rv bits then ret bits else fail_format))).
  { apply safe_bind; [apply safe_read_vec; lia|]. intros bits. destruct (rv bits); [apply safe_ret | apply safe_fail_format]. }
  destruct (S1 (lenN b0) b0 (N.le_refl _) ltac:(lia)) as (_ & _ & M1). specialize (M1 _ _ Hrest).
  destruct (safe_object_tail uri (lenN b1) b1 (N.le_refl _) ltac:(lia)) as (_ & _ & M2). specialize (M2 _ _ H2).
  lia.
Qed.

Lemma read_objects_ok fuel : forall n b L,
  (length b < fuel)%nat -> lenN b <= L -> L + CHUNK <= ISIZE_MAX ->
  let '(n', e, tr) := read_objects rv fuel n b in
  (e = PEnd \/ e = PError) /\ Forall (fun x => x <= L + CHUNK) tr.
Proof.
  induction fuel as [|f IH]; intros n b L Hf HL HI; [lia|].
  cbn [read_objects].
  destruct (safe_read_object rv CHUNK (N.le_refl _) L b HL HI) as (P1 & P2 & P3).
  pose proof (read_object_progress b) as PR.
  unfold run, trace in *.
  destruct (read_object rv b) as [[[[o|] b']| | |p] tr]; cbn [fst snd] in *.
  - specialize (PR o b' ltac:(lia) eq_refl). specialize (P3 _ _ eq_refl).
    specialize (IH (n + 1) b' L ltac:(unfold lenN in *; lia) ltac:(lia) HI).
    destruct (read_objects rv f (n + 1) b') as [[n' e] tr']. destruct IH as [IH1 IH2].
    split; [exact IH1 | apply Forall_app; split; assumption].
  - split; [left; reflexivity | exact P2].
  - split; [right; reflexivity | exact P2].
  - split; [right; reflexivity | exact P2].
  - contradiction.
Qed.

Theorem point_file_ok b :
  lenN b + CHUNK <= ISIZE_MAX ->
  fres_good (fst (point_file rv hv b)) /\
  Forall (fun n => n <= lenN b + CHUNK) (snd (point_file rv hv b)).
Proof.
  intros HI. unfold point_file.
  destruct (safe_read_header rv hv CHUNK (N.le_refl _) (lenN b) b (N.le_refl _) HI) as (H1 & H2 & H3).
  unfold run, trace in *.
  destruct (read_header rv hv b) as [[[h b']| | |p] tr]; cbn [fst snd] in *.
  - specialize (H3 _ _ eq_refl).
    destruct (h_status h).
    + destruct (safe_read_manifest rv CHUNK (N.le_refl _) (lenN b) b' H3 HI) as (M1 & M2 & M3).
      unfold run, trace in *.
      destruct (read_manifest rv b') as [[[m b'']| | |p] tr']; cbn [fst snd] in *.
      * specialize (M3 _ _ eq_refl).
        pose proof (read_objects_ok (S (length b'')) 0 b'' (lenN b) ltac:(lia) ltac:(lia) HI) as O.
        destruct (read_objects rv (S (length b'')) 0 b'') as [[n e] tr'']. destruct O as [O1 O2].
        cbn [fst snd]. split; [exact O1|]. repeat (apply Forall_app; split); assumption.
      * split; [exact I | apply Forall_app; split; assumption].
      * split; [exact I | apply Forall_app; split; assumption].
      * contradiction.
    + split; [left; reflexivity | exact H2].
  - split; [left; reflexivity | exact H2].
  - split; [left; reflexivity | exact H2].
  - contradiction.
Qed.

End Point.
