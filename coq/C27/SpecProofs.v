(* C27: the model satisfies the executable oracles of C27/Spec.v. *)
From Coq Require Import List NArith ZArith Lia Bool.
From RV Require Import Base.Bytes C28.Model C28.Values C27.Model C27.Spec C27.Proofs C27.FileProofs.
Import ListNotations.
Local Open Scope N_scope.

Lemma max_list_le B l : Forall (fun n => n <= B) l -> max_list l <= B.
Proof.
  induction 1 as [|x l Hx _ IH]; cbn [max_list fold_right]; [lia|].
  fold (max_list l). lia.
Qed.

Theorem model_satisfies_spec k b :
  lenN b + kind_const k <= ISIZE_MAX -> spec_okb k b (model_obs k b) = true.
Proof.
  intros HI.
  destruct (decode_total_bounded rsync_validb https_validb k b HI) as (H1 & H2 & _).
  unfold spec_okb, model_obs, decodeC, run, trace in *.
  destruct (decode rsync_validb https_validb k b) as [r t]. cbn [fst snd o_res o_alloc] in *.
  apply andb_true_iff. split.
  - destruct r as [[v b']| | |p]; cbn; try reflexivity. contradiction.
  - apply N.leb_le. apply max_list_le in H2. unfold ALLOC_FACTOR, SLACK. lia.
Qed.

Lemma fres_good_okb r : fres_good r -> fres_okb r = true.
Proof. destruct r as [t| |m n e| |]; cbn; try tauto. intros [-> | ->]; reflexivity. Qed.

Theorem file_model_satisfies_spec is_status b :
  lenN b + CHUNK <= ISIZE_MAX -> file_spec_okb b (file_model is_status b) = true.
Proof.
  intros HI. unfold file_spec_okb, file_model.
  assert (H : fres_good (fst (if is_status then status_file b else point_file rsync_validb https_validb b)) /\
              Forall (fun n => n <= lenN b + CHUNK)
                (snd (if is_status then status_file b else point_file rsync_validb https_validb b))).
  { destruct is_status; [apply status_file_ok | apply point_file_ok]; exact HI. }
  destruct (if is_status then status_file b else point_file rsync_validb https_validb b) as [r t].
  cbn [fst snd fo_res fo_alloc] in *. destruct H as [H1 H2].
  apply andb_true_iff. split; [apply fres_good_okb; exact H1|].
  apply N.leb_le. apply max_list_le in H2. unfold ALLOC_FACTOR, SLACK, FILE_CONST, CHUNK in *. lia.
Qed.
