(* C27: the property as an executable oracle, and the case checkers of the
   correspondence run.  No proofs here.

   Stream `decoders`: one case = a record kind, an arbitrary byte string, what
   the real decoder did with it in a child process ([k_res]: a value and the
   remaining input, an error class, a caught panic, or the death of the
   process) and the largest single allocation request the counting allocator
   saw during the call ([k_alloc]).

   Stream `files`: the same for a whole status.bin / stored-point file run
   through `Store::status` / `StoredPoint::open` + iteration. *)
From Coq Require Import List NArith ZArith Bool.
From RV Require Export C28.Model C28.Values C27.Model.
Import ListNotations.
Local Open Scope N_scope.

Definition max_list (l : list N) : N := fold_right N.max 0 l.

(* A request in the model is a needed capacity. The containers round it up:
   Vec doubles (Base/Bytes.v vec_grow_le), hashbrown allocates
   next_power_of_two(8/7 n) buckets of ENTRY + 1 bytes.  Both stay below
   three times the request; SLACK covers error values and small boxes. *)
Definition ALLOC_FACTOR : N := 3.
Definition SLACK : N := 4096.

Record obs := { o_res : dres; o_alloc : N }.

Definition model_obs (k : kind) (b : list N) : obs :=
  let '(r, t) := decodeC k b in {| o_res := dres_of r; o_alloc := max_list t |}.

Definition res_okb (d : dres) : bool :=
  match d with DOk _ _ | DEof | DFormat => true | _ => false end.

(* C27, executable: the decoder returned data or an error (no panic, the
   process lived), and no single allocation was far beyond the input's size *)
Definition spec_okb (k : kind) (b : list N) (o : obs) : bool :=
  res_okb (o_res o) && (o_alloc o <=? ALLOC_FACTOR * (lenN b + kind_const k) + SLACK).

(* Result codes: 0 property holds on the implementation's behaviour, the model
   decoder returns the same result and the implementation's largest allocation
   is within ALLOC_FACTOR times the model's largest request (+ SLACK);
   1 property holds but model and implementation differ; 2 the property fails
   on the implementation's behaviour; 9 the input is not a byte string. *)
Record case := { k_kind : kind; k_bytes : list N; k_res : dres; k_alloc : N }.

Definition check_case (c : case) : N :=
  if negb (bytes_okb (k_bytes c)) then 9
  else if negb (spec_okb (k_kind c) (k_bytes c) {| o_res := k_res c; o_alloc := k_alloc c |}) then 2
  else let m := model_obs (k_kind c) (k_bytes c) in
       if dres_eqb (o_res m) (k_res c) && (k_alloc c <=? ALLOC_FACTOR * o_alloc m + SLACK) then 0 else 1.

(* ---------------- whole files ---------------- *)

(* BufReader's buffer, path strings *)
Definition FILE_CONST : N := CHUNK + 8192 + 4096.

Record fobs := { fo_res : fres; fo_alloc : N }.

Definition file_model (is_status : bool) (b : list N) : fobs :=
  let '(r, t) := if is_status then status_file b else point_file rsync_validb https_validb b in
  {| fo_res := r; fo_alloc := max_list t |}.

Definition pend_eqb (a b : pend) : bool :=
  match a, b with PEnd, PEnd | PError, PError | PFatal, PFatal | PEndless, PEndless => true | _, _ => false end.
Definition fres_eqb (a b : fres) : bool :=
  match a, b with
  | FStatus x, FStatus y => opt_eqb Z.eqb x y
  | FFailed, FFailed | FPanic, FPanic | FAbort, FAbort => true
  | FPoint m n e, FPoint m' n' e' => Bool.eqb m m' && (n =? n') && pend_eqb e e'
  | _, _ => false
  end.

(* the data, or discarded and re-created, or a reported error; bounded allocation *)
Definition fres_okb (r : fres) : bool :=
  match r with
  | FStatus _ | FFailed => true
  | FPoint _ _ e => match e with PEnd | PError => true | _ => false end
  | FPanic | FAbort => false
  end.
Definition file_spec_okb (b : list N) (o : fobs) : bool :=
  fres_okb (fo_res o) && (fo_alloc o <=? ALLOC_FACTOR * (lenN b + FILE_CONST) + SLACK).

Record fcase := { f_status : bool; f_bytes : list N; f_res : fres; f_alloc : N }.

Definition check_fcase (c : fcase) : N :=
  if negb (bytes_okb (f_bytes c)) then 9
  else if negb (file_spec_okb (f_bytes c) {| fo_res := f_res c; fo_alloc := f_alloc c |}) then 2
  else let m := file_model (f_status c) (f_bytes c) in
       (* agreement on the size of allocations is coarse on purpose: the whole-file readers go through buffered
          readers and lazily initialised runtime state whose requests (three 64 KiB blocks for a 7-byte file in 3 of
          60374 cases of a thorough run) are not the model's business; anything up to 256 KiB counts as agreeing, the
          property's own bound is judged by [file_spec_okb] above *)
       if fres_eqb (fo_res m) (f_res c)
          && (f_alloc c <=? N.max (ALLOC_FACTOR * (fo_alloc m + 8192 + 4096) + SLACK) 262144) then 0 else 1.
