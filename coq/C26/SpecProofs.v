(* C26 proofs, part 9: the model satisfies the executable oracle of Spec.v on every input. *)
From Coq Require Import List NArith Lia Bool.
From RV Require Import Base.KMap C26.Model C26.Basics C26.Chain C26.Spec C26.Tiling C26.Inv C26.Ops C26.Refine
  C26.InvB C26.Observe.
Import ListNotations.
Local Open Scope N_scope.

(* ---- the reference map as a list ------------------------------------------------------------------------ *)
Definition amap_ok (m : amap) : Prop := NoDup (map e_name m).
Definition repr (m : amap) (f : fmap) : Prop := forall n, aget n m = f n.

Lemma aget_adel n' n m : aget n' (adel n m) = if leqb n' n then None else aget n' m.
Proof.
  induction m as [|[[n2 m2] d2] t IH]; cbn [adel aget]; [destruct (leqb n' n); reflexivity|].
  destruct (leqb_spec n n2) as [->|Hne].
  - rewrite IH. destruct (leqb_spec n' n2); reflexivity.
  - cbn [aget]. rewrite IH. destruct (leqb_spec n' n2) as [->|]; [|reflexivity].
    destruct (leqb_spec n2 n); [congruence|reflexivity].
Qed.

Lemma aget_aset n' n mt d m : aget n' (aset n mt d m) = if leqb n' n then Some (mt, d) else aget n' m.
Proof. unfold aset. cbn [aget]. destruct (leqb n' n) eqn:E; [reflexivity|]. rewrite aget_adel, E. reflexivity. Qed.

Lemma in_adel e n m : In e (adel n m) -> In e m /\ e_name e <> n.
Proof.
  induction m as [|[[n2 m2] d2] t IH]; cbn [adel]; [intros []|].
  destruct (leqb_spec n n2) as [->|Hne].
  - intros H. destruct (IH H). split; [right; assumption|assumption].
  - intros [<-|H]; [split; [left; reflexivity | cbn; congruence] | destruct (IH H); split; [right; assumption|assumption]].
Qed.

Lemma adel_ok n m : amap_ok m -> amap_ok (adel n m).
Proof.
  unfold amap_ok. induction m as [|[[n2 m2] d2] t IH]; cbn [adel map]; [auto|]. intros H. inversion H as [|? ? Hn Hnd]; subst.
  destruct (leqb n n2); [apply IH; exact Hnd|]. cbn [map]. constructor; [|apply IH; exact Hnd].
  intros Hin. apply Hn. apply in_map_iff in Hin. destruct Hin as (e & He & Hin). apply in_adel in Hin. apply in_map_iff. exists e. tauto.
Qed.

Lemma aset_ok n mt d m : amap_ok m -> amap_ok (aset n mt d m).
Proof.
  intros H. unfold amap_ok, aset. cbn [map]. constructor; [|apply adel_ok; exact H].
  intros Hin. apply in_map_iff in Hin. destruct Hin as (e & He & Hin). apply in_adel in Hin. cbn in He. tauto.
Qed.

Lemma repr_upd m f n v mt d : repr m f -> v = Some (mt, d) -> repr (aset n mt d m) (fupd f n v).
Proof. intros H -> n'. rewrite aget_aset. unfold fupd. destruct (leqb n' n); [reflexivity | apply H]. Qed.

Lemma repr_del m f n : repr m f -> repr (adel n m) (fupd f n None).
Proof. intros H n'. rewrite aget_adel. unfold fupd. destruct (leqb n' n); [reflexivity | apply H]. Qed.

Lemma map_step_fstep m f o : repr m f -> amap_ok m ->
  fst (map_step m o) = fst (fstep f o) /\ repr (snd (map_step m o)) (snd (fstep f o)) /\ amap_ok (snd (map_step m o)).
Proof.
  intros H Hok. destruct o as [n mt d|n mt d c|n c|n|n c|]; cbn [map_step fstep]; try rewrite <- (H n).
  - destruct (aget n m); cbn; [auto|]. split; [reflexivity|]. split; [apply repr_upd; auto | apply aset_ok; exact Hok].
  - destruct (aget n m) as [[old dd]|]; cbn; [|auto]. destruct (c old); cbn; [auto|].
    split; [reflexivity|]. split; [apply repr_upd; auto | apply aset_ok; exact Hok].
  - destruct (aget n m) as [[old dd]|]; cbn; [|auto]. destruct (c old); cbn; [auto|].
    split; [reflexivity|]. split; [apply repr_del; auto | apply adel_ok; exact Hok].
  - cbn. auto.
  - cbn. auto.
  - cbn. auto.
Qed.

(* ---- same content ----------------------------------------------------------------------------------------- *)
Lemma val_eqb_refl v : val_eqb v v = true.
Proof. unfold val_eqb. rewrite N.eqb_refl, leqb_refl. reflexivity. Qed.

Lemma names_unique_entries (m : amap) n m1 d1 m2 d2 :
  NoDup (map e_name m) -> In (n, m1, d1) m -> In (n, m2, d2) m -> m1 = m2 /\ d1 = d2.
Proof.
  induction m as [|e t IH]; cbn [map]; [intros _ []|]. intros H. inversion H as [|? ? Hn Hnd]; subst. intros [->|H1] [E|H2].
  - injection E as -> ->. auto.
  - exfalso. apply Hn. apply in_map_iff. exists (n, m2, d2). auto.
  - subst e. exfalso. apply Hn. apply in_map_iff. exists (n, m1, d1). auto.
  - apply IH; assumption.
Qed.

Lemma aget_iff_in m n mt d : NoDup (map e_name m) -> (aget n m = Some (mt, d) <-> In (n, mt, d) m).
Proof.
  intros H. split; [apply aget_in|]. apply aget_some_of_in. intros. eapply names_unique_entries; eauto.
Qed.

Lemma same_content_intro l m :
  NoDup (map e_name l) -> NoDup (map e_name m) -> (forall e, In e l <-> In e m) -> same_content l m = true.
Proof.
  intros Hl Hm Hiff. unfold same_content. rewrite (nodupb_true _ Hl). cbn [andb].
  assert (Hsub : forall a b, NoDup (map e_name b) -> (forall e, In e a -> In e b) -> sub_content a b = true).
  { intros a b Hb Hin. unfold sub_content. apply forallb_forall. intros [[n mt] d] He. cbn [e_name fst snd].
    rewrite (proj2 (aget_iff_in b n mt d Hb) (Hin _ He)). cbn. apply val_eqb_refl. }
  rewrite (Hsub l m Hm), (Hsub m l Hl); [reflexivity | intros e; apply Hiff | intros e; apply Hiff].
Qed.

Lemma res_eqb_refl r : res_eqb r r = true.
Proof. destruct r; cbn; try reflexivity; [apply N.eqb_refl | apply leqb_refl]. Qed.

Section SpecProofs.
Variables (nb msz : N) (bucket : name -> N).
Hypothesis bucket_lt : forall n, bucket n < nb.

Notation Inv := (Inv nb msz bucket).

Lemma heap_objects_iff s m : Inv s -> repr m (content (heap s)) -> amap_ok m ->
  NoDup (map e_name (heap_objects (heap s))) /\ forall e, In e (heap_objects (heap s)) <-> In e m.
Proof.
  intros HI Hr Hok. pose proof HI as (cl & W). destruct (WF_sorted _ _ _ _ _ _ W) as (Hs & Hu).
  pose proof (names_nodup _ Hs Hu) as Hnd. split; [exact Hnd|]. intros [[n mt] d].
  rewrite <- (aget_iff_in _ _ _ _ Hnd), <- (aget_iff_in _ _ _ _ Hok). rewrite Hr. reflexivity.
Qed.

Lemma obs_ok r s m : Inv s -> repr m (content (heap s)) -> amap_ok m ->
  obs_okb nb msz bucket r m (obs_of nb msz bucket r s) = true.
Proof.
  intros HI Hr Hok. unfold obs_okb, obs_of. cbn [o_res o_verify o_objects o_snap].
  destruct (heap_objects_iff s m HI Hr Hok) as (Hnd & Hiff).
  rewrite res_eqb_refl. destruct (verify_ok nb msz bucket bucket_lt s HI) as (t & ->).
  destruct (objects_ok nb msz bucket bucket_lt s HI) as (l & -> & Hl & Hlin).
  rewrite (same_content_intro l m Hl Hok) by (intros e; rewrite Hlin; apply Hiff).
  rewrite (same_content_intro _ m Hnd Hok Hiff). rewrite (Inv_inv_b nb msz bucket bucket_lt s HI). reflexivity.
Qed.

Lemma steps_ok ops : forall s m, Inv s -> repr m (content (heap s)) -> amap_ok m ->
  steps_okb nb msz bucket m ops (map (fun p => obs_of nb msz bucket (fst p) (snd p)) (run msz bucket s ops)) = true.
Proof.
  induction ops as [|o ops IH]; intros s m HI Hr Hok; cbn [run steps_okb map]; [reflexivity|].
  destruct (step_refines nb msz bucket bucket_lt s o HI) as (HI' & Hres & Hcont).
  destruct (map_step_fstep m (content (heap s)) o Hr Hok) as (Hres' & Hr' & Hok').
  destruct (step msz bucket s o) as [r s'] eqn:Es. destruct (map_step m o) as [r' m'] eqn:Em. cbn [fst snd map steps_okb] in *.
  assert (Hr2 : repr m' (content (heap s'))) by (intros n; rewrite Hr', Hcont; reflexivity).
  rewrite Hres, <- Hres'. rewrite (obs_ok r' s' m' HI' Hr2 Hok'). cbn [andb]. apply IH; assumption.
Qed.

(* ---- AppendArchive ------------------------------------------------------------------------------------------- *)
Lemma has_name_false n h : ksorted h -> has_name n h = false -> absent n h.
Proof.
  intros Hs H x hd m d Hx Hb. apply lookup_In in Hx.
  assert (has_name n h = true); [|congruence]. unfold has_name. apply existsb_exists. exists (x, hd). split; [exact Hx|].
  cbn. rewrite Hb. apply leqb_refl.
Qed.

Lemma append_publish_refines s n mt d : Inv s ->
  Inv (snd (append_publish msz bucket s n mt d))
  /\ fst (append_publish msz bucket s n mt d) = fst (fstep (content (heap s)) (Publish n mt d))
  /\ forall n', content (heap (snd (append_publish msz bucket s n mt d))) n' = snd (fstep (content (heap s)) (Publish n mt d)) n'.
Proof.
  intros HI. pose proof HI as (cl & W). destruct (WF_sorted _ _ _ _ _ _ W) as (Hs & Hu).
  unfold append_publish. cbn [fstep]. destruct (has_name n (heap s)) eqn:Eh.
  - unfold has_name in Eh. apply existsb_exists in Eh. destruct Eh as ([x hd] & Hin & Hb). cbn [snd] in Hb.
    destruct (h_body hd) as [|n' m' d'] eqn:Eb; [discriminate|]. apply leqb_eq in Hb. subst n'.
    assert (Hc : content (heap s) n = Some (m', d')).
    { apply content_some; [assumption|assumption|]. exists x. apply objf_some. exists hd. split; [apply In_lookup; assumption|exact Eb]. }
    rewrite Hc. cbn. auto.
  - pose proof (has_name_false n (heap s) Hs Eh) as Ha.
    assert (Hc : content (heap s) n = None).
    { apply content_none; [assumption|assumption|]. intros x m' d' Hx. apply objf_some in Hx. destruct Hx as (hd & A & B). exact (Ha _ _ _ _ A B). }
    rewrite Hc.
    pose proof (page_object_size_bounds msz n d) as B.
    destruct (N.ltb_spec (page_object_size msz n d) (min_object_size msz (len n) (len d))); [lia|].
    destruct (publish_append_spec nb msz bucket bucket_lt s cl n mt d W Ha) as (s' & cl' & E & W' & Hadd).
    unfold publish_append in E. rewrite write_object_append in E. cbn [bind] in E. injection E as E. rewrite E. cbn [fst snd].
    destruct (WF_sorted _ _ _ _ _ _ W') as (Hs' & Hu').
    split; [exists cl'; exact W'|]. split; [reflexivity|]. apply content_added; assumption.
Qed.

Lemma init_ok ini : forall s m, Inv s -> repr m (content (heap s)) -> amap_ok m ->
  exists m', init_okb m ini (fst (run_append msz bucket s ini)) = Some m'
    /\ Inv (snd (run_append msz bucket s ini)) /\ repr m' (content (heap (snd (run_append msz bucket s ini)))) /\ amap_ok m'.
Proof.
  induction ini as [|[[n mt] d] ini IH]; intros s m HI Hr Hok; cbn [run_append init_okb].
  - exists m. auto.
  - destruct (append_publish_refines s n mt d HI) as (HI' & Hres & Hcont).
    destruct (map_step_fstep m (content (heap s)) (Publish n mt d) Hr Hok) as (Hres' & Hr' & Hok').
    destruct (append_publish msz bucket s n mt d) as [r s'] eqn:Es. cbn [fst snd] in *.
    change (map_append m (n, mt, d)) with (map_step m (Publish n mt d)).
    destruct (map_step m (Publish n mt d)) as [r' m1] eqn:Em. cbn [fst snd] in *.
    assert (Hr2 : repr m1 (content (heap s'))) by (intros n'; rewrite Hr', Hcont; reflexivity).
    destruct (IH s' m1 HI' Hr2 Hok') as (m' & E & A & B & C).
    destruct (run_append msz bucket s' ini) as [rs s''] eqn:Er. cbn [fst snd] in *.
    rewrite Hres, <- Hres', res_eqb_refl. exists m'. auto.
Qed.

Theorem model_satisfies_spec ini ops :
  spec_okb nb msz bucket ini ops (fst (model_init nb msz bucket ini)) (model_obs nb msz bucket ini ops) = true.
Proof.
  unfold spec_okb, model_obs, model_init.
  destruct (init_ok ini (init nb) [] (Inv_init nb msz bucket)) as (m0 & E & HI & Hr & Hok).
  - intros n. reflexivity.
  - constructor.
  - rewrite E. apply steps_ok; assumption.
Qed.

End SpecProofs.
