(* C26 proofs, part 7: the executable layout check [inv_b] of Spec.v holds of every state satisfying
   [Inv] (and conversely for the tiling part: [tilesb_tiling] in Tiling.v). *)
From Coq Require Import List NArith Lia Bool FinFun.
From RV Require Import Base.KMap C26.Model C26.Basics C26.Chain C26.Spec C26.Tiling C26.Inv C26.Ops C26.Refine.
Import ListNotations.
Local Open Scope N_scope.

Lemma walk_chain h l : forall fuel p, chain h p l -> (length l < fuel)%nat -> walk fuel h p = Some l.
Proof.
  unfold chain. induction l as [|x l IH]; intros fuel p Hc Hf; (destruct fuel as [|fuel]; [cbn in Hf; lia|]); cbn [walk cseg] in *.
  - subst p. reflexivity.
  - destruct Hc as (-> & Hx & s & Hs & Hc). destruct (N.eqb_spec x 0); [congruence|]. rewrite Hs.
    rewrite (IH fuel (h_next s) Hc) by (cbn in Hf; lia). reflexivity.
Qed.

Lemma chain_walk h : forall fuel p l, walk fuel h p = Some l -> chain h p l.
Proof.
  unfold chain. induction fuel as [|fuel IH]; intros p l; cbn [walk]; [discriminate|].
  destruct (N.eqb_spec p 0) as [->|Hp]; [intros H; injection H as <-; reflexivity|].
  destruct (hget p h) as [s|] eqn:Hs; [|discriminate]. destruct (walk fuel h (h_next s)) as [l'|] eqn:E; [|discriminate].
  cbn. intros H; injection H as <-. cbn [cseg]. split; [reflexivity|]. split; [exact Hp|]. exists s. split; [exact Hs|]. apply IH; exact E.
Qed.

Lemma nodupN_true l : NoDup l -> nodupN l = true.
Proof.
  induction 1 as [|x l Hx Hnd IH]; cbn [nodupN]; [reflexivity|]. rewrite IH, andb_true_r. apply negb_true_iff.
  destruct (existsb (N.eqb x) l) eqn:E; [|reflexivity]. apply existsb_exists in E. destruct E as (y & Hy & Heq).
  apply N.eqb_eq in Heq. subst y. contradiction.
Qed.

Lemma memN_true x l : In x l -> memN x l = true.
Proof. intros H. unfold memN. apply existsb_exists. exists x. split; [exact H | apply N.eqb_refl]. Qed.

Lemma in_buckets nb b : In b (buckets nb) <-> b < nb.
Proof.
  unfold buckets. rewrite in_map_iff. split.
  - intros (i & <- & Hi). apply in_seq in Hi. lia.
  - intros H. exists (N.to_nat b). split; [apply N2Nat.id | apply in_seq; lia].
Qed.

Lemma nodup_buckets nb : NoDup (buckets nb).
Proof. unfold buckets. apply FinFun.Injective_map_NoDup; [intros a b H; apply Nat2N.inj; exact H | apply seq_NoDup]. Qed.

(* names of the stored objects are duplicate free *)
Lemma nodupb_true l : NoDup l -> nodupb l = true.
Proof.
  induction 1 as [|x l Hx Hnd IH]; cbn [nodupb]; [reflexivity|]. rewrite IH, andb_true_r. apply negb_true_iff.
  destruct (existsb (leqb x) l) eqn:E; [|reflexivity]. apply existsb_exists in E. destruct E as (y & Hy & Heq).
  apply leqb_eq in Heq. subst y. contradiction.
Qed.

Lemma names_unique_tail k s t : ksorted ((k, s) :: t) -> names_unique ((k, s) :: t) -> names_unique t.
Proof.
  intros [Hlb _] Hu x x' hd hd' n m d m' d' A A'.
  assert (Hne : forall y v, hget y t = Some v -> hget y ((k, s) :: t) = Some v).
  { intros y v Hy. rewrite hget_cons. destruct (N.eqb_spec y k) as [->|]; [|exact Hy]. apply lookup_In in Hy. apply Hlb in Hy. lia. }
  apply Hu; apply Hne; assumption.
Qed.

Lemma names_nodup h : ksorted h -> names_unique h -> NoDup (map e_name (heap_objects h)).
Proof.
  induction h as [|[k s] t IH]; intros Hs Hu; cbn [heap_objects map]; [constructor|].
  pose proof (names_unique_tail _ _ _ Hs Hu) as Hu'. pose proof Hs as [Hlb Hs'].
  destruct (h_body s) as [|n m d] eqn:Eb; [apply IH; assumption|]. cbn [map]. constructor; [|apply IH; assumption].
  change (e_name (n, m, d)) with n. intros Hin. apply in_map_iff in Hin. destruct Hin as ([[n' m'] d'] & En & Hin). cbn in En. subst n'.
  apply (in_heap_objects t _ _ _ Hs') in Hin. destruct Hin as (x & Hx). apply objf_some in Hx. destruct Hx as (hd & A & B).
  assert (x = k).
  { eapply (Hu x k hd s n m' d' m d); [|rewrite hget_cons, N.eqb_refl; reflexivity|exact B|exact Eb].
    rewrite hget_cons. destruct (N.eqb_spec x k) as [->|]; [|exact A]. apply lookup_In in A. apply Hlb in A. lia. }
  subst x. apply lookup_In in A. apply Hlb in A. lia.
Qed.

Section InvB.
Variables (nb msz : N) (bucket : name -> N).
Hypothesis bucket_lt : forall n, bucket n < nb.

Lemma Inv_inv_b s : Inv nb msz bucket s -> inv_b nb msz bucket s = true.
Proof.
  intros (cl & C & T & I). pose proof (c_sorted _ _ _ _ _ _ C) as Hs.
  assert (Hw : forall k, valid nb k -> chain_of s (head s k) = Some (cl k)).
  { intros k Hk. unfold chain_of. apply walk_chain; [apply (c_chain _ _ _ _ _ _ C k Hk) | eapply chains_fuel; eauto]. }
  assert (H1 : tilesb (data_start nb) (heap s) (fsize s) = true) by (apply tiling_tilesb; exact T).
  assert (H2 : idx_okb nb s = true).
  { unfold idx_okb. apply andb_true_iff. split; [apply ksortedb_spec; apply (c_idx _ _ _ _ _ _ C)|].
    apply forallb_forall. intros [b p] Hin. apply (In_lookup _ _ _ (c_idx _ _ _ _ _ _ C)) in Hin. destruct (I _ _ Hin) as (Hb & Hp). cbn.
    apply andb_true_iff. split; [apply N.ltb_lt; exact Hb | apply negb_true_iff, N.eqb_neq; exact Hp]. }
  assert (H3 : empty_chain_okb s = true).
  { unfold empty_chain_okb. change (eidx s) with (head s None). rewrite (Hw None Logic.I).
    apply andb_true_iff. split; [apply andb_true_iff; split|].
    + apply nodupN_true. apply (c_nodup _ _ _ _ _ _ C None Logic.I).
    + apply forallb_forall. intros x Hx. destruct (c_kind _ _ _ _ _ _ C None x Logic.I Hx) as (hd & E & Ek). rewrite E.
      unfold Inv.key_of in Ek. unfold is_empty. destruct (h_body hd); [reflexivity|discriminate].
    + apply forallb_forall. intros [k hd] Hin. cbn [fst snd]. destruct (is_empty hd) eqn:Ee; [|reflexivity]. apply memN_true.
      apply (In_lookup _ _ _ Hs) in Hin. pose proof (c_linked _ _ _ _ _ _ C k hd (fun H => H) Hin) as Hl.
      unfold Inv.key_of in Hl. unfold is_empty in Ee. destruct (h_body hd); [exact Hl|discriminate]. }
  assert (H4 : forallb (bucket_chain_okb bucket s) (buckets nb) = true).
  { apply forallb_forall. intros b Hb. apply in_buckets in Hb. unfold bucket_chain_okb. change (iget b s) with (head s (Some b)).
    rewrite (Hw (Some b) Hb). apply andb_true_iff. split; [apply nodupN_true, (c_nodup _ _ _ _ _ _ C (Some b) Hb)|].
    apply forallb_forall. intros x Hx. destruct (c_kind _ _ _ _ _ _ C (Some b) x Hb Hx) as (hd & E & Ek). rewrite E.
    unfold Inv.key_of in Ek. destruct (h_body hd); [discriminate|]. injection Ek as ->. apply N.eqb_refl. }
  assert (H5 : objects_linked_b msz bucket s = true).
  { unfold objects_linked_b. apply forallb_forall. intros [k hd] Hin. cbn [fst snd]. destruct (h_body hd) as [|n m d] eqn:Eb; [reflexivity|].
    apply (In_lookup _ _ _ Hs) in Hin. apply andb_true_iff. split.
    + apply N.eqb_eq. eapply (c_sizes _ _ _ _ _ _ C); eauto.
    + change (iget (bucket n) s) with (head s (Some (bucket n))). rewrite (Hw (Some (bucket n)) (bucket_lt n)). apply memN_true.
      pose proof (c_linked _ _ _ _ _ _ C k hd (fun H => H) Hin) as Hl. unfold Inv.key_of in Hl. rewrite Eb in Hl. exact Hl. }
  assert (H6 : nodupb (map e_name (heap_objects (heap s))) = true).
  { apply nodupb_true. apply names_nodup; [exact Hs | apply (c_names _ _ _ _ _ _ C)]. }
  unfold inv_b. rewrite H1, H2, H3, H4, H5, H6. reflexivity.
Qed.

End InvB.
