(* C26 proofs, part 2: linked chains in the heap and the loops that follow them. *)
From Coq Require Import List NArith Lia Bool.
From RV Require Import Base.KMap C26.Model C26.Basics.
Import ListNotations.
Local Open Scope N_scope.

(* [cseg h p l q]: starting from pointer [p], following [next] visits exactly the positions [l] and ends
   with pointer [q].  A chain is a segment ending with the null pointer. *)
Fixpoint cseg (h : heap_t) (p : N) (l : list N) (q : N) : Prop :=
  match l with
  | [] => p = q
  | x :: l' => p = x /\ x <> 0 /\ exists s, hget x h = Some s /\ cseg h (h_next s) l' q
  end.
Definition chain (h : heap_t) (p : N) (l : list N) : Prop := cseg h p l 0.

Lemma cseg_app h l1 : forall p l2 q,
  cseg h p (l1 ++ l2) q <-> exists r, cseg h p l1 r /\ cseg h r l2 q.
Proof.
  induction l1 as [|x l1 IH]; intros p l2 q; cbn [app cseg].
  - split; [intros H; exists p; auto | intros (r & -> & H); exact H].
  - split.
    + intros (-> & Hx & s & Hs & Hc). apply IH in Hc. destruct Hc as (r & H1 & H2).
      exists r. split; [|exact H2]. split; [reflexivity|]. split; [exact Hx|]. exists s; auto.
    + intros (r & (-> & Hx & s & Hs & H1) & H2). split; [reflexivity|]. split; [exact Hx|].
      exists s. split; [exact Hs|]. apply IH. exists r; auto.
Qed.

Lemma chain_unique h l : forall p l', chain h p l -> chain h p l' -> l = l'.
Proof.
  unfold chain. induction l as [|x l IH]; intros p [|y l']; cbn [cseg]; intros H1 H2.
  - reflexivity.
  - destruct H2 as (-> & Hy & _). congruence.
  - destruct H1 as (-> & Hx & _). congruence.
  - destruct H1 as (-> & _ & s & Hs & H1). destruct H2 as (<- & _ & s' & Hs' & H2).
    rewrite Hs in Hs'. injection Hs' as <-. f_equal. eapply IH; eauto.
Qed.

Lemma cseg_keys h l : forall p q x, cseg h p l q -> In x l -> x <> 0 /\ exists s, hget x h = Some s.
Proof.
  induction l as [|y l IH]; intros p q x; cbn [cseg In]; [tauto|].
  intros (-> & Hy & s & Hs & Hc) [<-|Hin]; [split; [exact Hy | exists s; exact Hs] | eapply IH; eauto].
Qed.

Lemma cseg_head_in h l p q : cseg h p l q -> l <> [] -> In p l.
Proof. destruct l; cbn [cseg]; [congruence|]. intros (-> & _) _. left; reflexivity. Qed.

(* ---- heaps that differ only in the next fields of some positions ------------------------ *)
Definition hsim (L : list N) (h h' : heap_t) : Prop :=
  ksorted h' /\
  forall x, match hget x h, hget x h' with
            | Some a, Some b => h_size a = h_size b /\ h_body a = h_body b /\ (~ In x L -> h_next a = h_next b)
            | None, None => True
            | _, _ => False
            end.

Lemma hsim_refl L h : ksorted h -> hsim L h h.
Proof. intros Hs. split; [exact Hs|]. intros x. destruct (hget x h); auto. Qed.

Lemma hsim_get L h h' x a : hsim L h h' -> hget x h = Some a ->
  exists b, hget x h' = Some b /\ h_size a = h_size b /\ h_body a = h_body b /\ (~ In x L -> h_next a = h_next b).
Proof. intros [_ H] Ha. specialize (H x). rewrite Ha in H. destruct (hget x h') as [b|]; [exists b; auto | tauto]. Qed.

Lemma hsim_get_inv L h h' x b : hsim L h h' -> hget x h' = Some b ->
  exists a, hget x h = Some a /\ h_size a = h_size b /\ h_body a = h_body b /\ (~ In x L -> h_next a = h_next b).
Proof. intros [_ H] Hb. specialize (H x). rewrite Hb in H. destruct (hget x h) as [a|]; [exists a; auto | tauto]. Qed.

Lemma hsim_none L h h' x : hsim L h h' -> hget x h = None -> hget x h' = None.
Proof. intros [_ H] Ha. specialize (H x). rewrite Ha in H. destruct (hget x h'); tauto. Qed.

Lemma cseg_hsim L h h' l : hsim L h h' -> forall p q, (forall x, In x l -> ~ In x L) -> cseg h p l q -> cseg h' p l q.
Proof.
  intros Hsim. induction l as [|x l IH]; intros p q Hd; cbn [cseg]; [auto|].
  intros (-> & Hx & s & Hs & Hc). split; [reflexivity|]. split; [exact Hx|].
  destruct (hsim_get _ _ _ _ _ Hsim Hs) as (b & Hb & _ & _ & Hn). exists b. split; [exact Hb|].
  rewrite <- Hn by (apply Hd; left; reflexivity). apply IH; [|exact Hc]. intros y Hy. apply Hd. right; exact Hy.
Qed.

Lemma set_next_hsim p v h h' : ksorted h -> set_next p v h = Ok h' -> hsim [p] h h'.
Proof.
  intros Hs H. destruct (set_next_get p v h h' p Hs H) as (s & Hp & Hs' & _). split; [exact Hs'|].
  intros x. destruct (set_next_get p v h h' x Hs H) as (s' & Hp' & _ & ->). rewrite Hp in Hp'. injection Hp' as <-.
  destruct (N.eqb_spec x p) as [->|Hne].
  - rewrite Hp. cbn. split; [reflexivity|]. split; [reflexivity|]. intros Hn. exfalso; apply Hn; left; reflexivity.
  - destruct (hget x h); auto.
Qed.

(* ---- unlinking ------------------------------------------------------------------------------ *)
(* the node after [p] is removed by pointing [p] at its successor *)
Lemma unlink_mid h h' hd l1 p x l2 sx :
  ksorted h -> NoDup (l1 ++ p :: x :: l2) -> chain h hd (l1 ++ p :: x :: l2) -> hget x h = Some sx ->
  set_next p (h_next sx) h = Ok h' -> chain h' hd (l1 ++ p :: l2).
Proof.
  intros Hs Hnd Hc Hx Hset. unfold chain in *.
  pose proof (set_next_hsim _ _ _ _ Hs Hset) as Hsim.
  apply cseg_app in Hc. destruct Hc as (r & H1 & H2). apply cseg_app. exists r.
  assert (Hp1 : ~ In p l1).
  { apply NoDup_remove_2 in Hnd. intros Hin. apply Hnd. apply in_or_app. left; exact Hin. }
  split.
  - eapply cseg_hsim; [exact Hsim| |exact H1]. intros y Hy [<-|[]]. exact (Hp1 Hy).
  - cbn [cseg] in H2 |- *. destruct H2 as (-> & Hp0 & sp & Hsp & (Hnx & Hx0 & sx' & Hsx' & H3)).
    rewrite Hx in Hsx'. injection Hsx' as <-.
    split; [reflexivity|]. split; [exact Hp0|].
    destruct (set_next_get p (h_next sx) h h' p Hs Hset) as (s & Hps & _ & Hget). rewrite N.eqb_refl in Hget.
    eexists. split; [exact Hget|]. cbn [h_next].
    eapply cseg_hsim; [exact Hsim| |exact H3].
    intros y Hy [<-|[]]. apply NoDup_remove_2 in Hnd. apply Hnd. apply in_or_app. right. right. exact Hy.
Qed.

Lemma unlink_head h x l2 sx : chain h x (x :: l2) -> hget x h = Some sx -> chain h (h_next sx) l2.
Proof.
  unfold chain; cbn [cseg]. intros (_ & _ & s & Hs & Hc) Hx. rewrite Hx in Hs. injection Hs as <-. exact Hc.
Qed.

(* removing an element of a duplicate-free list *)
Lemma remove_split (x : N) l : NoDup l -> In x l ->
  exists l1 l2, l = l1 ++ x :: l2 /\ remove N.eq_dec x l = l1 ++ l2 /\ ~ In x l1 /\ ~ In x l2.
Proof.
  intros Hnd Hin. apply in_split in Hin. destruct Hin as (l1 & l2 & ->). exists l1, l2.
  pose proof (NoDup_remove_2 _ _ _ Hnd) as Hn.
  assert (H1 : ~ In x l1) by (intros H; apply Hn; apply in_or_app; auto).
  assert (H2 : ~ In x l2) by (intros H; apply Hn; apply in_or_app; auto).
  split; [reflexivity|]. split; [|auto].
  rewrite remove_app. cbn [remove]. destruct (N.eq_dec x x); [|congruence].
  rewrite !notin_remove by assumption. reflexivity.
Qed.

Lemma in_remove_iff (x y : N) l : In y (remove N.eq_dec x l) <-> In y l /\ y <> x.
Proof. split; [apply in_remove | intros [H1 H2]; apply in_in_remove; auto]. Qed.

Lemma NoDup_remove_elt (x : N) l : NoDup l -> NoDup (remove N.eq_dec x l).
Proof.
  induction 1 as [|y l Hy Hnd IH]; cbn [remove]; [constructor|].
  destruct (N.eq_dec x y); [exact IH|]. constructor; [|exact IH]. intros H. apply in_remove in H. tauto.
Qed.

(* ---- find ------------------------------------------------------------------------------------ *)
Lemma last_cons_default (a : N) l d d' : last (a :: l) d = last (a :: l) d'.
Proof. revert a; induction l as [|b l IH]; intros a; [reflexivity|]. change (last (b :: l) d = last (b :: l) d'). apply IH. Qed.

Lemma find_loop_spec h n l : forall fuel p prev,
  chain h p l -> (length l < fuel)%nat ->
  match find_loop fuel h p n prev with
  | Ok None => forall x hd, In x l -> hget x h = Some hd -> seg_name hd <> n
  | Ok (Some f) =>
      exists l1 l2, l = l1 ++ f_start f :: l2 /\ hget (f_start f) h = Some (f_hdr f) /\ seg_name (f_hdr f) = n
        /\ (forall x hd, In x l1 -> hget x h = Some hd -> seg_name hd <> n)
        /\ f_prev f = last l1 prev
  | Er _ => False
  end.
Proof.
  unfold chain. induction l as [|x l IH]; intros fuel p prev Hc Hf; (destruct fuel as [|fuel]; [cbn in Hf; lia|]);
    cbn [find_loop cseg] in *.
  - subst p. cbn. intros x hd [].
  - destruct Hc as (-> & Hx & s & Hs & Hc). destruct (N.eqb_spec x 0); [congruence|]. rewrite Hs.
    destruct (leqb_spec n (seg_name s)) as [Heq|Hne].
    + exists [], l. cbn. repeat split; auto; intros ? ? [].  
    + specialize (IH fuel (h_next s) x Hc ltac:(cbn in Hf; lia)).
      destruct (find_loop fuel h (h_next s) n x) as [[f|]|e]; [| |exact IH].
      * destruct IH as (l1 & l2 & -> & Hf1 & Hf2 & Hf3 & Hf4). exists (x :: l1), l2.
        split; [reflexivity|]. split; [exact Hf1|]. split; [exact Hf2|]. split.
        -- intros y hd [<-|Hy] Hy2; [rewrite Hs in Hy2; injection Hy2 as <-; congruence | eapply Hf3; eauto].
        -- rewrite Hf4. destruct l1 as [|a l1]; [reflexivity|]. change (last (x :: a :: l1) prev) with (last (a :: l1) prev). apply last_cons_default.
      * intros y hd [<-|Hy] Hy2; [rewrite Hs in Hy2; injection Hy2 as <-; congruence | eapply IH; eauto].
Qed.

(* the predecessor reported by find is the element before the found one *)
Lemma last_split (l1 : list N) (d : N) : l1 <> [] -> exists l1', l1 = l1' ++ [last l1 d].
Proof. intros H. exists (removelast l1). apply app_removelast_last. exact H. Qed.

Lemma last_in (l1 : list N) (d : N) : l1 <> [] -> In (last l1 d) l1.
Proof.
  intros H. destruct (last_split l1 d H) as (l' & E). rewrite E at 2. apply in_or_app. right. left. reflexivity.
Qed.

(* ---- unlink_empty's loop ----------------------------------------------------------------------- *)
Lemma unlink_loop_spec h y nx l1 : forall p fuel curr,
  cseg h curr (l1 ++ [p]) y -> ~ In y (l1 ++ [p]) -> (length l1 < fuel)%nat ->
  unlink_loop fuel h curr y nx = set_next p nx h.
Proof.
  induction l1 as [|c l1 IH]; intros p fuel curr Hc Hy Hf; (destruct fuel as [|fuel]; [cbn in Hf; lia|]);
    cbn [app cseg unlink_loop] in *.
  - destruct Hc as (-> & Hp & s & Hs & Hn). destruct (N.eqb_spec p 0); [congruence|]. rewrite Hs, Hn, N.eqb_refl. reflexivity.
  - destruct Hc as (-> & Hc0 & s & Hs & Hc). destruct (N.eqb_spec c 0); [congruence|]. rewrite Hs.
    assert (Hin : In (h_next s) (l1 ++ [p])) by (eapply cseg_head_in; [exact Hc | destruct l1; discriminate]).
    destruct (N.eqb_spec (h_next s) y) as [E|_]; [exfalso; apply Hy; right; rewrite <- E; exact Hin|].
    apply IH; [exact Hc | intros H; apply Hy; right; exact H | cbn in Hf; lia].
Qed.

(* ---- find_empty ----------------------------------------------------------------------------------- *)
Definition cands (msz : N) (h : heap_t) (l : list N) (size : N) : list (hdr * N) :=
  flat_map (fun x => match hget x h with
                     | Some s => if fits (h_size s) size then [(s, x)] else []
                     | None => []
                     end) l.

Lemma candidates_spec msz h size l : forall fuel p,
  chain h p l -> (length l < fuel)%nat -> candidates fuel h p size = Ok (cands msz h l size).
Proof.
  unfold chain. induction l as [|x l IH]; intros fuel p Hc Hf; (destruct fuel as [|fuel]; [cbn in Hf; lia|]);
    cbn [candidates cseg cands flat_map] in *.
  - subst p. reflexivity.
  - destruct Hc as (-> & Hx & s & Hs & Hc). destruct (N.eqb_spec x 0); [congruence|]. rewrite Hs.
    rewrite (IH fuel (h_next s) Hc) by (cbn in Hf; lia). cbn [bind]. fold (cands msz h l size).
    destruct (fits (h_size s) size); reflexivity.
Qed.

Lemma cands_in msz h l size s x : In (s, x) (cands msz h l size) ->
  In x l /\ hget x h = Some s /\ fits (h_size s) size = true.
Proof.
  unfold cands. rewrite in_flat_map. intros (y & Hy & Hin). destruct (hget y h) as [sy|] eqn:E; [|destruct Hin].
  destruct (fits (h_size sy) size) eqn:F; [|destruct Hin]. destruct Hin as [Heq|[]]. injection Heq as <- <-. auto.
Qed.

Lemma smallest_in c cs : In (smallest c cs) (c :: cs).
Proof.
  unfold smallest. revert c. induction cs as [|x cs IH]; intros c; cbn [fold_left]; [left; reflexivity|].
  destruct (h_size (fst x) <? h_size (fst c)).
  - destruct (IH x) as [H|H]; [right; left; exact H | right; right; exact H].
  - destruct (IH c) as [H|H]; [left; exact H | right; right; exact H].
Qed.
