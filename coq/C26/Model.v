(* C26 model: the RRDP object archive, transcribed from src/utils/archive.rs.
   Executable definitions only (no proofs).

   What a state is.  The archive file is: magic (6 bytes), ArchiveMeta (hash
   key 16 + bucket count 8), the index (bucket_count + 1 positions of 8 bytes,
   the last one being the head of the empty chain), then objects.  The model
   state [st] is the file seen through its headers:
     fsize  Storage::size, the length of the file
     idx    the non-zero index entries, bucket -> position of the first object
     eidx   the head of the empty chain (0 = none, like Option<NonZeroU64>)
     heap   position -> ObjectHeader (size, next) plus what follows the header
            (name, meta data, content; or nothing for an empty object),
            strictly sorted by position.
   Writing a header of size [s] at position [p] claims the bytes [p, p+s):
   headers that were inside that range stop existing ([hwrite]); truncating
   the file drops the headers behind the new end ([htrunc]).  Reading a
   position that holds no header is an archive error in the model (the code
   would read stale bytes there).
   The loops of the code that follow [next] pointers (find, find_empty,
   unlink_empty, verify, ObjectsIter) are transcribed with fuel = number of
   headers + 1; running out of fuel (a cyclic chain, on which the code would
   not terminate) is reported as an error.
   [bucket] is ArchiveMeta::hash_name (SipHash-2-4 with the file's random key,
   modulo the bucket count): a Section variable.
   Not modelled: integer overflow of u64/usize, I/O errors, the mmap/file
   switch in Storage (both paths read and write the same bytes). *)
From Coq Require Import List NArith Bool.
From RV Require Import Base.KMap.
Import ListNotations.
Local Open Scope N_scope.

(* ---- constants -------------------------------------------------------- *)
Definition PAGE : N := 256.          (* PAGE_SIZE *)
Definition HDR : N := 33.            (* ObjectHeader::SIZE = 8 + 8 + 1 + 8 + 8 *)
Definition INDEX_START : N := 30.    (* MAGIC_SIZE + ArchiveMeta::size() = 6 + 24 *)

Definition name := list N.
Definition bytes := list N.

Fixpoint leqb (a b : list N) : bool :=
  match a, b with
  | [], [] => true
  | x :: a', y :: b' => (x =? y) && leqb a' b'
  | _, _ => false
  end.

Definition len (l : list N) : N := N.of_nat (length l).
Definition rep (n b : N) : bytes := repeat b (N.to_nat n).

(* ---- state ------------------------------------------------------------ *)
Inductive body := Empty | Obj (n : name) (m : N) (d : bytes).
Record hdr := { h_size : N; h_next : N; h_body : body }.
Definition heap_t := list (N * hdr).
Record st := { fsize : N; idx : list (N * N); eidx : N; heap : heap_t }.

Definition set_fsize (s : st) v := {| fsize := v; idx := idx s; eidx := eidx s; heap := heap s |}.
Definition set_idx (s : st) v := {| fsize := fsize s; idx := v; eidx := eidx s; heap := heap s |}.
Definition set_eidx (s : st) v := {| fsize := fsize s; idx := idx s; eidx := v; heap := heap s |}.
Definition set_heap (s : st) v := {| fsize := fsize s; idx := idx s; eidx := eidx s; heap := v |}.

(* what read_with_name / Meta::read / read_slice(data_len) deliver for a header *)
Definition seg_name (s : hdr) : name := match h_body s with Obj n _ _ => n | Empty => [] end.
Definition seg_data (s : hdr) : bytes := match h_body s with Obj _ _ d => d | Empty => [] end.
Definition seg_meta (s : hdr) : option N := match h_body s with Obj _ m _ => Some m | Empty => None end.
Definition is_empty (s : hdr) : bool := match h_body s with Empty => true | _ => false end.

(* ---- results ---------------------------------------------------------- *)
Inductive err := ECorrupt | EPanic.
Inductive R (A : Type) := Ok (a : A) | Er (e : err).
Arguments Ok {A} a.
Arguments Er {A} e.
Definition bind {A B} (r : R A) (f : A -> R B) : R B := match r with Ok a => f a | Er e => Er e end.
Notation "'do' x <- r ; k" := (bind r (fun x => k)) (at level 200, x pattern, r at level 100, k at level 200).

Record stats := mkstats {
  object_count : N; object_size : N; padding_size : N;
  empty_count : N; empty_size : N; empty_min : N; empty_max : N }.

Inductive res :=
| ROk | RAlreadyExists | RNotFound | RInconsistent (e : N) | RData (d : bytes) | RErr | RPanic.

Definition res_of_err (e : err) : res := match e with ECorrupt => RErr | EPanic => RPanic end.

(* ---- heap primitives -------------------------------------------------- *)
Definition hget (p : N) (h : heap_t) : option hdr := lookup p h.

(* a header of size [h_size s] written at [p]: claims [p, p + size) *)
Definition hwrite (p : N) (s : hdr) (h : heap_t) : heap_t :=
  kinsert p s (filter (fun e => negb ((p <? fst e) && (fst e <? p + h_size s))) h).

(* File::set_len(p) when shrinking *)
Definition htrunc (p : N) (h : heap_t) : heap_t := filter (fun e => fst e <? p) h.

(* ObjectHeader::update_next(pos, new_next): overwrites the 8 bytes of `next` *)
Definition set_next (p v : N) (h : heap_t) : R heap_t :=
  match hget p h with
  | Some s => Ok (kinsert p {| h_size := h_size s; h_next := v; h_body := h_body s |} h)
  | None => Er ECorrupt
  end.

Section Archive.
Variable nb : N.                 (* ArchiveMeta::bucket_count *)
Variable msz : N.                (* Meta::SIZE *)
Variable bucket : name -> N.     (* ArchiveMeta::hash_name *)

(* Archive::index_size, start of the first object *)
Definition data_start : N := INDEX_START + (nb + 1) * 8.

(* create_with_file *)
Definition init : st := {| fsize := data_start; idx := []; eidx := 0; heap := [] |}.

(* get_index / set_index / get_empty_index / set_empty_index *)
Definition iget (b : N) (s : st) : N := match lookup b (idx s) with Some p => p | None => 0 end.
Definition iset (b p : N) (s : st) : st :=
  set_idx s (if p =? 0 then kremove b (idx s) else kinsert b p (idx s)).

(* min_object_size, page_object_size (u64::next_multiple_of), fits *)
Definition min_object_size (name_len data_len : N) : N := HDR + name_len + msz + data_len.
Definition round_up (x : N) : N := ((x + (PAGE - 1)) / PAGE) * PAGE.
Definition page_object_size (n : name) (d : bytes) : N := round_up (min_object_size (len n) (len d)).
Definition fits (empty_size object_size : N) : bool :=
  (empty_size =? object_size) || (object_size + HDR <=? empty_size).

Definition fuel_of (s : st) : nat := S (length (heap s)).

(* ---- find ------------------------------------------------------------- *)
(* FoundObject: start, header, prev (0 = None) *)
Record found := { f_start : N; f_hdr : hdr; f_prev : N }.

Fixpoint find_loop (fuel : nat) (h : heap_t) (p : N) (n : name) (prev : N) : R (option found) :=
  match fuel with
  | O => Er ECorrupt
  | S f =>
      if p =? 0 then Ok None
      else match hget p h with
           | None => Er ECorrupt
           | Some s =>
               if leqb n (seg_name s) then Ok (Some {| f_start := p; f_hdr := s; f_prev := prev |})
               else find_loop f h (h_next s) n p
           end
  end.

Definition find (s : st) (hash : N) (n : name) : R (option found) :=
  find_loop (fuel_of s) (heap s) (iget hash s) n 0.

(* ---- find_empty -------------------------------------------------------- *)
Fixpoint candidates (fuel : nat) (h : heap_t) (p : N) (size : N) : R (list (hdr * N)) :=
  match fuel with
  | O => Er ECorrupt
  | S f =>
      if p =? 0 then Ok []
      else match hget p h with
           | None => Er ECorrupt
           | Some s =>
               do r <- candidates f h (h_next s) size;
               Ok (if fits (h_size s) size then (s, p) :: r else r)
           end
  end.

(* candidates.sort_by_key(size) is stable: first() is the earliest candidate of minimal size *)
Definition smallest (c : hdr * N) (cs : list (hdr * N)) : hdr * N :=
  fold_left (fun best x => if h_size (fst x) <? h_size (fst best) then x else best) cs c.

Definition find_empty (s : st) (n : name) (d : bytes) : R (option (hdr * N)) :=
  if eidx s =? 0 then Ok None
  else
    do cs <- candidates (fuel_of s) (heap s) (eidx s) (page_object_size n d);
    match cs with
    | [] => Ok None
    | c :: cs' => Ok (Some (smallest c cs'))
    end.

(* ---- unlink_empty ------------------------------------------------------ *)
Fixpoint unlink_loop (fuel : nat) (h : heap_t) (curr start next : N) : R heap_t :=
  match fuel with
  | O => Er ECorrupt
  | S f =>
      if curr =? 0 then Er ECorrupt            (* "empty object not in empty chain" *)
      else match hget curr h with
           | None => Er ECorrupt
           | Some s =>
               if h_next s =? start then set_next curr next h
               else unlink_loop f h (h_next s) start next
           end
  end.

Definition unlink_empty (s : st) (start next : N) : R st :=
  if eidx s =? start then Ok (set_eidx s next)
  else do h <- unlink_loop (fuel_of s) (heap s) (eidx s) start next; Ok (set_heap s h).

(* ---- writing ------------------------------------------------------------ *)
(* Storage::write(start, ..) + StorageWrite::new / new_append, for a whole header-sized write.
   [sz] is the number of bytes written (the object's size for write_object, HDR for a bare header). *)
Definition storage_write (s : st) (start : N) (sz : N) (hd : hdr) : R st :=
  if fsize s =? start then Ok (set_heap (set_fsize s (fsize s + sz)) (hwrite start hd (heap s)))
  else if fsize s <=? start then Er ECorrupt            (* "update writer past end of file" *)
  else if fsize s <? start + sz then Er ECorrupt        (* unexpected EOF inside the mapping *)
  else Ok (set_heap s (hwrite start hd (heap s))).

(* write_object(start, head, name, meta, data): header, name, meta, data, padding *)
Definition write_object (s : st) (start size next : N) (n : name) (m : N) (d : bytes) : R st :=
  if size <? min_object_size (len n) (len d) then Er EPanic   (* "paged size smaller than minimal size" *)
  else if PAGE <? size - min_object_size (len n) (len d) then Er EPanic   (* slice index of PAGE[..padding] *)
  else storage_write s start size {| h_size := size; h_next := next; h_body := Obj n m d |}.

(* ObjectHeader::write(storage, start) for an empty header *)
Definition write_empty (s : st) (start size next : N) : R st :=
  storage_write s start HDR {| h_size := size; h_next := next; h_body := Empty |}.

(* ---- publish ------------------------------------------------------------ *)
Definition publish_replace (s : st) (hash : N) (n : name) (m : N) (d : bytes) (empty : hdr) (start : N) : R st :=
  do s1 <- unlink_empty s start (h_next empty);
  let empty_end := start + h_size empty in
  let size := page_object_size n d in
  do s2 <- write_object s1 start size (iget hash s1) n m d;
  let object_end := start + size in
  let s3 := iset hash start s2 in
  if object_end <? empty_end then
    let rest := empty_end - object_end in
    if rest <? HDR then Er EPanic                         (* assert!(empty.size >= ObjectHeader::SIZE) *)
    else
      do s4 <- write_empty s3 object_end rest (eidx s3);
      Ok (set_eidx s4 object_end)
  else Ok s3.

Definition publish_append (s : st) (hash : N) (n : name) (m : N) (d : bytes) : R st :=
  let start := fsize s in
  do s1 <- write_object s start (page_object_size n d) (iget hash s) n m d;
  Ok (iset hash start s1).

Definition publish_not_found (s : st) (hash : N) (n : name) (m : N) (d : bytes) : R st :=
  do e <- find_empty s n d;
  match e with
  | Some (empty, pos) => publish_replace s hash n m d empty pos
  | None => publish_append s hash n m d
  end.

(* ---- delete -------------------------------------------------------------- *)
Definition create_empty (s : st) (start size : N) : R st :=
  let next_start := start + size in
  if next_start =? fsize s then Ok (set_heap (set_fsize s start) (htrunc start (heap s)))
  else
    match (if fsize s <? next_start then None else hget next_start (heap s)) with
    | None => Er ECorrupt
    | Some header =>
        do s1size <-
          (if is_empty header
           then do s1 <- unlink_empty s next_start (h_next header); Ok (s1, size + h_size header)
           else Ok (s, size));
        let '(s1, size') := s1size in
        do s2 <- write_empty s1 start size' (eidx s1);
        Ok (set_eidx s2 start)
    end.

Definition delete_found (s : st) (hash : N) (f : found) : R st :=
  do s1 <-
    (if f_prev f =? 0 then Ok (iset hash (h_next (f_hdr f)) s)
     else do h <- set_next (f_prev f) (h_next (f_hdr f)) (heap s); Ok (set_heap s h));
  create_empty s1 (f_start f) (h_size (f_hdr f)).

(* ---- operations ------------------------------------------------------------ *)
(* a check closure: None = Ok(()), Some e = Err(e) *)
Definition check := N -> option N.
Definition chk_ok : check := fun _ => None.
Definition chk_eq (v e : N) : check := fun m => if m =? v then None else Some e.
Definition chk_fail (e : N) : check := fun _ => Some e.

Inductive op :=
| Publish (n : name) (m : N) (d : bytes)
| Update (n : name) (m : N) (d : bytes) (c : check)
| Delete (n : name) (c : check)
| Fetch (n : name)
| FetchIf (n : name) (c : check)
| Reopen.

Definition fail (s : st) (e : err) : res * st := (res_of_err e, s).

Definition publish (s : st) (n : name) (m : N) (d : bytes) : res * st :=
  let hash := bucket n in
  match find s hash n with
  | Er e => fail s e
  | Ok (Some _) => (RAlreadyExists, s)
  | Ok None =>
      match publish_not_found s hash n m d with
      | Er e => fail s e
      | Ok s' => (ROk, s')
      end
  end.

Definition update (s : st) (n : name) (m : N) (d : bytes) (c : check) : res * st :=
  let hash := bucket n in
  match find s hash n with
  | Er e => fail s e
  | Ok None => (RNotFound, s)
  | Ok (Some f) =>
      match seg_meta (f_hdr f) with
      | None => fail s ECorrupt
      | Some old =>
          match c old with
          | Some e => (RInconsistent e, s)
          | None =>
              let new_size := page_object_size n d in
              let r :=
                if h_size (f_hdr f) =? new_size
                then write_object s (f_start f) (h_size (f_hdr f)) (h_next (f_hdr f)) n m d
                else do s1 <- delete_found s hash f; publish_not_found s1 hash n m d in
              match r with Er e => fail s e | Ok s' => (ROk, s') end
          end
      end
  end.

Definition delete (s : st) (n : name) (c : check) : res * st :=
  let hash := bucket n in
  match find s hash n with
  | Er e => fail s e
  | Ok None => (RNotFound, s)
  | Ok (Some f) =>
      match seg_meta (f_hdr f) with
      | None => fail s ECorrupt
      | Some old =>
          match c old with
          | Some e => (RInconsistent e, s)
          | None => match delete_found s hash f with Er e => fail s e | Ok s' => (ROk, s') end
          end
      end
  end.

Definition fetch (s : st) (n : name) : res :=
  match find s (bucket n) n with
  | Er e => res_of_err e
  | Ok None => RNotFound
  | Ok (Some f) => RData (seg_data (f_hdr f))
  end.

Definition fetch_if (s : st) (n : name) (c : check) : res :=
  match find s (bucket n) n with
  | Er e => res_of_err e
  | Ok None => RNotFound
  | Ok (Some f) =>
      match seg_meta (f_hdr f) with
      | None => RErr
      | Some m => match c m with Some e => RInconsistent e | None => RData (seg_data (f_hdr f)) end
      end
  end.

Definition step (s : st) (o : op) : res * st :=
  match o with
  | Publish n m d => publish s n m d
  | Update n m d c => update s n m d c
  | Delete n c => delete s n c
  | Fetch n => (fetch s n, s)
  | FetchIf n c => (fetch_if s n c, s)
  | Reopen => (ROk, s)          (* Archive::open re-reads magic and ArchiveMeta; the file is the state *)
  end.

(* ---- objects() -------------------------------------------------------------- *)
Definition buckets : list N := map N.of_nat (seq 0 (N.to_nat nb)).

Fixpoint chain_items (fuel : nat) (h : heap_t) (p : N) : R (list (name * N * bytes)) :=
  match fuel with
  | O => Er ECorrupt
  | S f =>
      if p =? 0 then Ok []
      else match hget p h with
           | None => Er ECorrupt
           | Some s =>
               match seg_meta s with
               | None => Er ECorrupt
               | Some m => do r <- chain_items f h (h_next s); Ok ((seg_name s, m, seg_data s) :: r)
               end
           end
  end.

Fixpoint rconcat {A} (l : list (R (list A))) : R (list A) :=
  match l with
  | [] => Ok []
  | r :: t => do a <- r; do b <- rconcat t; Ok (a ++ b)
  end.

(* ObjectsIter: bucket 0, 1, ..., each chain from its head *)
Definition objects (s : st) : R (list (name * N * bytes)) :=
  rconcat (map (fun b => chain_items (fuel_of s) (heap s) (iget b s)) buckets).

(* ---- verify() ------------------------------------------------------------------ *)
Definition stats0 : stats := mkstats 0 0 0 0 0 0 0.

(* step 1, one bucket chain: (position, size) list in visiting order and stats *)
Fixpoint verify_chain (fuel : nat) (h : heap_t) (p : N) (b : N) (acc : list (N * N) * stats)
  : R (list (N * N) * stats) :=
  match fuel with
  | O => Er ECorrupt
  | S f =>
      if p =? 0 then Ok acc
      else match hget p h with
           | None => Er ECorrupt
           | Some s =>
               if negb (bucket (seg_name s) =? b) then Er ECorrupt        (* "incorrect hash" *)
               else
                 let '(objs, t) := acc in
                 let pad := h_size s - min_object_size (len (seg_name s)) (len (seg_data s)) in   (* saturating_sub *)
                 verify_chain f h (h_next s) b
                   (objs ++ [(p, h_size s)],
                    mkstats (object_count t + 1) (object_size t + h_size s) (padding_size t + pad)
                            (empty_count t) (empty_size t) (empty_min t) (empty_max t))
           end
  end.

(* step 2, the empty chain *)
Fixpoint verify_empty (fuel : nat) (h : heap_t) (p : N) (acc : list (N * N) * stats)
  : R (list (N * N) * stats) :=
  match fuel with
  | O => Er ECorrupt
  | S f =>
      if p =? 0 then Ok acc
      else match hget p h with
           | None => Er ECorrupt
           | Some s =>
               let '(objs, t) := acc in
               verify_empty f h (h_next s)
                 (objs ++ [(p, h_size s)],
                  mkstats (object_count t) (object_size t) (padding_size t)
                          (empty_count t + 1) (empty_size t + h_size s)
                          (if empty_min t =? 0 then h_size s else N.min (empty_min t) (h_size s))
                          (N.max (empty_max t) (h_size s)))
           end
  end.

(* objects.sort_by_key(start): stable insertion sort *)
Fixpoint sinsert (x : N * N) (l : list (N * N)) : list (N * N) :=
  match l with
  | [] => [x]
  | y :: t => if fst x <? fst y then x :: y :: t else y :: sinsert x t
  end.
Definition ssort (l : list (N * N)) : list (N * N) := fold_right sinsert [] l.

(* windows(2): window[1].0 == window[0].0 + window[0].1 *)
Fixpoint consecutive (l : list (N * N)) : bool :=
  match l with
  | [] => true
  | x :: t => match t with [] => true | y :: _ => (fst y =? fst x + snd x) && consecutive t end
  end.

Definition verify (s : st) : R stats :=
  do a <- fold_left (fun acc b => do a <- acc; verify_chain (fuel_of s) (heap s) (iget b s) b a)
                    buckets (Ok ([], stats0));
  do a2 <- verify_empty (fuel_of s) (heap s) (eidx s) a;
  if consecutive (ssort (fst a2)) then Ok (snd a2) else Er ECorrupt.      (* "broken sequence" *)

(* ---- AppendArchive ----------------------------------------------------------------- *)
(* AppendArchive::publish appends at the stream position and keeps index and the set of names in memory;
   finalize writes the index.  The in-memory index is the model's [idx]; `names.contains(name)` is
   membership in the names published so far, which we read off the heap. *)
Definition has_name (n : name) (h : heap_t) : bool :=
  existsb (fun e => match h_body (snd e) with Obj n' _ _ => leqb n n' | Empty => false end) h.

Definition append_publish (s : st) (n : name) (m : N) (d : bytes) : res * st :=
  if has_name n (heap s) then (RAlreadyExists, s)
  else
    let hash := bucket n in
    let size := page_object_size n d in
    if size <? min_object_size (len n) (len d) then fail s EPanic
    else
      let start := fsize s in
      (ROk, iset hash start
              (set_heap (set_fsize s (start + size))
                 (hwrite start {| h_size := size; h_next := iget hash s; h_body := Obj n m d |} (heap s)))).

(* ---- running a sequence --------------------------------------------------------------- *)
Fixpoint run (s : st) (ops : list op) : list (res * st) :=
  match ops with
  | [] => []
  | o :: t => let '(r, s') := step s o in (r, s') :: run s' t
  end.

Fixpoint run_append (s : st) (l : list (name * N * bytes)) : list res * st :=
  match l with
  | [] => ([], s)
  | (n, m, d) :: t =>
      let '(r, s') := append_publish s n m d in
      let '(rs, s'') := run_append s' t in (r :: rs, s'')
  end.

Definition final (s : st) (ops : list op) : st := fold_left (fun s o => snd (step s o)) ops s.

End Archive.
