(* C26 proofs, part 4: the chain invariant and how the primitive mutations act on it.

   The bucket chains and the empty chain are treated uniformly: a chain key is [Some b] (bucket b) or
   [None] (the empty chain); [head s k] is where the chain starts (index entry or empty index) and
   [key_of hd] is the chain a header belongs to (the bucket of its name, or the empty chain).
   [Chains det s cl]: [cl k] is the list of positions of chain [k]; every header outside [det] ("detached",
   used in the middle of an operation) is in the chain it belongs to. *)
From Coq Require Import List NArith Lia Bool.
From RV Require Import Base.KMap C26.Model C26.Basics C26.Chain C26.Spec C26.Tiling.
Import ListNotations.
Local Open Scope N_scope.

Definition nxt (h : heap_t) (x : N) : option N := option_map h_next (hget x h).

Lemma cseg_nxt h h' l : forall p q, (forall x, In x l -> nxt h' x = nxt h x) -> cseg h p l q -> cseg h' p l q.
Proof.
  induction l as [|x l IH]; intros p q Hd; cbn [cseg]; [auto|].
  intros (-> & Hx & s & Hs & Hc). split; [reflexivity|]. split; [exact Hx|].
  pose proof (Hd x (or_introl eq_refl)) as E. unfold nxt in E. rewrite Hs in E.
  destruct (hget x h') as [s'|]; [|discriminate]. cbn in E. injection E as E. exists s'. split; [reflexivity|].
  rewrite E. apply IH; [|exact Hc]. intros y Hy. apply Hd. right; exact Hy.
Qed.

Lemma cseg_agree h h' l p q : (forall x, In x l -> hget x h' = hget x h) -> cseg h p l q -> cseg h' p l q.
Proof. intros H. apply cseg_nxt. intros x Hx. unfold nxt. rewrite (H x Hx). reflexivity. Qed.

Lemma hsim_weaken L L' h h' : (forall x, In x L -> In x L') -> hsim L h h' -> hsim L' h h'.
Proof.
  intros Hin [Hs H]. split; [exact Hs|]. intros x. specialize (H x). destruct (hget x h), (hget x h'); auto.
  destruct H as (A & B & C). split; [exact A|]. split; [exact B|]. intros Hn. apply C. intros Hx. apply Hn, Hin, Hx.
Qed.

Definition names_unique (h : heap_t) : Prop :=
  forall x x' hd hd' n m d m' d', hget x h = Some hd -> hget x' h = Some hd' ->
    h_body hd = Obj n m d -> h_body hd' = Obj n m' d' -> x = x'.

Section Inv.
Variables (nb msz : N) (bucket : name -> N).
Hypothesis bucket_lt : forall n, bucket n < nb.

Definition sizes_ok (h : heap_t) : Prop :=
  forall x hd n m d, hget x h = Some hd -> h_body hd = Obj n m d -> h_size hd = page_object_size msz n d.

Definition key := option N.
Definition valid (k : key) : Prop := match k with Some b => b < nb | None => True end.
Definition head (s : st) (k : key) : N := match k with Some b => iget b s | None => eidx s end.
Definition set_head (k : key) (p : N) (s : st) : st := match k with Some b => iset b p s | None => set_eidx s p end.
Definition key_of (hd : hdr) : key := match h_body hd with Obj n _ _ => Some (bucket n) | Empty => None end.
Definition key_dec (a b : key) : {a = b} + {a <> b}.
Proof. decide equality. apply N.eq_dec. Defined.
Definition upd (cl : key -> list N) (k : key) (v : list N) : key -> list N :=
  fun k' => if key_dec k' k then v else cl k'.

Lemma upd_same cl k v : upd cl k v k = v.
Proof. unfold upd. destruct (key_dec k k); congruence. Qed.
Lemma upd_other cl k v k' : k' <> k -> upd cl k v k' = cl k'.
Proof. unfold upd. destruct (key_dec k' k); congruence. Qed.

Lemma valid_key_of hd : valid (key_of hd).
Proof. unfold key_of. destruct (h_body hd); cbn; auto. Qed.

Lemma key_of_body a b : h_body a = h_body b -> key_of a = key_of b.
Proof. unfold key_of. intros ->. reflexivity. Qed.

Lemma head_set_head k p s k' : ksorted (idx s) -> head (set_head k p s) k' = if key_dec k' k then p else head s k'.
Proof.
  intros Hs. destruct k as [b|], k' as [b'|]; cbn [head set_head].
  - rewrite iget_iset by exact Hs. destruct (key_dec (Some b') (Some b)) as [E|E]; destruct (N.eqb_spec b' b) as [E2|E2];
      try reflexivity; [injection E as E; congruence | subst b'; congruence].
  - destruct (iset_fields b p s) as (_ & -> & _). destruct (key_dec None (Some b)); [discriminate|reflexivity].
  - destruct (key_dec (Some b') None); [discriminate|]. reflexivity.
  - destruct (key_dec None None); [reflexivity|congruence].
Qed.

Lemma set_head_fields k p s :
  fsize (set_head k p s) = fsize s /\ heap (set_head k p s) = heap s /\ (ksorted (idx s) -> ksorted (idx (set_head k p s))).
Proof.
  destruct k as [b|]; cbn [set_head].
  - destruct (iset_fields b p s) as (A & _ & C). split; [exact A|]. split; [exact C|]. apply iset_sorted.
  - cbn. auto.
Qed.

Record Chains (det : list N) (s : st) (cl : key -> list N) : Prop := {
  c_sorted : ksorted (heap s);
  c_idx : ksorted (idx s);
  c_chain : forall k, valid k -> chain (heap s) (head s k) (cl k);
  c_kind : forall k x, valid k -> In x (cl k) -> exists hd, hget x (heap s) = Some hd /\ key_of hd = k;
  c_linked : forall x hd, ~ In x det -> hget x (heap s) = Some hd -> In x (cl (key_of hd));
  c_det : forall x k, In x det -> valid k -> ~ In x (cl k);
  c_nodup : forall k, valid k -> NoDup (cl k);
  c_sizes : sizes_ok (heap s);
  c_names : names_unique (heap s) }.

Lemma chains_disjoint det s cl k k' x :
  Chains det s cl -> valid k -> valid k' -> In x (cl k) -> In x (cl k') -> k = k'.
Proof.
  intros C Hk Hk' H1 H2. destruct (c_kind _ _ _ C _ _ Hk H1) as (hd & E & <-).
  destruct (c_kind _ _ _ C _ _ Hk' H2) as (hd' & E' & <-). congruence.
Qed.

Lemma chains_nonzero det s cl k x : Chains det s cl -> valid k -> In x (cl k) -> x <> 0.
Proof. intros C Hk Hin. eapply cseg_keys; [apply (c_chain _ _ _ C k Hk) | exact Hin]. Qed.

Lemma chains_fuel det s cl k : Chains det s cl -> valid k -> (length (cl k) < fuel_of s)%nat.
Proof.
  intros C Hk. unfold fuel_of. apply Lt.le_lt_n_Sm. apply nodup_keys_length; [apply (c_nodup _ _ _ C k Hk)|].
  intros x Hx. destruct (c_kind _ _ _ C _ _ Hk Hx) as (hd & E & _). unfold hget in E. congruence.
Qed.

(* ---- unlinking a header from its chain --------------------------------------------------------- *)
Lemma chains_unlink det s cl k l1 x l2 hx s1 :
  Chains det s cl -> valid k -> cl k = l1 ++ x :: l2 -> hget x (heap s) = Some hx ->
  ( (l1 = [] /\ s1 = set_head k (h_next hx) s) \/
    (exists l1' p h1, l1 = l1' ++ [p] /\ set_next p (h_next hx) (heap s) = Ok h1 /\ s1 = set_heap s h1) ) ->
  Chains (x :: det) s1 (upd cl k (l1 ++ l2)) /\ hsim (cl k) (heap s) (heap s1) /\ fsize s1 = fsize s.
Proof.
  intros C Hk Hcl Hx Hcase.
  pose proof (c_nodup _ _ _ C k Hk) as Hnd. rewrite Hcl in Hnd.
  pose proof (c_chain _ _ _ C k Hk) as Hch. rewrite Hcl in Hch.
  pose proof (c_sorted _ _ _ C) as Hs.
  assert (Hx1 : ~ In x (l1 ++ l2)) by (apply NoDup_remove_2; exact Hnd).
  (* common consequences of both cases *)
  assert (Hmain : hsim (cl k) (heap s) (heap s1) /\ fsize s1 = fsize s /\ ksorted (idx s1) /\
                  (forall k', valid k' -> chain (heap s1) (head s1 k') (upd cl k (l1 ++ l2) k'))).
  { destruct Hcase as [(-> & ->) | (l1' & p & h1 & -> & Hset & ->)].
    - destruct (set_head_fields k (h_next hx) s) as (A & B & Cc). rewrite B, A.
      split; [apply hsim_refl; exact Hs|]. split; [reflexivity|]. split; [apply Cc, (c_idx _ _ _ C)|].
      intros k' Hk'. rewrite head_set_head by apply (c_idx _ _ _ C). unfold upd. destruct (key_dec k' k) as [->|Hne].
      + cbn [app] in *. assert (head s k = x) by (destruct Hch as (E & _); exact E).
        eapply unlink_head; [|exact Hx]. rewrite <- H at 1. exact Hch.
      + apply (c_chain _ _ _ C k' Hk').
    - cbn [set_heap heap fsize idx].
      pose proof (set_next_hsim _ _ _ _ Hs Hset) as Hsim.
      assert (Hp : In p (cl k)) by (rewrite Hcl; apply in_or_app; left; apply in_or_app; right; left; reflexivity).
      split; [eapply hsim_weaken; [|exact Hsim]; intros y [<-|[]]; exact Hp|].
      split; [reflexivity|]. split; [apply (c_idx _ _ _ C)|].
      intros k' Hk'. unfold upd. destruct (key_dec k' k) as [->|Hne].
      + change (head (set_heap s h1) k) with (head s k). rewrite <- app_assoc in Hch, Hnd |- *. cbn [app] in Hch, Hnd |- *.
        eapply unlink_mid; eauto.
      + change (head (set_heap s h1) k') with (head s k'). eapply cseg_hsim; [exact Hsim| |apply (c_chain _ _ _ C k' Hk')].
        intros y Hy [<-|[]]. apply Hne. eapply chains_disjoint; eauto. }
  destruct Hmain as (Hsim & Hfs & Hidx & Hchains). split; [|split; assumption].
  assert (Hxk : In x (cl k)) by (rewrite Hcl; apply in_or_app; right; left; reflexivity).
  assert (Hsub : forall k' y, valid k' -> In y (upd cl k (l1 ++ l2) k') -> In y (cl k') /\ y <> x).
  { intros k' y Hk'. unfold upd. destruct (key_dec k' k) as [->|Hne].
    - intros Hy. split; [rewrite Hcl; apply in_app_or in Hy; apply in_or_app; destruct Hy; [left|right; right]; assumption|].
      intros ->. exact (Hx1 Hy).
    - intros Hy. split; [exact Hy|]. intros ->. apply Hne. eapply chains_disjoint; eauto. }
  assert (Hsup : forall k' y, In y (cl k') -> y <> x -> In y (upd cl k (l1 ++ l2) k')).
  { intros k' y Hy Hne. unfold upd. destruct (key_dec k' k) as [->|_]; [|exact Hy].
    rewrite Hcl in Hy. apply in_app_or in Hy. apply in_or_app. destruct Hy as [Hy|[Hy|Hy]]; [left; exact Hy | congruence | right; exact Hy]. }
  constructor.
  - apply Hsim.
  - exact Hidx.
  - exact Hchains.
  - intros k' y Hk' Hy. destruct (Hsub _ _ Hk' Hy) as (Hy1 & _).
    destruct (c_kind _ _ _ C _ _ Hk' Hy1) as (hd & E & <-).
    destruct (hsim_get _ _ _ _ _ Hsim E) as (b & Eb & _ & Hb & _). exists b. split; [exact Eb|]. symmetry. apply key_of_body, Hb.
  - intros y b Hy Eb. destruct (hsim_get_inv _ _ _ _ _ Hsim Eb) as (a & Ea & _ & Hb & _).
    rewrite <- (key_of_body _ _ Hb). apply Hsup; [|intros ->; apply Hy; left; reflexivity].
    apply (c_linked _ _ _ C); [|exact Ea]. intros Hd. apply Hy. right; exact Hd.
  - intros y k' Hy Hk' Hin. destruct (Hsub _ _ Hk' Hin) as (Hy1 & Hy2). destruct Hy as [<-|Hy]; [congruence|].
    exact (c_det _ _ _ C _ _ Hy Hk' Hy1).
  - intros k' Hk'. unfold upd. destruct (key_dec k' k) as [->|_]; [eapply NoDup_remove_1; exact Hnd | apply (c_nodup _ _ _ C k' Hk')].
  - intros y b n m d Eb Hb. destruct (hsim_get_inv _ _ _ _ _ Hsim Eb) as (a & Ea & Hsz & Hbd & _). rewrite <- Hsz.
    eapply (c_sizes _ _ _ C); [exact Ea|]. rewrite Hbd. exact Hb.
  - intros y y' b b' n m d m' d' Eb Eb' Hb Hb'.
    destruct (hsim_get_inv _ _ _ _ _ Hsim Eb) as (a & Ea & _ & Hbd & _).
    destruct (hsim_get_inv _ _ _ _ _ Hsim Eb') as (a' & Ea' & _ & Hbd' & _).
    eapply (c_names _ _ _ C); [exact Ea | exact Ea' | rewrite Hbd; exact Hb | rewrite Hbd'; exact Hb'].
Qed.

(* ---- a header written at a free or detached position and put at the head of its chain ------------- *)
Lemma chains_link det det' s s' cl p hd :
  Chains det s cl ->
  ksorted (heap s') -> ksorted (idx s') -> p <> 0 ->
  hget p (heap s') = Some hd -> h_next hd = head s (key_of hd) ->
  (hget p (heap s) = None \/ In p det) ->
  (forall x, x <> p -> hget x (heap s') = hget x (heap s) \/ (hget x (heap s') = None /\ In x det)) ->
  (forall k', valid k' -> head s' k' = if key_dec k' (key_of hd) then p else head s k') ->
  (forall x, In x det' -> In x det /\ x <> p) ->
  (forall x, In x det -> x <> p -> hget x (heap s') <> None -> In x det') ->
  (forall n m d, h_body hd = Obj n m d -> h_size hd = page_object_size msz n d /\
       forall x hd' m' d', x <> p -> hget x (heap s') = Some hd' -> h_body hd' <> Obj n m' d') ->
  Chains det' s' (upd cl (key_of hd) (p :: cl (key_of hd))).
Proof.
  intros C Hs' Hi' Hp0 Hp Hnx Hfree Hag Hhead Hd1 Hd2 Hobj.
  pose proof (valid_key_of hd) as Hk. set (k := key_of hd) in *.
  assert (Hpl : forall k', valid k' -> ~ In p (cl k')).
  { intros k' Hk' Hin. destruct Hfree as [Hn|Hd]; [|exact (c_det _ _ _ C _ _ Hd Hk' Hin)].
    destruct (c_kind _ _ _ C _ _ Hk' Hin) as (a & E & _). congruence. }
  assert (Hsame : forall k' x, valid k' -> In x (cl k') -> hget x (heap s') = hget x (heap s)).
  { intros k' x Hk' Hin. assert (Hne : x <> p) by (intros ->; exact (Hpl _ Hk' Hin)).
    destruct (Hag x Hne) as [E|[_ Hd]]; [exact E|]. exfalso. exact (c_det _ _ _ C _ _ Hd Hk' Hin). }
  assert (Hold : forall x a, x <> p -> hget x (heap s') = Some a -> hget x (heap s) = Some a).
  { intros x a Hx E. destruct (Hag x Hx) as [E2|[E2 _]]; congruence. }
  constructor.
  - exact Hs'.
  - exact Hi'.
  - intros k' Hk'. rewrite Hhead by exact Hk'. unfold upd. destruct (key_dec k' k) as [->|Hne].
    + unfold chain. cbn [cseg]. split; [reflexivity|]. split; [exact Hp0|]. exists hd. split; [exact Hp|]. rewrite Hnx.
      eapply cseg_agree; [|apply (c_chain _ _ _ C k Hk')]. intros x Hx. eapply Hsame; eauto.
    + eapply cseg_agree; [|apply (c_chain _ _ _ C k' Hk')]. intros x Hx. eapply Hsame; eauto.
  - intros k' x Hk'. unfold upd. destruct (key_dec k' k) as [->|Hne].
    + intros [<-|Hin]; [exists hd; split; [exact Hp|reflexivity]|].
      destruct (c_kind _ _ _ C _ _ Hk' Hin) as (a & E & Ek). exists a. rewrite (Hsame _ _ Hk' Hin). auto.
    + intros Hin. destruct (c_kind _ _ _ C _ _ Hk' Hin) as (a & E & Ek). exists a. rewrite (Hsame _ _ Hk' Hin). auto.
  - intros x a Hx E. destruct (N.eq_dec x p) as [->|Hne].
    + rewrite Hp in E. injection E as <-. fold k. rewrite upd_same. left; reflexivity.
    + pose proof (Hold _ _ Hne E) as E0.
      assert (Hnd : ~ In x det) by (intros Hd; apply Hx; apply Hd2; [exact Hd|exact Hne|congruence]).
      pose proof (c_linked _ _ _ C _ _ Hnd E0) as Hin. unfold upd. destruct (key_dec (key_of a) k) as [e|]; [|exact Hin].
      right. rewrite <- e. exact Hin.
  - intros x k' Hx Hk' Hin. destruct (Hd1 _ Hx) as (Hxd & Hxp). unfold upd in Hin.
    destruct (key_dec k' k) as [->|]; [destruct Hin as [E|Hin]; [congruence|]|]; exact (c_det _ _ _ C _ _ Hxd Hk' Hin).
  - intros k' Hk'. unfold upd. destruct (key_dec k' k) as [->|]; [|apply (c_nodup _ _ _ C _ Hk')].
    constructor; [apply Hpl; exact Hk' | apply (c_nodup _ _ _ C _ Hk')].
  - intros x a n m d E Hb. destruct (N.eq_dec x p) as [->|Hne].
    + rewrite Hp in E. injection E as <-. apply (Hobj _ _ _ Hb).
    + eapply (c_sizes _ _ _ C); [apply Hold; eauto | exact Hb].
  - intros x x' a a' n m d m' d' E E' Hb Hb'. destruct (N.eq_dec x p) as [->|Hx], (N.eq_dec x' p) as [->|Hx']; [reflexivity | | |].
    + rewrite Hp in E. injection E as <-. destruct (Hobj _ _ _ Hb) as (_ & Hno). exfalso. eapply Hno; eauto.
    + rewrite Hp in E'. injection E' as <-. destruct (Hobj _ _ _ Hb') as (_ & Hno). exfalso. eapply Hno; eauto.
    + eapply (c_names _ _ _ C); [apply Hold; eauto | apply Hold; eauto | eauto | eauto].
Qed.

(* ---- detached headers dropped from the heap ------------------------------------------------------------ *)
Lemma head_same s s' k : idx s' = idx s -> eidx s' = eidx s -> head s' k = head s k.
Proof. intros E1 E2. destruct k; cbn [head]; [unfold iget; rewrite E1; reflexivity | exact E2]. Qed.

Lemma chains_shrink det det' s s' cl :
  Chains det s cl -> ksorted (heap s') -> idx s' = idx s -> eidx s' = eidx s ->
  (forall x, hget x (heap s') = hget x (heap s) \/ (hget x (heap s') = None /\ In x det)) ->
  (forall x, In x det' -> In x det) ->
  (forall x, In x det -> hget x (heap s') <> None -> In x det') ->
  Chains det' s' cl.
Proof.
  intros C Hs' Ei Ee Hag Hd1 Hd2.
  assert (Hsame : forall k' x, valid k' -> In x (cl k') -> hget x (heap s') = hget x (heap s)).
  { intros k' x Hk' Hin. destruct (Hag x) as [E|[_ Hd]]; [exact E|]. exfalso. exact (c_det _ _ _ C _ _ Hd Hk' Hin). }
  assert (Hold : forall x a, hget x (heap s') = Some a -> hget x (heap s) = Some a).
  { intros x a E. destruct (Hag x) as [E2|[E2 _]]; congruence. }
  constructor.
  - exact Hs'.
  - rewrite Ei. apply (c_idx _ _ _ C).
  - intros k' Hk'. rewrite (head_same s s' k' Ei Ee). eapply cseg_agree; [|apply (c_chain _ _ _ C k' Hk')].
    intros x Hx. eapply Hsame; eauto.
  - intros k' x Hk' Hin. destruct (c_kind _ _ _ C _ _ Hk' Hin) as (a & E & Ek). exists a. rewrite (Hsame _ _ Hk' Hin). auto.
  - intros x a Hx E. apply (c_linked _ _ _ C); [|apply Hold; exact E]. intros Hd. apply Hx. apply Hd2; [exact Hd|congruence].
  - intros x k' Hx Hk'. apply (c_det _ _ _ C); [apply Hd1; exact Hx | exact Hk'].
  - apply (c_nodup _ _ _ C).
  - intros x a n m d E Hb. eapply (c_sizes _ _ _ C); [apply Hold; eauto | exact Hb].
  - intros x x' a a' n m d m' d' E E' Hb Hb'. eapply (c_names _ _ _ C); [apply Hold; eauto | apply Hold; eauto | eauto | eauto].
Qed.

(* ---- an object rewritten in place (same name, same size, same next) --------------------------------------- *)
Lemma chains_inplace det s s' cl x hd0 n m0 d0 m d :
  Chains det s cl -> hget x (heap s) = Some hd0 -> h_body hd0 = Obj n m0 d0 ->
  page_object_size msz n d = h_size hd0 ->
  ksorted (heap s') -> idx s' = idx s -> eidx s' = eidx s ->
  (forall y, hget y (heap s') =
     if y =? x then Some {| h_size := h_size hd0; h_next := h_next hd0; h_body := Obj n m d |} else hget y (heap s)) ->
  Chains det s' cl.
Proof.
  intros C Hx Hb0 Hsz Hs' Ei Ee Hget.
  assert (Hk0 : forall a, hget x (heap s') = Some a -> key_of a = key_of hd0 /\ h_next a = h_next hd0).
  { intros a. rewrite Hget, N.eqb_refl. intros E; injection E as <-. unfold key_of. cbn. rewrite Hb0. auto. }
  assert (Hnxt : forall y, nxt (heap s') y = nxt (heap s) y).
  { intros y. unfold nxt. rewrite Hget. destruct (N.eqb_spec y x) as [->|]; [rewrite Hx; reflexivity | reflexivity]. }
  constructor.
  - exact Hs'.
  - rewrite Ei. apply (c_idx _ _ _ C).
  - intros k' Hk'. rewrite (head_same s s' k' Ei Ee). eapply cseg_nxt; [|apply (c_chain _ _ _ C k' Hk')]. intros; apply Hnxt.
  - intros k' y Hk' Hin. destruct (c_kind _ _ _ C _ _ Hk' Hin) as (a & E & Ek). rewrite Hget.
    destruct (N.eqb_spec y x) as [->|]; [|exists a; auto]. eexists. split; [reflexivity|].
    rewrite Hx in E. injection E as <-. rewrite <- Ek. unfold key_of. cbn. rewrite Hb0. reflexivity.
  - intros y a Hy. rewrite Hget. destruct (N.eqb_spec y x) as [->|].
    + intros E; injection E as <-. pose proof (c_linked _ _ _ C _ _ Hy Hx) as Hin. unfold key_of in *. cbn. rewrite Hb0 in Hin. exact Hin.
    + apply (c_linked _ _ _ C); exact Hy.
  - apply (c_det _ _ _ C).
  - apply (c_nodup _ _ _ C).
  - intros y a n' m' d'. rewrite Hget. destruct (N.eqb_spec y x) as [->|].
    + intros E; injection E as <-. cbn. intros Hb; injection Hb as <- <- <-. symmetry; exact Hsz.
    + apply (c_sizes _ _ _ C).
  - intros y y' a a' n' m1 d1 m2 d2. rewrite !Hget.
    destruct (N.eqb_spec y x) as [->|Hy], (N.eqb_spec y' x) as [->|Hy']; [reflexivity | | |].
    + intros E E'; injection E as <-. cbn. intros Hb Hb'; injection Hb as <- <- <-.
      eapply (c_names _ _ _ C); [exact Hx | exact E' | exact Hb0 | exact Hb'].
    + intros E E'; injection E' as <-. cbn. intros Hb Hb'; injection Hb' as <- <- <-.
      eapply (c_names _ _ _ C); [exact E | exact Hx | exact Hb | exact Hb0].
    + apply (c_names _ _ _ C).
Qed.

End Inv.
