(* C26 proofs, part 3: the headers tile the file.  [tiling h lo hi] is stated through the
   position -> size function of the heap, so that it is insensitive to everything but positions and sizes;
   [tiling_tilesb] relates it to the structural check [tilesb] of Spec.v. *)
From Coq Require Import List NArith Lia Bool.
From RV Require Import Base.KMap C26.Model C26.Basics C26.Chain C26.Spec.
Import ListNotations.
Local Open Scope N_scope.

Definition szf (h : heap_t) (x : N) : option N := option_map h_size (hget x h).

Lemma szf_some h x s : hget x h = Some s -> szf h x = Some (h_size s).
Proof. unfold szf. intros ->. reflexivity. Qed.
Lemma szf_inv h x z : szf h x = Some z -> exists s, hget x h = Some s /\ h_size s = z.
Proof. unfold szf. destruct (hget x h) as [s|]; cbn; [intros H; injection H as <-; eauto | discriminate]. Qed.
Lemma szf_none h x : szf h x = None <-> hget x h = None.
Proof. unfold szf. destruct (hget x h); cbn; split; congruence. Qed.

Record tiling (h : heap_t) (lo hi : N) : Prop := {
  t_sorted : ksorted h;
  t_bounds : forall k z, szf h k = Some z -> lo <= k /\ 0 < z /\ z mod PAGE = 0 /\ k + z <= hi;
  t_succ : forall k z, szf h k = Some z -> k + z = hi \/ szf h (k + z) <> None;
  t_disj : forall k z k' z', szf h k = Some z -> szf h k' = Some z' -> k < k' -> k + z <= k';
  t_first : lo <= hi /\ (lo < hi -> szf h lo <> None) }.

Lemma tiling_ext h h' lo hi :
  ksorted h' -> (forall x, szf h' x = szf h x) -> tiling h lo hi -> tiling h' lo hi.
Proof.
  intros Hs E [_ B S D F]. constructor; [exact Hs | | | | ].
  - intros k z. rewrite E. apply B.
  - intros k z. rewrite !E. apply S.
  - intros k z k' z'. rewrite !E. apply D.
  - rewrite E. exact F.
Qed.

Lemma tiling_hsim L h h' lo hi : hsim L h h' -> tiling h lo hi -> tiling h' lo hi.
Proof.
  intros Hsim. apply tiling_ext; [apply Hsim|]. intros x. unfold szf. destruct Hsim as [_ H]. specialize (H x).
  destruct (hget x h), (hget x h'); cbn; try tauto. destruct H as (-> & _). reflexivity.
Qed.

Lemma tiling_inside h lo hi p z x : tiling h lo hi -> szf h p = Some z -> p < x -> x < p + z -> szf h x = None.
Proof.
  intros T Hp H1 H2. destruct (szf h x) as [zx|] eqn:E; [|reflexivity].
  pose proof (t_disj _ _ _ T _ _ _ _ Hp E H1). lia.
Qed.

Lemma tiling_empty lo : tiling [] lo lo.
Proof. constructor; cbn; try discriminate; [exact I | split; lia]. Qed.

Lemma szf_hwrite p s h x : ksorted h ->
  szf (hwrite p s h) x = if x =? p then Some (h_size s) else if (p <? x) && (x <? p + h_size s) then None else szf h x.
Proof. intros Hs. unfold szf. rewrite hwrite_get by exact Hs. destruct (x =? p); [reflexivity|]. destruct (_ && _); reflexivity. Qed.

Lemma szf_htrunc p h x : szf (htrunc p h) x = if x <? p then szf h x else None.
Proof. unfold szf. rewrite htrunc_get. destruct (x <? p); reflexivity. Qed.

Ltac bd :=
  repeat match goal with
  | H : context [?a =? ?b] |- _ => destruct (N.eqb_spec a b); cbn [andb orb negb] in H
  | H : context [?a <? ?b] |- _ => destruct (N.ltb_spec a b); cbn [andb orb negb] in H
  | |- context [?a =? ?b] => destruct (N.eqb_spec a b); cbn [andb orb negb]
  | |- context [?a <? ?b] => destruct (N.ltb_spec a b); cbn [andb orb negb]
  end.

(* appending a header at the end of the file *)
Lemma tiling_append h lo hi s :
  tiling h lo hi -> 0 < h_size s -> h_size s mod PAGE = 0 -> tiling (hwrite hi s h) lo (hi + h_size s).
Proof.
  intros T Hpos Hmod. pose proof (t_sorted _ _ _ T) as Hs.
  assert (E : forall x, szf (hwrite hi s h) x = if x =? hi then Some (h_size s) else szf h x).
  { intros x. rewrite szf_hwrite by exact Hs. destruct (N.eqb_spec x hi); [reflexivity|].
    destruct ((hi <? x) && (x <? hi + h_size s)) eqn:B; [|reflexivity].
    destruct (szf h x) as [z|] eqn:Ez; [|reflexivity]. pose proof (t_bounds _ _ _ T _ _ Ez). bd; try discriminate; lia. }
  destruct T as [_ B S D F]. constructor.
  - apply hwrite_sorted; exact Hs.
  - intros k z. rewrite E. bd; [intros H; injection H as <-; lia | intros H; specialize (B _ _ H); lia].
  - intros k z. rewrite !E. destruct (N.eqb_spec k hi) as [->|Hk].
    + intros H; injection H as <-. left; reflexivity.
    + intros H. destruct (S _ _ H) as [H1|H1]; right; bd; congruence.
  - intros k z k' z'. rewrite !E. bd; intros H1 H2 Hlt.
    + lia.
    + injection H1 as <-. specialize (B _ _ H2). lia.
    + specialize (B _ _ H1). lia.
    + eapply D; eauto.
  - split; [lia|]. intros Hlt. rewrite E. bd; [congruence|]. apply F. lia.
Qed.

(* a header replaced by one of the same size *)
Lemma tiling_overwrite h lo hi p s s0 :
  tiling h lo hi -> hget p h = Some s0 -> h_size s = h_size s0 -> tiling (hwrite p s h) lo hi.
Proof.
  intros T Hp Hz. pose proof (t_sorted _ _ _ T) as Hs. apply (tiling_ext h); [apply hwrite_sorted; exact Hs| |exact T].
  intros x. rewrite szf_hwrite by exact Hs. destruct (N.eqb_spec x p) as [->|Hne].
  - rewrite (szf_some _ _ _ Hp). congruence.
  - destruct ((p <? x) && (x <? p + h_size s)) eqn:B; [|reflexivity]. symmetry.
    eapply tiling_inside; [exact T | apply szf_some; exact Hp | |]; bd; try discriminate; lia.
Qed.

(* a header replaced by two that split its space *)
Lemma szf_split h lo hi p s0 s1 s2 x :
  tiling h lo hi -> hget p h = Some s0 -> 0 < h_size s1 -> 0 < h_size s2 -> h_size s1 + h_size s2 = h_size s0 ->
  szf (hwrite (p + h_size s1) s2 (hwrite p s1 h)) x =
    if x =? p + h_size s1 then Some (h_size s2) else if x =? p then Some (h_size s1) else szf h x.
Proof.
  intros T Hp H1 H2 Hsum. pose proof (t_sorted _ _ _ T) as Hs.
  rewrite szf_hwrite by (apply hwrite_sorted; exact Hs). rewrite szf_hwrite by exact Hs.
  destruct (N.eqb_spec x (p + h_size s1)); [reflexivity|]. destruct (N.eqb_spec x p).
  - destruct (_ && _) eqn:B; [bd; try discriminate; lia | reflexivity].
  - assert (Hin : p < x -> x < p + h_size s0 -> szf h x = None)
      by (intros; eapply tiling_inside; [exact T | apply szf_some; exact Hp | |]; lia).
    bd; try reflexivity; symmetry; apply Hin; lia.
Qed.

Lemma tiling_split h lo hi p s0 s1 s2 :
  tiling h lo hi -> hget p h = Some s0 -> 0 < h_size s1 -> 0 < h_size s2 -> h_size s1 + h_size s2 = h_size s0 ->
  h_size s1 mod PAGE = 0 -> h_size s2 mod PAGE = 0 ->
  tiling (hwrite (p + h_size s1) s2 (hwrite p s1 h)) lo hi.
Proof.
  intros T Hp H1 H2 Hsum M1 M2. pose proof (t_sorted _ _ _ T) as Hs.
  pose proof (fun x => szf_split h lo hi p s0 s1 s2 x T Hp H1 H2 Hsum) as E.
  pose proof (szf_some _ _ _ Hp) as Hp'.
  assert (Hin : forall x, p < x -> x < p + h_size s0 -> szf h x = None)
    by (intros; eapply tiling_inside; [exact T | exact Hp' | |]; lia).
  pose proof T as [_ B S D F]. pose proof (B _ _ Hp') as Bp. constructor.
  - apply hwrite_sorted, hwrite_sorted; exact Hs.
  - intros k z. rewrite E. bd; intros H; try (injection H as <-; lia). apply B; exact H.
  - intros k z. rewrite !E. destruct (N.eqb_spec k (p + h_size s1)) as [->|Hk1]; [|destruct (N.eqb_spec k p) as [->|Hk2]].
    + intros H; injection H as <-. destruct (S _ _ Hp') as [H3|H3]; [left; lia|right].
      replace (p + h_size s1 + h_size s2) with (p + h_size s0) by lia. bd; try congruence; lia.
    + intros H; injection H as <-. right. bd; congruence.
    + intros H. destruct (S _ _ H) as [H3|H3]; [left; exact H3|right]. bd; try congruence.
    - intros k z k' z'. rewrite !E. intros Hk Hk' Hlt.
      destruct (N.eqb_spec k (p + h_size s1)) as [->|Hk1]; [|destruct (N.eqb_spec k p) as [->|Hk2]];
      (destruct (N.eqb_spec k' (p + h_size s1)) as [->|Hk1']; [|destruct (N.eqb_spec k' p) as [->|Hk2']]);
      try (injection Hk as <-); try (injection Hk' as <-); try lia.
      + pose proof (D _ _ _ _ Hp' Hk' ltac:(lia)). lia.
      + pose proof (D _ _ _ _ Hp' Hk' Hlt). destruct (N.lt_ge_cases k' (p + h_size s0)); [|lia].
        rewrite Hin in Hk' by lia. discriminate.
      + destruct (N.lt_ge_cases k p); [pose proof (D _ _ _ _ Hk Hp' ltac:(lia)); lia|].
        assert (p < k) by lia. rewrite Hin in Hk by lia. discriminate.
      + pose proof (D _ _ _ _ Hk Hp' Hlt). lia.
      + eapply D; eauto.
  - split; [apply F|]. intros Hlt. rewrite E. bd; try congruence. apply F; exact Hlt.
Qed.

(* a header that swallows the following one *)
Lemma szf_merge h lo hi p s0 s1 s x :
  tiling h lo hi -> hget p h = Some s0 -> hget (p + h_size s0) h = Some s1 -> h_size s = h_size s0 + h_size s1 ->
  szf (hwrite p s h) x = if x =? p then Some (h_size s) else if x =? p + h_size s0 then None else szf h x.
Proof.
  intros T Hp Hq Hsum. pose proof (t_sorted _ _ _ T) as Hs. rewrite szf_hwrite by exact Hs.
  destruct (N.eqb_spec x p); [reflexivity|]. pose proof (szf_some _ _ _ Hp) as Hp'. pose proof (szf_some _ _ _ Hq) as Hq'.
  pose proof (t_bounds _ _ _ T _ _ Hp'). pose proof (t_bounds _ _ _ T _ _ Hq').
  destruct (N.eqb_spec x (p + h_size s0)) as [->|Hne].
  - destruct (_ && _) eqn:B; [reflexivity|]. bd; try discriminate; lia.
  - destruct (_ && _) eqn:B; [|reflexivity]. symmetry.
    destruct (N.lt_ge_cases x (p + h_size s0)).
    + eapply tiling_inside; [exact T | exact Hp' | |]; bd; try discriminate; lia.
    + eapply tiling_inside; [exact T | exact Hq' | |]; bd; try discriminate; lia.
Qed.

Lemma tiling_merge h lo hi p s0 s1 s :
  tiling h lo hi -> hget p h = Some s0 -> hget (p + h_size s0) h = Some s1 -> h_size s = h_size s0 + h_size s1 ->
  tiling (hwrite p s h) lo hi.
Proof.
  intros T Hp Hq Hsum. pose proof (t_sorted _ _ _ T) as Hs.
  pose proof (fun x => szf_merge h lo hi p s0 s1 s x T Hp Hq Hsum) as E.
  pose proof (szf_some _ _ _ Hp) as Hp'. pose proof (szf_some _ _ _ Hq) as Hq'.
  pose proof T as [_ B S D F]. pose proof (B _ _ Hp') as Bp. pose proof (B _ _ Hq') as Bq. constructor.
  - apply hwrite_sorted; exact Hs.
  - intros k z. rewrite E. bd; intros H; try discriminate; [injection H as <-; split; [lia|]; split; [lia|]; split; [|lia] | apply B; exact H].
    rewrite Hsum. apply mod_sum; tauto.
  - intros k z. rewrite !E. destruct (N.eqb_spec k p) as [->|Hk1]; [|destruct (N.eqb_spec k (p + h_size s0)) as [->|Hk2]].
    + intros H; injection H as <-. rewrite Hsum.
      destruct (S _ _ Hq') as [H3|H3]; [left; lia|right]. replace (p + (h_size s0 + h_size s1)) with (p + h_size s0 + h_size s1) by lia.
      bd; try congruence; lia.
    + discriminate.
    + intros H. destruct (S _ _ H) as [H3|H3]; [left; exact H3|right]. bd; try congruence.
      exfalso. destruct (N.lt_ge_cases k p).
      * pose proof (D _ _ _ _ H Hp' ltac:(lia)). lia.
      * pose proof (D _ _ _ _ Hp' H ltac:(lia)). pose proof (B _ _ H). lia.
  - intros k z k' z'. rewrite !E. intros Hk Hk' Hlt.
    destruct (N.eqb_spec k p) as [->|Hk1]; [|destruct (N.eqb_spec k (p + h_size s0)) as [->|Hk2]];
    (destruct (N.eqb_spec k' p) as [->|Hk1']; [|destruct (N.eqb_spec k' (p + h_size s0)) as [->|Hk2']]);
    try discriminate; try (injection Hk as <-); try (injection Hk' as <-); try lia.
    + destruct (N.lt_ge_cases k' (p + h_size s0)).
      * pose proof (D _ _ _ _ Hp' Hk' Hlt). lia.
      * pose proof (D _ _ _ _ Hq' Hk' ltac:(lia)). lia.
    + eapply D; eauto.
    + eapply D; eauto.
  - split; [apply F|]. intros Hlt. rewrite E. bd; try congruence.
    + subst lo. lia.
    + apply F; exact Hlt.
Qed.

(* the last header cut off *)
Lemma tiling_truncate h lo hi p s0 :
  tiling h lo hi -> hget p h = Some s0 -> p + h_size s0 = hi -> tiling (htrunc p h) lo p.
Proof.
  intros T Hp Hend. pose proof (t_sorted _ _ _ T) as Hs. pose proof (szf_some _ _ _ Hp) as Hp'.
  pose proof T as [_ B S D F]. pose proof (B _ _ Hp') as Bp. constructor.
  - apply htrunc_sorted; exact Hs.
  - intros k z. rewrite szf_htrunc. bd; [|discriminate]. intros Hk. pose proof (B _ _ Hk) as Bk. pose proof (D _ _ _ _ Hk Hp' ltac:(lia)). lia.
  - intros k z. rewrite !szf_htrunc. bd; try discriminate.
    + intros Hk. destruct (S _ _ Hk) as [H3|H3]; [pose proof (D _ _ _ _ Hk Hp' ltac:(lia)); lia | right; exact H3].
    + intros Hk. left. pose proof (D _ _ _ _ Hk Hp' ltac:(lia)). pose proof (S _ _ Hk) as [H3|H3]; [lia|].
      destruct (szf h (k + z)) as [z2|] eqn:E2; [|congruence]. pose proof (D _ _ _ _ E2 Hp'). pose proof (D _ _ _ _ Hp' E2). pose proof (B _ _ E2). lia.
  - intros k z k' z'. rewrite !szf_htrunc. bd; try discriminate. apply D.
  - split; [lia|]. intros Hlt. rewrite szf_htrunc. bd; [|lia]. apply F. lia.
Qed.

(* ---- relation to the structural check ---------------------------------------------------------- *)
Lemma hget_cons k s t x : hget x ((k, s) :: t) = if x =? k then Some s else hget x t.
Proof. reflexivity. Qed.

Lemma tiling_cons_inv k s t lo hi :
  tiling ((k, s) :: t) lo hi -> k = lo /\ 0 < h_size s /\ h_size s mod PAGE = 0 /\ tiling t (k + h_size s) hi.
Proof.
  intros T. pose proof T as [[Hlb Hs] B S D F].
  assert (Hk : szf ((k, s) :: t) k = Some (h_size s)) by (unfold szf; rewrite hget_cons, N.eqb_refl; reflexivity).
  pose proof (B _ _ Hk) as Bk.
  assert (Et : forall x, k < x -> szf ((k, s) :: t) x = szf t x).
  { intros x Hx. unfold szf. rewrite hget_cons. destruct (N.eqb_spec x k); [lia|reflexivity]. }
  assert (Ht : forall x z, szf t x = Some z -> k < x).
  { intros x z H. apply szf_inv in H. destruct H as (sx & H & _). apply lookup_In in H. eapply Hlb; exact H. }
  assert (k = lo).
  { destruct F as [_ F]. specialize (F ltac:(lia)). destruct (N.eq_dec k lo); [assumption|]. exfalso.
    assert (E0 : szf ((k, s) :: t) lo = szf t lo) by (unfold szf; rewrite hget_cons; destruct (N.eqb_spec lo k); [congruence|reflexivity]).
    rewrite E0 in F. destruct (szf t lo) as [z|] eqn:E; [|congruence]. apply Ht in E. lia. }
  split; [assumption|]. split; [lia|]. split; [tauto|]. constructor.
  - exact Hs.
  - intros x z Hz. pose proof (Ht _ _ Hz) as Hx. rewrite <- Et in Hz by exact Hx. pose proof (B _ _ Hz). pose proof (D _ _ _ _ Hk Hz Hx). lia.
  - intros x z Hz. pose proof (Ht _ _ Hz) as Hx. rewrite <- Et in Hz by exact Hx. destruct (S _ _ Hz) as [H1|H1]; [left; exact H1|right].
    rewrite Et in H1; [exact H1|]. pose proof (B _ _ Hz). lia.
  - intros x z x' z' Hz Hz' Hlt. pose proof (Ht _ _ Hz) as Hx. pose proof (Ht _ _ Hz') as Hx'.
    rewrite <- Et in Hz by exact Hx. rewrite <- Et in Hz' by exact Hx'. eapply D; eauto.
  - split; [lia|]. intros Hlt. destruct (S _ _ Hk) as [H1|H1]; [lia|]. rewrite Et in H1 by lia. exact H1.
Qed.

Lemma tiling_tilesb h : forall lo hi, tiling h lo hi -> tilesb lo h hi = true.
Proof.
  induction h as [|[k s] t IH]; intros lo hi T; cbn [tilesb].
  - destruct T as [_ _ _ _ [F1 F2]]. apply N.eqb_eq. destruct (N.eq_dec lo hi); [assumption|]. exfalso. apply F2; [lia|reflexivity].
  - apply tiling_cons_inv in T. destruct T as (-> & Hpos & Hmod & T). rewrite N.eqb_refl, (IH _ _ T).
    apply N.ltb_lt in Hpos. apply N.eqb_eq in Hmod. rewrite Hpos, Hmod. reflexivity.
Qed.

Lemma tilesb_le h : forall lo hi, tilesb lo h hi = true -> lo <= hi.
Proof.
  induction h as [|[k s] t IH]; intros lo hi; cbn [tilesb].
  - intros H. apply N.eqb_eq in H. lia.
  - rewrite !andb_true_iff. intros (((H1 & H2) & _) & H4). apply N.eqb_eq in H1. apply N.ltb_lt in H2.
    apply IH in H4. lia.
Qed.

Lemma tilesb_tiling h : forall lo hi, tilesb lo h hi = true -> tiling h lo hi.
Proof.
  induction h as [|[k s] t IH]; intros lo hi; cbn [tilesb].
  - intros H. apply N.eqb_eq in H. subst hi. apply tiling_empty.
  - rewrite !andb_true_iff. intros (((H1 & H2) & H3) & H4). apply N.eqb_eq in H1. subst k. apply N.ltb_lt in H2.
    apply N.eqb_eq in H3. pose proof (tilesb_le _ _ _ H4) as Hle. apply IH in H4. destruct H4 as [Hs B S D F].
    assert (Ht : forall x z, szf t x = Some z -> lo + h_size s <= x) by (intros x z H; apply (B _ _ H)).
    assert (Hlb : lb lo t).
    { intros k' v Hin. apply (In_lookup _ _ _ Hs) in Hin. pose proof (Ht k' (h_size v) (szf_some _ _ _ Hin)). lia. }
    assert (E : forall x, szf ((lo, s) :: t) x = if x =? lo then Some (h_size s) else szf t x).
    { intros x. unfold szf. rewrite hget_cons. destruct (x =? lo); reflexivity. }
    constructor.
    + split; assumption.
    + intros x z. rewrite E. bd; intros H; [injection H as <-; lia | pose proof (B _ _ H); lia].
    + intros x z. rewrite !E. destruct (N.eqb_spec x lo) as [->|Hx].
      * intros H; injection H as <-. destruct F as [F1 F2]. destruct (N.eq_dec (lo + h_size s) hi); [left; assumption|right].
        bd; [lia|]. apply F2. lia.
      * intros H. destruct (S _ _ H) as [H1|H1]; [left; exact H1|right]. bd; [congruence|exact H1].
    + intros x z x' z'. rewrite !E. bd; intros H H' Hlt; try lia.
      * injection H as <-. pose proof (Ht _ _ H'). lia.
      * pose proof (Ht _ _ H). lia.
      * eapply D; eauto.
    + split; [lia|]. intros _. rewrite E, N.eqb_refl. discriminate.
Qed.
