(* C26 proofs, part 5: every operation of the model preserves the invariant, and what it does to the
   stored objects. *)
From Coq Require Import List NArith Lia Bool.
From RV Require Import Base.KMap C26.Model C26.Basics C26.Chain C26.Spec C26.Tiling C26.Inv.
Import ListNotations.
Local Open Scope N_scope.

(* the object stored at a position, if any *)
Definition objf (h : heap_t) (x : N) : option entry :=
  match hget x h with
  | Some hd => match h_body hd with Obj n m d => Some (n, m, d) | Empty => None end
  | None => None
  end.

Lemma objf_some h x n m d : objf h x = Some (n, m, d) <-> exists hd, hget x h = Some hd /\ h_body hd = Obj n m d.
Proof.
  unfold objf. split.
  - destruct (hget x h) as [hd|]; [|discriminate]. destruct (h_body hd) eqn:E; [discriminate|].
    intros H; injection H as -> -> ->. exists hd; auto.
  - intros (hd & -> & ->). reflexivity.
Qed.

Lemma objf_hsim L h h' x : hsim L h h' -> objf h' x = objf h x.
Proof.
  intros [_ H]. specialize (H x). unfold objf. destruct (hget x h), (hget x h'); try tauto.
  destruct H as (_ & -> & _). reflexivity.
Qed.

Section Ops.
Variables (nb msz : N) (bucket : name -> N).
Hypothesis bucket_lt : forall n, bucket n < nb.

Notation D := (data_start nb).
Notation Chains := (Chains nb msz bucket).
Notation valid := (valid nb).
Notation key_of := (key_of bucket).

Definition idx_ok (s : st) : Prop := forall b p, lookup b (idx s) = Some p -> b < nb /\ p <> 0.

Definition WF (det : list N) (s : st) (cl : key -> list N) : Prop :=
  Chains det s cl /\ tiling (heap s) D (fsize s) /\ idx_ok s.

Lemma D_pos : 0 < D.
Proof. unfold data_start, INDEX_START. lia. Qed.

Lemma idx_ok_iset b p s : ksorted (idx s) -> b < nb -> idx_ok s -> idx_ok (iset b p s).
Proof.
  intros Hs Hb H b' q Hl. destruct (iset_lookup _ _ _ _ _ Hs Hl) as [(-> & -> & Hp)|(_ & Hl')]; [auto | apply (H _ _ Hl')].
Qed.

(* ---- find ------------------------------------------------------------------------------------------ *)
Lemma find_spec det s cl n : Chains det s cl ->
  match find s (bucket n) n with
  | Ok None => forall x hd m d, ~ In x det -> hget x (heap s) = Some hd -> h_body hd <> Obj n m d
  | Ok (Some f) =>
      exists l1 l2 m d, cl (Some (bucket n)) = l1 ++ f_start f :: l2 /\ hget (f_start f) (heap s) = Some (f_hdr f)
        /\ h_body (f_hdr f) = Obj n m d /\ f_prev f = last l1 0
  | Er _ => False
  end.
Proof.
  intros C. pose proof (bucket_lt n) as Hb. set (k := Some (bucket n)). assert (Hk : valid k) by exact Hb.
  pose proof (find_loop_spec (heap s) n (cl k) (fuel_of s) (iget (bucket n) s) 0
                (c_chain _ _ _ _ _ _ C k Hk) (chains_fuel _ _ _ _ _ _ _ C Hk)) as H.
  unfold find. destruct (find_loop _ _ _ _ _) as [[f|]|e]; [| |exact H].
  - destruct H as (l1 & l2 & Hcl & Hf1 & Hf2 & _ & Hf4).
    assert (Hin : In (f_start f) (cl k)) by (rewrite Hcl; apply in_or_app; right; left; reflexivity).
    destruct (c_kind _ _ _ _ _ _ C _ _ Hk Hin) as (hd & E & Ek). rewrite Hf1 in E. injection E as <-.
    unfold Inv.key_of in Ek. unfold seg_name in Hf2. destruct (h_body (f_hdr f)) as [|n' m d] eqn:Eb; [discriminate|].
    subst n'. exists l1, l2, m, d. auto.
  - intros x hd m d Hx E Hbd. pose proof (c_linked _ _ _ _ _ _ C _ _ Hx E) as Hin. unfold Inv.key_of in Hin. rewrite Hbd in Hin.
    apply (H x hd Hin E). unfold seg_name. rewrite Hbd. reflexivity.
Qed.

(* ---- find_empty ---------------------------------------------------------------------------------------- *)
Lemma find_empty_spec det s cl n d : Chains det s cl ->
  find_empty msz s n d = Ok None \/
  exists empty pos, find_empty msz s n d = Ok (Some (empty, pos)) /\ In pos (cl None) /\ hget pos (heap s) = Some empty
    /\ fits (h_size empty) (page_object_size msz n d) = true.
Proof.
  intros C. unfold find_empty. destruct (eidx s =? 0); [left; reflexivity|].
  assert (Hk : valid None) by exact I.
  rewrite (candidates_spec msz (heap s) (page_object_size msz n d) (cl None) (fuel_of s) (eidx s)
             (c_chain _ _ _ _ _ _ C None Hk) (chains_fuel _ _ _ _ _ _ _ C Hk)).
  cbn [bind]. destruct (cands msz (heap s) (cl None) (page_object_size msz n d)) as [|c cs] eqn:E; [left; reflexivity|].
  right. pose proof (smallest_in c cs) as Hin. rewrite <- E in Hin. destruct (smallest c cs) as [empty pos].
  apply cands_in in Hin. exists empty, pos. tauto.
Qed.

(* ---- unlink_empty ------------------------------------------------------------------------------------------ *)
Lemma unlink_empty_spec det s cl y hy :
  Chains det s cl -> In y (cl None) -> hget y (heap s) = Some hy ->
  exists s1 l1 l2, unlink_empty s y (h_next hy) = Ok s1 /\ cl None = l1 ++ y :: l2 /\
    Chains (y :: det) s1 (upd cl None (l1 ++ l2)) /\ hsim (cl None) (heap s) (heap s1) /\ fsize s1 = fsize s
    /\ idx s1 = idx s.
Proof.
  intros C Hin Hy. assert (Hk : valid None) by exact I.
  pose proof (c_nodup _ _ _ _ _ _ C None Hk) as Hnd. pose proof (c_chain _ _ _ _ _ _ C None Hk) as Hch.
  destruct (in_split _ _ Hin) as (l1 & l2 & Hcl). rewrite Hcl in Hnd, Hch. cbn [head] in Hch.
  assert (Hy0 : y <> 0) by (eapply chains_nonzero; eauto).
  unfold unlink_empty. destruct l1 as [|c l1].
  - cbn [app] in *. destruct Hch as (He & _). rewrite He, N.eqb_refl.
    exists (set_eidx s (h_next hy)), [], l2. split; [reflexivity|]. split; [exact Hcl|].
    destruct (chains_unlink nb msz bucket det s cl None [] y l2 hy (set_eidx s (h_next hy)) C Hk Hcl Hy) as (A & B & Cc);
      [left; split; reflexivity|]. split; [exact A|]. split; [exact B|]. split; [exact Cc|]. reflexivity.
  - assert (Hne : eidx s <> y).
    { destruct Hch as (He & _). rewrite He. intros ->. apply NoDup_remove_2 in Hnd. apply Hnd. left; reflexivity. }
    destruct (N.eqb_spec (eidx s) y); [congruence|].
    destruct (last_split (c :: l1) 0 ltac:(discriminate)) as (l1' & El1). set (p := last (c :: l1) 0) in *.
    unfold chain in Hch. rewrite El1 in Hch, Hnd, Hcl. apply cseg_app in Hch. destruct Hch as (r & H1 & H2).
    assert (r = y) by (destruct H2 as (E & _); exact E). subst r.
    assert (Hny : ~ In y (l1' ++ [p])) by (apply NoDup_remove_2 in Hnd; intros Hi; apply Hnd; apply in_or_app; left; exact Hi).
    rewrite (unlink_loop_spec (heap s) y (h_next hy) l1' p (fuel_of s) (eidx s) H1 Hny).
    2:{ pose proof (chains_fuel _ _ _ _ _ _ _ C Hk) as Hf. rewrite Hcl in Hf. rewrite !app_length in Hf. cbn [length] in Hf. lia. }
    assert (Hp : In p (cl None)) by (rewrite Hcl; apply in_or_app; left; apply in_or_app; right; left; reflexivity).
    destruct (c_kind _ _ _ _ _ _ C _ _ Hk Hp) as (hp & Ep & _).
    unfold set_next at 1. rewrite Ep. cbn [bind].
    eexists _, (l1' ++ [p]), l2. split; [reflexivity|]. split; [exact Hcl|].
    edestruct (chains_unlink nb msz bucket det s cl None (l1' ++ [p]) y l2 hy) as (A & B & Cc); [exact C | exact Hk | exact Hcl | exact Hy | |].
    + right. exists l1', p. eexists. split; [reflexivity|]. split; [unfold set_next; rewrite Ep; reflexivity | reflexivity].
    + split; [exact A|]. split; [exact B|]. split; [exact Cc|]. reflexivity.
Qed.

(* ---- create_empty -------------------------------------------------------------------------------------------- *)
Lemma page_le z : 0 < z -> z mod PAGE = 0 -> PAGE <= z.
Proof. intros Hz Hm. destruct (page_multiple z Hm) as [q ->]. unfold PAGE in *. lia. Qed.

Lemma write_empty_ok s x z nx : x < fsize s -> x + HDR <= fsize s ->
  write_empty s x z nx = Ok (set_heap s (hwrite x {| h_size := z; h_next := nx; h_body := Empty |} (heap s))).
Proof.
  intros H1 H2. unfold write_empty, storage_write.
  destruct (N.eqb_spec (fsize s) x); [lia|]. destruct (N.leb_spec (fsize s) x); [lia|].
  destruct (N.ltb_spec (fsize s) (x + HDR)); [lia|]. reflexivity.
Qed.

Lemma head_eidx_heap s h x k :
  head (set_eidx (set_heap s h) x) k = if key_dec k None then x else head s k.
Proof. destruct k; cbn; [destruct (key_dec (Some n) None); [discriminate|reflexivity] | destruct (key_dec None None); congruence]. Qed.

Lemma create_empty_spec s cl x hx :
  WF [x] s cl -> hget x (heap s) = Some hx ->
  exists s' cl', create_empty s x (h_size hx) = Ok s' /\ WF [] s' cl' /\
    forall v, objf (heap s') v = if v =? x then None else objf (heap s) v.
Proof.
  intros (C & T & I) Hx. pose proof (c_sorted _ _ _ _ _ _ C) as Hs.
  pose proof (szf_some _ _ _ Hx) as Hx'. pose proof (t_bounds _ _ _ T _ _ Hx') as (Bx1 & Bx2 & Bx3 & Bx4).
  pose proof (page_le _ Bx2 Bx3) as Hpg. pose proof D_pos as HD. unfold PAGE, HDR in *.
  set (z := h_size hx) in *. unfold create_empty.
  destruct (N.eqb_spec (x + z) (fsize s)) as [Hend|Hend].
  - (* the last object: truncate *)
    assert (Hafter : forall v, x < v -> hget v (heap s) = None).
    { intros v Hv. destruct (hget v (heap s)) as [hv|] eqn:Ev; [|reflexivity]. pose proof (szf_some _ _ _ Ev) as Ev'.
      pose proof (t_disj _ _ _ T _ _ _ _ Hx' Ev' Hv). pose proof (t_bounds _ _ _ T _ _ Ev'). lia. }
    eexists _, cl. split; [reflexivity|]. split; [split; [|split]|].
    + eapply (chains_shrink nb msz bucket [x] [] s); [exact C | apply htrunc_sorted; exact Hs | reflexivity | reflexivity | | intros ? [] |].
      * intros v. cbn [heap set_heap]. rewrite htrunc_get. destruct (N.ltb_spec v x); [left; reflexivity|].
        destruct (N.eq_dec v x) as [->|]; [right; split; [reflexivity | left; reflexivity]|]. left. symmetry. apply Hafter. lia.
      * intros v [<-|[]]. cbn [heap set_heap]. rewrite htrunc_get, N.ltb_irrefl. congruence.
    + cbn [heap fsize set_heap set_fsize]. eapply tiling_truncate; eauto.
    + exact I.
    + intros v. cbn [heap set_heap]. unfold objf. rewrite htrunc_get. destruct (N.ltb_spec v x).
      * destruct (N.eqb_spec v x); [lia|reflexivity].
      * destruct (N.eqb_spec v x); [reflexivity|]. rewrite Hafter by lia. reflexivity.
  - destruct (N.ltb_spec (fsize s) (x + z)); [lia|].
    destruct (t_succ _ _ _ T _ _ Hx') as [E|E]; [congruence|].
    destruct (hget (x + z) (heap s)) as [hy|] eqn:Ey; [|exfalso; apply E; apply szf_none; exact Ey]. clear E.
    pose proof (szf_some _ _ _ Ey) as Ey'. pose proof (t_bounds _ _ _ T _ _ Ey') as (By1 & By2 & By3 & By4).
    destruct (is_empty hy) eqn:Eemp; cbn [bind].
    + (* the following header is empty: merge *)
      assert (Hyk : key_of hy = None) by (unfold Inv.key_of; unfold is_empty in Eemp; destruct (h_body hy); [reflexivity|discriminate]).
      assert (Hyin : In (x + z) (cl None)).
      { rewrite <- Hyk. apply (c_linked _ _ _ _ _ _ C); [intros [H0|[]]; lia | exact Ey]. }
      destruct (unlink_empty_spec [x] s cl (x + z) hy C Hyin Ey) as (s1 & l1 & l2 & Hun & Hcl & C1 & Hsim & Hfs & Hidx).
      rewrite Hun. cbn [bind].
      pose proof (tiling_hsim _ _ _ _ _ Hsim T) as T1. rewrite <- Hfs in T1.
      destruct (hsim_get _ _ _ _ _ Hsim Hx) as (hx1 & Hx1 & Hzx & Hbx & _).
      destruct (hsim_get _ _ _ _ _ Hsim Ey) as (hy1 & Hy1 & Hzy & Hby & _).
      rewrite write_empty_ok by (unfold HDR; lia). cbn [bind].
      set (hdE := {| h_size := z + h_size hy; h_next := eidx s1; h_body := Empty |}).
      pose proof (c_sorted _ _ _ _ _ _ C1) as Hs1.
      assert (Hy1' : hget (x + h_size hx1) (heap s1) = Some hy1) by (rewrite <- Hzx; exact Hy1).
      assert (Hsum : h_size hdE = h_size hx1 + h_size hy1) by (cbn; lia).
      assert (Hget : forall v, hget v (hwrite x hdE (heap s1)) =
                 if v =? x then Some hdE else if v =? x + z then None else hget v (heap s1)).
      { intros v. pose proof (szf_merge _ _ _ _ _ _ _ v T1 Hx1 Hy1' Hsum) as Ez. rewrite <- Hzx in Ez. fold z in Ez.
        rewrite hwrite_get by exact Hs1. unfold szf in Ez. rewrite hwrite_get in Ez by exact Hs1.
        destruct (N.eqb_spec v x); [reflexivity|]. destruct (N.eqb_spec v (x + z)).
        - destruct (_ && _); [reflexivity|]. cbn in Ez. destruct (hget v (heap s1)); [discriminate|reflexivity].
        - destruct (_ && _); [|reflexivity]. cbn in Ez. destruct (hget v (heap s1)); [discriminate|reflexivity]. }
      eexists _, _. split; [reflexivity|]. split; [split; [|split]|].
      * eapply (chains_link nb msz bucket bucket_lt [x + z; x] [] s1 _ _ x hdE C1).
        -- cbn [heap set_heap set_eidx]. apply hwrite_sorted; exact Hs1.
        -- cbn. apply (c_idx _ _ _ _ _ _ C1).
        -- lia.
        -- cbn [heap set_heap set_eidx]. rewrite Hget, N.eqb_refl. reflexivity.
        -- reflexivity.
        -- right. right. left. reflexivity.
        -- intros v Hv. cbn [heap set_heap set_eidx]. rewrite Hget. destruct (N.eqb_spec v x); [congruence|].
           destruct (N.eqb_spec v (x + z)) as [->|]; [right; split; [reflexivity|left; reflexivity] | left; reflexivity].
        -- intros k' _. apply head_eidx_heap.
        -- intros v [].
        -- intros v [<-|[<-|[]]] Hv; [|congruence]. cbn [heap set_heap set_eidx]. rewrite Hget, N.eqb_refl.
           destruct (N.eqb_spec (x + z) x); [lia|congruence].
        -- intros n m d Hb. discriminate.
      * cbn [heap fsize set_heap set_eidx]. eapply tiling_merge; eauto.
      * unfold idx_ok. cbn [idx set_heap set_eidx]. rewrite Hidx. exact I.
      * intros v. cbn [heap set_heap set_eidx]. unfold objf at 1. rewrite Hget.
        destruct (N.eqb_spec v x); [reflexivity|]. destruct (N.eqb_spec v (x + z)) as [->|].
        -- unfold objf. rewrite Ey. unfold is_empty in Eemp. destruct (h_body hy); [reflexivity|discriminate].
        -- fold (objf (heap s1) v). apply (objf_hsim _ _ _ _ Hsim).
    + (* the following header is an object *)
      rewrite write_empty_ok by (unfold HDR; lia). cbn [bind].
      set (hdE := {| h_size := z; h_next := eidx s; h_body := Empty |}).
      assert (Hget : forall v, hget v (hwrite x hdE (heap s)) = if v =? x then Some hdE else hget v (heap s)).
      { intros v. rewrite hwrite_get by exact Hs. destruct (N.eqb_spec v x); [reflexivity|].
        destruct ((x <? v) && (v <? x + h_size hdE)) eqn:B; [|reflexivity].
        apply andb_true_iff in B. destruct B as (B1 & B2). apply N.ltb_lt in B1, B2. cbn in B2.
        symmetry. apply szf_none. apply (tiling_inside _ _ _ x z v T Hx' B1 B2). }
      eexists _, _. split; [reflexivity|]. split; [split; [|split]|].
      * eapply (chains_link nb msz bucket bucket_lt [x] [] s _ _ x hdE C).
        -- cbn [heap set_heap set_eidx]. apply hwrite_sorted; exact Hs.
        -- cbn. apply (c_idx _ _ _ _ _ _ C).
        -- lia.
        -- cbn [heap set_heap set_eidx]. rewrite Hget, N.eqb_refl. reflexivity.
        -- reflexivity.
        -- right. left. reflexivity.
        -- intros v Hv. cbn [heap set_heap set_eidx]. rewrite Hget. destruct (N.eqb_spec v x); [congruence|]. left; reflexivity.
        -- intros k' _. apply head_eidx_heap.
        -- intros v [].
        -- intros v [<-|[]] Hv; congruence.
        -- intros n m d Hb. discriminate.
      * cbn [heap fsize set_heap set_eidx]. eapply tiling_overwrite; eauto.
      * exact I.
      * intros v. cbn [heap set_heap set_eidx]. unfold objf at 1. rewrite Hget. destruct (N.eqb_spec v x); reflexivity.
Qed.

(* ---- delete_found ------------------------------------------------------------------------------------------------ *)
Lemma delete_found_spec s cl n f l1 l2 m d :
  WF [] s cl -> cl (Some (bucket n)) = l1 ++ f_start f :: l2 -> hget (f_start f) (heap s) = Some (f_hdr f) ->
  h_body (f_hdr f) = Obj n m d -> f_prev f = last l1 0 ->
  exists s' cl', delete_found s (bucket n) f = Ok s' /\ WF [] s' cl' /\
    forall v, objf (heap s') v = if v =? f_start f then None else objf (heap s) v.
Proof.
  intros (C & T & I) Hcl Hx Hb Hprev. pose proof (bucket_lt n) as Hbn. set (k := Some (bucket n)) in *.
  assert (Hk : valid k) by exact Hbn. pose proof (c_sorted _ _ _ _ _ _ C) as Hs.
  set (x := f_start f) in *. set (hx := f_hdr f) in *.
  (* step 1: unlink from the bucket chain *)
  assert (Hstep1 : exists s1, (if f_prev f =? 0 then Ok (iset (bucket n) (h_next hx) s)
                               else do h <- set_next (f_prev f) (h_next hx) (heap s); Ok (set_heap s h)) = Ok s1
                     /\ WF [x] s1 (upd cl k (l1 ++ l2)) /\ hsim (cl k) (heap s) (heap s1)).
  { destruct l1 as [|c l1].
    - cbn [last] in Hprev. rewrite Hprev, N.eqb_refl. eexists. split; [reflexivity|].
      destruct (chains_unlink nb msz bucket [] s cl k [] x l2 hx (set_head k (h_next hx) s) C Hk Hcl Hx) as (A & B & Cc);
        [left; split; reflexivity|].
      split; [|exact B]. split; [exact A|]. split.
      + destruct (iset_fields (bucket n) (h_next hx) s) as (F1 & _). rewrite F1. exact (tiling_hsim _ _ _ _ _ B T).
      + apply idx_ok_iset; [apply (c_idx _ _ _ _ _ _ C) | exact Hbn | exact I].
    - set (p := last (c :: l1) 0) in *.
      assert (Hp : In p (cl k)) by (rewrite Hcl; apply in_or_app; left; apply last_in; discriminate).
      pose proof (chains_nonzero _ _ _ _ _ _ _ _ C Hk Hp) as Hp0.
      destruct (c_kind _ _ _ _ _ _ C _ _ Hk Hp) as (hp & Ep & _).
      rewrite Hprev. destruct (N.eqb_spec p 0); [congruence|].
      destruct (last_split (c :: l1) 0 ltac:(discriminate)) as (l1' & El1). fold p in El1.
      unfold set_next. rewrite Ep. cbn [bind]. eexists. split; [reflexivity|].
      edestruct (chains_unlink nb msz bucket [] s cl k (c :: l1) x l2 hx) as (A & B & Cc); [exact C | exact Hk | exact Hcl | exact Hx | |].
      + right. exists l1', p. eexists. split; [exact El1|]. split; [unfold set_next; rewrite Ep; reflexivity | reflexivity].
      + split; [|exact B]. split; [exact A|]. split; [|exact I].
        cbn [fsize set_heap] in *. eapply tiling_hsim; eauto. }
  destruct Hstep1 as (s1 & E1 & W1 & Hsim). unfold delete_found. fold x hx. rewrite E1. cbn [bind].
  destruct (hsim_get _ _ _ _ _ Hsim Hx) as (hx1 & Hx1 & Hzx & _).
  destruct (create_empty_spec s1 _ x hx1 W1 Hx1) as (s' & cl' & E2 & W2 & Hobj).
  rewrite Hzx. exists s', cl'. split; [exact E2|]. split; [exact W2|].
  intros v. rewrite Hobj. destruct (v =? x); [reflexivity|]. apply (objf_hsim _ _ _ _ Hsim).
Qed.

(* ---- publish ------------------------------------------------------------------------------------------------------- *)
Lemma hwrite_get_none h p s v : ksorted h -> (forall u, p < u -> u < p + h_size s -> hget u h = None) ->
  hget v (hwrite p s h) = if v =? p then Some s else hget v h.
Proof.
  intros Hs Hn. rewrite hwrite_get by exact Hs. destruct (N.eqb_spec v p); [reflexivity|].
  destruct ((p <? v) && (v <? p + h_size s)) eqn:B; [|reflexivity].
  apply andb_true_iff in B. destruct B as (B1 & B2). apply N.ltb_lt in B1, B2. symmetry. apply Hn; assumption.
Qed.

Lemma write_object_append s nx n m d :
  write_object msz s (fsize s) (page_object_size msz n d) nx n m d =
    Ok (set_heap (set_fsize s (fsize s + page_object_size msz n d))
          (hwrite (fsize s) {| h_size := page_object_size msz n d; h_next := nx; h_body := Obj n m d |} (heap s))).
Proof.
  unfold write_object, storage_write. pose proof (page_object_size_bounds msz n d) as B.
  destruct (N.ltb_spec (page_object_size msz n d) (min_object_size msz (len n) (len d))); [lia|].
  destruct (N.ltb_spec PAGE (page_object_size msz n d - min_object_size msz (len n) (len d))); [lia|].
  rewrite N.eqb_refl. reflexivity.
Qed.

Lemma write_object_over s x nx n m d : x < fsize s -> x + page_object_size msz n d <= fsize s ->
  write_object msz s x (page_object_size msz n d) nx n m d =
    Ok (set_heap s (hwrite x {| h_size := page_object_size msz n d; h_next := nx; h_body := Obj n m d |} (heap s))).
Proof.
  intros H1 H2. unfold write_object, storage_write. pose proof (page_object_size_bounds msz n d) as B.
  destruct (N.ltb_spec (page_object_size msz n d) (min_object_size msz (len n) (len d))); [lia|].
  destruct (N.ltb_spec PAGE (page_object_size msz n d - min_object_size msz (len n) (len d))); [lia|].
  destruct (N.eqb_spec (fsize s) x); [lia|]. destruct (N.leb_spec (fsize s) x); [lia|].
  destruct (N.ltb_spec (fsize s) (x + page_object_size msz n d)); [lia|]. reflexivity.
Qed.

Definition absent (n : name) (h : heap_t) : Prop :=
  forall x hd m d, hget x h = Some hd -> h_body hd <> Obj n m d.

Definition added (n : name) (m : N) (d : bytes) (h h' : heap_t) : Prop :=
  exists p, objf h p = None /\ forall v, objf h' v = if v =? p then Some (n, m, d) else objf h v.

Lemma head_iset_heap s1 s b p k :
  idx s1 = idx s -> eidx s1 = eidx s -> ksorted (idx s) -> b < nb ->
  head (iset b p s1) k = if key_dec k (Some b) then p else head s k.
Proof.
  intros Ei Ee Hs Hb. change (iset b p s1) with (set_head (Some b) p s1). rewrite head_set_head by (rewrite Ei; exact Hs).
  destruct (key_dec k (Some b)); [reflexivity|]. apply head_same; assumption.
Qed.

Lemma publish_append_spec s cl n m d :
  WF [] s cl -> absent n (heap s) ->
  exists s' cl', publish_append msz s (bucket n) n m d = Ok s' /\ WF [] s' cl' /\ added n m d (heap s) (heap s').
Proof.
  intros (C & T & I) Habs. pose proof (bucket_lt n) as Hbn. pose proof (c_sorted _ _ _ _ _ _ C) as Hs.
  pose proof D_pos as HD. pose proof (t_first _ _ _ T) as (HF & _).
  unfold publish_append. rewrite write_object_append. cbn [bind].
  set (F := fsize s). set (sz := page_object_size msz n d).
  set (hdO := {| h_size := sz; h_next := iget (bucket n) s; h_body := Obj n m d |}).
  set (s1 := set_heap (set_fsize s (F + sz)) (hwrite F hdO (heap s))).
  assert (Hbeyond : forall u, F <= u -> hget u (heap s) = None).
  { intros u Hu. destruct (hget u (heap s)) as [hu|] eqn:Eu; [|reflexivity].
    pose proof (t_bounds _ _ _ T _ _ (szf_some _ _ _ Eu)). lia. }
  assert (Hget : forall v, hget v (hwrite F hdO (heap s)) = if v =? F then Some hdO else hget v (heap s)).
  { intros v. apply hwrite_get_none; [exact Hs|]. intros u Hu _. apply Hbeyond. lia. }
  destruct (iset_fields (bucket n) F s1) as (F1 & F2 & F3).
  eexists _, _. split; [reflexivity|]. split; [split; [|split]|].
  - eapply (chains_link nb msz bucket bucket_lt [] [] s _ _ F hdO C).
    + rewrite F3. cbn [heap s1 set_heap]. apply hwrite_sorted; exact Hs.
    + apply iset_sorted. cbn. apply (c_idx _ _ _ _ _ _ C).
    + unfold F. lia.
    + rewrite F3. cbn [heap s1 set_heap]. rewrite Hget, N.eqb_refl. reflexivity.
    + reflexivity.
    + left. apply Hbeyond. lia.
    + intros v Hv. left. rewrite F3. cbn [heap s1 set_heap]. rewrite Hget. destruct (N.eqb_spec v F); [congruence|reflexivity].
    + intros k' _. apply head_iset_heap; [reflexivity | reflexivity | apply (c_idx _ _ _ _ _ _ C) | exact Hbn].
    + intros v [].
    + intros v [].
    + intros n' m' d' Hb. cbn in Hb. injection Hb as <- <- <-. split; [reflexivity|].
      intros v hd' m' d' Hv. rewrite F3. cbn [heap s1 set_heap]. rewrite Hget. destruct (N.eqb_spec v F); [congruence|]. apply Habs.
  - rewrite F1, F3. cbn [heap fsize s1 set_heap set_fsize]. apply tiling_append; [exact T | apply page_object_size_pos | apply page_object_size_mod].
  - apply idx_ok_iset; [apply (c_idx _ _ _ _ _ _ C) | exact Hbn | exact I].
  - exists F. split; [unfold objf; rewrite Hbeyond by lia; reflexivity|].
    intros v. rewrite F3. cbn [heap s1 set_heap]. unfold objf at 1. rewrite Hget. destruct (N.eqb_spec v F); reflexivity.
Qed.

Lemma fits_le e o : fits e o = true -> e = o \/ o + HDR <= e.
Proof. unfold fits. rewrite orb_true_iff, N.eqb_eq, N.leb_le. auto. Qed.

Lemma publish_replace_spec s cl n m d empty pos :
  WF [] s cl -> absent n (heap s) -> In pos (cl None) -> hget pos (heap s) = Some empty ->
  fits (h_size empty) (page_object_size msz n d) = true ->
  exists s' cl', publish_replace msz s (bucket n) n m d empty pos = Ok s' /\ WF [] s' cl' /\ added n m d (heap s) (heap s').
Proof.
  intros (C & T & Ix) Habs Hin Hpos Hfit. pose proof (bucket_lt n) as Hbn. pose proof D_pos as HD.
  destruct (c_kind _ _ _ _ _ _ C None pos Logic.I Hin) as (e0 & E0 & Hke). rewrite Hpos in E0. injection E0 as <-.
  assert (Hbe : h_body empty = Empty) by (unfold Inv.key_of in Hke; destruct (h_body empty); [reflexivity|discriminate]).
  destruct (unlink_empty_spec [] s cl pos empty C Hin Hpos) as (s1 & l1 & l2 & Hun & Hcl & C1 & Hsim & Hfs & Hidx).
  unfold publish_replace. rewrite Hun. cbn [bind].
  pose proof (tiling_hsim _ _ _ _ _ Hsim T) as T1. rewrite <- Hfs in T1.
  destruct (hsim_get _ _ _ _ _ Hsim Hpos) as (e1 & He1 & Hze & Hbe1 & _).
  pose proof (c_sorted _ _ _ _ _ _ C1) as Hs1. pose proof (c_idx _ _ _ _ _ _ C1) as Hi1.
  pose proof (szf_some _ _ _ He1) as He1'. pose proof (t_bounds _ _ _ T1 _ _ He1') as (B1 & B2 & B3 & B4).
  set (sz := page_object_size msz n d) in *. set (ze := h_size empty) in *. rewrite <- Hze in *.
  pose proof (page_object_size_pos msz n d) as Hszp. pose proof (page_object_size_mod msz n d) as Hszm. fold sz in Hszp, Hszm.
  assert (Hle : sz <= ze) by (destruct (fits_le _ _ Hfit); lia).
  unfold sz. rewrite write_object_over by (fold sz; lia). cbn [bind]. fold sz.
  set (hdO := {| h_size := sz; h_next := iget (bucket n) s1; h_body := Obj n m d |}).
  set (s2 := set_heap s1 (hwrite pos hdO (heap s1))).
  set (s3 := iset (bucket n) pos s2).
  destruct (iset_fields (bucket n) pos s2) as (F1 & F2 & F3). fold s3 in F1, F2, F3.
  assert (Hinside : forall u, pos < u -> u < pos + ze -> hget u (heap s1) = None).
  { intros u H1 H2. apply szf_none. eapply tiling_inside; eauto. }
  assert (Hget3 : forall v, hget v (heap s3) = if v =? pos then Some hdO else hget v (heap s1)).
  { intros v. rewrite F3. cbn [heap s2 set_heap]. apply hwrite_get_none; [exact Hs1|]. intros u H1 H2. apply Hinside; [exact H1|]. cbn in H2. lia. }
  assert (Habs1 : forall v hd' m' d', hget v (heap s1) = Some hd' -> h_body hd' <> Obj n m' d').
  { intros v hd' m' d' Hv Hb. destruct (hsim_get_inv _ _ _ _ _ Hsim Hv) as (a & Ea & _ & Hba & _). eapply Habs; [exact Ea|]. rewrite Hba. exact Hb. }
  (* the object is in place and linked *)
  assert (C3 : Chains [] s3 (upd (upd cl None (l1 ++ l2)) (Some (bucket n)) (pos :: upd cl None (l1 ++ l2) (Some (bucket n))))).
  { eapply (chains_link nb msz bucket bucket_lt [pos] [] s1 s3 _ pos hdO C1).
    - rewrite F3. cbn [heap s2 set_heap]. apply hwrite_sorted; exact Hs1.
    - apply iset_sorted. exact Hi1.
    - lia.
    - rewrite Hget3, N.eqb_refl. reflexivity.
    - reflexivity.
    - right. left. reflexivity.
    - intros v Hv. left. rewrite Hget3. destruct (N.eqb_spec v pos); [congruence|reflexivity].
    - intros k' _. apply head_iset_heap; [reflexivity | reflexivity | exact Hi1 | exact Hbn].
    - intros v [].
    - intros v [<-|[]] Hv; congruence.
    - intros n' m' d' Hb. cbn in Hb. injection Hb as <- <- <-. split; [reflexivity|].
      intros v hd' m' d' Hv. rewrite Hget3. destruct (N.eqb_spec v pos); [congruence|]. apply Habs1. }
  assert (I3 : idx_ok s3).
  { apply idx_ok_iset; [exact Hi1 | exact Hbn |]. unfold idx_ok. cbn [idx s2 set_heap]. rewrite Hidx. exact Ix. }
  assert (Hobj0 : objf (heap s) pos = None) by (unfold objf; rewrite Hpos, Hbe; reflexivity).
  destruct (N.ltb_spec (pos + sz) (pos + ze)) as [Hlt|Hge].
  - (* the rest of the space becomes a new empty object *)
    destruct (mod_diff ze sz B3 Hszm ltac:(lia)) as (Hd1 & Hd2). unfold PAGE in Hd1.
    destruct (N.ltb_spec (pos + ze - (pos + sz)) HDR) as [Hbad|_]; [unfold HDR in Hbad; lia|].
    replace (pos + ze - (pos + sz)) with (ze - sz) by lia.
    rewrite write_empty_ok by (rewrite F1; cbn [fsize s2 set_heap]; unfold HDR; lia). cbn [bind].
    set (q := pos + sz). set (hdE := {| h_size := ze - sz; h_next := eidx s3; h_body := Empty |}).
    assert (Hget4 : forall v, hget v (hwrite q hdE (heap s3)) = if v =? q then Some hdE else hget v (heap s3)).
    { intros v. apply hwrite_get_none; [rewrite F3; cbn [heap s2 set_heap]; apply hwrite_sorted; exact Hs1|].
      intros u H1 H2. cbn in H2. rewrite Hget3. destruct (N.eqb_spec u pos); [unfold q in H1; lia|]. apply Hinside; unfold q in *; lia. }
    assert (Hq3 : hget q (heap s3) = None).
    { rewrite Hget3. destruct (N.eqb_spec q pos); [unfold q in *; lia|]. apply Hinside; unfold q; lia. }
    eexists _, _. split; [reflexivity|]. split; [split; [|split]|].
    + eapply (chains_link nb msz bucket bucket_lt [] [] s3 _ _ q hdE C3).
      * cbn [heap set_heap set_eidx]. apply hwrite_sorted. apply (c_sorted _ _ _ _ _ _ C3).
      * cbn. apply (c_idx _ _ _ _ _ _ C3).
      * unfold q. lia.
      * cbn [heap set_heap set_eidx]. rewrite Hget4, N.eqb_refl. reflexivity.
      * reflexivity.
      * left. exact Hq3.
      * intros v Hv. left. cbn [heap set_heap set_eidx]. rewrite Hget4. destruct (N.eqb_spec v q); [congruence|reflexivity].
      * intros k' _. apply head_eidx_heap.
      * intros v [].
      * intros v [].
      * intros n' m' d' Hb. discriminate.
    + cbn [heap fsize set_heap set_eidx]. rewrite F1, F3. cbn [heap fsize s2 set_heap].
      assert (Eq : q = pos + h_size hdO) by reflexivity. rewrite Eq.
      eapply (tiling_split _ _ _ pos e1 hdO hdE); eauto; cbn; lia.
    + exact I3.
    + exists pos. split; [exact Hobj0|]. intros v. cbn [heap set_heap set_eidx]. unfold objf at 1. rewrite Hget4.
      destruct (N.eqb_spec v q) as [->|Hvq].
      * destruct (N.eqb_spec q pos); [unfold q in *; lia|]. cbn. rewrite <- (objf_hsim _ _ _ q Hsim). unfold objf.
        rewrite Hinside by (unfold q; lia). reflexivity.
      * rewrite Hget3. destruct (N.eqb_spec v pos); [reflexivity|]. fold (objf (heap s1) v). apply (objf_hsim _ _ _ _ Hsim).
  - (* exact fit *)
    assert (Ez : sz = ze) by lia.
    eexists _, _. split; [reflexivity|]. split; [split; [|split]|].
    + exact C3.
    + rewrite F1, F3. cbn [heap fsize s2 set_heap]. eapply tiling_overwrite; [exact T1 | exact He1 | cbn; rewrite <- Hze; exact Ez].
    + exact I3.
    + exists pos. split; [exact Hobj0|]. intros v. unfold objf at 1. rewrite Hget3.
      destruct (N.eqb_spec v pos); [reflexivity|]. fold (objf (heap s1) v). apply (objf_hsim _ _ _ _ Hsim).
Qed.

Lemma publish_not_found_spec s cl n m d :
  WF [] s cl -> absent n (heap s) ->
  exists s' cl', publish_not_found msz s (bucket n) n m d = Ok s' /\ WF [] s' cl' /\ added n m d (heap s) (heap s').
Proof.
  intros W Habs. unfold publish_not_found. destruct W as (C & T & I).
  destruct (find_empty_spec [] s cl n d C) as [E|(empty & pos & E & Hin & Hpos & Hfit)]; rewrite E; cbn [bind].
  - apply (publish_append_spec s cl); [split; [|split]; assumption | exact Habs].
  - eapply (publish_replace_spec s cl); eauto. split; [|split]; assumption.
Qed.

End Ops.
