(* C26 proofs, part 1: list/arith basics, page rounding, heap primitives. *)
From Coq Require Import List NArith Lia Bool.
From RV Require Import Base.KMap C26.Model.
Import ListNotations.
Local Open Scope N_scope.

(* ---- leqb --------------------------------------------------------------- *)
Lemma leqb_eq a b : leqb a b = true <-> a = b.
Proof.
  revert b; induction a as [|x a IH]; intros [|y b]; cbn [leqb]; try (split; [discriminate|discriminate]);
    try (split; reflexivity).
  rewrite andb_true_iff, N.eqb_eq, IH. split; [intros [-> ->]; reflexivity | intros H; inversion H; auto].
Qed.
Lemma leqb_refl a : leqb a a = true.
Proof. apply leqb_eq; reflexivity. Qed.
Lemma leqb_spec a b : reflect (a = b) (leqb a b).
Proof. destruct (leqb a b) eqn:E; constructor; [apply leqb_eq; exact E | intros H; apply leqb_eq in H; congruence]. Qed.
Lemma leqb_sym a b : leqb a b = leqb b a.
Proof. destruct (leqb_spec a b), (leqb_spec b a); congruence. Qed.

(* ---- page rounding -------------------------------------------------------- *)
Section Round.
Variable msz : N.

Lemma round_up_mod x : round_up x mod PAGE = 0.
Proof. unfold round_up. apply N.mod_mul. unfold PAGE; lia. Qed.

Lemma round_up_bounds x : x <= round_up x < x + PAGE.
Proof.
  unfold round_up, PAGE. change (256 - 1) with 255.
  pose proof (N.div_mod (x + 255) 256 ltac:(lia)) as H.
  pose proof (N.mod_lt (x + 255) 256 ltac:(lia)) as H2.
  generalize dependent ((x + 255) / 256). generalize dependent ((x + 255) mod 256). intros. lia.
Qed.

Lemma page_multiple a : a mod PAGE = 0 -> exists q, a = q * PAGE.
Proof.
  unfold PAGE. intros Ha. pose proof (N.div_mod a 256 ltac:(lia)) as Da. rewrite Ha in Da.
  exists (a / 256). generalize dependent (a / 256). intros. lia.
Qed.

Lemma round_up_pos x : 0 < x -> 0 < round_up x.
Proof. pose proof (round_up_bounds x); lia. Qed.

Lemma page_object_size_pos n d : 0 < page_object_size msz n d.
Proof. unfold page_object_size. apply round_up_pos. unfold min_object_size, HDR. lia. Qed.
Lemma page_object_size_mod n d : page_object_size msz n d mod PAGE = 0.
Proof. apply round_up_mod. Qed.
Lemma page_object_size_bounds n d :
  min_object_size msz (len n) (len d) <= page_object_size msz n d < min_object_size msz (len n) (len d) + PAGE.
Proof. apply round_up_bounds. Qed.

(* multiples of the page size: a positive difference is at least a page *)
Lemma mod_diff a b : a mod PAGE = 0 -> b mod PAGE = 0 -> b < a -> b + PAGE <= a /\ (a - b) mod PAGE = 0.
Proof.
  intros Ha Hb Hlt. destruct (page_multiple a Ha) as [qa ->]. destruct (page_multiple b Hb) as [qb ->].
  unfold PAGE in *.
  assert (qa * 256 - qb * 256 = (qa - qb) * 256) as E by lia.
  split; [lia|]. rewrite E. apply N.mod_mul. lia.
Qed.
Lemma mod_sum a b : a mod PAGE = 0 -> b mod PAGE = 0 -> (a + b) mod PAGE = 0.
Proof.
  intros Ha Hb. destruct (page_multiple a Ha) as [qa ->]. destruct (page_multiple b Hb) as [qb ->].
  unfold PAGE in *.
  assert (qa * 256 + qb * 256 = (qa + qb) * 256) as E by lia.
  rewrite E. apply N.mod_mul. lia.
Qed.
End Round.

(* ---- sorted association lists: filter ---------------------------------------- *)
Section Filter.
Context {V : Type}.

Lemma lookup_filter (P : N -> bool) k (l : list (N * V)) :
  lookup k (filter (fun e => P (fst e)) l) = if P k then lookup k l else None.
Proof.
  induction l as [|[k' v] t IH]; cbn [filter lookup fst].
  - destruct (P k); reflexivity.
  - destruct (P k') eqn:E; cbn [lookup]; destruct (N.eqb_spec k k') as [->|Hne].
    + rewrite E. reflexivity.
    + exact IH.
    + rewrite IH, E. reflexivity.
    + exact IH.
Qed.

Lemma lb_filter f k (l : list (N * V)) : lb k l -> lb k (filter f l).
Proof. intros H k' v Hin. apply filter_In in Hin. eapply H; apply Hin. Qed.

Lemma ksorted_filter f (l : list (N * V)) : ksorted l -> ksorted (filter f l).
Proof.
  induction l as [|[k v] t IH]; cbn [filter ksorted]; [auto|]. intros [Ha Hb].
  destruct (f (k, v)); cbn [ksorted]; [split; [apply lb_filter; exact Ha | apply IH; exact Hb] | apply IH; exact Hb].
Qed.

Lemma lookup_some_in_keys k (l : list (N * V)) v : lookup k l = Some v -> In k (map fst l).
Proof. intros H. apply lookup_In in H. apply in_map_iff. exists (k, v). split; [reflexivity | exact H]. Qed.

Lemma lookup_none_of_keys k (l : list (N * V)) : ~ In k (map fst l) -> lookup k l = None.
Proof.
  induction l as [|[k' v] t IH]; cbn [lookup map fst In]; [reflexivity|]. intros H.
  destruct (N.eqb_spec k k') as [->|Hne]; [exfalso; apply H; left; reflexivity | apply IH; tauto].
Qed.
End Filter.

(* ---- heap primitives ------------------------------------------------------------ *)
Lemma hwrite_sorted p s h : ksorted h -> ksorted (hwrite p s h).
Proof. intros H. unfold hwrite. apply kinsert_sorted. apply ksorted_filter. exact H. Qed.

Lemma hwrite_get p s h x : ksorted h ->
  hget x (hwrite p s h) =
    if x =? p then Some s else if (p <? x) && (x <? p + h_size s) then None else hget x h.
Proof.
  intros H. unfold hget, hwrite. rewrite kinsert_lookup by (apply ksorted_filter; exact H).
  destruct (x =? p); [reflexivity|].
  rewrite (lookup_filter (fun k => negb ((p <? k) && (k <? p + h_size s)))).
  destruct ((p <? x) && (x <? p + h_size s)); reflexivity.
Qed.

Lemma htrunc_sorted p h : ksorted h -> ksorted (htrunc p h).
Proof. apply ksorted_filter. Qed.

Lemma htrunc_get p h x : hget x (htrunc p h) = if x <? p then hget x h else None.
Proof. unfold hget, htrunc. apply (lookup_filter (fun k => k <? p)). Qed.

Lemma set_next_get p v h h' x : ksorted h -> set_next p v h = Ok h' ->
  exists s, hget p h = Some s /\ ksorted h' /\
    hget x h' = if x =? p then Some {| h_size := h_size s; h_next := v; h_body := h_body s |} else hget x h.
Proof.
  unfold set_next. intros Hs. destruct (hget p h) as [s|] eqn:E; [|discriminate].
  intros H; injection H as <-. exists s. split; [reflexivity|]. split; [apply kinsert_sorted; exact Hs|].
  unfold hget. apply kinsert_lookup. exact Hs.
Qed.

(* keys of a sorted list bound its length from above for duplicate-free lists of keys *)
Lemma nodup_keys_length {V} (l : list N) (h : list (N * V)) :
  NoDup l -> (forall x, In x l -> lookup x h <> None) -> (length l <= length h)%nat.
Proof.
  intros Hnd Hin. rewrite <- (map_length fst h). apply NoDup_incl_length; [exact Hnd|].
  intros x Hx. specialize (Hin x Hx). destruct (lookup x h) eqn:E; [|congruence].
  eapply lookup_some_in_keys; exact E.
Qed.

(* ---- the index ---------------------------------------------------------------------- *)
Lemma iget_iset b p s b' : ksorted (idx s) -> iget b' (iset b p s) = if b' =? b then p else iget b' s.
Proof.
  intros Hs. unfold iget, iset, set_idx; cbn [idx].
  destruct (N.eqb_spec p 0) as [->|Hp].
  - rewrite kremove_lookup. destruct (b' =? b); reflexivity.
  - rewrite kinsert_lookup by exact Hs. destruct (b' =? b); reflexivity.
Qed.

Lemma iset_sorted b p s : ksorted (idx s) -> ksorted (idx (iset b p s)).
Proof.
  intros Hs. unfold iset, set_idx; cbn [idx].
  destruct (p =? 0); [apply kremove_sorted | apply kinsert_sorted]; exact Hs.
Qed.

Lemma iset_lookup b p s b' q : ksorted (idx s) -> lookup b' (idx (iset b p s)) = Some q ->
  (b' = b /\ q = p /\ p <> 0) \/ (b' <> b /\ lookup b' (idx s) = Some q).
Proof.
  intros Hs. unfold iset, set_idx; cbn [idx].
  destruct (N.eqb_spec p 0) as [->|Hp].
  - rewrite kremove_lookup. destruct (N.eqb_spec b' b); [discriminate | auto].
  - rewrite kinsert_lookup by exact Hs. destruct (N.eqb_spec b' b); [intros H; injection H as <-; auto | auto].
Qed.

Lemma iset_fields b p s : fsize (iset b p s) = fsize s /\ eidx (iset b p s) = eidx s /\ heap (iset b p s) = heap s.
Proof. unfold iset, set_idx; cbn. auto. Qed.
