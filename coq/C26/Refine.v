(* C26 proofs, part 6: the invariant [Inv], the content of an archive as a map, and the refinement of
   every operation (and every operation sequence) to the map. *)
From Coq Require Import List NArith Lia Bool.
From RV Require Import Base.KMap C26.Model C26.Basics C26.Chain C26.Spec C26.Tiling C26.Inv C26.Ops.
Import ListNotations.
Local Open Scope N_scope.

(* ---- the content of a heap as a map ---------------------------------------------------------------- *)
Definition content (h : heap_t) (n : name) : option (N * bytes) := aget n (heap_objects h).

Lemma in_heap_objects h n m d : ksorted h -> (In (n, m, d) (heap_objects h) <-> exists x, objf h x = Some (n, m, d)).
Proof.
  intros Hs. split.
  - intros Hin. assert (exists x hd, In (x, hd) h /\ h_body hd = Obj n m d) as (x & hd & Hi & Hb).
    { clear Hs. induction h as [|[k s] t IH]; cbn [heap_objects] in Hin; [destruct Hin|].
      destruct (h_body s) eqn:E.
      - destruct (IH Hin) as (x & hd & Hi & Hb). exists x, hd. split; [right; exact Hi|exact Hb].
      - destruct Hin as [Heq|Hin].
        + injection Heq as -> -> ->. exists k, s. split; [left; reflexivity|exact E].
        + destruct (IH Hin) as (x & hd & Hi & Hb). exists x, hd. split; [right; exact Hi|exact Hb]. }
    exists x. apply objf_some. exists hd. split; [apply In_lookup; assumption | exact Hb].
  - intros (x & Hx). apply objf_some in Hx. destruct Hx as (hd & Hg & Hb). apply lookup_In in Hg. clear Hs.
    induction h as [|[k s] t IH]; [destruct Hg|]. cbn [heap_objects]. destruct Hg as [Heq|Hg].
    + injection Heq as -> ->. rewrite Hb. left; reflexivity.
    + destruct (h_body s); [apply IH; exact Hg | right; apply IH; exact Hg].
Qed.

Lemma aget_in n l m d : aget n l = Some (m, d) -> In (n, m, d) l.
Proof.
  induction l as [|[[n' m'] d'] t IH]; cbn [aget]; [discriminate|].
  destruct (leqb_spec n n') as [->|]; [intros H; injection H as -> ->; left; reflexivity | intros H; right; apply IH; exact H].
Qed.

Lemma aget_some_of_in n l m d :
  (forall m1 d1 m2 d2, In (n, m1, d1) l -> In (n, m2, d2) l -> m1 = m2 /\ d1 = d2) -> In (n, m, d) l -> aget n l = Some (m, d).
Proof.
  intros Hu Hin. destruct (aget n l) as [[m' d']|] eqn:E.
  - apply aget_in in E. destruct (Hu _ _ _ _ E Hin) as (-> & ->). reflexivity.
  - exfalso. clear Hu. induction l as [|[[n' m'] d'] t IH]; [destruct Hin|]. cbn [aget] in E.
    destruct (leqb_spec n n') as [->|Hne]; [discriminate|]. destruct Hin as [Heq|Hin]; [injection Heq as <- _ _; congruence | exact (IH Hin E)].
Qed.

Lemma nu_objf h : names_unique h <->
  (forall x x' n m d m' d', objf h x = Some (n, m, d) -> objf h x' = Some (n, m', d') -> x = x').
Proof.
  unfold names_unique. split.
  - intros H x x' n m d m' d' H1 H2. apply objf_some in H1, H2. destruct H1 as (hd & A & B). destruct H2 as (hd' & A' & B'). eapply H; eauto.
  - intros H x x' hd hd' n m d m' d' A A' B B'. eapply (H x x' n m d m' d'); apply objf_some; eauto.
Qed.

Lemma content_some h n m d : ksorted h -> names_unique h ->
  (content h n = Some (m, d) <-> exists x, objf h x = Some (n, m, d)).
Proof.
  intros Hs Hu. unfold content. split.
  - intros H. apply aget_in in H. apply in_heap_objects; assumption.
  - intros Hx. apply aget_some_of_in; [|apply in_heap_objects; assumption].
    intros m1 d1 m2 d2 H1 H2. apply (in_heap_objects h _ _ _ Hs) in H1, H2. destruct H1 as (x1 & H1). destruct H2 as (x2 & H2).
    pose proof (proj1 (nu_objf h) Hu _ _ _ _ _ _ _ H1 H2) as ->. rewrite H1 in H2. injection H2 as -> ->. auto.
Qed.

Lemma content_none h n : ksorted h -> names_unique h ->
  (content h n = None <-> forall x m d, objf h x <> Some (n, m, d)).
Proof.
  intros Hs Hu. split.
  - intros H x m d Hx. assert (content h n = Some (m, d)) by (apply content_some; eauto). congruence.
  - intros H. destruct (content h n) as [[m d]|] eqn:E; [|reflexivity]. apply content_some in E; [|assumption|assumption].
    destruct E as (x & Hx). exfalso. exact (H _ _ _ Hx).
Qed.

(* a map as a function *)
Definition fmap := name -> option (N * bytes).
Definition fupd (f : fmap) (n : name) (v : option (N * bytes)) : fmap := fun n' => if leqb n' n then v else f n'.

Lemma content_point h h' p o : ksorted h -> ksorted h' -> names_unique h -> names_unique h' ->
  (forall v, objf h' v = if v =? p then o else objf h v) ->
  forall n', (forall m d, o <> Some (n', m, d)) -> (forall m d, objf h p <> Some (n', m, d)) -> content h' n' = content h n'.
Proof.
  intros Hs Hs' Hu Hu' Hv n' Ho Hp. destruct (content h n') as [[m d]|] eqn:E.
  - apply content_some in E; [|assumption|assumption]. destruct E as (x & Hx). apply content_some; [assumption|assumption|].
    exists x. rewrite Hv. destruct (N.eqb_spec x p) as [->|]; [exfalso; exact (Hp _ _ Hx) | exact Hx].
  - apply content_none; [assumption|assumption|]. intros x m d. rewrite Hv. destruct (N.eqb_spec x p) as [->|]; [apply Ho|].
    apply (proj1 (content_none h n' Hs Hu) E).
Qed.

Lemma content_added h h' n m d : ksorted h -> ksorted h' -> names_unique h -> names_unique h' ->
  added n m d h h' -> forall n', content h' n' = fupd (content h) n (Some (m, d)) n'.
Proof.
  intros Hs Hs' Hu Hu' (p & Hp & Hv) n'. unfold fupd. destruct (leqb_spec n' n) as [->|Hne].
  - apply content_some; [assumption|assumption|]. exists p. rewrite Hv, N.eqb_refl. reflexivity.
  - eapply content_point; eauto; [intros m' d' E; injection E as <- _ _; congruence | intros m' d'; rewrite Hp; discriminate].
Qed.

Lemma content_removed h h' x n m d : ksorted h -> ksorted h' -> names_unique h -> names_unique h' ->
  objf h x = Some (n, m, d) -> (forall v, objf h' v = if v =? x then None else objf h v) ->
  forall n', content h' n' = fupd (content h) n None n'.
Proof.
  intros Hs Hs' Hu Hu' Hx Hv n'. unfold fupd. destruct (leqb_spec n' n) as [->|Hne].
  - apply content_none; [assumption|assumption|]. intros v m' d'. rewrite Hv. destruct (N.eqb_spec v x) as [->|Hvx]; [discriminate|].
    intros Hv'. apply Hvx. eapply (proj1 (nu_objf h) Hu); eauto.
  - eapply content_point; eauto; [discriminate | intros m' d'; rewrite Hx; intros E; injection E as <- _ _; congruence].
Qed.

Lemma content_replaced h h' x n m0 d0 m d : ksorted h -> ksorted h' -> names_unique h -> names_unique h' ->
  objf h x = Some (n, m0, d0) -> (forall v, objf h' v = if v =? x then Some (n, m, d) else objf h v) ->
  forall n', content h' n' = fupd (content h) n (Some (m, d)) n'.
Proof.
  intros Hs Hs' Hu Hu' Hx Hv n'. unfold fupd. destruct (leqb_spec n' n) as [->|Hne].
  - apply content_some; [assumption|assumption|]. exists x. rewrite Hv, N.eqb_refl. reflexivity.
  - eapply content_point; eauto; [intros m' d' E; injection E as <- _ _; congruence | intros m' d'; rewrite Hx; intros E; injection E as <- _ _; congruence].
Qed.

(* ---- the map as a function, one operation ------------------------------------------------------------- *)
Definition fstep (f : fmap) (o : op) : res * fmap :=
  match o with
  | Publish n m d => match f n with Some _ => (RAlreadyExists, f) | None => (ROk, fupd f n (Some (m, d))) end
  | Update n m d c =>
      match f n with
      | None => (RNotFound, f)
      | Some (old, _) => match c old with Some e => (RInconsistent e, f) | None => (ROk, fupd f n (Some (m, d))) end
      end
  | Delete n c =>
      match f n with
      | None => (RNotFound, f)
      | Some (old, _) => match c old with Some e => (RInconsistent e, f) | None => (ROk, fupd f n None) end
      end
  | Fetch n => (match f n with None => RNotFound | Some (_, d) => RData d end, f)
  | FetchIf n c =>
      (match f n with
       | None => RNotFound
       | Some (old, d) => match c old with Some e => RInconsistent e | None => RData d end
       end, f)
  | Reopen => (ROk, f)
  end.

Section Refine.
Variables (nb msz : N) (bucket : name -> N).
Hypothesis bucket_lt : forall n, bucket n < nb.

Notation WF := (WF nb msz bucket).
Notation step := (step msz bucket).

(* THE INVARIANT: some assignment of chain lists satisfies [Chains] with nothing detached, the headers tile
   the file, and the index is in canonical form *)
Definition Inv (s : st) : Prop := exists cl, WF [] s cl.

Lemma WF_sorted det s cl : WF det s cl -> ksorted (heap s) /\ names_unique (heap s).
Proof. intros (C & _). split; [apply (c_sorted _ _ _ _ _ _ C) | apply (c_names _ _ _ _ _ _ C)]. Qed.

(* what find tells about the content *)
Lemma find_content s cl n : WF [] s cl ->
  match find s (bucket n) n with
  | Ok None => content (heap s) n = None /\ absent n (heap s)
  | Ok (Some f) =>
      exists l1 l2 m d, cl (Some (bucket n)) = l1 ++ f_start f :: l2 /\ hget (f_start f) (heap s) = Some (f_hdr f)
        /\ h_body (f_hdr f) = Obj n m d /\ f_prev f = last l1 0 /\ content (heap s) n = Some (m, d)
  | Er _ => False
  end.
Proof.
  intros W. destruct (WF_sorted _ _ _ W) as (Hs & Hu). destruct W as (C & _).
  pose proof (find_spec nb msz bucket bucket_lt [] s cl n C) as H. destruct (find s (bucket n) n) as [[f|]|e]; [| |exact H].
  - destruct H as (l1 & l2 & m & d & A & B & Cc & Dd). exists l1, l2, m, d. repeat split; try assumption.
    apply content_some; [assumption|assumption|]. exists (f_start f). apply objf_some. eauto.
  - assert (Ha : absent n (heap s)) by (intros x hd m d; apply H; intros []).
    split; [|exact Ha]. apply content_none; [assumption|assumption|]. intros x m d Hx. apply objf_some in Hx.
    destruct Hx as (hd & A & B). exact (Ha _ _ _ _ A B).
Qed.

Lemma step_refines s o : Inv s ->
  Inv (snd (step s o)) /\ fst (step s o) = fst (fstep (content (heap s)) o)
  /\ forall n, content (heap (snd (step s o))) n = snd (fstep (content (heap s)) o) n.
Proof.
  intros (cl & W). destruct (WF_sorted _ _ _ W) as (Hs & Hu).
  assert (Hsame : Inv s) by (exists cl; exact W).
  destruct o as [n m d|n m d c|n c|n|n c|]; cbn [step fstep].
  - (* publish *)
    unfold publish. pose proof (find_content s cl n W) as Hf. destruct (find s (bucket n) n) as [[f|]|e]; [| |destruct Hf].
    + destruct Hf as (l1 & l2 & m0 & d0 & _ & _ & _ & _ & Hc). rewrite Hc. cbn. auto.
    + destruct Hf as (Hc & Ha). rewrite Hc.
      destruct (publish_not_found_spec nb msz bucket bucket_lt s cl n m d W Ha) as (s' & cl' & E & W' & Hadd). rewrite E. cbn [fst snd].
      destruct (WF_sorted _ _ _ W') as (Hs' & Hu').
      split; [exists cl'; exact W'|]. split; [reflexivity|]. apply content_added; assumption.
  - (* update *)
    unfold update. pose proof (find_content s cl n W) as Hf. destruct (find s (bucket n) n) as [[f|]|e]; [| |destruct Hf].
    + destruct Hf as (l1 & l2 & m0 & d0 & Hcl & Hx & Hb & Hprev & Hc). rewrite Hc. unfold seg_meta. rewrite Hb.
      destruct (c m0) as [e|]; [cbn; auto|]. cbv zeta.
      assert (Hox : objf (heap s) (f_start f) = Some (n, m0, d0)) by (apply objf_some; eauto).
      destruct (N.eqb_spec (h_size (f_hdr f)) (page_object_size msz n d)) as [Esz|Esz].
      * (* in place *)
        destruct W as (C & T & I). pose proof (t_bounds _ _ _ T _ _ (szf_some _ _ _ Hx)) as (B1 & B2 & B3 & B4).
        rewrite Esz. rewrite write_object_over by (try rewrite <- Esz; lia). cbn [fst snd].
        set (hd' := {| h_size := page_object_size msz n d; h_next := h_next (f_hdr f); h_body := Obj n m d |}).
        assert (Hget : forall y, hget y (hwrite (f_start f) hd' (heap s)) = if y =? f_start f then Some hd' else hget y (heap s)).
        { intros y. apply hwrite_get_none; [exact Hs|]. intros u H1 H2. apply szf_none.
          eapply tiling_inside; [exact T | apply szf_some; exact Hx | exact H1 | rewrite Esz; exact H2]. }
        assert (C' : Chains nb msz bucket [] (set_heap s (hwrite (f_start f) hd' (heap s))) cl).
        { eapply (chains_inplace nb msz bucket [] s _ cl (f_start f) (f_hdr f) n m0 d0 m d C Hx Hb); [symmetry; exact Esz | | reflexivity | reflexivity |].
          - cbn. apply hwrite_sorted; exact Hs.
          - intros y. cbn [heap set_heap]. rewrite Hget. unfold hd'. rewrite Esz. reflexivity. }
        split; [exists cl; split; [exact C'|split; [|exact I]]|].
        -- cbn [heap fsize set_heap]. eapply tiling_overwrite; [exact T | exact Hx | cbn; symmetry; exact Esz].
        -- split; [reflexivity|]. eapply content_replaced; [exact Hs | apply (c_sorted _ _ _ _ _ _ C') | exact Hu | apply (c_names _ _ _ _ _ _ C') | exact Hox |].
           intros v. cbn [heap set_heap]. unfold objf at 1. rewrite Hget. destruct (N.eqb_spec v (f_start f)); reflexivity.
      * (* delete, then publish again *)
        destruct (delete_found_spec nb msz bucket bucket_lt s cl n f l1 l2 m0 d0 W Hcl Hx Hb Hprev) as (s1 & cl1 & E1 & W1 & Hobj1).
        rewrite E1. cbn [bind]. destruct (WF_sorted _ _ _ W1) as (Hs1 & Hu1).
        pose proof (content_removed _ _ _ _ _ _ Hs Hs1 Hu Hu1 Hox Hobj1) as Hc1.
        assert (Ha1 : absent n (heap s1)).
        { intros x hd m' d' A B. assert (Hcx : content (heap s1) n = Some (m', d')) by (apply content_some; [assumption|assumption|]; exists x; apply objf_some; eauto).
          rewrite Hc1 in Hcx. unfold fupd in Hcx. rewrite leqb_refl in Hcx. discriminate. }
        destruct (publish_not_found_spec nb msz bucket bucket_lt s1 cl1 n m d W1 Ha1) as (s' & cl' & E2 & W' & Hadd). rewrite E2. cbn [fst snd].
        destruct (WF_sorted _ _ _ W') as (Hs' & Hu').
        split; [exists cl'; exact W'|]. split; [reflexivity|]. intros n'.
        rewrite (content_added _ _ _ _ _ Hs1 Hs' Hu1 Hu' Hadd). unfold fupd. destruct (leqb n' n) eqn:El; [reflexivity|].
        rewrite Hc1. unfold fupd. rewrite El. reflexivity.
    + destruct Hf as (Hc & _). rewrite Hc. cbn. auto.
  - (* delete *)
    unfold delete. pose proof (find_content s cl n W) as Hf. destruct (find s (bucket n) n) as [[f|]|e]; [| |destruct Hf].
    + destruct Hf as (l1 & l2 & m0 & d0 & Hcl & Hx & Hb & Hprev & Hc). rewrite Hc. unfold seg_meta. rewrite Hb.
      destruct (c m0) as [e|]; [cbn; auto|].
      assert (Hox : objf (heap s) (f_start f) = Some (n, m0, d0)) by (apply objf_some; eauto).
      destruct (delete_found_spec nb msz bucket bucket_lt s cl n f l1 l2 m0 d0 W Hcl Hx Hb Hprev) as (s1 & cl1 & E1 & W1 & Hobj1).
      rewrite E1. cbn [fst snd]. destruct (WF_sorted _ _ _ W1) as (Hs1 & Hu1).
      split; [exists cl1; exact W1|]. split; [reflexivity|]. eapply content_removed; eauto.
    + destruct Hf as (Hc & _). rewrite Hc. cbn. auto.
  - (* fetch *)
    unfold fetch. pose proof (find_content s cl n W) as Hf. destruct (find s (bucket n) n) as [[f|]|e]; [| |destruct Hf].
    + destruct Hf as (l1 & l2 & m0 & d0 & _ & _ & Hb & _ & Hc). rewrite Hc. unfold seg_data. rewrite Hb. cbn. auto.
    + destruct Hf as (Hc & _). rewrite Hc. cbn. auto.
  - (* fetch_if *)
    unfold fetch_if. pose proof (find_content s cl n W) as Hf. destruct (find s (bucket n) n) as [[f|]|e]; [| |destruct Hf].
    + destruct Hf as (l1 & l2 & m0 & d0 & _ & _ & Hb & _ & Hc). rewrite Hc. unfold seg_meta, seg_data. rewrite Hb.
      destruct (c m0); cbn; auto.
    + destruct Hf as (Hc & _). rewrite Hc. cbn. auto.
  - cbn. auto.
Qed.

(* the empty archive *)
Lemma Inv_init : Inv (init nb).
Proof.
  exists (fun _ => []). split; [|split].
  - constructor; cbn; try (intros; exact I); try discriminate.
    + intros k _. destruct k; reflexivity.
    + intros k x _ [].
    + intros x k [].
    + intros k _. constructor.
  - cbn. apply tiling_empty.
  - intros b p H. discriminate.
Qed.

Lemma content_init n : content (heap (init nb)) n = None.
Proof. reflexivity. Qed.

End Refine.
