(* C26 proofs, part 10: operation sequences (induction over the list of operations), the invariant in plain
   terms, and the converse direction of the executable layout check. *)
From Coq Require Import List NArith Lia Bool.
From RV Require Import Base.KMap C26.Model C26.Basics C26.Chain C26.Spec C26.Tiling C26.Inv C26.Ops C26.Refine
  C26.InvB C26.Observe C26.SpecProofs.
Import ListNotations.
Local Open Scope N_scope.

(* the map run on a whole sequence *)
Fixpoint frun (f : fmap) (ops : list op) : list res * fmap :=
  match ops with
  | [] => ([], f)
  | o :: t => let '(r, f') := fstep f o in let '(rs, f'') := frun f' t in (r :: rs, f'')
  end.

Lemma fstep_ext f f' o : (forall n, f n = f' n) ->
  fst (fstep f o) = fst (fstep f' o) /\ forall n, snd (fstep f o) n = snd (fstep f' o) n.
Proof.
  intros H. destruct o as [n mt d|n mt d c|n c|n|n c|]; cbn [fstep]; try rewrite (H n).
  - destruct (f' n); cbn; [auto|]. split; [reflexivity|]. intros n'. unfold fupd. destruct (leqb n' n); auto.
  - destruct (f' n) as [[old dd]|]; cbn; [|auto]. destruct (c old); cbn; [auto|]. split; [reflexivity|].
    intros n'. unfold fupd. destruct (leqb n' n); auto.
  - destruct (f' n) as [[old dd]|]; cbn; [|auto]. destruct (c old); cbn; [auto|]. split; [reflexivity|].
    intros n'. unfold fupd. destruct (leqb n' n); auto.
  - cbn. auto.
  - cbn. auto.
  - cbn. auto.
Qed.

Lemma frun_ext ops : forall f f', (forall n, f n = f' n) ->
  fst (frun f ops) = fst (frun f' ops) /\ forall n, snd (frun f ops) n = snd (frun f' ops) n.
Proof.
  induction ops as [|o ops IH]; intros f f' H; cbn [frun]; [auto|].
  destruct (fstep_ext f f' o H) as (E1 & E2). destruct (fstep f o) as [r g], (fstep f' o) as [r' g']. cbn [fst snd] in *.
  destruct (IH g g' E2) as (E3 & E4). destruct (frun g ops) as [rs g2], (frun g' ops) as [rs' g2']. cbn [fst snd] in *.
  split; [congruence | exact E4].
Qed.

Section Seq.
Variables (nb msz : N) (bucket : name -> N).
Hypothesis bucket_lt : forall n, bucket n < nb.

Notation Inv := (Inv nb msz bucket).
Notation run := (run msz bucket).
Notation final := (final msz bucket).

Lemma run_refines ops : forall s, Inv s ->
  map fst (run s ops) = fst (frun (content (heap s)) ops)
  /\ Forall Inv (map snd (run s ops))
  /\ Inv (final s ops)
  /\ forall n, content (heap (final s ops)) n = snd (frun (content (heap s)) ops) n.
Proof.
  induction ops as [|o ops IH]; intros s HI; cbn [run frun map final fold_left].
  - repeat split; auto.
  - destruct (step_refines nb msz bucket bucket_lt s o HI) as (HI' & Hres & Hcont).
    destruct (step msz bucket s o) as [r s'] eqn:Es. cbn [fst snd map] in *.
    destruct (IH s' HI') as (A & B & C & Dd).
    destruct (fstep (content (heap s)) o) as [r' f'] eqn:Ef. cbn [fst snd] in *.
    destruct (frun_ext ops (content (heap s')) f' Hcont) as (E1 & E2).
    destruct (frun f' ops) as [rs f''] eqn:Er. cbn [fst snd] in *.
    split; [rewrite A, E1, Hres; reflexivity|]. split; [constructor; assumption|]. split; [exact C|].
    intros n. rewrite Dd. apply E2.
Qed.

(* ---- the invariant in plain terms -------------------------------------------------------------------------------- *)
Definition layout_consistent (s : st) : Prop :=
  (* the headers tile the file: first at the end of the index, each next one where the previous ends, the last
     ends at the end of the file, sizes positive multiples of the page size (so sorted, contiguous, disjoint) *)
  tilesb (data_start nb) (heap s) (fsize s) = true /\
  exists (bl : N -> list N) (el : list N),
    (forall b, b < nb -> chain (heap s) (iget b s) (bl b) /\ NoDup (bl b)) /\
    chain (heap s) (eidx s) el /\ NoDup el /\
    (forall x hd, hget x (heap s) = Some hd ->
       match h_body hd with
       | Obj n _ d => In x (bl (bucket n)) /\ (forall b, b < nb -> In x (bl b) -> b = bucket n) /\ ~ In x el
                      /\ h_size hd = page_object_size msz n d
       | Empty => In x el /\ forall b, b < nb -> ~ In x (bl b)
       end) /\
    (forall b x, b < nb -> In x (bl b) -> hget x (heap s) <> None) /\
    (forall x, In x el -> hget x (heap s) <> None) /\
    names_unique (heap s).

Lemma Inv_layout s : Inv s -> layout_consistent s.
Proof.
  intros (cl & C & T & I). split; [apply tiling_tilesb; exact T|].
  exists (fun b => cl (Some b)), (cl None).
  split; [intros b Hb; split; [apply (c_chain _ _ _ _ _ _ C (Some b) Hb) | apply (c_nodup _ _ _ _ _ _ C (Some b) Hb)]|].
  split; [apply (c_chain _ _ _ _ _ _ C None Logic.I)|]. split; [apply (c_nodup _ _ _ _ _ _ C None Logic.I)|].
  split; [|split; [|split; [|apply (c_names _ _ _ _ _ _ C)]]].
  - intros x hd Hx. pose proof (c_linked _ _ _ _ _ _ C x hd (fun H => H) Hx) as Hl. unfold Inv.key_of in Hl.
    destruct (h_body hd) as [|n m d] eqn:Eb.
    + split; [exact Hl|]. intros b Hb Hin.
      assert (Some b = None) by (eapply (chains_disjoint nb msz bucket [] s cl); eauto; exact Logic.I). discriminate.
    + split; [exact Hl|]. split; [|split].
      * intros b Hb Hin. assert (Some b = Some (bucket n)) by (eapply (chains_disjoint nb msz bucket [] s cl); eauto; apply bucket_lt). congruence.
      * intros Hin. assert (None = Some (bucket n)) by (eapply (chains_disjoint nb msz bucket [] s cl); eauto; [exact Logic.I | apply bucket_lt]). discriminate.
      * eapply (c_sizes _ _ _ _ _ _ C); eauto.
  - intros b x Hb Hin. destruct (c_kind _ _ _ _ _ _ C (Some b) x Hb Hin) as (hd & E & _). congruence.
  - intros x Hin. destruct (c_kind _ _ _ _ _ _ C None x Logic.I Hin) as (hd & E & _). congruence.
Qed.

(* ---- the executable check implies the invariant -------------------------------------------------------------------- *)
Lemma nodupN_NoDup l : nodupN l = true -> NoDup l.
Proof.
  induction l as [|x l IH]; cbn [nodupN]; [constructor|]. rewrite andb_true_iff, negb_true_iff. intros (H1 & H2).
  constructor; [|apply IH; exact H2]. intros Hin. assert (existsb (N.eqb x) l = true); [|congruence].
  apply existsb_exists. exists x. split; [exact Hin | apply N.eqb_refl].
Qed.

Lemma memN_In x l : memN x l = true -> In x l.
Proof. unfold memN. intros H. apply existsb_exists in H. destruct H as (y & Hy & E). apply N.eqb_eq in E. subst y. exact Hy. Qed.

Lemma nodupb_NoDup l : nodupb l = true -> NoDup l.
Proof.
  induction l as [|x l IH]; cbn [nodupb]; [constructor|]. rewrite andb_true_iff, negb_true_iff. intros (H1 & H2).
  constructor; [|apply IH; exact H2]. intros Hin. assert (existsb (leqb x) l = true); [|congruence].
  apply existsb_exists. exists x. split; [exact Hin | apply leqb_refl].
Qed.

Lemma names_unique_of_nodup h : ksorted h -> NoDup (map e_name (heap_objects h)) -> names_unique h.
Proof.
  induction h as [|[k s] t IH]; intros Hs Hnd; [intros x x' hd hd' n m d m' d' H; discriminate|].
  pose proof Hs as [Hlb Hs']. cbn [heap_objects] in Hnd.
  assert (Hnt : NoDup (map e_name (heap_objects t))) by (destruct (h_body s); [exact Hnd | cbn [map] in Hnd; inversion Hnd; assumption]).
  specialize (IH Hs' Hnt).
  assert (Hk : forall y v, hget y ((k, s) :: t) = Some v -> (y = k /\ v = s) \/ (y <> k /\ hget y t = Some v)).
  { intros y v. rewrite hget_cons. destruct (N.eqb_spec y k); [intros E; injection E as <-; auto | auto]. }
  assert (Hhead : forall n m d y hd m' d', h_body s = Obj n m d -> hget y t = Some hd -> h_body hd = Obj n m' d' -> False).
  { intros n m d y hd m' d' Eb Hy Hb. rewrite Eb in Hnd. cbn [map] in Hnd. inversion Hnd as [|? ? Hn _]; subst. apply Hn.
    change (e_name (n, m, d)) with n. apply in_map_iff. exists (n, m', d'). split; [reflexivity|].
    apply (in_heap_objects t _ _ _ Hs'). exists y. apply objf_some. eauto. }
  intros x x' hd hd' n m d m' d' A A' B B'.
  destruct (Hk _ _ A) as [(-> & ->)|(Hx & At)], (Hk _ _ A') as [(-> & ->)|(Hx' & At')].
  - reflexivity.
  - exfalso. eapply Hhead; eauto.
  - exfalso. eapply Hhead; eauto.
  - eapply IH; eauto.
Qed.

Lemma inv_b_Inv s : inv_b nb msz bucket s = true -> Inv s.
Proof.
  unfold inv_b. rewrite !andb_true_iff. intros (((((H1 & H2) & H3) & H4) & H5) & H6).
  pose proof (tilesb_tiling _ _ _ H1) as T. pose proof (t_sorted _ _ _ T) as Hs.
  unfold idx_okb in H2. apply andb_true_iff in H2. destruct H2 as (H2a & H2b). apply ksortedb_spec in H2a.
  set (cl := fun k : key => match chain_of s (head s k) with Some l => l | None => [] end).
  unfold empty_chain_okb in H3. change (eidx s) with (head s None) in H3.
  destruct (chain_of s (head s None)) as [el|] eqn:Eel; [|congruence]. rewrite !andb_true_iff in H3. destruct H3 as ((H3a & H3b) & H3c).
  assert (Hb : forall b, b < nb -> exists l, chain_of s (head s (Some b)) = Some l /\ NoDup l /\
            forall x, In x l -> exists hd n m d, hget x (heap s) = Some hd /\ h_body hd = Obj n m d /\ bucket n = b).
  { intros b Hbn. pose proof (proj1 (forallb_forall _ _) H4 b (proj2 (in_buckets nb b) Hbn)) as Hc; cbv beta in Hc. unfold bucket_chain_okb in Hc.
    change (iget b s) with (head s (Some b)) in Hc. destruct (chain_of s (head s (Some b))) as [l|]; [|congruence].
    apply andb_true_iff in Hc. destruct Hc as (Hc1 & Hc2). exists l. split; [reflexivity|]. split; [apply nodupN_NoDup; exact Hc1|].
    intros x Hx. pose proof (proj1 (forallb_forall _ _) Hc2 x Hx) as Hxx; cbv beta in Hxx. destruct (hget x (heap s)) as [hd|]; [|congruence].
    destruct (h_body hd) as [|n m d] eqn:Eb; [congruence|]. apply N.eqb_eq in Hxx. exists hd, n, m, d. auto. }
  exists cl. split; [|split].
  - constructor.
    + exact Hs.
    + exact H2a.
    + intros [b|] Hk; unfold cl.
      * destruct (Hb b Hk) as (l & E & _). rewrite E. apply (chain_walk _ (fuel_of s)). exact E.
      * rewrite Eel. apply (chain_walk _ (fuel_of s)). exact Eel.
    + intros [b|] x Hk; unfold cl.
      * destruct (Hb b Hk) as (l & -> & _ & Hl). intros Hx. destruct (Hl x Hx) as (hd & n & m & d & A & B & E). exists hd. split; [exact A|].
        unfold Inv.key_of. rewrite B, E. reflexivity.
      * rewrite Eel. intros Hx. pose proof (proj1 (forallb_forall _ _) H3b x Hx) as Hxx; cbv beta in Hxx. destruct (hget x (heap s)) as [hd|]; [|congruence].
        exists hd. split; [reflexivity|]. unfold Inv.key_of. unfold is_empty in Hxx. destruct (h_body hd); [reflexivity|congruence].
    + intros x hd _ Hx. apply lookup_In in Hx. unfold Inv.key_of, cl. destruct (h_body hd) as [|n m d] eqn:Eb.
      * rewrite Eel. pose proof (proj1 (forallb_forall _ _) H3c _ Hx) as Hxx; cbv beta in Hxx. cbn [fst snd] in Hxx. unfold is_empty in Hxx. rewrite Eb in Hxx.
        apply memN_In. exact Hxx.
      * pose proof (proj1 (forallb_forall _ _) H5 _ Hx) as Hxx; cbv beta in Hxx. cbn [fst snd] in Hxx. rewrite Eb in Hxx. apply andb_true_iff in Hxx.
        destruct Hxx as (_ & Hxx). change (iget (bucket n) s) with (head s (Some (bucket n))) in Hxx.
        destruct (chain_of s (head s (Some (bucket n)))); [apply memN_In; exact Hxx | congruence].
    + intros x k [].
    + intros [b|] Hk; unfold cl; [destruct (Hb b Hk) as (l & -> & Hnd & _); exact Hnd | rewrite Eel; apply nodupN_NoDup; exact H3a].
    + intros x hd n m d Hx Eb. apply lookup_In in Hx. pose proof (proj1 (forallb_forall _ _) H5 _ Hx) as Hxx; cbv beta in Hxx. cbn [fst snd] in Hxx.
      rewrite Eb in Hxx. apply andb_true_iff in Hxx. destruct Hxx as (Hxx & _). apply N.eqb_eq. exact Hxx.
    + apply names_unique_of_nodup; [exact Hs | apply nodupb_NoDup; exact H6].
  - exact T.
  - intros b p Hl. apply lookup_In in Hl. pose proof (proj1 (forallb_forall _ _) H2b _ Hl) as Hxx; cbv beta in Hxx. cbn [fst snd] in Hxx.
    apply andb_true_iff in Hxx. destruct Hxx as (A & B). split; [apply N.ltb_lt; exact A | apply N.eqb_neq, negb_true_iff; exact B].
Qed.

End Seq.
