(* C26: the property as an executable oracle, and the case checker of the
   correspondence run.  No proofs here.

   The reference is a map from names to (meta data, content), kept as a list
   of triples with at most one entry per name ([amap]).  [map_step] is what a
   map answers to an operation.  The oracle [spec_okb] takes an operation
   sequence and, for every operation, what the implementation showed
   afterwards: the operation's result, the result of verify(), the list
   objects() yields and the raw file parsed into a model state.  It demands
     - the result is the map's result (AlreadyExists, NotFound, Inconsistent
       from the check closure, the content),
     - verify() says Ok,
     - objects() yields exactly the map's entries, each once,
     - the raw file holds exactly the map's entries ([heap_objects]),
     - the raw file is laid out consistently ([inv_b]): the headers tile the
       file from the end of the index to the end of the file with positive
       sizes that are multiples of the page size; every object header is in
       the chain of its name's bucket and only there, every empty header in
       the empty chain and only there; chains are duplicate free (so
       acyclic); names are unique; object sizes are the page-rounded minimal
       sizes. *)
From Coq Require Import List NArith Bool.
From RV Require Export Base.KMap C26.Model.
Import ListNotations.
Local Open Scope N_scope.

(* ---- the reference map ----------------------------------------------------- *)
Definition entry : Type := name * N * bytes.
Definition amap := list entry.

Definition e_name (e : entry) : name := fst (fst e).

Fixpoint aget (n : name) (m : amap) : option (N * bytes) :=
  match m with
  | [] => None
  | (n', mt, d) :: t => if leqb n n' then Some (mt, d) else aget n t
  end.
Fixpoint adel (n : name) (m : amap) : amap :=
  match m with
  | [] => []
  | (n', mt, d) :: t => if leqb n n' then adel n t else (n', mt, d) :: adel n t
  end.
Definition aset (n : name) (mt : N) (d : bytes) (m : amap) : amap := (n, mt, d) :: adel n m.

Definition map_step (m : amap) (o : op) : res * amap :=
  match o with
  | Publish n mt d =>
      match aget n m with Some _ => (RAlreadyExists, m) | None => (ROk, aset n mt d m) end
  | Update n mt d c =>
      match aget n m with
      | None => (RNotFound, m)
      | Some (old, _) => match c old with Some e => (RInconsistent e, m) | None => (ROk, aset n mt d m) end
      end
  | Delete n c =>
      match aget n m with
      | None => (RNotFound, m)
      | Some (old, _) => match c old with Some e => (RInconsistent e, m) | None => (ROk, adel n m) end
      end
  | Fetch n => (match aget n m with None => RNotFound | Some (_, d) => RData d end, m)
  | FetchIf n c =>
      (match aget n m with
       | None => RNotFound
       | Some (old, d) => match c old with Some e => RInconsistent e | None => RData d end
       end, m)
  | Reopen => (ROk, m)
  end.

(* AppendArchive::publish against the map *)
Definition map_append (m : amap) (e : entry) : res * amap :=
  let '(n, mt, d) := e in
  match aget n m with Some _ => (RAlreadyExists, m) | None => (ROk, aset n mt d m) end.

(* ---- boolean equalities ------------------------------------------------------ *)
Definition opt_eqb {A} (f : A -> A -> bool) (a b : option A) : bool :=
  match a, b with Some x, Some y => f x y | None, None => true | _, _ => false end.
Definition val_eqb (a b : N * bytes) : bool := (fst a =? fst b) && leqb (snd a) (snd b).
Definition entry_eqb (a b : entry) : bool :=
  leqb (e_name a) (e_name b) && (snd (fst a) =? snd (fst b)) && leqb (snd a) (snd b).
Fixpoint list_eqb {A} (f : A -> A -> bool) (a b : list A) : bool :=
  match a, b with
  | [], [] => true
  | x :: a', y :: b' => f x y && list_eqb f a' b'
  | _, _ => false
  end.

Definition res_eqb (a b : res) : bool :=
  match a, b with
  | ROk, ROk | RAlreadyExists, RAlreadyExists | RNotFound, RNotFound | RErr, RErr | RPanic, RPanic => true
  | RInconsistent x, RInconsistent y => x =? y
  | RData x, RData y => leqb x y
  | _, _ => false
  end.
Definition err_eqb (a b : err) : bool :=
  match a, b with ECorrupt, ECorrupt | EPanic, EPanic => true | _, _ => false end.
Definition R_eqb {A} (f : A -> A -> bool) (a b : R A) : bool :=
  match a, b with Ok x, Ok y => f x y | Er x, Er y => err_eqb x y | _, _ => false end.
Definition stats_eqb (a b : stats) : bool :=
  (object_count a =? object_count b) && (object_size a =? object_size b) && (padding_size a =? padding_size b)
  && (empty_count a =? empty_count b) && (empty_size a =? empty_size b) && (empty_min a =? empty_min b)
  && (empty_max a =? empty_max b).
Definition body_eqb (a b : body) : bool :=
  match a, b with
  | Empty, Empty => true
  | Obj n m d, Obj n' m' d' => leqb n n' && (m =? m') && leqb d d'
  | _, _ => false
  end.
Definition hdr_eqb (a b : hdr) : bool :=
  (h_size a =? h_size b) && (h_next a =? h_next b) && body_eqb (h_body a) (h_body b).
Definition st_eqb (a b : st) : bool :=
  (fsize a =? fsize b) && (eidx a =? eidx b)
  && list_eqb (fun x y => (fst x =? fst y) && (snd x =? snd y)) (idx a) (idx b)
  && list_eqb (fun x y => (fst x =? fst y) && hdr_eqb (snd x) (snd y)) (heap a) (heap b).

(* ---- same content -------------------------------------------------------------- *)
Fixpoint nodupb (l : list name) : bool :=
  match l with
  | [] => true
  | x :: t => negb (existsb (leqb x) t) && nodupb t
  end.
Definition sub_content (l m : amap) : bool :=
  forallb (fun e => opt_eqb val_eqb (aget (e_name e) m) (Some (snd (fst e), snd e))) l.
Definition same_content (l m : amap) : bool :=
  nodupb (map e_name l) && sub_content l m && sub_content m l.

(* the entries stored in a heap, in file order *)
Fixpoint heap_objects (h : heap_t) : amap :=
  match h with
  | [] => []
  | (_, s) :: t => match h_body s with Obj n m d => (n, m, d) :: heap_objects t | Empty => heap_objects t end
  end.

(* ---- layout consistency, executable ---------------------------------------------- *)
Fixpoint walk (fuel : nat) (h : heap_t) (p : N) : option (list N) :=
  match fuel with
  | O => None
  | S f =>
      if p =? 0 then Some []
      else match hget p h with
           | None => None
           | Some s => option_map (cons p) (walk f h (h_next s))
           end
  end.

Fixpoint tilesb (lo : N) (h : heap_t) (hi : N) : bool :=
  match h with
  | [] => lo =? hi
  | (k, s) :: t => (k =? lo) && (0 <? h_size s) && (h_size s mod PAGE =? 0) && tilesb (k + h_size s) t hi
  end.

Fixpoint nodupN (l : list N) : bool :=
  match l with
  | [] => true
  | x :: t => negb (existsb (N.eqb x) t) && nodupN t
  end.
Definition memN (x : N) (l : list N) : bool := existsb (N.eqb x) l.

Section Layout.
Variable nb : N.
Variable msz : N.
Variable bucket : name -> N.

Definition chain_of (s : st) (p : N) : option (list N) := walk (fuel_of s) (heap s) p.

Definition idx_okb (s : st) : bool :=
  ksortedb (idx s) && forallb (fun e => (fst e <? nb) && negb (snd e =? 0)) (idx s).

Definition empty_chain_okb (s : st) : bool :=
  match chain_of s (eidx s) with
  | None => false
  | Some el =>
      nodupN el
      && forallb (fun x => match hget x (heap s) with Some hd => is_empty hd | None => false end) el
      && forallb (fun e => if is_empty (snd e) then memN (fst e) el else true) (heap s)
  end.

Definition bucket_chain_okb (s : st) (b : N) : bool :=
  match chain_of s (iget b s) with
  | None => false
  | Some l =>
      nodupN l
      && forallb (fun x => match hget x (heap s) with
                           | Some hd => match h_body hd with Obj n _ _ => bucket n =? b | Empty => false end
                           | None => false
                           end) l
  end.

Definition objects_linked_b (s : st) : bool :=
  forallb (fun e => match h_body (snd e) with
                    | Obj n _ d =>
                        (h_size (snd e) =? page_object_size msz n d)
                        && match chain_of s (iget (bucket n) s) with Some l => memN (fst e) l | None => false end
                    | Empty => true
                    end) (heap s).

Definition inv_b (s : st) : bool :=
  tilesb (data_start nb) (heap s) (fsize s)
  && idx_okb s
  && empty_chain_okb s
  && forallb (bucket_chain_okb s) (buckets nb)
  && objects_linked_b s
  && nodupb (map e_name (heap_objects (heap s))).

(* ---- observations ---------------------------------------------------------------------- *)
Record obs := { o_res : res; o_verify : R stats; o_objects : R amap; o_snap : st }.

Definition obs_of (r : res) (s : st) : obs :=
  {| o_res := r; o_verify := verify nb msz bucket s; o_objects := objects nb s; o_snap := s |}.

Definition model_init (ini : list entry) : list res * st := run_append msz bucket (init nb) ini.
Definition model_obs (ini : list entry) (ops : list op) : list obs :=
  map (fun p => obs_of (fst p) (snd p)) (run msz bucket (snd (model_init ini)) ops).

(* what must hold after a step whose map state is [m] *)
Definition obs_okb (expect : res) (m : amap) (o : obs) : bool :=
  res_eqb (o_res o) expect
  && match o_verify o with Ok _ => true | Er _ => false end
  && match o_objects o with Ok l => same_content l m | Er _ => false end
  && same_content (heap_objects (heap (o_snap o))) m
  && inv_b (o_snap o).

Fixpoint steps_okb (m : amap) (ops : list op) (os : list obs) : bool :=
  match ops, os with
  | [], [] => true
  | o :: ops', ob :: os' =>
      let '(r, m') := map_step m o in obs_okb r m' ob && steps_okb m' ops' os'
  | _, _ => false
  end.

Fixpoint init_okb (m : amap) (ini : list entry) (rs : list res) : option amap :=
  match ini, rs with
  | [], [] => Some m
  | e :: ini', r :: rs' =>
      let '(r', m') := map_append m e in if res_eqb r r' then init_okb m' ini' rs' else None
  | _, _ => None
  end.

(* THE PROPERTY, executable: the archive answered like a map and its file stayed consistent *)
Definition spec_okb (ini : list entry) (ops : list op) (ini_res : list res) (os : list obs) : bool :=
  match init_okb [] ini ini_res with
  | None => false
  | Some m0 => steps_okb m0 ops os
  end.

Definition obs_eqb (a b : obs) : bool :=
  res_eqb (o_res a) (o_res b) && R_eqb stats_eqb (o_verify a) (o_verify b)
  && R_eqb (list_eqb entry_eqb) (o_objects a) (o_objects b) && st_eqb (o_snap a) (o_snap b).

End Layout.

(* ---- cases -------------------------------------------------------------------------------- *)
Record case := {
  c_nb : N; c_msz : N;
  c_buckets : list (name * N);          (* hash_name of every name the case uses, as the archive computed it *)
  c_init : list entry;                  (* published through AppendArchive before the first operation *)
  c_init_impl : list res;
  c_ops : list op;
  c_impl : list obs }.

Fixpoint bucket_of (l : list (name * N)) (n : name) : N :=
  match l with
  | [] => 0
  | (n', b) :: t => if leqb n n' then b else bucket_of t n
  end.

(* 0 model = implementation and the oracle holds on the implementation's output;
   1 oracle holds but model and implementation differ; 2 the oracle fails on the implementation's output;
   9 the case is malformed (bucket count 0 or a bucket outside the index). *)
Definition check_case (c : case) : N :=
  let bucket := bucket_of (c_buckets c) in
  if negb ((0 <? c_nb c) && forallb (fun e => snd e <? c_nb c) (c_buckets c)) then 9
  else if negb (spec_okb (c_nb c) (c_msz c) bucket (c_init c) (c_ops c) (c_init_impl c) (c_impl c)) then 2
  else if list_eqb res_eqb (fst (model_init (c_nb c) (c_msz c) bucket (c_init c))) (c_init_impl c)
          && list_eqb (obs_eqb) (model_obs (c_nb c) (c_msz c) bucket (c_init c) (c_ops c)) (c_impl c)
       then 0 else 1.
