(* C26 proofs, part 8: on a state satisfying [Inv], verify() succeeds and objects() yields exactly the
   stored objects, each once. *)
From Coq Require Import List NArith Lia Bool FinFun.
From RV Require Import Base.KMap C26.Model C26.Basics C26.Chain C26.Spec C26.Tiling C26.Inv C26.Ops C26.Refine C26.InvB.
Import ListNotations.
Local Open Scope N_scope.

(* ---- generic list facts ---------------------------------------------------------------------------- *)
Lemma NoDup_app_intro {A} (l1 l2 : list A) :
  NoDup l1 -> NoDup l2 -> (forall x, In x l1 -> ~ In x l2) -> NoDup (l1 ++ l2).
Proof.
  induction 1 as [|a l1 Ha Hnd IH]; intros H2 Hd; cbn [app]; [exact H2|].
  constructor.
  - intros Hin. apply in_app_or in Hin. destruct Hin as [Hin|Hin]; [contradiction | exact (Hd a (or_introl eq_refl) Hin)].
  - apply IH; [exact H2|]. intros x Hx. apply Hd. right; exact Hx.
Qed.

Lemma NoDup_concat_map {A B} (f : A -> list B) (l : list A) :
  NoDup l -> (forall a, In a l -> NoDup (f a)) ->
  (forall a a' x, In a l -> In a' l -> In x (f a) -> In x (f a') -> a = a') ->
  NoDup (concat (map f l)).
Proof.
  induction 1 as [|a l Ha Hnd IH]; intros H1 H2; cbn [map concat]; [constructor|].
  apply NoDup_app_intro.
  - apply H1. left; reflexivity.
  - apply IH; [intros b Hb; apply H1; right; exact Hb|]. intros b b' x Hb Hb'. apply H2; right; assumption.
  - intros x Hx Hin. apply in_concat in Hin. destruct Hin as (lx & Hlx & Hxl). apply in_map_iff in Hlx.
    destruct Hlx as (b & <- & Hb). assert (a = b) by (eapply H2; eauto; [left; reflexivity | right; exact Hb]). subst b. contradiction.
Qed.

Lemma NoDup_map_in_inj {A B} (f : A -> B) (l : list A) :
  NoDup l -> (forall x y, In x l -> In y l -> f x = f y -> x = y) -> NoDup (map f l).
Proof.
  induction 1 as [|a l Ha Hnd IH]; intros Hinj; cbn [map]; constructor.
  - intros Hin. apply in_map_iff in Hin. destruct Hin as (b & Hb & Hbl).
    assert (b = a) by (apply Hinj; [right; exact Hbl | left; reflexivity | exact Hb]). subst b. contradiction.
  - apply IH. intros x y Hx Hy. apply Hinj; right; assumption.
Qed.

Lemma in_concat_map {A B} (f : A -> list B) (l : list A) x :
  In x (concat (map f l)) <-> exists a, In a l /\ In x (f a).
Proof.
  rewrite in_concat. split.
  - intros (lx & Hlx & Hx). apply in_map_iff in Hlx. destruct Hlx as (a & <- & Ha). eauto.
  - intros (a & Ha & Hx). exists (f a). split; [apply in_map; exact Ha | exact Hx].
Qed.

(* ---- sorting (position, size) pairs ----------------------------------------------------------------- *)
Definition kfold (l : list (N * N)) : list (N * N) := fold_right (fun x acc => kinsert (fst x) (snd x) acc) [] l.

Lemma kfold_sorted l : ksorted (kfold l).
Proof. induction l as [|x l IH]; cbn [kfold fold_right]; [exact I | apply kinsert_sorted; exact IH]. Qed.

Lemma kfold_lookup k x l : lookup k (kfold (x :: l)) = if k =? fst x then Some (snd x) else lookup k (kfold l).
Proof. cbn [kfold fold_right]. apply kinsert_lookup. apply kfold_sorted. Qed.

Lemma kfold_lookup_none k l : ~ In k (map fst l) -> lookup k (kfold l) = None.
Proof.
  induction l as [|x l IH]; intros Hn; [reflexivity|]. rewrite kfold_lookup.
  destruct (N.eqb_spec k (fst x)) as [->|]; [exfalso; apply Hn; left; reflexivity | apply IH; intros H; apply Hn; right; exact H].
Qed.

Lemma sinsert_kinsert x l : ksorted l -> lookup (fst x) l = None -> sinsert x l = kinsert (fst x) (snd x) l.
Proof.
  destruct x as [k v]. cbn [fst snd]. induction l as [|[k' v'] t IH]; intros Hs Hl; cbn [sinsert kinsert fst]; [reflexivity|].
  cbn [lookup] in Hl. destruct (N.eqb_spec k k') as [->|Hne]; [discriminate|].
  destruct (N.compare_spec k k') as [E|Hlt|Hgt]; [congruence | |].
  - destruct (N.ltb_spec k k'); [reflexivity|lia].
  - destruct (N.ltb_spec k k'); [lia|]. f_equal. apply IH; [apply Hs | exact Hl].
Qed.

Lemma ssort_kfold l : NoDup (map fst l) -> ssort l = kfold l.
Proof.
  induction l as [|x l IH]; intros Hnd; [reflexivity|]. cbn [map] in Hnd. inversion Hnd as [|? ? Hx Hnd']; subst.
  change (ssort (x :: l)) with (sinsert x (ssort l)). rewrite (IH Hnd'). cbn [kfold fold_right]. fold (kfold l).
  apply sinsert_kinsert; [apply kfold_sorted | apply kfold_lookup_none; exact Hx].
Qed.

Definition sizes (h : heap_t) : list (N * N) := map (fun e => (fst e, h_size (snd e))) h.

Lemma sizes_lb k h : lb k h -> lb k (sizes h).
Proof. intros H k' v Hin. unfold sizes in Hin. apply in_map_iff in Hin. destruct Hin as ([k2 s] & E & Hin). injection E as <- <-. eapply H; exact Hin. Qed.

Lemma sizes_sorted h : ksorted h -> ksorted (sizes h).
Proof.
  induction h as [|[k s] t IH]; cbn [sizes map ksorted]; [auto|]. intros [Hlb Hs]. split; [apply (sizes_lb k t Hlb) | apply IH; exact Hs].
Qed.

Lemma sizes_lookup k h : lookup k (sizes h) = szf h k.
Proof.
  unfold szf, hget. induction h as [|[k' s] t IH]; cbn [sizes map lookup fst snd]; [reflexivity|].
  destruct (k =? k'); [reflexivity | exact IH].
Qed.

Lemma consecutive_sizes h : forall lo hi, tilesb lo h hi = true -> consecutive (sizes h) = true.
Proof.
  induction h as [|[k s] t IH]; intros lo hi; cbn [tilesb sizes map consecutive]; [reflexivity|].
  rewrite !andb_true_iff. intros (((H1 & H2) & H3) & H4). destruct t as [|[k' s'] t']; [reflexivity|].
  cbn [map fst snd]. pose proof H4 as H4'. cbn [tilesb] in H4'. rewrite !andb_true_iff in H4'. destruct H4' as (((E & _) & _) & _).
  apply andb_true_iff. split; [exact E|]. apply (IH _ _ H4).
Qed.

(* the size found at a position *)
Definition szat (h : heap_t) (x : N) : N := match hget x h with Some s => h_size s | None => 0 end.
Definition pairs (h : heap_t) (l : list N) : list (N * N) := map (fun x => (x, szat h x)) l.

Lemma pairs_keys h l : map fst (pairs h l) = l.
Proof. unfold pairs. rewrite map_map. cbn. apply map_id. Qed.

Lemma kfold_pairs_lookup h k l : lookup k (kfold (pairs h l)) = if in_dec N.eq_dec k l then Some (szat h k) else None.
Proof.
  induction l as [|x l IH]; [reflexivity|]. cbn [pairs map]. fold (pairs h l). rewrite kfold_lookup. cbn [fst snd].
  destruct (N.eqb_spec k x) as [->|Hne].
  - destruct (in_dec N.eq_dec x (x :: l)) as [_|Hn]; [reflexivity | exfalso; apply Hn; left; reflexivity].
  - rewrite IH. destruct (in_dec N.eq_dec k l) as [Hi|Hn], (in_dec N.eq_dec k (x :: l)) as [Hi'|Hn']; try reflexivity.
    + exfalso. apply Hn'. right; exact Hi.
    + exfalso. destruct Hi' as [->|Hi']; [congruence|contradiction].
Qed.

Section Observe.
Variables (nb msz : N) (bucket : name -> N).
Hypothesis bucket_lt : forall n, bucket n < nb.

Notation Chains := (Chains nb msz bucket).

(* all linked positions: the bucket chains in index order, then the empty chain *)
Definition bucket_positions (cl : key -> list N) : list N := concat (map (fun b => cl (Some b)) (buckets nb)).

Lemma bucket_positions_nodup s cl : Chains [] s cl -> NoDup (bucket_positions cl).
Proof.
  intros C. apply NoDup_concat_map; [apply nodup_buckets | |].
  - intros b Hb. apply in_buckets in Hb. apply (c_nodup _ _ _ _ _ _ C (Some b) Hb).
  - intros b b' x Hb Hb' Hx Hx'. apply in_buckets in Hb, Hb'.
    assert (Some b = Some b') by (eapply (chains_disjoint nb msz bucket [] s cl); eauto). congruence.
Qed.

Lemma in_bucket_positions s cl x : Chains [] s cl ->
  (In x (bucket_positions cl) <-> exists e, objf (heap s) x = Some e).
Proof.
  intros C. unfold bucket_positions. rewrite in_concat_map. split.
  - intros (b & Hb & Hx). apply in_buckets in Hb. destruct (c_kind _ _ _ _ _ _ C (Some b) x Hb Hx) as (hd & E & Ek).
    unfold Inv.key_of in Ek. destruct (h_body hd) as [|n m d] eqn:Eb; [discriminate|]. exists (n, m, d). apply objf_some. eauto.
  - intros ([[n m] d] & He). apply objf_some in He. destruct He as (hd & E & Eb). exists (bucket n). split; [apply in_buckets, bucket_lt|].
    pose proof (c_linked _ _ _ _ _ _ C x hd (fun H => H) E) as Hl. unfold Inv.key_of in Hl. rewrite Eb in Hl. exact Hl.
Qed.

Lemma all_positions s cl x : Chains [] s cl ->
  (In x (bucket_positions cl ++ cl None) <-> hget x (heap s) <> None).
Proof.
  intros C. rewrite in_app_iff. split.
  - intros [H|H].
    + apply (in_bucket_positions s cl x C) in H. destruct H as (e & He). unfold objf in He. destruct (hget x (heap s)); congruence.
    + destruct (c_kind _ _ _ _ _ _ C None x Logic.I H) as (hd & E & _). congruence.
  - intros H. destruct (hget x (heap s)) as [hd|] eqn:E; [|congruence].
    pose proof (c_linked _ _ _ _ _ _ C x hd (fun H => H) E) as Hl. unfold Inv.key_of in Hl.
    destruct (h_body hd) as [|n m d] eqn:Eb; [right; exact Hl|]. left. apply (in_bucket_positions s cl x C). exists (n, m, d). apply objf_some; eauto.
Qed.

Lemma all_positions_nodup s cl : Chains [] s cl -> NoDup (bucket_positions cl ++ cl None).
Proof.
  intros C. apply NoDup_app_intro; [eapply bucket_positions_nodup; eauto | apply (c_nodup _ _ _ _ _ _ C None Logic.I) |].
  intros x Hx Hn. apply (in_bucket_positions s cl x C) in Hx. destruct Hx as (e & He).
  destruct (c_kind _ _ _ _ _ _ C None x Logic.I Hn) as (hd & E & Ek). unfold objf in He. rewrite E in He.
  unfold Inv.key_of in Ek. destruct (h_body hd); discriminate.
Qed.

(* ---- verify ---------------------------------------------------------------------------------------------- *)
Lemma verify_chain_spec h b l : forall fuel p acc,
  chain h p l -> (length l < fuel)%nat ->
  (forall x, In x l -> exists hd, hget x h = Some hd /\ bucket (seg_name hd) = b) ->
  exists t', verify_chain msz bucket fuel h p b acc = Ok (fst acc ++ pairs h l, t').
Proof.
  unfold chain. induction l as [|x l IH]; intros fuel p acc Hc Hf Hk; (destruct fuel as [|fuel]; [cbn in Hf; lia|]);
    cbn [verify_chain cseg] in *.
  - subst p. cbn. exists (snd acc). rewrite app_nil_r. destruct acc; reflexivity.
  - destruct Hc as (-> & Hx & s & Hs & Hc). destruct (N.eqb_spec x 0); [congruence|]. rewrite Hs.
    destruct (Hk x (or_introl eq_refl)) as (hd & E & Eb). rewrite Hs in E. injection E as <-. rewrite Eb, N.eqb_refl. cbn [negb].
    destruct acc as [objs t].
    match goal with |- context [verify_chain _ _ _ _ _ _ ?a] =>
      destruct (IH fuel (h_next s) a Hc ltac:(cbn in Hf; lia) ltac:(intros y Hy; apply Hk; right; exact Hy)) as (t' & E) end.
    rewrite E. exists t'. cbn [fst pairs map]. unfold szat. rewrite Hs. rewrite <- app_assoc. reflexivity.
Qed.

Lemma verify_empty_spec h l : forall fuel p acc,
  chain h p l -> (length l < fuel)%nat ->
  exists t', verify_empty fuel h p acc = Ok (fst acc ++ pairs h l, t').
Proof.
  unfold chain. induction l as [|x l IH]; intros fuel p acc Hc Hf; (destruct fuel as [|fuel]; [cbn in Hf; lia|]);
    cbn [verify_empty cseg] in *.
  - subst p. cbn. exists (snd acc). rewrite app_nil_r. destruct acc; reflexivity.
  - destruct Hc as (-> & Hx & s & Hs & Hc). destruct (N.eqb_spec x 0); [congruence|]. rewrite Hs.
    destruct acc as [objs t].
    match goal with |- context [verify_empty _ _ _ ?a] =>
      destruct (IH fuel (h_next s) a Hc ltac:(cbn in Hf; lia)) as (t' & E) end.
    rewrite E. exists t'. cbn [fst pairs map]. unfold szat. rewrite Hs. rewrite <- app_assoc. reflexivity.
Qed.

Lemma verify_ok s : Inv nb msz bucket s -> exists t, verify nb msz bucket s = Ok t.
Proof.
  intros (cl & C & T & I). pose proof (c_sorted _ _ _ _ _ _ C) as Hs.
  unfold verify.
  assert (Hfold : forall bs acc, (forall b, In b bs -> b < nb) ->
            exists t', fold_left (fun acc b => do a <- acc; verify_chain msz bucket (fuel_of s) (heap s) (iget b s) b a) bs (Ok acc)
                       = Ok (fst acc ++ concat (map (fun b => pairs (heap s) (cl (Some b))) bs), t')).
  { induction bs as [|b bs IH]; intros acc Hb; cbn [fold_left map concat].
    - exists (snd acc). rewrite app_nil_r. destruct acc; reflexivity.
    - cbn [bind]. assert (Hbn : b < nb) by (apply Hb; left; reflexivity).
      destruct (verify_chain_spec (heap s) b (cl (Some b)) (fuel_of s) (iget b s) acc
                  (c_chain _ _ _ _ _ _ C (Some b) Hbn) (chains_fuel nb msz bucket [] s cl (Some b) C Hbn)) as (t1 & E1).
      { intros x Hx. destruct (c_kind _ _ _ _ _ _ C (Some b) x Hbn Hx) as (hd & E & Ek). exists hd. split; [exact E|].
        unfold Inv.key_of in Ek. unfold seg_name. destruct (h_body hd); [discriminate|]. injection Ek as ->. reflexivity. }
      rewrite E1. destruct (IH (fst acc ++ pairs (heap s) (cl (Some b)), t1)) as (t' & E); [intros b' Hb'; apply Hb; right; exact Hb'|].
      rewrite E. exists t'. cbn [fst]. rewrite <- app_assoc. reflexivity. }
  destruct (Hfold (buckets nb) ([], stats0)) as (t1 & E1); [intros b Hb; apply in_buckets; exact Hb|].
  rewrite E1. cbn [bind fst app].
  destruct (verify_empty_spec (heap s) (cl None) (fuel_of s) (eidx s)
              (concat (map (fun b => pairs (heap s) (cl (Some b))) (buckets nb)), t1)
              (c_chain _ _ _ _ _ _ C None Logic.I) (chains_fuel nb msz bucket [] s cl None C Logic.I)) as (t2 & E2).
  rewrite E2. cbn [bind fst snd].
  assert (EL : concat (map (fun b => pairs (heap s) (cl (Some b))) (buckets nb)) ++ pairs (heap s) (cl None)
               = pairs (heap s) (bucket_positions cl ++ cl None)).
  { unfold pairs at 3. rewrite map_app. f_equal. unfold bucket_positions. rewrite concat_map, map_map. reflexivity. }
  rewrite EL. set (P := bucket_positions cl ++ cl None).
  assert (HP : NoDup P) by (eapply all_positions_nodup; eauto).
  rewrite ssort_kfold by (rewrite pairs_keys; exact HP).
  assert (Eq : kfold (pairs (heap s) P) = sizes (heap s)).
  { apply ksorted_ext; [apply kfold_sorted | apply sizes_sorted; exact Hs|]. intros k. rewrite kfold_pairs_lookup, sizes_lookup.
    unfold szf, szat. destruct (in_dec N.eq_dec k P) as [Hi|Hn].
    - apply (all_positions s cl k C) in Hi. destruct (hget k (heap s)); [reflexivity|congruence].
    - destruct (hget k (heap s)) eqn:E; [|reflexivity]. exfalso. apply Hn. apply (all_positions s cl k C). congruence. }
  rewrite Eq, (consecutive_sizes _ _ _ (tiling_tilesb _ _ _ T)). eexists; reflexivity.
Qed.

(* ---- objects --------------------------------------------------------------------------------------------- *)
Definition ent (h : heap_t) (x : N) : entry := match objf h x with Some e => e | None => ([], 0, []) end.

Lemma chain_items_spec h l : forall fuel p,
  chain h p l -> (length l < fuel)%nat -> (forall x, In x l -> exists e, objf h x = Some e) ->
  chain_items fuel h p = Ok (map (ent h) l).
Proof.
  unfold chain. induction l as [|x l IH]; intros fuel p Hc Hf Hk; (destruct fuel as [|fuel]; [cbn in Hf; lia|]);
    cbn [chain_items cseg map] in *.
  - subst p. reflexivity.
  - destruct Hc as (-> & Hx & s & Hs & Hc). destruct (N.eqb_spec x 0); [congruence|]. rewrite Hs.
    destruct (Hk x (or_introl eq_refl)) as (e & He). unfold ent at 1. rewrite He. unfold objf in He. rewrite Hs in He.
    unfold seg_meta, seg_name, seg_data. destruct (h_body s) as [|n1 m1 d1]; [discriminate|]. injection He as <-.
    rewrite (IH fuel (h_next s) Hc) by (cbn in Hf; lia || (intros y Hy; apply Hk; right; exact Hy)). reflexivity.
Qed.

Lemma rconcat_ok {A B} (f : A -> R (list B)) (g : A -> list B) (l : list A) :
  (forall a, In a l -> f a = Ok (g a)) -> rconcat (map f l) = Ok (concat (map g l)).
Proof.
  induction l as [|a l IH]; intros H; cbn [map rconcat concat]; [reflexivity|].
  rewrite (H a (or_introl eq_refl)). cbn [bind]. rewrite IH by (intros b Hb; apply H; right; exact Hb). reflexivity.
Qed.

Lemma objects_spec s cl : Chains [] s cl ->
  objects nb s = Ok (map (ent (heap s)) (bucket_positions cl)).
Proof.
  intros C. unfold objects, bucket_positions. rewrite concat_map, map_map.
  apply rconcat_ok. intros b Hb. apply in_buckets in Hb.
  apply chain_items_spec; [apply (c_chain _ _ _ _ _ _ C (Some b) Hb) | eapply chains_fuel; eauto|].
  intros x Hx. apply (in_bucket_positions s cl x C). unfold bucket_positions. apply in_concat_map. exists b. split; [apply in_buckets; exact Hb|exact Hx].
Qed.

Lemma objects_ok s : Inv nb msz bucket s ->
  exists l, objects nb s = Ok l /\ NoDup (map e_name l) /\ forall e, In e l <-> In e (heap_objects (heap s)).
Proof.
  intros (cl & C & T & I). pose proof (c_sorted _ _ _ _ _ _ C) as Hs. pose proof (c_names _ _ _ _ _ _ C) as Hu.
  rewrite (objects_spec s cl C). eexists. split; [reflexivity|].
  assert (Hent : forall x, In x (bucket_positions cl) -> objf (heap s) x = Some (ent (heap s) x)).
  { intros x Hx. apply (in_bucket_positions s cl x C) in Hx. destruct Hx as (e & He). unfold ent. rewrite He. reflexivity. }
  split.
  - rewrite map_map. apply NoDup_map_in_inj; [eapply bucket_positions_nodup; eauto|].
    intros x y Hx Hy E. pose proof (Hent x Hx) as Ex. pose proof (Hent y Hy) as Ey.
    destruct (ent (heap s) x) as [[n m] d], (ent (heap s) y) as [[n' m'] d']. cbn in E. subst n'.
    eapply (proj1 (nu_objf (heap s)) Hu); eauto.
  - intros [[n m] d]. rewrite (in_heap_objects (heap s) n m d Hs). rewrite in_map_iff. split.
    + intros (x & Ex & Hx). exists x. rewrite (Hent x Hx), Ex. reflexivity.
    + intros (x & Hx). exists x. assert (Hin : In x (bucket_positions cl)) by (apply (in_bucket_positions s cl x C); eauto).
      split; [|exact Hin]. pose proof (Hent x Hin) as E. rewrite Hx in E. injection E as <-. reflexivity.
Qed.

End Observe.
