(* C26 — The object archive behaves like a map and stays consistent.
   Only statements, [exact], an [Example] and [Check] pins.

   Setting: [nb] = bucket count of the archive, [msz] = Meta::SIZE, [bucket] = ArchiveMeta::hash_name (SipHash with the
   file's key, modulo nb) as an arbitrary function with [bucket n < nb].  Model = coq/C26/Model.v (src/utils/archive.rs).
   [Inv nb msz bucket s]: the headers of [s] tile the file and the chains partition them (Refine.v, Inv.v);
   [layout_consistent] is the same in plain terms (Seq.v); [inv_b] is its executable form (Spec.v).
   [content (heap s)] : name -> option (meta, data) is the abstraction function; [fstep]/[frun] are a map's answers. *)
From Coq Require Import List NArith Bool.
From RV Require Import Base.KMap C26.Model C26.Basics C26.Chain C26.Spec C26.Tiling C26.Inv C26.Ops C26.Refine
  C26.InvB C26.Observe C26.SpecProofs C26.Seq.
Import ListNotations.
Local Open Scope N_scope.

(* (1)+(2) one operation: the invariant is preserved, the result is the map's result, and the abstraction commutes *)
Theorem C26_step : forall nb msz bucket, (forall n, bucket n < nb) -> forall s o,
  Inv nb msz bucket s ->
  Inv nb msz bucket (snd (step msz bucket s o))
  /\ fst (step msz bucket s o) = fst (fstep (content (heap s)) o)
  /\ forall n, content (heap (snd (step msz bucket s o))) n = snd (fstep (content (heap s)) o) n.
Proof. exact step_refines. Qed.

(* (1)+(2) every operation sequence, from every consistent state: all results are the map's results, every
   intermediate state is consistent, the final content is the map's final state *)
Theorem C26_sequences : forall nb msz bucket, (forall n, bucket n < nb) -> forall ops s,
  Inv nb msz bucket s ->
  map fst (run msz bucket s ops) = fst (frun (content (heap s)) ops)
  /\ Forall (Inv nb msz bucket) (map snd (run msz bucket s ops))
  /\ Inv nb msz bucket (final msz bucket s ops)
  /\ forall n, content (heap (final msz bucket s ops)) n = snd (frun (content (heap s)) ops) n.
Proof. exact run_refines. Qed.

(* a freshly created archive is consistent and empty *)
Theorem C26_init : forall nb msz bucket, Inv nb msz bucket (init nb) /\ forall n, content (heap (init nb)) n = None.
Proof. intros. split; [apply Inv_init | intros; reflexivity]. Qed.

(* AppendArchive::publish (archives created by the snapshot writer): same statement as for Archive::publish *)
Theorem C26_append_archive : forall nb msz bucket, (forall n, bucket n < nb) -> forall s n m d,
  Inv nb msz bucket s ->
  Inv nb msz bucket (snd (append_publish msz bucket s n m d))
  /\ fst (append_publish msz bucket s n m d) = fst (fstep (content (heap s)) (Publish n m d))
  /\ forall n', content (heap (snd (append_publish msz bucket s n m d))) n'
                = snd (fstep (content (heap s)) (Publish n m d)) n'.
Proof. exact append_publish_refines. Qed.

(* (2) what the invariant says, in plain terms: tiling without gap or overlap, page-multiple sizes, every object
   in exactly the chain of its bucket, every empty header in exactly the empty chain, chains duplicate free
   (hence acyclic), chain members are live headers, names unique, object sizes page-rounded *)
Theorem C26_layout : forall nb msz bucket, (forall n, bucket n < nb) -> forall s,
  Inv nb msz bucket s -> layout_consistent nb msz bucket s.
Proof. exact Inv_layout. Qed.

(* the executable check used on the implementation's raw file decides the invariant *)
Theorem C26_layout_check_exact : forall nb msz bucket, (forall n, bucket n < nb) -> forall s,
  inv_b nb msz bucket s = true <-> Inv nb msz bucket s.
Proof. intros nb msz bucket H s. split; [apply inv_b_Inv | apply Inv_inv_b; exact H]. Qed.

(* verify() succeeds on every consistent state *)
Theorem C26_verify_ok : forall nb msz bucket, (forall n, bucket n < nb) -> forall s,
  Inv nb msz bucket s -> exists t, verify nb msz bucket s = Ok t.
Proof. exact verify_ok. Qed.

(* objects() yields exactly the stored objects, each name once *)
Theorem C26_objects_exact : forall nb msz bucket, (forall n, bucket n < nb) -> forall s,
  Inv nb msz bucket s ->
  exists l, objects nb s = Ok l /\ NoDup (map e_name l)
    /\ forall n m d, In (n, m, d) l <-> content (heap s) n = Some (m, d).
Proof.
  intros nb msz bucket H s HI. destruct (objects_ok nb msz bucket H s HI) as (l & E & Hnd & Hin).
  exists l. split; [exact E|]. split; [exact Hnd|]. intros n m d. rewrite Hin.
  destruct HI as (cl & W). destruct (WF_sorted _ _ _ _ _ _ W) as (Hs & Hu).
  unfold content. symmetry. apply aget_iff_in. apply names_nodup; assumption.
Qed.

(* the oracle evaluated on the implementation's output is satisfied by the model on every input *)
Theorem C26_model_satisfies_spec : forall nb msz bucket, (forall n, bucket n < nb) -> forall ini ops,
  spec_okb nb msz bucket ini ops (fst (model_init nb msz bucket ini)) (model_obs nb msz bucket ini ops) = true.
Proof. exact model_satisfies_spec. Qed.

(* premises are satisfiable and the statement is not vacuous: two buckets, names hashed by their first byte;
   a hole is created and partly reused (split), an update moves an object into the exactly fitting rest and leaves
   an empty header behind, a refused check leaves everything unchanged, the tail is truncated *)
Definition ex_bucket (n : name) : N := match n with x :: _ => x mod 2 | [] => 0 end.
Definition ex_ops : list op :=
  [Publish [1] 10 (rep 100 7); Publish [3] 11 (rep 600 8); Publish [2] 12 (rep 100 9); Publish [1] 13 [];
   Delete [3] chk_ok; Publish [5] 14 (rep 200 6); Update [1] 15 (rep 300 5) (chk_eq 10 99);
   Update [1] 16 [] (chk_eq 10 98); Fetch [1]; Delete [2] chk_ok; FetchIf [5] (chk_fail 97); Fetch [3]].

Example C26_nonvacuous :
  (forall n, ex_bucket n < 2)
  /\ map fst (run 4 ex_bucket (init 2) ex_ops)
     = [ROk; ROk; ROk; RAlreadyExists; ROk; ROk; ROk; RInconsistent 98; RData (rep 300 5); ROk; RInconsistent 97; RNotFound]
  /\ map (fun e => (fst e, h_size (snd e), is_empty (snd e))) (heap (final 4 ex_bucket (init 2) ex_ops))
     = [(54, 256, true); (310, 256, false); (566, 512, false)]
  /\ fsize (final 4 ex_bucket (init 2) ex_ops) = 1078
  /\ inv_b 2 4 ex_bucket (final 4 ex_bucket (init 2) ex_ops) = true.
Proof.
  split; [intros [|x n]; cbn; [reflexivity | apply N.mod_lt; discriminate]|].
  vm_compute. repeat split; reflexivity.
Qed.

Check C26_step : forall nb msz bucket, (forall n, bucket n < nb) -> forall s o,
  Inv nb msz bucket s ->
  Inv nb msz bucket (snd (step msz bucket s o))
  /\ fst (step msz bucket s o) = fst (fstep (content (heap s)) o)
  /\ forall n, content (heap (snd (step msz bucket s o))) n = snd (fstep (content (heap s)) o) n.
Check C26_sequences : forall nb msz bucket, (forall n, bucket n < nb) -> forall ops s,
  Inv nb msz bucket s ->
  map fst (run msz bucket s ops) = fst (frun (content (heap s)) ops)
  /\ Forall (Inv nb msz bucket) (map snd (run msz bucket s ops))
  /\ Inv nb msz bucket (final msz bucket s ops)
  /\ forall n, content (heap (final msz bucket s ops)) n = snd (frun (content (heap s)) ops) n.
Check C26_layout : forall nb msz bucket, (forall n, bucket n < nb) -> forall s,
  Inv nb msz bucket s -> layout_consistent nb msz bucket s.
Check C26_layout_check_exact : forall nb msz bucket, (forall n, bucket n < nb) -> forall s,
  inv_b nb msz bucket s = true <-> Inv nb msz bucket s.
Check C26_model_satisfies_spec : forall nb msz bucket, (forall n, bucket n < nb) -> forall ini ops,
  spec_okb nb msz bucket ini ops (fst (model_init nb msz bucket ini)) (model_obs nb msz bucket ini ops) = true.
