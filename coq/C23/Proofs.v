(* C23: every crash state of every run of the (fixed) store is, for the
   readers of the next process, a state that a completed prefix of the run's
   actions produces; no reader fails on it; and the invariant that makes
   this true survives the crash (so the argument repeats for later runs). *)
From Coq Require Import List NArith ZArith Lia Bool.
From RV Require Import Base.Bytes Base.Fs C28.Model C28.Proofs C23.Model C23.Prefix.
Import ListNotations.
Local Open Scope N_scope.

(* ------------------------------------------------------------------ *)
(* paths *)

Lemma path_eqb_spec a b : reflect (a = b) (path_eqb a b).
Proof.
  destruct a as [|i|i|i], b as [|j|j|j]; cbn [path_eqb]; try (constructor; congruence).
  all: destruct (N.eqb_spec i j); constructor; congruence.
Qed.

Lemma supd_same f p v : supd f p v p = v.
Proof. apply (upd_same path_eqb path_eqb_spec). Qed.
Lemma supd_other f p v q : q <> p -> supd f p v q = f q.
Proof. apply (upd_other path_eqb path_eqb_spec). Qed.

(* agreement on everything that is not a temporary file *)
Definition agree (f g : sfs) : Prop := forall q, is_tmp q = false -> f q = g q.

Lemma agree_refl f : agree f f.
Proof. intros q _. reflexivity. Qed.
Lemma agree_sym f g : agree f g -> agree g f.
Proof. intros H q Hq. symmetry. apply H; exact Hq. Qed.
Lemma agree_trans f g h : agree f g -> agree g h -> agree f h.
Proof. intros H1 H2 q Hq. rewrite H1, H2 by exact Hq. reflexivity. Qed.

Lemma tmp_not_touched (o : sop) q tmp :
  is_tmp q = false ->
  match o with Create p | Write p _ | Remove p | SetLen p _ => p = PTmp tmp | Rename _ _ => False end ->
  touches path_eqb o q = false.
Proof.
  intros Hq Ho. destruct o as [p|p d|a b|p|p n]; try contradiction; subst; cbn [touches];
    destruct q; cbn in *; congruence.
Qed.

Section Proofs.
Variables rv hv : list N -> bool.
Hypothesis hv_nonempty : hv [] = false.

Notation point_view := (point_view rv hv).
Notation view := (view rv hv).
Notation steps_of := (steps_of rv hv).
Notation run_action := (run_action rv hv).
Notation run_actions := (run_actions rv hv).
Notation steps_of_run := (steps_of_run rv hv).
Notation crash_state := (crash_state rv hv).
Notation wf_action := (wf_action rv hv).

Definition view_eq (f g : sfs) : Prop := forall p, view f p = view g p.

Lemma view_eq_refl f : view_eq f f.
Proof. intros p. reflexivity. Qed.

Lemma agree_view_eq f g : agree f g -> view_eq f g.
Proof.
  intros H p. destruct p as [|i|i|i]; unfold Model.view;
    [rewrite (H PStatus eq_refl) | rewrite (H (PTa i) eq_refl) | rewrite (H (PPoint i) eq_refl) | ]; reflexivity.
Qed.

(* ------------------------------------------------------------------ *)
(* what the readers return on what the writers write *)

Lemma enc_object_nonempty o : (1 <= length (enc_object o))%nat.
Proof.
  unfold enc_object, enc_uri, enc_u32. rewrite !app_length, be_enc_length. lia.
Qed.

Lemma flat_map_length_ge objs : (length objs <= length (flat_map enc_object objs))%nat.
Proof.
  induction objs as [|o objs IH]; [cbn; lia|].
  cbn [flat_map length]. rewrite app_length. pose proof (enc_object_nonempty o). lia.
Qed.

Lemma read_objs_ok objs : forall fuel,
  forallb (wf_object rv) objs = true -> (length objs < fuel)%nat ->
  read_objs rv fuel (flat_map enc_object objs) = Some objs.
Proof.
  induction objs as [|o objs IH]; intros fuel Hw Hf; (destruct fuel as [|f]; [lia|]).
  - reflexivity.
  - cbn [forallb] in Hw. apply andb_true_iff in Hw as [Ho Hw].
    cbn [flat_map read_objs]. rewrite (rt_object rv o _ Ho).
    rewrite IH by (try exact Hw; cbn [length] in Hf; lia). reflexivity.
Qed.

(* a completely written point file reads back as written *)
Lemma view_full h t m objs :
  wf_header rv hv h = true -> h_status h = Success t -> wf_manifest rv m = true ->
  forallb (wf_object rv) objs = true ->
  point_view (Some (enc_header h ++ enc_manifest m ++ flat_map enc_object objs)) = PVData m objs.
Proof.
  intros Hh Hs Hm Ho. unfold Model.point_view.
  rewrite (rt_header rv hv hv_nonempty h _ Hh), Hs.
  rewrite (rt_manifest rv m _ Hm).
  rewrite read_objs_ok; [reflexivity | exact Ho | pose proof (flat_map_length_ge objs); lia].
Qed.

(* any prefix of a LastAttempt header (also the empty and the whole one) is "no data" *)
Lemma view_la_prefix h t b e :
  wf_header rv hv h = true -> h_status h = LastAttempt t -> enc_header h = b ++ e ->
  point_view (Some b) = PVNone.
Proof.
  intros Hh Hs He. unfold Model.point_view.
  pose proof (rt_header rv hv hv_nonempty h [] Hh) as Hrt. rewrite app_nil_r in Hrt.
  destruct (strict_prefix _ h _ b e (pref_read_header rv hv) Hrt He) as [E | [_ E]]; rewrite E.
  - reflexivity.
  - rewrite Hs. reflexivity.
Qed.

(* ... and if the header can be read at all, it is the whole header *)
Lemma la_prefix_read h b e h' rest :
  wf_header rv hv h = true -> enc_header h = b ++ e ->
  run (read_header rv hv) b = Ok (h', rest) -> h' = h /\ e = [].
Proof.
  intros Hh He Hr.
  pose proof (rt_header rv hv hv_nonempty h [] Hh) as Hrt. rewrite app_nil_r in Hrt.
  destruct (strict_prefix _ h _ b e (pref_read_header rv hv) Hrt He) as [E | [E1 E]]; rewrite E in Hr.
  - discriminate.
  - inversion Hr; subst. split; reflexivity.
Qed.

Lemma status_view_written t : time_okb t = true -> status_view (Some (enc_stored_status t)) = SVSome t.
Proof.
  intros H. unfold status_view. pose proof (rt_stored_status t [] H) as E. rewrite app_nil_r in E.
  rewrite E. reflexivity.
Qed.

(* ------------------------------------------------------------------ *)
(* the invariant of the store directory *)

Definition la_prefix (b : list N) : Prop :=
  exists h t e, wf_header rv hv h = true /\ h_status h = LastAttempt t /\ enc_header h = b ++ e.

Definition full_point (b : list N) : Prop :=
  exists h t m objs, wf_header rv hv h = true /\ h_status h = Success t /\ wf_manifest rv m = true /\
    forallb (wf_object rv) objs = true /\ b = enc_header h ++ enc_manifest m ++ flat_map enc_object objs.

Definition Inv (f : sfs) : Prop :=
  (forall i b, f (PPoint i) = Some b -> la_prefix b \/ full_point b) /\
  (forall b, f PStatus = Some b -> exists t, time_okb t = true /\ b = enc_stored_status t).

Lemma inv_empty : Inv (@fs_empty path).
Proof. split; intros; discriminate. Qed.

Lemma inv_agree f g : agree f g -> Inv f -> Inv g.
Proof.
  intros H [I1 I2]. split.
  - intros i b E. apply (I1 i). rewrite (H (PPoint i) eq_refl). exact E.
  - intros b E. apply I2. rewrite (H PStatus eq_refl). exact E.
Qed.

(* no reader fails on a state that satisfies the invariant *)
Definition point_ok (v : pview) : Prop :=
  match v with PVFailed | PVBroken => False | _ => True end.

Lemma inv_point_ok f i : Inv f -> point_ok (point_view (f (PPoint i))).
Proof.
  intros [I1 _]. destruct (f (PPoint i)) as [b|] eqn:E; [|exact I].
  destruct (I1 i b E) as [(h & t & e & Hh & Hs & He) | (h & t & m & objs & Hh & Hs & Hm & Ho & ->)].
  - rewrite (view_la_prefix h t b e Hh Hs He). exact I.
  - rewrite (view_full h t m objs Hh Hs Hm Ho). exact I.
Qed.

Lemma inv_status_ok f : Inv f -> status_view (f PStatus) <> SVFailed.
Proof.
  intros [_ I2]. destruct (f PStatus) as [b|] eqn:E; [|discriminate].
  destruct (I2 b eq_refl) as (t & Ht & ->). rewrite (status_view_written t Ht). discriminate.
Qed.

(* ------------------------------------------------------------------ *)
(* crash states of the two program shapes *)

(* truncate in place, then write [d] *)
Lemma inplace_crash p d f n cut :
  let g := scrash n cut [Create p; Write p d] f in
  (forall q, g q = f q) \/ exists c, forall q, g q = supd f p (Some (firstn c d)) q.
Proof.
  intros g. subst g. unfold crash_at.
  destruct n as [|[|n]]; cbn [firstn nth_error].
  - left. intros q. destruct cut; reflexivity.
  - right. destruct cut as [c|].
    + exists (N.to_nat c). intros q. cbn [tear run_ops fold_left step].
      rewrite (upd_same path_eqb path_eqb_spec). cbn [app].
      unfold upd. destruct (path_eqb q p); reflexivity.
    + exists O. intros q. cbn [run_ops fold_left step firstn]. reflexivity.
  - right. exists (length d). intros q.
    assert (E : run_ops path_eqb [Create p; Write p d] f q = supd f p (Some d) q).
    { cbn [run_ops fold_left step]. rewrite (upd_same path_eqb path_eqb_spec). cbn [app].
      unfold upd. destruct (path_eqb q p); reflexivity. }
    rewrite firstn_all, firstn_nil.
    assert (En : nth_error (@nil (op path)) n = None) by (destruct n; reflexivity). rewrite En.
    destruct cut; exact E.
Qed.

Lemma inplace_run p d f q : srun [Create p; Write p d] f q = supd f p (Some d) q.
Proof.
  cbn [run_ops fold_left step]. rewrite (upd_same path_eqb path_eqb_spec). cbn [app].
  unfold upd. destruct (path_eqb q p); reflexivity.
Qed.

(* temporary file: create, append the pieces *)
Definition tmp_pre (tmp : N) (ds : list (list N)) : list sop :=
  Create (PTmp tmp) :: map (Write (PTmp tmp)) ds.

Lemma tmp_pre_untouched tmp ds q :
  is_tmp q = false -> forallb (fun o => negb (touches path_eqb o q)) (tmp_pre tmp ds) = true.
Proof.
  intros Hq. apply forallb_forall. intros o Ho. apply negb_true_iff.
  apply (tmp_not_touched o q tmp Hq).
  destruct Ho as [<- | Ho]; [reflexivity|].
  apply in_map_iff in Ho as (d & <- & _). reflexivity.
Qed.

Lemma tmp_pre_content tmp ds f : srun (tmp_pre tmp ds) f (PTmp tmp) = Some (concat ds).
Proof.
  unfold tmp_pre. rewrite run_ops_cons.
  rewrite (run_writes path_eqb path_eqb_spec (PTmp tmp) ds _ []); [reflexivity|].
  cbn [step]. apply (upd_same path_eqb path_eqb_spec).
Qed.

Lemma tmp_pre_agree tmp ds f : agree (srun (tmp_pre tmp ds) f) f.
Proof.
  intros q Hq. apply (run_ops_frame path_eqb). apply tmp_pre_untouched; exact Hq.
Qed.

Lemma tmp_pre_crash_agree tmp ds f n cut : agree (scrash n cut (tmp_pre tmp ds) f) f.
Proof.
  intros q Hq. apply (crash_at_frame path_eqb). apply tmp_pre_untouched; exact Hq.
Qed.

(* ... then rename over [dst] *)
Lemma tmp_rename_run tmp ds dst f :
  is_tmp dst = false ->
  agree (srun (tmp_pre tmp ds ++ [Rename (PTmp tmp) dst]) f) (supd f dst (Some (concat ds))).
Proof.
  intros Hd q Hq. rewrite run_ops_app.
  set (f1 := srun (tmp_pre tmp ds) f).
  cbn [run_ops fold_left step].
  assert (N1 : path_eqb (PTmp tmp) dst = false) by (destruct dst; cbn in *; congruence).
  rewrite N1. unfold f1 at 1. rewrite tmp_pre_content.
  assert (N2 : q <> PTmp tmp) by (intros ->; discriminate).
  rewrite (upd_other path_eqb path_eqb_spec) by exact N2.
  unfold upd. destruct (path_eqb q dst); [reflexivity|].
  apply tmp_pre_agree; exact Hq.
Qed.

Lemma tmp_rename_crash tmp ds dst f n cut :
  is_tmp dst = false ->
  let g := scrash n cut (tmp_pre tmp ds ++ [Rename (PTmp tmp) dst]) f in
  agree g f \/ agree g (supd f dst (Some (concat ds))).
Proof.
  intros Hd g. subst g.
  destruct (Nat.lt_ge_cases n (length (tmp_pre tmp ds))) as [Hlt|Hge].
  - left. rewrite crash_at_app_l by exact Hlt. apply tmp_pre_crash_agree.
  - rewrite crash_at_app_r by exact Hge.
    destruct (n - length (tmp_pre tmp ds))%nat as [|k] eqn:K.
    + left. unfold crash_at. cbn [firstn nth_error tear run_ops fold_left].
      destruct cut; apply tmp_pre_agree.
    + right. rewrite crash_at_end by (cbn [length]; lia).
      pose proof (tmp_rename_run tmp ds dst f Hd) as H. rewrite run_ops_app in H. exact H.
Qed.

(* ... or drop it *)
Lemma tmp_remove_crash tmp ds f n cut :
  agree (scrash n cut (tmp_pre tmp ds ++ [Remove (PTmp tmp)]) f) f.
Proof.
  intros q Hq. apply (crash_at_frame path_eqb).
  rewrite forallb_app. rewrite tmp_pre_untouched by exact Hq. cbn [forallb touches].
  destruct q; cbn in *; try reflexivity; discriminate.
Qed.

Lemma ops_of_tmp_steps l1 l2 tmp pieces target :
  ops_of (tmp_steps l1 l2 tmp pieces target) =
  tmp_pre tmp (map snd pieces) ++
  [match target with Some p => Rename (PTmp tmp) p | None => Remove (PTmp tmp) end].
Proof.
  unfold ops_of, tmp_steps, tmp_pre. cbn [map]. rewrite map_app, !map_map. cbn [map k_op].
  destruct target; reflexivity.
Qed.

(* ------------------------------------------------------------------ *)
(* one action *)

Lemma inv_supd_point f i b : Inv f -> (la_prefix b \/ full_point b) -> Inv (supd f (PPoint i) (Some b)).
Proof.
  intros [I1 I2] Hb. split.
  - intros j c E. destruct (N.eqb_spec j i) as [->|Hn].
    + rewrite supd_same in E. inversion E; subst. exact Hb.
    + rewrite supd_other in E by congruence. apply (I1 j c E).
  - intros c E. rewrite supd_other in E by discriminate. apply I2; exact E.
Qed.

Lemma inv_feq f g : (forall q, g q = f q) -> Inv f -> Inv g.
Proof. intros H. apply inv_agree. intros q _. symmetry. apply H. Qed.

Lemma view_eq_feq f g : (forall q, g q = f q) -> view_eq g f.
Proof. intros H. apply agree_view_eq. intros q _. apply H. Qed.

(* create / LastAttempt rewrite / reject: truncate, then write a LastAttempt header *)
Lemma header_inplace i h t f n cut :
  wf_header rv hv h = true -> h_status h = LastAttempt t -> Inv f ->
  let prog := [Create (PPoint i); Write (PPoint i) (enc_header h)] in
  let g := scrash n cut prog f in
  Inv g /\ (view_eq g f \/ view_eq g (srun prog f)).
Proof.
  intros Hh Hs HI prog g.
  destruct (inplace_crash (PPoint i) (enc_header h) f n cut) as [E | [c E]]; fold prog in E; fold g in E.
  - split; [apply (inv_feq f g E HI) | left; apply view_eq_feq; exact E].
  - assert (Hp : la_prefix (firstn c (enc_header h))).
    { exists h, t, (skipn c (enc_header h)). repeat split; try assumption. symmetry. apply firstn_skipn. }
    split.
    + apply (inv_feq (supd f (PPoint i) (Some (firstn c (enc_header h))))); [exact E|].
      apply inv_supd_point; [exact HI | left; exact Hp].
    + right. unfold prog. intros p. unfold Model.view.
      destruct p as [|j|j|j]; try (rewrite E, (inplace_run (PPoint i)); rewrite !supd_other by discriminate; reflexivity).
      * rewrite E, (inplace_run (PPoint i)).
        destruct (N.eqb_spec j i) as [->|Hn].
        -- rewrite !supd_same.
           rewrite (view_la_prefix h t (firstn c (enc_header h)) (skipn c (enc_header h)) Hh Hs)
             by (symmetry; apply firstn_skipn).
           rewrite (view_la_prefix h t (enc_header h) [] Hh Hs) by (rewrite app_nil_r; reflexivity).
           reflexivity.
        -- rewrite !supd_other by congruence. reflexivity.
      * reflexivity.
Qed.

Lemma header_inplace_run i h t f :
  wf_header rv hv h = true -> h_status h = LastAttempt t -> Inv f ->
  Inv (srun [Create (PPoint i); Write (PPoint i) (enc_header h)] f).
Proof.
  intros Hh Hs HI.
  destruct (header_inplace i h t f 2 None Hh Hs HI) as [H _].
  rewrite crash_at_end in H by (cbn; lia). exact H.
Qed.

Lemma wf_header_la uri nt t t' :
  wf_header rv hv (mkHeader uri nt (LastAttempt t)) = true -> time_okb t' = true ->
  wf_header rv hv (mkHeader uri nt (LastAttempt t')) = true.
Proof.
  unfold wf_header. cbn [h_manifest_uri h_rpki_notify h_status wf_status].
  intros H Ht. apply andb_true_iff in H as [H _]. rewrite H, Ht. reflexivity.
Qed.

Lemma wf_header_time uri nt s : wf_header rv hv (mkHeader uri nt s) = true -> wf_status s = true.
Proof. unfold wf_header. cbn [h_status]. intros H. apply andb_true_iff in H as [_ H]. exact H. Qed.

(* temporary file + rename onto a path that is not temporary *)
Lemma tmp_action l1 l2 tmp pieces dst f n cut :
  is_tmp dst = false -> Inv f ->
  Inv (supd f dst (Some (concat (map snd pieces)))) ->
  let prog := ops_of (tmp_steps l1 l2 tmp pieces (Some dst)) in
  let g := scrash n cut prog f in
  Inv g /\ (view_eq g f \/ view_eq g (srun prog f)).
Proof.
  intros Hd HI HI' prog g. subst g prog. rewrite ops_of_tmp_steps.
  pose proof (tmp_rename_run tmp (map snd pieces) dst f Hd) as Hrun.
  destruct (tmp_rename_crash tmp (map snd pieces) dst f n cut Hd) as [E | E].
  - split; [apply (inv_agree f); [apply agree_sym; exact E | exact HI] | left; apply agree_view_eq; exact E].
  - split; [apply (inv_agree _ _ (agree_sym _ _ E)); exact HI'|].
    right. apply agree_view_eq. apply (agree_trans _ _ _ E). apply agree_sym. exact Hrun.
Qed.

Lemma inv_supd_other f p v :
  match p with PPoint _ | PStatus => False | _ => True end -> Inv f -> Inv (supd f p v).
Proof.
  intros Hp [I1 I2]. split.
  - intros i b E. rewrite supd_other in E by (intros <-; contradiction). apply (I1 i b E).
  - intros b E. rewrite supd_other in E by (intros <-; contradiction). apply I2; exact E.
Qed.

Lemma inv_supd_none f p : Inv f -> Inv (supd f p None).
Proof.
  intros [I1 I2]. split.
  - intros i b E. unfold upd in E. destruct (path_eqb (PPoint i) p); [discriminate|]. apply (I1 i b E).
  - intros b E. unfold upd in E. destruct (path_eqb PStatus p); [discriminate|]. apply I2; exact E.
Qed.

Theorem action_crash a f n cut :
  wf_action a = true -> Inv f ->
  let g := scrash n cut (ops_of (steps_of true a f)) f in
  Inv g /\ (view_eq g f \/ view_eq g (run_action true a f)).
Proof.
  intros Hw HI. unfold Model.run_action.
  assert (Hnil : forall g, g = scrash n cut [] f -> Inv g /\ (view_eq g f \/ view_eq g (srun [] f))).
  { intros g ->. unfold crash_at. rewrite firstn_nil.
    assert (E : nth_error (@nil (op path)) n = None) by (destruct n; reflexivity). rewrite E.
    assert (G : (match cut with Some _ => run_ops path_eqb [] f | None => run_ops path_eqb [] f end) = f)
      by (destruct cut; reflexivity).
    rewrite G. split; [exact HI | left; apply view_eq_refl]. }
  destruct a as [i uri nt t | i tmp uri nt t m objs commit | i uri nt t | tmp t | i tmp content | p | tmp];
    cbn [Model.wf_action] in Hw.
  - (* open *)
    assert (Hcreate : let prog := ops_of (create_steps i uri nt t) in
                      let g := scrash n cut prog f in Inv g /\ (view_eq g f \/ view_eq g (srun prog f))).
    { apply (header_inplace i (mkHeader uri nt (LastAttempt t)) t f n cut Hw eq_refl HI). }
    cbn [Model.steps_of].
    destruct (f (PPoint i)) as [b|] eqn:Eb; [|exact Hcreate].
    destruct (run (read_header rv hv) b) as [[h rest]| | |pn] eqn:Er; try exact Hcreate.
    + destruct (h_status h) as [ts|tl] eqn:Es.
      * apply Hnil. reflexivity.
      * (* rewrite: the header on disk is a whole LastAttempt header *)
        destruct HI as [I1 I2]. pose proof (I1 i b Eb) as Hb.
        assert (Hh : wf_header rv hv h = true).
        { destruct Hb as [(h0 & t0 & e & Hh0 & Hs0 & He) | (h0 & t0 & m & objs & Hh0 & Hs0 & Hm & Ho & ->)].
          - destruct (la_prefix_read h0 b e h rest Hh0 He Er) as [-> _]. exact Hh0.
          - rewrite (rt_header rv hv hv_nonempty h0 _ Hh0) in Er. inversion Er; subst. congruence. }
        assert (Hh' : wf_header rv hv (mkHeader (h_manifest_uri h) (h_rpki_notify h) (LastAttempt t)) = true).
        { pose proof (wf_header_time _ _ _ Hw) as Ht. cbn [wf_status] in Ht.
          destruct h as [u nn s]. cbn [h_status] in Es. subst s.
          cbn [h_manifest_uri h_rpki_notify]. apply (wf_header_la u nn tl t Hh Ht). }
        apply (header_inplace i _ t f n cut Hh' eq_refl (conj I1 I2)).
    + apply Hnil. reflexivity.
  - (* update *)
    apply andb_true_iff in Hw as [Hw Ho]. apply andb_true_iff in Hw as [Hh Hm].
    cbn [Model.steps_of]. destruct commit.
    + apply tmp_action; [reflexivity | exact HI |].
      cbn [map snd concat]. rewrite map_map. cbn [snd].
      rewrite <- flat_map_concat_map.
      apply inv_supd_point; [exact HI|]. right.
      exists (mkHeader uri nt (Success t)), t, m, objs. repeat split; assumption.
    + rewrite ops_of_tmp_steps.
      pose proof (tmp_remove_crash tmp (map snd ((L_UPDATE_HEADER, enc_header (mkHeader uri nt (Success t)))
        :: (L_UPDATE_MANIFEST, enc_manifest m) :: map (fun o => (L_UPDATE_OBJECT, enc_object o)) objs)) f n cut) as E.
      split; [apply (inv_agree f); [apply agree_sym; exact E | exact HI] | left; apply agree_view_eq; exact E].
  - (* reject *)
    cbn [Model.steps_of].
    apply (header_inplace i (mkHeader uri nt (LastAttempt t)) t f n cut Hw eq_refl HI).
  - (* done *)
    cbn [Model.steps_of]. apply tmp_action; [reflexivity | exact HI |].
    cbn [map snd concat]. rewrite app_nil_r.
    destruct HI as [I1 I2]. split.
    + intros j b E. rewrite supd_other in E by discriminate. apply (I1 j b E).
    + intros b E. rewrite supd_same in E. inversion E; subst. exists t. split; [exact Hw | reflexivity].
  - (* update_ta *)
    cbn [Model.steps_of]. apply tmp_action; [reflexivity | exact HI |].
    apply inv_supd_other; [exact I | exact HI].
  - (* remove *)
    cbn [Model.steps_of ops_of map k_op]. unfold crash_at.
    destruct n as [|n]; cbn [firstn nth_error].
    + assert (G : (match cut with Some c => run_ops path_eqb (tear c (Remove p)) (run_ops path_eqb [] f)
                                | None => run_ops path_eqb [] f end) = f) by (destruct cut; reflexivity).
      rewrite G. split; [exact HI | left; apply view_eq_refl].
    + rewrite firstn_nil.
      assert (E : nth_error (@nil (op path)) n = None) by (destruct n; reflexivity). rewrite E.
      assert (G : (match cut with Some _ => run_ops path_eqb [Remove p] f | None => run_ops path_eqb [Remove p] f end)
                  = srun [Remove p] f) by (destruct cut; reflexivity).
      rewrite G. split; [|right; apply view_eq_refl].
      cbn [run_ops fold_left step]. apply inv_supd_none; exact HI.
  - (* a leftover temporary file *)
    cbn [Model.steps_of ops_of map k_op].
    assert (E : agree (scrash n cut [Create (PTmp tmp)] f) f).
    { intros q Hq. apply (crash_at_frame path_eqb). cbn [forallb touches].
      destruct q; cbn in *; try reflexivity; discriminate. }
    split; [apply (inv_agree f); [apply agree_sym; exact E | exact HI] | left; apply agree_view_eq; exact E].
Qed.

Lemma action_inv a f : wf_action a = true -> Inv f -> Inv (run_action true a f).
Proof.
  intros Hw HI.
  destruct (action_crash a f (length (ops_of (steps_of true a f))) None Hw HI) as [H _].
  rewrite crash_at_end in H by lia. exact H.
Qed.

(* ------------------------------------------------------------------ *)
(* a whole run *)

Lemma run_actions_cons a acts f : run_actions true (a :: acts) f = run_actions true acts (run_action true a f).
Proof. reflexivity. Qed.

Theorem crash_atomic acts : forall f n cut,
  forallb wf_action acts = true -> Inv f ->
  let g := crash_state true acts f n cut in
  Inv g /\ exists j, (j <= length acts)%nat /\ view_eq g (run_actions true (firstn j acts) f).
Proof.
  induction acts as [|a acts IH]; intros f n cut Hw HI g; subst g; unfold Model.crash_state.
  - cbn [Model.steps_of_run ops_of map]. unfold crash_at. rewrite firstn_nil.
    assert (E : nth_error (@nil (op path)) n = None) by (destruct n; reflexivity). rewrite E.
    assert (G : (match cut with Some _ => run_ops path_eqb [] f | None => run_ops path_eqb [] f end) = f)
      by (destruct cut; reflexivity).
    rewrite G. split; [exact HI|]. exists O. split; [lia | apply view_eq_refl].
  - cbn [forallb] in Hw. apply andb_true_iff in Hw as [Ha Hw].
    cbn [Model.steps_of_run]. unfold ops_of. rewrite map_app. fold (ops_of (steps_of true a f)).
    set (p1 := ops_of (steps_of true a f)).
    fold (ops_of (steps_of_run true acts (srun p1 f))).
    destruct (Nat.lt_ge_cases n (length p1)) as [Hlt|Hge].
    + rewrite crash_at_app_l by exact Hlt.
      destruct (action_crash a f n cut Ha HI) as [H1 [H2|H2]]; fold p1 in H1, H2.
      * split; [exact H1|]. exists O. split; [lia | exact H2].
      * split; [exact H1|]. exists 1%nat. split; [cbn [length]; lia | exact H2].
    + rewrite crash_at_app_r by exact Hge.
      pose proof (action_inv a f Ha HI) as HI1. unfold Model.run_action in HI1. fold p1 in HI1.
      destruct (IH (srun p1 f) (n - length p1)%nat cut Hw HI1) as [H1 (j & Hj & H2)].
      unfold Model.crash_state in H1, H2.
      split; [exact H1|]. exists (S j). split; [cbn [length]; lia|].
      cbn [firstn]. rewrite run_actions_cons. exact H2.
Qed.

(* the state a completed run leaves satisfies the invariant as well *)
Theorem run_inv acts : forall f, forallb wf_action acts = true -> Inv f -> Inv (run_actions true acts f).
Proof.
  induction acts as [|a acts IH]; intros f Hw HI; [exact HI|].
  cbn [forallb] in Hw. apply andb_true_iff in Hw as [Ha Hw].
  rewrite run_actions_cons. apply IH; [exact Hw | apply action_inv; assumption].
Qed.

(* no reader of the next process fails on a crash state *)
Theorem crash_not_blocked acts f n cut :
  forallb wf_action acts = true -> Inv f ->
  let g := crash_state true acts f n cut in
  (forall i, point_ok (point_view (g (PPoint i)))) /\ status_view (g PStatus) <> SVFailed.
Proof.
  intros Hw HI g. destruct (crash_atomic acts f n cut Hw HI) as [HIg _]. fold g in HIg.
  split; [intros i; apply inv_point_ok; exact HIg | apply inv_status_ok; exact HIg].
Qed.

(* ------------------------------------------------------------------ *)
(* which prefix: the actions completed before the crash, or one more *)

Fixpoint completed (acts : list action) (f : sfs) (n : nat) : nat :=
  match acts with
  | [] => O
  | a :: rest =>
      let p := ops_of (steps_of true a f) in
      if (length p <=? n)%nat then S (completed rest (srun p f) (n - length p)) else O
  end.

Theorem crash_atomic_at acts : forall f n cut,
  forallb wf_action acts = true -> Inv f ->
  exists j, (j = completed acts f n \/ j = S (completed acts f n)) /\ (j <= length acts)%nat /\
            view_eq (crash_state true acts f n cut) (run_actions true (firstn j acts) f).
Proof.
  induction acts as [|a acts IH]; intros f n cut Hw HI; unfold Model.crash_state.
  - cbn [Model.steps_of_run ops_of map]. unfold crash_at. rewrite firstn_nil.
    assert (E : nth_error (@nil (op path)) n = None) by (destruct n; reflexivity). rewrite E.
    assert (G : (match cut with Some _ => run_ops path_eqb [] f | None => run_ops path_eqb [] f end) = f)
      by (destruct cut; reflexivity).
    rewrite G. exists O. split; [left; reflexivity|]. split; [cbn; lia | apply view_eq_refl].
  - cbn [forallb] in Hw. apply andb_true_iff in Hw as [Ha Hw].
    cbn [Model.steps_of_run completed]. unfold ops_of. rewrite map_app. fold (ops_of (steps_of true a f)).
    set (p1 := ops_of (steps_of true a f)).
    fold (ops_of (steps_of_run true acts (srun p1 f))).
    destruct (Nat.leb_spec (length p1) n) as [Hge|Hlt].
    + rewrite crash_at_app_r by exact Hge.
      pose proof (action_inv a f Ha HI) as HI1. unfold Model.run_action in HI1. fold p1 in HI1.
      destruct (IH (srun p1 f) (n - length p1)%nat cut Hw HI1) as (j & Hj & Hl & H2).
      unfold Model.crash_state in H2.
      exists (S j). split; [destruct Hj as [-> | ->]; [left | right]; reflexivity|].
      split; [cbn [length]; lia|]. cbn [firstn]. rewrite run_actions_cons. exact H2.
    + rewrite crash_at_app_l by exact Hlt.
      destruct (action_crash a f n cut Ha HI) as [_ [H2|H2]]; fold p1 in H2.
      * exists O. split; [left; reflexivity|]. split; [lia | exact H2].
      * exists 1%nat. split; [right; reflexivity|]. split; [cbn [length]; lia | exact H2].
Qed.

(* ------------------------------------------------------------------ *)
(* The next process: what an action makes of the store depends on the state
   only through the views, so two states with equal views stay view-equal
   under every further action (in particular: the crash state and the
   uninterrupted state it is view-equal to). *)

Definition absent_view (p : path) : aview :=
  match p with
  | PPoint _ => AVPoint PVAbsent | PStatus => AVStatus SVAbsent | PTa _ => AVTa None | PTmp _ => AVTmp
  end.

Definition post_view (a : action) (p : path) (old : aview) : aview :=
  match a with
  | AOpen i _ _ _ =>
      if path_eqb p (PPoint i) then
        match old with AVPoint (PVData m objs) => old | _ => AVPoint PVNone end
      else old
  | AUpdate i _ _ _ _ m objs commit =>
      if commit && path_eqb p (PPoint i) then AVPoint (PVData m objs) else old
  | AReject i _ _ _ => if path_eqb p (PPoint i) then AVPoint PVNone else old
  | ADone _ t => if path_eqb p PStatus then AVStatus (SVSome t) else old
  | AUpdateTa i _ content => if path_eqb p (PTa i) then AVTa (Some content) else old
  | ARemove p0 => if path_eqb p p0 then absent_view p else old
  | ATouch _ => old
  end.

Lemma view_supd_other f q v p : p <> q -> view (supd f q v) p = view f p.
Proof. intros H. unfold Model.view. destruct p; try rewrite supd_other by exact H; reflexivity. Qed.

Lemma view_agree f g p : agree f g -> view f p = view g p.
Proof. intros H. apply agree_view_eq; exact H. Qed.

Lemma view_feq f g p : (forall q, g q = f q) -> view g p = view f p.
Proof. intros H. apply view_eq_feq; exact H. Qed.

Lemma header_inplace_view i h t f p :
  wf_header rv hv h = true -> h_status h = LastAttempt t ->
  view (srun [Create (PPoint i); Write (PPoint i) (enc_header h)] f) p =
  if path_eqb p (PPoint i) then AVPoint PVNone else view f p.
Proof.
  intros Hh Hs.
  rewrite (view_feq (supd f (PPoint i) (Some (enc_header h)))) by (intros q; apply inplace_run).
  destruct (path_eqb_spec p (PPoint i)) as [->|Hn].
  - unfold Model.view. rewrite supd_same.
    rewrite (view_la_prefix h t (enc_header h) [] Hh Hs) by (rewrite app_nil_r; reflexivity). reflexivity.
  - apply view_supd_other; exact Hn.
Qed.

Theorem run_action_view a f p :
  wf_action a = true -> Inv f -> view (run_action true a f) p = post_view a p (view f p).
Proof.
  intros Hw HI. unfold Model.run_action.
  destruct a as [i uri nt t | i tmp uri nt t m objs commit | i uri nt t | tmp t | i tmp content | p0 | tmp];
    cbn [Model.wf_action] in Hw; cbn [Model.steps_of post_view].
  - (* open *)
    assert (Hcreate : point_view (f (PPoint i)) = PVAbsent \/ point_view (f (PPoint i)) = PVNone ->
              view (srun (ops_of (create_steps i uri nt t)) f) p =
              (if path_eqb p (PPoint i)
               then match view f p with AVPoint (PVData _ _) => view f p | _ => AVPoint PVNone end
               else view f p)).
    { intros Hv. cbn [create_steps ops_of map k_op].
      rewrite (header_inplace_view i _ t f p Hw eq_refl).
      destruct (path_eqb_spec p (PPoint i)) as [->|Hn]; [|reflexivity].
      unfold Model.view. destruct Hv as [-> | ->]; reflexivity. }
    destruct (f (PPoint i)) as [b|] eqn:Eb; [|apply Hcreate; left; reflexivity].
    destruct HI as [I1 I2]. pose proof (I1 i b Eb) as Hb.
    destruct Hb as [(h0 & t0 & e & Hh0 & Hs0 & He) | (h0 & t0 & m & objs & Hh0 & Hs0 & Hm & Ho & ->)].
    + (* a prefix of a LastAttempt header *)
      pose proof (view_la_prefix h0 t0 b e Hh0 Hs0 He) as Hv.
      destruct (run (read_header rv hv) b) as [[h rest]| | |pn] eqn:Er;
        try (apply Hcreate; right; exact Hv).
      * destruct (la_prefix_read h0 b e h rest Hh0 He Er) as [-> _]. rewrite Hs0.
        cbn [ops_of map k_op].
        assert (Hh' : wf_header rv hv (mkHeader (h_manifest_uri h0) (h_rpki_notify h0) (LastAttempt t)) = true).
        { pose proof (wf_header_time _ _ _ Hw) as Ht. cbn [wf_status] in Ht.
          destruct h0 as [u nn s]. cbn [h_status] in Hs0. subst s.
          cbn [h_manifest_uri h_rpki_notify]. apply (wf_header_la u nn t0 t Hh0 Ht). }
        rewrite (header_inplace_view i _ t f p Hh' eq_refl).
        destruct (path_eqb_spec p (PPoint i)) as [->|Hn]; [|reflexivity].
        unfold Model.view. rewrite Eb, Hv. reflexivity.
      * (* cannot happen: the view would be PVFailed *)
        unfold Model.point_view in Hv. rewrite Er in Hv. discriminate.
    + (* a complete point: the file is only read *)
      rewrite (rt_header rv hv hv_nonempty h0 _ Hh0), Hs0. cbn [ops_of map run_ops fold_left].
      destruct (path_eqb_spec p (PPoint i)) as [->|Hn]; [|reflexivity].
      unfold Model.view. rewrite Eb, (view_full h0 t0 m objs Hh0 Hs0 Hm Ho). reflexivity.
  - (* update *)
    apply andb_true_iff in Hw as [Hw Ho]. apply andb_true_iff in Hw as [Hh Hm].
    rewrite ops_of_tmp_steps. destruct commit; cbn [andb].
    + rewrite (view_agree _ _ p (tmp_rename_run tmp _ (PPoint i) f eq_refl)).
      destruct (path_eqb_spec p (PPoint i)) as [->|Hn]; [|apply view_supd_other; exact Hn].
      unfold Model.view. rewrite supd_same.
      cbn [map snd concat]. rewrite map_map. cbn [snd]. rewrite <- flat_map_concat_map.
      apply f_equal. apply (view_full (mkHeader uri nt (Success t)) t m objs Hh eq_refl Hm Ho).
    + apply view_agree. intros q Hq.
      pose proof (tmp_remove_crash tmp (map snd ((L_UPDATE_HEADER, enc_header (mkHeader uri nt (Success t)))
        :: (L_UPDATE_MANIFEST, enc_manifest m) :: map (fun o => (L_UPDATE_OBJECT, enc_object o)) objs)) f
        (S (length (tmp_pre tmp (map snd ((L_UPDATE_HEADER, enc_header (mkHeader uri nt (Success t)))
        :: (L_UPDATE_MANIFEST, enc_manifest m) :: map (fun o => (L_UPDATE_OBJECT, enc_object o)) objs))))) None q Hq) as E.
      rewrite crash_at_end in E by (rewrite app_length; cbn [length]; lia). exact E.
  - (* reject *)
    cbn [ops_of map k_op]. apply (header_inplace_view i _ t f p Hw eq_refl).
  - (* done *)
    rewrite ops_of_tmp_steps.
    rewrite (view_agree _ _ p (tmp_rename_run tmp _ PStatus f eq_refl)).
    destruct (path_eqb_spec p PStatus) as [->|Hn]; [|apply view_supd_other; exact Hn].
    unfold Model.view. rewrite supd_same. cbn [map snd concat]. rewrite app_nil_r.
    rewrite (status_view_written t Hw). reflexivity.
  - (* update_ta *)
    rewrite ops_of_tmp_steps.
    rewrite (view_agree _ _ p (tmp_rename_run tmp _ (PTa i) f eq_refl)).
    destruct (path_eqb_spec p (PTa i)) as [->|Hn]; [|apply view_supd_other; exact Hn].
    unfold Model.view. rewrite supd_same. cbn [map snd concat]. rewrite app_nil_r. reflexivity.
  - (* remove *)
    cbn [ops_of map k_op run_ops fold_left step].
    destruct (path_eqb_spec p p0) as [->|Hn]; [|apply view_supd_other; exact Hn].
    unfold Model.view, absent_view. destruct p0; try rewrite supd_same; reflexivity.
  - (* leftover temporary file *)
    cbn [ops_of map k_op run_ops fold_left step].
    destruct (path_eqb_spec p (PTmp tmp)) as [->|Hn]; [reflexivity | apply view_supd_other; exact Hn].
Qed.

Theorem next_run_congruent acts : forall f1 f2,
  forallb wf_action acts = true -> Inv f1 -> Inv f2 -> view_eq f1 f2 ->
  view_eq (run_actions true acts f1) (run_actions true acts f2).
Proof.
  induction acts as [|a acts IH]; intros f1 f2 Hw H1 H2 E; [exact E|].
  cbn [forallb] in Hw. apply andb_true_iff in Hw as [Ha Hw].
  rewrite !run_actions_cons. apply IH; [exact Hw | apply action_inv; assumption | apply action_inv; assumption|].
  intros p. rewrite !run_action_view by assumption. rewrite (E p). reflexivity.
Qed.

End Proofs.
