(* C23 model: the file operations the store performs, as programs over
   Base/Fs.v, and the readers that look at the files afterwards.

   Transcribed from the working tree of /repo (with the C23 fix applied):
     src/store.rs   StoredPoint::open  (incl. the LastAttempt rewrite), ::create,
                    ::update/_update   (temporary file, header, manifest, objects, persist = rename),
                    ::reject, Run::done (status file), Run::update_ta, Run::load_ta,
                    Store::status, StoredPoint as Iterator, Run::cleanup (remove_file)
     src/utils/fatal.rs  create_file (File::create: truncating), write_file (fs::write)
   [fixed = false] gives Run::done and Run::update_ta as they were before
   the fix (truncate in place, then write).

   Record encodings and decoders are those of C28/Model.v (tied to the code by
   C27/C28).  A decoder error that is not an I/O error (early EOF, bad format)
   is "non-fatal" (ParseError::is_fatal = false); real I/O errors are not
   modelled.  Directories are not modelled.  Definitions only. *)
From Coq Require Import List NArith ZArith Bool.
From RV Require Export Base.Bytes Base.Fs C28.Model.
Import ListNotations.
Local Open Scope N_scope.

(* ------------------------------------------------------------------ *)
(* paths of the store directory *)

Inductive path :=
| PStatus                 (* stored/status.bin *)
| PTa (i : N)             (* stored/ta/<scheme>/<authority>/<hash>.cer *)
| PPoint (i : N)          (* stored/{rsync,rrdp/...}/rsync/<authority>/<module>/<path of the manifest> *)
| PTmp (i : N).           (* stored/tmp/<random name> *)

Definition path_eqb (a b : path) : bool :=
  match a, b with
  | PStatus, PStatus => true
  | PTa i, PTa j => i =? j
  | PPoint i, PPoint j => i =? j
  | PTmp i, PTmp j => i =? j
  | _, _ => false
  end.

Definition is_tmp (p : path) : bool := match p with PTmp _ => true | _ => false end.

Notation sfs := (fs path).
Notation sop := (op path).
Notation supd := (upd path_eqb).
Notation srun := (run_ops path_eqb).
Notation scrash := (crash_at path_eqb).

(* ------------------------------------------------------------------ *)
(* kill-point labels (the names used by the hooks in src/store.rs) *)

Definition L_NONE : N := 0.            (* an operation no kill point precedes *)
Definition L_CREATE_CREATE : N := 1.   (* point.create.create *)
Definition L_CREATE_HEADER : N := 2.   (* point.create.header *)
Definition L_REWRITE_CREATE : N := 3.  (* point.rewrite.create *)
Definition L_REWRITE_HEADER : N := 4.  (* point.rewrite.header *)
Definition L_UPDATE_TMP : N := 5.      (* point.update.tmp_create *)
Definition L_UPDATE_HEADER : N := 6.   (* point.update.header *)
Definition L_UPDATE_MANIFEST : N := 7. (* point.update.manifest *)
Definition L_UPDATE_OBJECT : N := 8.   (* point.update.object *)
Definition L_UPDATE_PERSIST : N := 9.  (* point.update.persist *)
Definition L_REJECT_CREATE : N := 10.  (* point.reject.create *)
Definition L_REJECT_HEADER : N := 11.  (* point.reject.header *)
Definition L_STATUS_TMP : N := 12.     (* status.tmp_create *)
Definition L_STATUS_WRITE : N := 13.   (* status.write *)
Definition L_STATUS_PERSIST : N := 14. (* status.persist *)
Definition L_TA_TMP : N := 15.         (* ta.tmp_create *)
Definition L_TA_WRITE : N := 16.       (* ta.write *)
Definition L_TA_PERSIST : N := 17.     (* ta.persist *)
Definition L_CLEANUP_REMOVE : N := 18. (* cleanup.remove *)
Definition L_FATAL_CREATE : N := 20.   (* fatal.create_file        (unfixed Run::done) *)
Definition L_FATAL_WRITE_C : N := 22.  (* fatal.write_file.create  (unfixed Run::update_ta) *)
Definition L_FATAL_WRITE_W : N := 23.  (* fatal.write_file.write *)

Record kstep := mkStep { k_lab : N; k_op : sop }.

Section Model.
Variables rv hv : list N -> bool.      (* rpki: which byte strings are rsync / https URIs *)

(* ------------------------------------------------------------------ *)
(* the readers *)

(* `impl Iterator for StoredPoint`: StoredObject::read until Ok(None); an
   error ends the iteration with an error *)
Fixpoint read_objs (fuel : nat) (b : list N) : option (list object) :=
  match fuel with
  | O => None
  | S f =>
      match run (read_object rv) b with
      | Ok (Some o, b') => option_map (cons o) (read_objs f b')
      | Ok (None, _) => Some []
      | _ => None
      end
  end.

(* what StoredPoint::open (and then the engine) finds at the path of a point *)
Inductive pview :=
| PVAbsent                                   (* no file: the point is created *)
| PVNone                                     (* a file without usable data: header unreadable (non-fatally: the
                                                point is created anew) or status LastAttempt *)
| PVData (m : manifest) (objs : list object) (* header Success, manifest and all objects *)
| PVFailed                                   (* header Success but the manifest cannot be read: Err(Failed), the run ends *)
| PVBroken.                                  (* an object cannot be read: the engine rejects the point *)

Definition point_view (ob : option (list N)) : pview :=
  match ob with
  | None => PVAbsent
  | Some b =>
      match run (read_header rv hv) b with
      | Ok (h, rest) =>
          match h_status h with
          | LastAttempt _ => PVNone
          | Success _ =>
              match run (read_manifest rv) rest with
              | Ok (m, rest') =>
                  match read_objs (S (length rest')) rest' with
                  | Some objs => PVData m objs
                  | None => PVBroken
                  end
              | _ => PVFailed
              end
          end
      | Panic _ => PVFailed
      | _ => PVNone
      end
  end.

(* Store::status *)
Inductive sview := SVAbsent | SVSome (t : Z) | SVFailed.
Definition status_view (ob : option (list N)) : sview :=
  match ob with
  | None => SVAbsent
  | Some b => match run read_stored_status b with Ok (t, _) => SVSome t | _ => SVFailed end
  end.

(* Run::load_ta returns the bytes; Cert::decode is outside the model *)
Inductive aview := AVPoint (v : pview) | AVStatus (s : sview) | AVTa (b : option (list N)) | AVTmp.

(* what the readers of the next process see at a path *)
Definition view (f : sfs) (p : path) : aview :=
  match p with
  | PPoint _ => AVPoint (point_view (f p))
  | PStatus => AVStatus (status_view (f p))
  | PTa _ => AVTa (f p)
  | PTmp _ => AVTmp                            (* temporary files are never read (cleanup removes them) *)
  end.

(* ------------------------------------------------------------------ *)
(* the writers *)

Inductive action :=
(* Repository::get_point -> StoredPoint::open(path, manifest_uri, rpki_notify) at time t *)
| AOpen (i : N) (uri : list N) (notify : option (list N)) (t : Z)
(* StoredPoint::update at time t on a point whose in-memory header has [uri]/[notify];
   [objs] = the objects the closure delivered; [commit = false]: the closure
   then returned Err(Abort) and the temporary file was dropped *)
| AUpdate (i tmp : N) (uri : list N) (notify : option (list N)) (t : Z)
          (m : manifest) (objs : list object) (commit : bool)
(* StoredPoint::reject at time t *)
| AReject (i : N) (uri : list N) (notify : option (list N)) (t : Z)
(* Run::done at time t *)
| ADone (tmp : N) (t : Z)
(* Run::update_ta *)
| AUpdateTa (i tmp : N) (content : list N)
(* Run::cleanup: fatal::remove_file of one file *)
| ARemove (p : path)
(* not an action of the store: a temporary file left behind by an earlier crash *)
| ATouch (tmp : N).

(* StoredPoint::create: File::create, header.write *)
Definition create_steps (i : N) (uri : list N) (notify : option (list N)) (t : Z) : list kstep :=
  [mkStep L_CREATE_CREATE (Create (PPoint i));
   mkStep L_CREATE_HEADER (Write (PPoint i) (enc_header (mkHeader uri notify (LastAttempt t))))].

(* temporary file, content in pieces, then rename over the target or drop *)
Definition tmp_steps (l_tmp l_persist : N) (tmp : N) (pieces : list (N * list N)) (target : option path) : list kstep :=
  mkStep l_tmp (Create (PTmp tmp))
  :: map (fun ld => mkStep (fst ld) (Write (PTmp tmp) (snd ld))) pieces
  ++ [match target with
      | Some p => mkStep l_persist (Rename (PTmp tmp) p)
      | None => mkStep L_NONE (Remove (PTmp tmp))
      end].

Definition steps_of (fixed : bool) (a : action) (f : sfs) : list kstep :=
  match a with
  | AOpen i uri notify t =>
      match f (PPoint i) with
      | None => create_steps i uri notify t                              (* NotFound *)
      | Some b =>
          match run (read_header rv hv) b with
          | Ok (h, _) =>
              match h_status h with
              | LastAttempt _ =>
                  (* "We never succeeded. Update the status and return." *)
                  [mkStep L_REWRITE_CREATE (Create (PPoint i));
                   mkStep L_REWRITE_HEADER
                     (Write (PPoint i) (enc_header (mkHeader (h_manifest_uri h) (h_rpki_notify h) (LastAttempt t))))]
              | Success _ => []                                          (* the file is only read *)
              end
          | Panic _ => []
          | _ => create_steps i uri notify t                             (* Err(err) if !err.is_fatal() *)
          end
      end
  | AUpdate i tmp uri notify t m objs commit =>
      tmp_steps L_UPDATE_TMP L_UPDATE_PERSIST tmp
        ((L_UPDATE_HEADER, enc_header (mkHeader uri notify (Success t)))
         :: (L_UPDATE_MANIFEST, enc_manifest m)
         :: map (fun o => (L_UPDATE_OBJECT, enc_object o)) objs)
        (if commit then Some (PPoint i) else None)
  | AReject i uri notify t =>
      [mkStep L_REJECT_CREATE (Create (PPoint i));
       mkStep L_REJECT_HEADER (Write (PPoint i) (enc_header (mkHeader uri notify (LastAttempt t))))]
  | ADone tmp t =>
      if fixed then
        tmp_steps L_STATUS_TMP L_STATUS_PERSIST tmp [(L_STATUS_WRITE, enc_stored_status t)] (Some PStatus)
      else
        [mkStep L_FATAL_CREATE (Create PStatus); mkStep L_STATUS_WRITE (Write PStatus (enc_stored_status t))]
  | AUpdateTa i tmp content =>
      if fixed then
        tmp_steps L_TA_TMP L_TA_PERSIST tmp [(L_TA_WRITE, content)] (Some (PTa i))
      else
        [mkStep L_FATAL_WRITE_C (Create (PTa i)); mkStep L_FATAL_WRITE_W (Write (PTa i) content)]
  | ARemove p => [mkStep L_CLEANUP_REMOVE (Remove p)]
  | ATouch tmp => [mkStep L_NONE (Create (PTmp tmp))]
  end.

Definition ops_of (steps : list kstep) : list sop := map k_op steps.

Definition run_action (fixed : bool) (a : action) (f : sfs) : sfs :=
  srun (ops_of (steps_of fixed a f)) f.

Definition run_actions (fixed : bool) (acts : list action) (f : sfs) : sfs :=
  fold_left (fun g a => run_action fixed a g) acts f.

(* the steps of a whole run: every action sees the state its predecessors left *)
Fixpoint steps_of_run (fixed : bool) (acts : list action) (f : sfs) : list kstep :=
  match acts with
  | [] => []
  | a :: rest =>
      let s := steps_of fixed a f in
      s ++ steps_of_run fixed rest (srun (ops_of s) f)
  end.

(* the state a process kill leaves: after [n] operations of the run, the next
   one (if a write) applied with only [cut] bytes *)
Definition crash_state (fixed : bool) (acts : list action) (f : sfs) (n : nat) (cut : option N) : sfs :=
  scrash n cut (ops_of (steps_of_run fixed acts f)) f.

(* ------------------------------------------------------------------ *)
(* well-formed inputs: what the Rust types guarantee (C28/Model.v) *)

Definition wf_action (a : action) : bool :=
  match a with
  | AOpen _ uri notify t => wf_header rv hv (mkHeader uri notify (LastAttempt t))
  | AUpdate _ _ uri notify t m objs _ =>
      wf_header rv hv (mkHeader uri notify (Success t)) && wf_manifest rv m && forallb (wf_object rv) objs
  | AReject _ uri notify t => wf_header rv hv (mkHeader uri notify (LastAttempt t))
  | ADone _ t => time_okb t
  | AUpdateTa _ _ _ => true
  | ARemove _ => true
  | ATouch _ => true
  end.

End Model.
