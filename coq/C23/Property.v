(* C23 — A crash at any point never corrupts the store or blocks later runs.
   Only statements, [exact], an [Example] of non-vacuity and [Check] pins.

   Setting (C23/Model.v, Base/Fs.v): the store directory is a map from paths
   (status file, trust anchor certificates, publication points, temporary
   files) to byte strings; every store function is the program of file
   operations it performs (create/truncate, append, rename, remove); a process
   kill leaves the state after the first n operations of the run, the next one
   — if it is a write — possibly applied with only its first [cut] bytes
   ([crash_state], for every n and every cut).  The next process looks at the
   files through [view]: what StoredPoint::open + iteration, Store::status and
   Run::load_ta return.  [rv]/[hv] say which byte strings rpki accepts as rsync
   / https URIs (arbitrary; only [hv [] = false] is used).  [Inv] is the
   invariant of the directory (a point file is a prefix of a LastAttempt header
   or a complete Success file; the status file is complete); it holds of the
   empty directory and survives every run and every crash.

   Not modelled: power loss (write-back order, no fsync anywhere), I/O errors,
   directories, the collector's own files (C24), what the engine makes of the
   views (Engine model). *)
From Coq Require Import List NArith ZArith Bool.
From RV Require Import Base.Bytes Base.Fs C28.Model C28.Values C23.Model C23.Prefix C23.Proofs C23.Spec C23.SpecProofs.
Import ListNotations.
Local Open Scope N_scope.

(* For the readers of the next process a crash state is the state after a
   completed prefix of the run's actions: the actions completed before the
   kill, or one more (the action in progress took effect as a whole or not at
   all).  In particular every stored point, every trust anchor certificate and
   the status read as their old or their new complete version. *)
Theorem C23_crash_atomic : forall rv hv, hv [] = false ->
  forall acts f n cut, forallb (wf_action rv hv) acts = true -> Inv rv hv f ->
  exists j, (j = completed rv hv acts f n \/ j = S (completed rv hv acts f n)) /\ (j <= length acts)%nat /\
            view_eq rv hv (crash_state rv hv true acts f n cut) (run_actions rv hv true (firstn j acts) f).
Proof. exact crash_atomic_at. Qed.

(* No reader fails on a crash state: StoredPoint::open never returns
   Err(Failed) (the next run is not blocked), no stored point is found with
   unreadable objects, Store::status never fails (`vrps --update-after`). *)
Theorem C23_not_blocked : forall rv hv, hv [] = false ->
  forall acts f n cut, forallb (wf_action rv hv) acts = true -> Inv rv hv f ->
  (forall i, point_ok (point_view rv hv (crash_state rv hv true acts f n cut (PPoint i)))) /\
  status_view (crash_state rv hv true acts f n cut PStatus) <> SVFailed.
Proof. exact crash_not_blocked. Qed.

(* The invariant: true of the empty directory, kept by completed runs and by
   crashes — hence by any history of runs and crashes. *)
Theorem C23_inv_empty : forall rv hv, Inv rv hv (@fs_empty path).
Proof. exact inv_empty. Qed.
Theorem C23_inv_run : forall rv hv, hv [] = false ->
  forall acts f, forallb (wf_action rv hv) acts = true -> Inv rv hv f -> Inv rv hv (run_actions rv hv true acts f).
Proof. exact run_inv. Qed.
Theorem C23_inv_crash : forall rv hv, hv [] = false ->
  forall acts f n cut, forallb (wf_action rv hv) acts = true -> Inv rv hv f ->
  Inv rv hv (crash_state rv hv true acts f n cut).
Proof. intros rv hv H acts f n cut Hw HI. exact (proj1 (crash_atomic rv hv H acts f n cut Hw HI)). Qed.

(* What an action makes of the store depends on the state only through the
   views: the process that runs after the crash sees, action by action, what
   it would see after the uninterrupted prefix the crash state is equivalent
   to. *)
Theorem C23_next_run_congruent : forall rv hv, hv [] = false ->
  forall acts f1 f2, forallb (wf_action rv hv) acts = true -> Inv rv hv f1 -> Inv rv hv f2 ->
  view_eq rv hv f1 f2 -> view_eq rv hv (run_actions rv hv true acts f1) (run_actions rv hv true acts f2).
Proof. exact next_run_congruent. Qed.

(* A torn header: a strict prefix of a stored-point header (also the empty
   file) is an early end of file for StoredPointHeader::read — the error that
   ParseError::is_fatal classifies as non-fatal, so that `open` re-creates the
   point instead of failing. *)
Theorem C23_torn_header_is_eof : forall rv hv, hv [] = false ->
  forall h b e, wf_header rv hv h = true -> enc_header h = b ++ e -> e <> [] ->
  run (read_header rv hv) b = ErrEof.
Proof.
  intros rv hv H h b e Hh He Hne.
  pose proof (C28.Proofs.rt_header rv hv H h [] Hh) as Hrt. rewrite app_nil_r in Hrt.
  destruct (strict_prefix _ h _ b e (pref_read_header rv hv) Hrt He) as [E | [E _]]; [exact E | contradiction].
Qed.

(* The code before the fix (Run::done and Run::update_ta truncate in place and
   then write): a kill between the two steps leaves an empty status file on
   which Store::status fails, and an empty certificate file that is neither
   the old nor the new certificate. *)
Theorem C23_refuted_before_fix :
  let f0 := run_actions RV HV false [act_of UDone; act_of (UTa 0 0)] (@fs_empty path) in
  status_view (crash_state RV HV false [act_of UDone] f0 1 None PStatus) = SVFailed /\
  let g := crash_state RV HV false [act_of (UTa 0 1)] f0 1 None in
  g (PTa 0) = Some [] /\ f0 (PTa 0) = Some (u_ta 0 0) /\
  run_actions RV HV false [act_of (UTa 0 1)] f0 (PTa 0) = Some (u_ta 0 1).
Proof. vm_compute. repeat split; reflexivity. Qed.

(* the executable oracle evaluated on the implementation's observations holds of the model on every input *)
Theorem C23_model_satisfies_spec : forall c, wf_case c = true -> spec_okb (model_obs c) = true.
Proof. exact model_satisfies_spec. Qed.

(* premises are satisfiable on a non-trivial run; the statement is not vacuous:
   a store with two points and a trust anchor certificate; the next run
   replaces the certificate, updates point 0, visits the never-retrieved
   point 1 and writes the status; it is killed before the rename of point 0's
   new file (after 9 operations) — the readers see the new certificate and both
   points as before; killed in the middle of rewriting point 1's header
   (after 11 operations and 10 bytes of the next write) — point 0 is new, point 1 still "no data". *)
Example C23_nonvacuous :
  let init := map act_of [UTa 0 0; UOpen 0; UUpdate 0 1 2 0 true; UOpen 1; UDone] in
  let run := map act_of [UTa 0 1; UOpen 0; UUpdate 0 2 3 0 true; UOpen 1; UDone] in
  let f := run_actions RV HV true init (@fs_empty path) in
  forallb (wf_action RV HV) (init ++ run) = true /\ Inv RV HV f /\
  length (steps_of_run RV HV true run f) = 15%nat /\
  map (fun p => abs_view (view RV HV f p)) [PStatus; PTa 0; PPoint 0; PPoint 1] =
    [OStatus OSSome; OTa (OTSome 0); OPoint (OData 1 [0; 1]); OPoint ONone] /\
  map (fun p => abs_view (view RV HV (crash_state RV HV true run f 9 None) p)) [PStatus; PTa 0; PPoint 0; PPoint 1] =
    [OStatus OSSome; OTa (OTSome 1); OPoint (OData 1 [0; 1]); OPoint ONone] /\
  map (fun p => abs_view (view RV HV (crash_state RV HV true run f 11 (Some 10)) p)) [PStatus; PTa 0; PPoint 0; PPoint 1] =
    [OStatus OSSome; OTa (OTSome 1); OPoint (OData 2 [0; 1; 2]); OPoint ONone] /\
  crash_state RV HV true run f 11 (Some 10) (PPoint 1) = Some (firstn 10 (enc_header (mkHeader (u_uri 1) (u_notify 1) (LastAttempt T0)))).
Proof.
  split; [vm_compute; reflexivity|]. split.
  - apply (run_inv RV HV C28.SpecProofs.https_validb_nonempty); [vm_compute; reflexivity | apply inv_empty].
  - vm_compute. repeat split; reflexivity.
Qed.

Check C23_crash_atomic : forall rv hv, hv [] = false ->
  forall acts f n cut, forallb (wf_action rv hv) acts = true -> Inv rv hv f ->
  exists j, (j = completed rv hv acts f n \/ j = S (completed rv hv acts f n)) /\ (j <= length acts)%nat /\
            view_eq rv hv (crash_state rv hv true acts f n cut) (run_actions rv hv true (firstn j acts) f).
Check C23_not_blocked : forall rv hv, hv [] = false ->
  forall acts f n cut, forallb (wf_action rv hv) acts = true -> Inv rv hv f ->
  (forall i, point_ok (point_view rv hv (crash_state rv hv true acts f n cut (PPoint i)))) /\
  status_view (crash_state rv hv true acts f n cut PStatus) <> SVFailed.
Check C23_inv_crash : forall rv hv, hv [] = false ->
  forall acts f n cut, forallb (wf_action rv hv) acts = true -> Inv rv hv f ->
  Inv rv hv (crash_state rv hv true acts f n cut).
Check C23_next_run_congruent : forall rv hv, hv [] = false ->
  forall acts f1 f2, forallb (wf_action rv hv) acts = true -> Inv rv hv f1 -> Inv rv hv f2 ->
  view_eq rv hv f1 f2 -> view_eq rv hv (run_actions rv hv true acts f1) (run_actions rv hv true acts f2).
Check C23_model_satisfies_spec : forall c, wf_case c = true -> spec_okb (model_obs c) = true.
