(* C23: what a decoder of C28/Model.v returns on a *prefix* of an input it
   accepts.  [pref_ok r]: if r succeeds on b ++ e, then on b alone it either
   hits the end of the input (ErrEof) or succeeds with the same value having
   consumed the same bytes.  Consequence ([strict_prefix]): a strict prefix of
   the encoding of a value is never accepted and never a format error — it
   is an early end of file, which `ParseError::is_fatal` classifies as
   non-fatal. *)
From Coq Require Import List NArith ZArith Lia Bool.
From RV Require Import Base.Bytes C28.Model C28.Proofs.
Import ListNotations.
Local Open Scope N_scope.

Definition pref_ok {A} (r : reader A) : Prop :=
  forall b e a rest, run r (b ++ e) = Ok (a, rest) ->
    run r b = ErrEof \/ exists rest', run r b = Ok (a, rest') /\ rest = rest' ++ e.

(* ------------------------------------------------------------------ *)
(* runs of bind *)

Lemma bind_inv {A B} (r : reader A) (f : A -> reader B) b x b2 :
  run (bind r f) b = Ok (x, b2) -> exists a b1, run r b = Ok (a, b1) /\ run (f a) b1 = Ok (x, b2).
Proof.
  unfold run, bind. destruct (r b) as [[[a b1]| | |p] t]; cbn [fst]; try discriminate.
  destruct (f a b1) as [y t'] eqn:E. cbn [fst]. intros ->.
  exists a, b1. rewrite E. split; reflexivity.
Qed.

Lemma bind_eof {A B} (r : reader A) (f : A -> reader B) b :
  run r b = ErrEof -> run (bind r f) b = ErrEof.
Proof. unfold run, bind. destruct (r b) as [[[a b1]| | |p] t]; cbn [fst]; try discriminate. reflexivity. Qed.

(* ------------------------------------------------------------------ *)
(* primitives *)

Lemma pref_ret {A} (a : A) : pref_ok (ret a).
Proof.
  intros b e a' rest H. right. unfold run, ret in *. cbn [fst] in *. inversion H; subst.
  exists b. split; reflexivity.
Qed.

Lemma pref_fail_format {A} : pref_ok (@fail_format A).
Proof. intros b e a rest H. discriminate. Qed.

Lemma pref_fail_eof {A} : pref_ok (@fail_eof A).
Proof. intros b e a rest H. discriminate. Qed.

Lemma run_alloc_any n b1 b1' u b : run (alloc n) b1 = Ok (u, b1') -> b1' = b1 /\ run (alloc n) b = Ok (tt, b).
Proof.
  unfold run, alloc. destruct (n <=? ISIZE_MAX); cbn [fst]; intros H; inversion H; subst. split; reflexivity.
Qed.

Lemma pref_alloc n : pref_ok (alloc n).
Proof.
  intros b e a rest H. right. destruct (run_alloc_any n _ _ _ b H) as [-> H2].
  destruct a. exists b. split; [exact H2 | reflexivity].
Qed.

Lemma pref_read_exact n : pref_ok (read_exact n).
Proof.
  intros b e c rest H. unfold run, read_exact in *.
  destruct (split_at n (b ++ e)) as [[x y]|] eqn:E; cbn [fst] in H; [|discriminate].
  inversion H; subst; clear H.
  unfold split_at in *. rewrite lenN_app in E.
  destruct (N.leb_spec n (lenN b)) as [Hle|Hgt].
  - right. cbn [fst]. destruct (N.leb_spec n (lenN b + lenN e)); [|lia].
    inversion E; subst; clear E.
    assert (L : (N.to_nat n <= length b)%nat) by (unfold lenN in Hle; lia).
    exists (skipn (N.to_nat n) b). split.
    + f_equal. f_equal. rewrite firstn_app.
      replace (N.to_nat n - length b)%nat with O by lia. cbn [firstn]. rewrite app_nil_r. reflexivity.
    + rewrite skipn_app. replace (N.to_nat n - length b)%nat with O by lia. reflexivity.
  - left. reflexivity.
Qed.

Lemma pref_bind {A B} (r : reader A) (f : A -> reader B) :
  pref_ok r -> (forall a, pref_ok (f a)) -> pref_ok (bind r f).
Proof.
  intros Hr Hf b e x rest H.
  apply bind_inv in H as (a & b1 & H1 & H2).
  destruct (Hr b e a b1 H1) as [E | (r1 & E & ->)].
  - left. apply bind_eof; exact E.
  - rewrite (run_bind_ok r f b a r1 E). apply (Hf a r1 e x rest H2).
Qed.

Ltac pf :=
  repeat match goal with
  | |- pref_ok (ret _) => apply pref_ret
  | |- pref_ok fail_format => apply pref_fail_format
  | |- pref_ok fail_eof => apply pref_fail_eof
  | |- pref_ok (read_exact _) => apply pref_read_exact
  | |- pref_ok (alloc _) => apply pref_alloc
  | |- pref_ok (bind _ _) => apply pref_bind; [| intros ?]
  | |- pref_ok (if ?c then _ else _) => destruct c
  | |- pref_ok (match ?o with Some _ => _ | None => _ end) => destruct o
  end.

Lemma pref_read_be w : pref_ok (read_be w).
Proof. unfold read_be. pf. Qed.

Lemma pref_read_i64 : pref_ok read_i64.
Proof. unfold read_i64. pf. Qed.

(* ------------------------------------------------------------------ *)
(* read_vec: the fuel is the input length plus one, hence differs between the
   input and its prefix; it is always sufficient *)

Lemma run_read_chunks_S f len acc b :
  run (read_chunks (S f) len acc) b =
  if len <=? lenN acc then Ok (acc, b)
  else run (bind (alloc (lenN acc + N.min (len - lenN acc) CHUNK))
              (fun _ => bind (read_exact (N.min (len - lenN acc) CHUNK))
                 (fun c => read_chunks f len (acc ++ c)))) b.
Proof. unfold run. rewrite read_chunks_S. destruct (len <=? lenN acc); reflexivity. Qed.

Lemma run_read_chunks_O len acc b :
  run (read_chunks O len acc) b = if len <=? lenN acc then Ok (acc, b) else Panic OutOfFuel.
Proof. unfold run. rewrite read_chunks_O. destruct (len <=? lenN acc); reflexivity. Qed.

Lemma pref_read_chunks fuel' : forall fuel len acc b e a rest,
  (length b < fuel)%nat ->
  run (read_chunks fuel' len acc) (b ++ e) = Ok (a, rest) ->
  run (read_chunks fuel len acc) b = ErrEof \/
  exists rest', run (read_chunks fuel len acc) b = Ok (a, rest') /\ rest = rest' ++ e.
Proof.
  induction fuel' as [|f' IH]; intros fuel len acc b e a rest Hf H.
  - rewrite run_read_chunks_O in H. destruct fuel as [|f]; [lia|].
    rewrite run_read_chunks_S.
    destruct (len <=? lenN acc); [|discriminate].
    inversion H; subst. right. exists b. split; reflexivity.
  - rewrite run_read_chunks_S in H. destruct fuel as [|f]; [lia|].
    rewrite run_read_chunks_S.
    destruct (N.leb_spec len (lenN acc)) as [Hle|Hgt].
    + inversion H; subst. right. exists b. split; reflexivity.
    + set (n := N.min (len - lenN acc) CHUNK) in *.
      apply bind_inv in H as (u & b1 & H1 & H2).
      destruct (run_alloc_any _ _ _ _ b H1) as [-> Ha].
      apply bind_inv in H2 as (c & b2 & H2 & H3).
      rewrite (run_bind_ok _ _ b tt b Ha).
      destruct (pref_read_exact n b e c b2 H2) as [E | (r2 & E & ->)].
      * left. apply bind_eof; exact E.
      * rewrite (run_bind_ok _ _ b c r2 E).
        apply (IH f len (acc ++ c) r2 e a rest); [|exact H3].
        unfold run, read_exact in E. destruct (split_at n b) as [[x y]|] eqn:S; cbn [fst] in E; [|discriminate].
        inversion E; subst. apply split_at_some in S as (_ & Hc & Hb).
        assert (1 <= n) by (unfold n, CHUNK; lia). unfold lenN in *. lia.
Qed.

Lemma pref_read_vec len : pref_ok (read_vec len).
Proof.
  intros b e a rest H. rewrite run_read_vec in H. rewrite run_read_vec.
  apply bind_inv in H as (u & b1 & H1 & H2).
  destruct (run_alloc_any _ _ _ _ b H1) as [-> Ha].
  rewrite (run_bind_ok _ _ b tt b Ha).
  apply (pref_read_chunks (S (length (b ++ e))) (S (length b)) len [] b e a rest); [lia | exact H2].
Qed.

(* ------------------------------------------------------------------ *)
(* the codecs the store's files are made of *)

Ltac pf2 :=
  repeat first [ progress pf | apply pref_read_be | apply pref_read_i64 | apply pref_read_vec ].

Lemma pref_read_uri valid : pref_ok (read_uri valid).
Proof. unfold read_uri. pf2. Qed.

Lemma pref_read_opt_https hv : pref_ok (read_opt_https hv).
Proof. unfold read_opt_https. pf2. Qed.

Lemma pref_read_time : pref_ok read_time.
Proof. unfold read_time. pf2. Qed.

Lemma pref_read_status : pref_ok read_status.
Proof. unfold read_status. pf2; apply pref_read_time. Qed.

Lemma pref_read_header rv hv : pref_ok (read_header rv hv).
Proof.
  unfold read_header. pf2.
  - apply pref_read_uri.
  - apply pref_read_opt_https.
  - apply pref_read_status.
Qed.

Lemma pref_read_stored_status : pref_ok read_stored_status.
Proof. unfold read_stored_status. pf2. apply pref_read_time. Qed.

(* ------------------------------------------------------------------ *)
(* the consequence used by C23 *)

Lemma strict_prefix {A} (r : reader A) (v : A) (enc b e : list N) :
  pref_ok r -> run r enc = Ok (v, []) -> enc = b ++ e ->
  run r b = ErrEof \/ (e = [] /\ run r b = Ok (v, [])).
Proof.
  intros Hp Hrt ->. destruct (Hp b e v [] Hrt) as [E | (r' & E & Hr)]; [left; exact E|].
  right. symmetry in Hr. apply app_eq_nil in Hr as [-> ->]. split; [reflexivity | exact E].
Qed.
