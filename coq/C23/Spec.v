(* C23: the property as an executable oracle on what is observed after a
   process kill, and the case checker of the correspondence run.

   A case = the actions that built the store (completed), the actions of the
   interrupted run, the kill point [k] (the k-th kill point the run reaches,
   1-based; beyond the last one: not interrupted) and, optionally, how many
   bytes of the write that follows the kill point were still written.
   Observation = the labels of the kill points the real code reached, the raw
   files found afterwards (stream `unit`), what the real readers return for
   every path of the store in a fresh process, and whether the next commands
   worked (stream `e2e`: `vrps --update-after` exits 0, a run without updates
   yields exactly what the store holds, the next full run yields the data of
   an uninterrupted run).

   The actions are written in a compact vocabulary [uact] over small synthetic
   values ([u_*], mirrored by harness/src/bin/c23.rs); in the `e2e` stream
   these values stand in for the real objects (same structure, other bytes).
   No proofs here. *)
From Coq Require Import List NArith ZArith Bool String Ascii.
From RV Require Export C23.Model C28.Values.
Import ListNotations.
Local Open Scope N_scope.

(* ------------------------------------------------------------------ *)
(* byte strings in generated case files: lower-case hex *)

Definition hexval (c : ascii) : N :=
  let n := N_of_ascii c in
  if (48 <=? n) && (n <=? 57) then n - 48 else if (97 <=? n) && (n <=? 102) then n - 87 else 0.

Fixpoint unhex (s : string) : list N :=
  match s with
  | String a (String b r) => (16 * hexval a + hexval b) :: unhex r
  | _ => []
  end.

(* ------------------------------------------------------------------ *)
(* the synthetic values *)

Definition T0 : Z := 1700000000%Z.
Definition digit (i : N) : N := 48 + i.
Definition S_AB_M : list N := RSYNC_PREFIX ++ [97; 46; 98; 47; 109; 47].                   (* rsync://a.b/m/ *)
Definition u_uri (i : N) : list N := S_AB_M ++ [112; digit i; 46; 109; 102; 116].          (* ...p<i>.mft *)
Definition u_notify (i : N) : option (list N) :=
  if N.odd i then Some (HTTPS_PREFIX ++ [97; 46; 98; 47; 110; 46; 120; 109; 108]) else None. (* https://a.b/n.xml *)
Definition u_ta (i v : N) : list N := [48; 130; i; v; 1; 2; 3].
Definition u_manifest (i v : N) : manifest :=
  mkManifest 2000000000%Z (repeat 0 19 ++ [v]) (1600000000 + Z.of_N v)%Z S_AB_M [48; i; v; 77]
             (S_AB_M ++ [112; digit i; 46; 99; 114; 108]) [49; i; v].
Definition u_object (v olen j : N) : object :=
  mkObject (S_AB_M ++ [111; digit j])
           (if N.even j then Some (repeat (16 * v + j) 32) else None)
           ([v; j; 7] ++ if j =? 0 then repeat 0 (N.to_nat olen) else []).

Definition seqN (n : N) : list N := map N.of_nat (seq 0 (N.to_nat n)).

Inductive uact :=
| UOpen (i : N)
| UUpdate (i v n olen : N) (commit : bool)     (* version v with objects 0 .. n-1; object 0 has olen extra bytes *)
| UReject (i : N)
| UDone
| UTa (i v : N)
| URemove (p : path)
| UTouch (p : path).

Definition act_of (u : uact) : action :=
  match u with
  | UOpen i => AOpen i (u_uri i) (u_notify i) T0
  | UUpdate i v n olen commit =>
      AUpdate i 0 (u_uri i) (u_notify i) T0 (u_manifest i v) (map (u_object v olen) (seqN n)) commit
  | UReject i => AReject i (u_uri i) (u_notify i) T0
  | UDone => ADone 0 T0
  | UTa i v => AUpdateTa i 0 (u_ta i v)
  | URemove p => ARemove p
  | UTouch p => ATouch (match p with PTmp k => k | _ => 0 end)
  end.

(* ------------------------------------------------------------------ *)
(* observations *)

Inductive opv := OAbsent | ONone | OData (v : N) (js : list N) | OFailed | OBroken.
Inductive osv := OSAbsent | OSSome | OSFailed.
Inductive otv := OTAbsent | OTSome (v : N).       (* 99: not a certificate that was ever stored *)
Inductive oview := OPoint (r : opv) | OStatus (r : osv) | OTa (r : otv).

Record case := {
  c_init : list uact;
  c_run : list uact;
  c_k : N;
  c_cut : option N;
  o_killed : bool;
  o_labels : list N;
  o_fs : option (list (path * option (list N)));
  o_views : list (path * oview);
  o_next_ok : bool }.

Fixpoint nl_eqb (a b : list N) : bool :=
  match a, b with
  | [], [] => true
  | x :: a', y :: b' => (x =? y) && nl_eqb a' b'
  | _, _ => false
  end.

Definition oview_eqb (a b : oview) : bool :=
  match a, b with
  | OPoint OAbsent, OPoint OAbsent | OPoint ONone, OPoint ONone
  | OPoint OFailed, OPoint OFailed | OPoint OBroken, OPoint OBroken => true
  | OPoint (OData v js), OPoint (OData v' js') => (v =? v') && nl_eqb js js'
  | OStatus OSAbsent, OStatus OSAbsent | OStatus OSSome, OStatus OSSome | OStatus OSFailed, OStatus OSFailed => true
  | OTa OTAbsent, OTa OTAbsent => true
  | OTa (OTSome v), OTa (OTSome v') => v =? v'
  | _, _ => false
  end.

Definition ta_ident (b : list N) : N :=
  match b with
  | [48; 130; _; v; 1; 2; 3] => v
  | _ => 99
  end.

(* the model's views in the vocabulary of the observations *)
Definition abs_view (a : aview) : oview :=
  match a with
  | AVPoint PVAbsent => OPoint OAbsent
  | AVPoint PVNone => OPoint ONone
  | AVPoint (PVData m objs) => OPoint (OData (nth 2 (m_manifest m) 99) (map (fun o => last (o_uri o) 0 - 48) objs))
  | AVPoint PVFailed => OPoint OFailed
  | AVPoint PVBroken => OPoint OBroken
  | AVStatus SVAbsent => OStatus OSAbsent
  | AVStatus (SVSome _) => OStatus OSSome
  | AVStatus SVFailed => OStatus OSFailed
  | AVTa None => OTa OTAbsent
  | AVTa (Some b) => OTa (OTSome (ta_ident b))
  | AVTmp => OTa OTAbsent
  end.

(* a reader failed, or something was read that nobody ever stored *)
Definition bad_view (o : oview) : bool :=
  match o with
  | OPoint OFailed | OPoint OBroken | OStatus OSFailed => true
  | _ => false
  end.

(* ------------------------------------------------------------------ *)
(* the model on a case *)

Definition RV := rsync_validb.
Definition HV := https_validb.

Definition init_acts (c : case) : list action := map act_of (c_init c).
Definition run_acts (c : case) : list action := map act_of (c_run c).
Definition init_state (c : case) : sfs := run_actions RV HV true (init_acts c) (@fs_empty path).
Definition run_steps (c : case) : list kstep := steps_of_run RV HV true (run_acts c) (init_state c).

(* index of the operation the k-th kill point precedes ([skip] = k - 1);
   the number of operations if the run has fewer kill points *)
Fixpoint kill_index (skip : nat) (steps : list kstep) : nat :=
  match steps with
  | [] => O
  | s :: r =>
      if k_lab s =? 0 then S (kill_index skip r)
      else match skip with O => O | S k' => S (kill_index k' r) end
  end.

Definition labels_of (steps : list kstep) : list N := filter (fun l => negb (l =? 0)) (map k_lab steps).

Definition crash_index (c : case) : nat :=
  match c_k c with
  | 0 => List.length (run_steps c)
  | _ => kill_index (N.to_nat (c_k c) - 1) (run_steps c)
  end.

Definition model_state (c : case) : sfs :=
  crash_state RV HV true (run_acts c) (init_state c) (crash_index c) (c_cut c).

Definition model_killed (c : case) : bool :=
  (1 <=? c_k c) && (c_k c <=? N.of_nat (List.length (labels_of (run_steps c)))).

Definition model_labels (c : case) : list N :=
  if model_killed c then firstn (N.to_nat (c_k c)) (labels_of (run_steps c)) else labels_of (run_steps c).

Definition model_views (c : case) : list (path * oview) :=
  map (fun po => (fst po, abs_view (view RV HV (model_state c) (fst po)))) (o_views c).

(* the model's prediction in the shape of a case *)
Definition model_obs (c : case) : case :=
  {| c_init := c_init c; c_run := c_run c; c_k := c_k c; c_cut := c_cut c;
     o_killed := model_killed c; o_labels := model_labels c; o_fs := None;
     o_views := model_views c; o_next_ok := true |}.

(* ------------------------------------------------------------------ *)
(* the property, executable: what is observed after the kill is what the
   readers see after some completed prefix of the run's actions (every stored
   point, trust anchor certificate and the status in its old or its new
   complete version, per action), no reader fails, the next commands work *)

(* the states after 0, 1, 2, ... completed actions *)
Fixpoint ref_scan (acts : list action) (st : sfs) : list sfs :=
  st :: match acts with
        | [] => []
        | a :: r => ref_scan r (run_action RV HV true a st)
        end.

Definition ref_states (c : case) : list sfs := ref_scan (run_acts c) (init_state c).

Definition views_match (st : sfs) (obs : list (path * oview)) : bool :=
  forallb (fun po => oview_eqb (abs_view (view RV HV st (fst po))) (snd po)) obs.

Definition spec_okb (c : case) : bool :=
  existsb (fun st => views_match st (o_views c)) (ref_states c)
  && forallb (fun po => negb (bad_view (snd po))) (o_views c)
  && o_next_ok c.

(* ------------------------------------------------------------------ *)
(* correspondence *)

Definition wf_case (c : case) : bool :=
  forallb (wf_action RV HV) (init_acts c) && forallb (wf_action RV HV) (run_acts c).

Fixpoint is_prefixb (a b : list N) : bool :=
  match a, b with
  | [], _ => true
  | x :: a', y :: b' => (x =? y) && is_prefixb a' b'
  | _, [] => false
  end.

(* raw files: exact, except temporary files (the real writer buffers: a prefix of the model's content) *)
Definition file_match (st : sfs) (pf : path * option (list N)) : bool :=
  let '(p, ob) := pf in
  match ob, st p with
  | None, None => true
  | Some b, Some mb => if is_tmp p then is_prefixb b mb else bytes_eqb b mb
  | _, _ => false
  end.

Definition corresponds (c : case) : bool :=
  Bool.eqb (o_killed c) (model_killed c)
  && nl_eqb (o_labels c) (model_labels c)
  && views_match (model_state c) (o_views c)
  && match o_fs c with Some l => forallb (file_match (model_state c)) l | None => true end.

(* 0 agreement; 1 the property holds of what was observed but the model predicts
   something else; 2 the property fails on what was observed; 9 ill-formed case *)
Definition check_case (c : case) : N :=
  if negb (wf_case c) then 9
  else if negb (spec_okb c) then 2
  else if corresponds c then 0 else 1.
