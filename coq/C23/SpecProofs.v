(* C23: the executable oracle of Spec.v holds of the model's prediction on
   every well-formed case (from the theorems of Proofs.v). *)
From Coq Require Import List NArith ZArith Lia Bool.
From RV Require Import Base.Bytes Base.Fs C28.Model C28.Proofs C28.SpecProofs C23.Model C23.Prefix C23.Proofs C23.Spec.
Import ListNotations.
Local Open Scope N_scope.

Lemma nl_eqb_refl l : nl_eqb l l = true.
Proof. induction l as [|x l IH]; [reflexivity|]. cbn [nl_eqb]. rewrite N.eqb_refl. exact IH. Qed.

Lemma oview_eqb_refl o : oview_eqb o o = true.
Proof.
  destruct o as [[| |v js| |]|[| |]|[|v]]; cbn [oview_eqb]; try reflexivity.
  - rewrite N.eqb_refl, nl_eqb_refl. reflexivity.
  - apply N.eqb_refl.
Qed.

Lemma ref_scan_in acts : forall st j, (j <= length acts)%nat ->
  In (run_actions RV HV true (firstn j acts) st) (ref_scan acts st).
Proof.
  induction acts as [|a acts IH]; intros st j Hj.
  - assert (j = O) by (cbn in Hj; lia). subst. left. reflexivity.
  - destruct j as [|j]; [left; reflexivity|].
    cbn [length] in Hj. cbn [firstn ref_scan]. right.
    rewrite (run_actions_cons RV HV). apply IH. lia.
Qed.

Lemma init_inv c : forallb (wf_action RV HV) (init_acts c) = true -> Inv RV HV (init_state c).
Proof.
  intros H. unfold init_state. apply (run_inv RV HV https_validb_nonempty); [exact H | apply inv_empty].
Qed.

Theorem model_satisfies_spec c : wf_case c = true -> spec_okb (model_obs c) = true.
Proof.
  intros Hw. unfold wf_case in Hw. apply andb_true_iff in Hw as [Hi Hr].
  pose proof (init_inv c Hi) as HI0.
  destruct (crash_atomic RV HV https_validb_nonempty (run_acts c) (init_state c) (crash_index c) (c_cut c) Hr HI0)
    as [HIg (j & Hj & Hv)].
  fold (model_state c) in HIg, Hv.
  unfold spec_okb. cbn [o_next_ok model_obs]. rewrite andb_true_r.
  apply andb_true_iff. split.
  - apply existsb_exists. exists (run_actions RV HV true (firstn j (run_acts c)) (init_state c)). split.
    + apply ref_scan_in. exact Hj.
    + unfold views_match. cbn [o_views model_obs]. unfold model_views.
      apply forallb_forall. intros po Hin. apply in_map_iff in Hin as (po0 & <- & _).
      cbn [fst snd]. rewrite <- (Hv (fst po0)). apply oview_eqb_refl.
  - cbn [o_views model_obs]. unfold model_views.
    apply forallb_forall. intros po Hin. apply in_map_iff in Hin as (po0 & <- & _).
    cbn [snd fst]. apply negb_true_iff.
    destruct (fst po0) as [|i|i|i]; unfold view; cbn [abs_view].
    + pose proof (inv_status_ok RV HV _ HIg) as Hs.
      destruct (status_view (model_state c PStatus)); try reflexivity. contradiction.
    + destruct (model_state c (PTa i)); reflexivity.
    + pose proof (inv_point_ok RV HV https_validb_nonempty _ i HIg) as Hp.
      destruct (point_view RV HV (model_state c (PPoint i))); try reflexivity; contradiction.
    + reflexivity.
Qed.
