(* C04 — oracle [spec04_okb] (defined next to the shared case type in C03/Spec.v): after every run
   the stored point is unchanged, or it is exactly a manifest that validated together with exactly
   the files it lists, each matching its hash; exception: an internally inconsistent stored copy
   may be discarded. *)
From Coq Require Import List NArith Bool.
From RV Require Export C04.Model C03.Spec.
Local Open Scope N_scope.

Definition spec_okb (runs : list run_in) (os : list obs) : bool := spec04_okb runs os.
Definition check_case (c : case) : N := check_case04 c.
