(* C04 — The store holds only complete, verified publication points.
   Only statements, [exact], [Check] pins. *)
From Coq Require Import List NArith Bool Permutation.
From RV Require Import C03.Model C03.Spec C03.Proofs C03.SpecProofs C04.Spec C04.Proofs C04.Usable.
Import ListNotations.
Local Open Scope N_scope.

(* One run (repaired or original code, any stale policy, any fetch, any iteration order): the
   stored point is unchanged; or the fetched manifest validated, every listed file was present
   with the listed hash, and the store is now exactly that manifest with exactly those files; or
   (the exception named by C05) the stored copy was internally inconsistent and is gone. *)
Theorem C04_store_changes_only_when_complete : forall fixed p st f, wf_fetch f ->
  let st' := fst (process fixed p st f) in
  st' = st
  \/ (exists v perm, f = Collected v perm /\ validate_collected p v = true /\ complete v = true
        /\ st' = Some (store_of v (pick (v_files v) perm))
        /\ Permutation (s_objs (store_of v (pick (v_files v) perm))) (v_files v))
  \/ (st' = None /\ ~ consistent st).
Proof. exact c04_step. Qed.

(* a failed or partial fetch leaves the stored version usable: the payload obtained from it afterwards
   (here: a run without collector under any policy) is what it was before *)
Theorem C04_unchanged_usable : forall fixed p st f p',
  fst (process fixed p st f) = st ->
  process fixed p' (fst (process fixed p st f)) NoCollector = process fixed p' st NoCollector.
Proof. exact c04_unchanged_usable. Qed.

(* Histories: starting from an empty (or verified) store, after ANY sequence of repository versions and
   fetch faults the stored point is None or a manifest that passed validation, with exactly its listed
   files, all matching their hashes, and cached fields equal to the manifest's. *)
Theorem C04_history_verified : forall fixed runs st, wf_runs runs -> no_tamper runs -> verified st ->
  Forall (fun res => verified (fst res)) (run_history fixed st runs).
Proof. exact verified_everywhere. Qed.

Theorem C04_model_satisfies_spec : forall base runs, wf_runsb runs = true ->
  spec_okb runs (model_obs base runs) = true.
Proof. exact model_satisfies_spec04. Qed.

(* "... and usable for validation": the second oracle of the case checker (a run that leaves a consistent
   stored point as it was contributes the whole object set of that version whenever its manifest still
   validates as a stored manifest) holds of the model on every well-formed history *)
Theorem C04_model_satisfies_usable : forall base runs, wf_runsb runs = true ->
  usable04_okb runs (model_obs base runs) = true.
Proof. exact model_satisfies_usable04. Qed.

(* non-vacuity: v1 stored; v2 incomplete -> unchanged; garbage manifest -> unchanged; v2' complete -> replaced *)
Example C04_nonvacuous :
  let bad := mkv 7 false false false false false false false 0 0 [] in
  let v2ok := mkv 3 true true false false true true false 3 300
                  [mkf 1 true true []; mkf 2 true true [2]; mkf 4 true true [4]] in
  let runs := [mkr Reject None (Collected w_v1 [0; 1; 2]); mkr Reject None (Collected w_v2 [0; 1; 2; 3]);
               mkr Reject None (Collected bad []); mkr Reject None NoManifest;
               mkr Reject None (Collected v2ok [2; 1; 0])] in
  wf_runsb runs = true /\
  map o_store (model_obs [] runs) =
    [Some (1, 100, 1, [1; 2; 3]); Some (1, 100, 1, [1; 2; 3]); Some (1, 100, 1, [1; 2; 3]);
     Some (1, 100, 1, [1; 2; 3]); Some (3, 300, 3, [1; 2; 4])].
Proof. split; vm_compute; reflexivity. Qed.

Check C04_store_changes_only_when_complete : forall fixed p st f, wf_fetch f ->
  let st' := fst (process fixed p st f) in
  st' = st
  \/ (exists v perm, f = Collected v perm /\ validate_collected p v = true /\ complete v = true
        /\ st' = Some (store_of v (pick (v_files v) perm))
        /\ Permutation (s_objs (store_of v (pick (v_files v) perm))) (v_files v))
  \/ (st' = None /\ ~ consistent st).
Check C04_history_verified : forall fixed runs st, wf_runs runs -> no_tamper runs -> verified st ->
  Forall (fun res => verified (fst res)) (run_history fixed st runs).
Check C04_model_satisfies_spec : forall base runs, wf_runsb runs = true ->
  spec_okb runs (model_obs base runs) = true.
Check C04_model_satisfies_usable : forall base runs, wf_runsb runs = true ->
  usable04_okb runs (model_obs base runs) = true.
