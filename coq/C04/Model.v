(* C04 — the model is the single-publication-point model shared with C03 and C05
   (coq/C03/Model.v: PubPoint::process, process_collected, check_collected_is_newer,
   StoredPoint::update / reject, process_stored). *)
From RV Require Export C03.Model.
