(* C04 — lemmas: the store holds only complete, verified publication points (history invariant). *)
From Coq Require Import List NArith Bool Lia Permutation.
From RV Require Import C03.Model C03.Spec C03.Proofs C03.SpecProofs.
Import ListNotations.
Local Open Scope N_scope.

(* the stored point is a manifest that passed validate_collected_manifest under some stale policy,
   with exactly its listed files (in some order), all retrieved and matching their hashes, and
   the cached number / thisUpdate are the manifest's own *)
Definition verified (st : option stored) : Prop :=
  match st with
  | None => True
  | Some s => (exists p, validate_collected p (s_mft s) = true) /\ complete (s_mft s) = true
              /\ Permutation (s_objs s) (v_files (s_mft s))
              /\ s_number s = v_number (s_mft s) /\ s_this s = v_this (s_mft s)
  end.

Lemma verified_consistent : forall st, verified st -> consistent st.
Proof.
  intros [s|]; cbn; auto. intros [[p Hv] [_ [_ [Hn Ht]]]].
  unfold validate_collected in Hv. repeat (apply andb_true_iff in Hv; destruct Hv as [Hv ?]). auto.
Qed.

Lemma verified_step : forall fixed p st f, wf_fetch f -> verified st -> verified (fst (process fixed p st f)).
Proof.
  intros fixed p st f Hwf Hv.
  destruct (c04_step fixed p st f Hwf) as [E|[[v [perm [Ef [Hval [Hc [E Hperm]]]]]]|[E Hn]]].
  - rewrite E. assumption.
  - rewrite E. cbn. repeat split; auto. exists p. assumption.
  - exfalso. apply Hn. apply verified_consistent. assumption.
Qed.

Lemma verified_history : forall fixed runs st, wf_runs runs -> no_tamper runs -> verified st ->
  verified (final_state fixed st runs).
Proof.
  induction runs as [|r rest IH]; intros st Hwf Hnt Hv; cbn [final_state]; auto.
  inversion Hwf; subst. inversion Hnt; subst. apply IH; auto.
  unfold step. rewrite H3. cbn [apply_tamper]. destruct st; apply verified_step; assumption.
Qed.

(* every state along the history, not only the last *)
Lemma verified_everywhere : forall fixed runs st, wf_runs runs -> no_tamper runs -> verified st ->
  Forall (fun res => verified (fst res)) (run_history fixed st runs).
Proof.
  induction runs as [|r rest IH]; intros st Hwf Hnt Hv; cbn [run_history]; constructor.
  - inversion Hwf; subst. inversion Hnt; subst. unfold step. rewrite H3. cbn [apply_tamper].
    destruct st; apply verified_step; assumption.
  - inversion Hwf; subst. inversion Hnt; subst. apply IH; auto.
    unfold step. rewrite H3. cbn [apply_tamper]. destruct st; apply verified_step; assumption.
Qed.
