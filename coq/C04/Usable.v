(* C04, second half ("... unchanged and usable for validation"): the model satisfies [usable04_okb]
   on every well-formed history. *)
From Coq Require Import List NArith Bool Lia Permutation Arith.
From RV Require Import C03.Model C03.Spec C03.Proofs C03.SpecProofs.
Import ListNotations.
Local Open Scope N_scope.

Lemma In_ninsert x y l : In x (ninsert y l) <-> x = y \/ In x l.
Proof.
  induction l as [|h t IH]; cbn [ninsert]; [cbn; intuition|].
  destruct (y <? h) eqn:L; [cbn [In]; intuition|].
  destruct (N.eqb_spec y h) as [->|NE]; [cbn [In]; intuition|].
  cbn [In]. rewrite IH. intuition.
Qed.

Lemma In_canon x l : In x (canon l) <-> In x l.
Proof.
  unfold canon. induction l as [|h t IH]; cbn [fold_right]; [reflexivity|].
  rewrite In_ninsert, IH. cbn [In]. intuition.
Qed.

Lemma sub_nl_spec a b : (forall x, In x a -> In x b) -> sub_nl a b = true.
Proof.
  intros H. unfold sub_nl. apply forallb_forall. intros x Hx. apply existsb_exists. exists x.
  split; [apply H; exact Hx|apply N.eqb_refl].
Qed.

Lemma so_eqb_id st st' s s' : st = Some s -> st' = Some s' ->
  so_eqb (obs_of_store st') (obs_of_store st) = true -> v_id (s_mft s') = v_id (s_mft s).
Proof.
  intros -> ->. cbn [obs_of_store]. unfold so_eqb. intros H.
  repeat (apply andb_true_iff in H; destruct H as [H ?]).
  match goal with E : (v_id _ =? v_id _) = true |- _ => apply N.eqb_eq in E; exact E end.
Qed.

(* the stored fallback contributes the whole stored object set when the stored manifest validates *)
Lemma usable_stored base runs st p : wf_runsb runs = true -> Inv runs st ->
  match obs_of_store st with
  | Some (_, _, i, _) => match find_version runs i with
                         | Some v => if stored_valid p v then sub_nl (set_payload v) (canon (base ++ stored_payload p st)) else true
                         | None => true
                         end
  | None => true
  end = true.
Proof.
  intros Hwf HI. destruct st as [s|]; [|reflexivity]. cbn [obs_of_store]. destruct HI as [Hin Hperm].
  rewrite (find_version_in _ _ Hwf Hin).
  destruct (stored_valid p (s_mft s)) eqn:V; [|reflexivity].
  apply sub_nl_spec. intros x Hx. apply In_canon. apply in_or_app. right.
  unfold stored_payload, process_stored. unfold validate_stored. unfold stored_valid in V. rewrite V. cbn [app].
  unfold set_payload in Hx. apply in_flat_map in Hx as [f [Hf Hxf]]. apply in_flat_map. exists f. split; [|exact Hxf].
  apply (Permutation_in _ (Permutation_sym Hperm)). exact Hf.
Qed.

Lemma step_usable : forall base runs r st0, wf_runsb runs = true -> In r runs -> Inv runs st0 ->
  let res := step true st0 r in
  let o := mko true (canon (base ++ snd res)) (obs_of_store (fst res)) in
  usable04_step runs (obs_of_store st0) r o = true.
Proof.
  intros base runs r st0 Hwf Hin HI0. cbv zeta.
  pose proof (wf_runsb_fetch _ Hwf) as Hwff. unfold wf_runs in Hwff. rewrite Forall_forall in Hwff. specialize (Hwff r Hin).
  unfold step. set (st := apply_tamper (r_tamper r) st0).
  assert (HI : Inv runs st) by (apply Inv_tamper; assumption).
  assert (Hprev : tampered (r_tamper r) (obs_of_store st0) = obs_of_store st) by (symmetry; apply obs_tamper).
  unfold usable04_step. cbn [o_payload o_store]. rewrite Hprev.
  (* the fallback on a stored point st' = st or None *)
  assert (Hfb : forall st', st' = st \/ (st' = None /\ consistentb st = false) ->
     (if so_eqb (obs_of_store st') (obs_of_store st) && consistent_obs runs (obs_of_store st)
      then match obs_of_store st with
           | Some (_, _, i, _) => match find_version runs i with
                                  | Some v => if stored_valid (r_policy r) v
                                              then sub_nl (set_payload v) (canon (base ++ stored_payload (r_policy r) st')) else true
                                  | None => true end
           | None => true end
      else true) = true).
  { intros st' [E|[E Hc]]; subst st'.
    - destruct (so_eqb _ _ && _); [|reflexivity]. apply (usable_stored base runs st (r_policy r) Hwf HI).
    - rewrite (consistent_obs_spec _ _ Hwf HI), Hc, andb_false_r. reflexivity. }
  destruct (r_fetch r) as [| |v perm] eqn:Hf; cbn [wf_fetch] in Hwff.
  - cbn [process fst snd]. fold (stored_payload (r_policy r) st). apply (Hfb st (or_introl eq_refl)).
  - cbn [process fst snd]. fold (stored_payload (r_policy r) st). apply (Hfb st (or_introl eq_refl)).
  - rewrite c03_exact by assumption.
    destruct (accepts (r_policy r) st v) eqn:Ha; cbn [fst snd].
    + (* a new version was stored: it is another manifest than the stored one *)
      destruct (so_eqb (obs_of_store (Some (store_of v (pick (v_files v) perm)))) (obs_of_store st)) eqn:E; [|reflexivity].
      exfalso. destruct st as [s|]; [|cbn in E; discriminate].
      pose proof (so_eqb_id (Some s) (Some (store_of v (pick (v_files v) perm))) s _ eq_refl eq_refl E) as Hid.
      cbn [store_of s_mft] in Hid. unfold accepts in Ha.
      repeat (apply andb_true_iff in Ha; destruct Ha as [Ha ?]).
      apply negb_true_iff in Ha. unfold same_manifest in Ha. apply N.eqb_neq in Ha. congruence.
    + apply (Hfb _ (fallback_store_cases _ _ _)).
Qed.

Lemma hist_usable : forall base runs, wf_runsb runs = true ->
  forall suffix st0, incl suffix runs -> Inv runs st0 ->
  let os := map (fun r => mko true (canon (base ++ snd r)) (obs_of_store (fst r))) (run_history true st0 suffix) in
  spec_hist (usable04_step runs) (obs_of_store st0) suffix os = true.
Proof.
  intros base runs Hwf. induction suffix as [|r rest IH]; intros st0 Hincl HI; cbv zeta; [reflexivity|].
  cbn [run_history map spec_hist o_ok o_store andb].
  assert (Hin : In r runs) by (apply Hincl; left; reflexivity).
  destruct (step_satisfies base runs r st0 Hwf Hin HI) as [HI' _].
  rewrite (step_usable base runs r st0 Hwf Hin HI). cbn [andb].
  apply (IH (fst (step true st0 r)) (fun x Hx => Hincl x (or_intror Hx)) HI').
Qed.

Theorem model_satisfies_usable04 : forall base runs, wf_runsb runs = true ->
  usable04_okb runs (model_obs base runs) = true.
Proof. intros. apply (hist_usable base runs H runs None (incl_refl _) I). Qed.
