(* C21: the executable oracle of Spec.v holds of the model on every well-formed input. *)
From Coq Require Import List NArith Lia Bool.
From RV Require Import Base.Json Base.JsonDoc C21.Model C21.Spec C21.Proofs C21.JsonProofs.
Import ListNotations.
Local Open Scope N_scope.

Lemma nlist_eqb_refl l : nlist_eqb l l = true.
Proof. induction l as [|x l IH]; [reflexivity|]. cbn [nlist_eqb]. rewrite N.eqb_refl, IH. reflexivity. Qed.

Lemma litem_eqb_refl x : litem_eqb x x = true.
Proof.
  destruct x; cbn [litem_eqb]; rewrite ?N.eqb_refl, ?eqb_reflx, ?list_eqb_refl, ?nlist_eqb_refl; reflexivity.
Qed.

Lemma litems_eqb_refl l : litems_eqb l l = true.
Proof. induction l as [|x l IH]; [reflexivity|]. cbn [litems_eqb]. rewrite litem_eqb_refl, IH. reflexivity. Qed.

Lemma json_eqb_refl v : json_eqb v v = true.
Proof.
  induction v using json_ind'; cbn [json_eqb]; try reflexivity; try apply list_eqb_refl.
  - induction H as [|x l Hx _ IH]; [reflexivity|]. rewrite Hx, IH. reflexivity.
  - induction H as [|[k x] l Hx _ IH]; [reflexivity|]. cbn [snd] in Hx. rewrite list_eqb_refl, Hx, IH. reflexivity.
Qed.

Definition model_bytes (f : format) (m : meta) (out : output) (snap : snapshot) : list N :=
  match render_bytes f m out snap with Some b => b | None => [] end.

Theorem model_satisfies_spec f m out snap : meta_wfb m = true -> snap_wfb snap = true ->
  spec_okb f m out snap {| o_bytes := model_bytes f m out snap;
                           o_listed := map (litem_of_event f) (listed f out snap) |} = true.
Proof.
  intros Hm Hs. unfold spec_okb. cbn [o_bytes o_listed].
  rewrite listed_litems, litems_eqb_refl. cbn [andb].
  destruct (doc_tree f m out snap) as [t|] eqn:Et; [|reflexivity].
  destruct (json_formats_parse f m out snap t Hm Hs Et) as (b & Eb & Hp).
  unfold model_bytes. rewrite Eb, Hp. apply json_eqb_refl.
Qed.

Theorem model_checks f m out snap : meta_wfb m = true -> snap_wfb snap = true ->
  check_case {| c_fmt := f; c_meta := m; c_out := out; c_snap := snap;
                c_impl := {| o_bytes := model_bytes f m out snap;
                             o_listed := map (litem_of_event f) (listed f out snap) |};
                c_side := true |} = 0.
Proof.
  intros Hm Hs. unfold check_case. cbn [c_fmt c_meta c_out c_snap c_impl c_side].
  rewrite Hs, Hm, (model_satisfies_spec f m out snap Hm Hs). cbn [andb negb].
  unfold model_obs. cbn [o_bytes o_listed]. rewrite litems_eqb_refl. cbn [andb].
  unfold model_bytes. destruct (render_bytes f m out snap); [rewrite list_eqb_refl|]; reflexivity.
Qed.

(* ---- the code before the fix: TAL name written verbatim by json, slurm and slurm2 ---- *)
Definition old_json_origin (o : origin) : list N :=
  j_asn ++ asn_txt (o_asn o) ++ j_prefix ++ pfx_txt o ++ j_maxlen ++ dec (rml o) ++ j_ta ++ tal_name (o_src o) ++ j_end.
Definition old_slurm_origin (o : origin) : list N :=
  sl_open ++ dec (o_asn o) ++ sl_prefix ++ pfx_txt o ++ sl_prefix_end
  ++ (match o_maxlen o with Some m => sl_maxlen ++ dec m ++ comma_nl | None => [] end)
  ++ sl_comment ++ tal_name (o_src o) ++ sl_close.

Definition witness_origin (tal : list N) : origin :=
  {| o_asn := 64496; o_v4 := true; o_bits := 192 * 2 ^ 120 + 2 * 2 ^ 104; o_len := 24; o_maxlen := None;
     o_addr := [49; 57; 50; 46; 48; 46; 50; 46; 48];
     o_src := [SrcPub tal None [] [] [] [] []] |}.
Definition witness_snap (tal : list N) : snapshot := {| origins := [witness_origin tal]; rkeys := []; aspas := [] |}.
Definition all_out : output := {| out_sel := None; out_origins := true; out_keys := true; out_aspas := true |}.
Definition meta0 : meta := {| m_ts := 0; m_time := [] |}.

Definition old_json_bytes (tal : list N) : list N :=
  run (shape_of Json) (json_like_texts old_json_origin json_key json_aspa meta0) all_out (witness_snap tal) 12 SHeader.
Definition old_slurm_bytes (tal : list N) : list N :=
  run (shape_of Slurm)
    {| t_header := slurm_header;
       t_before_origins := fun _ => slurm_prefixes; t_origin := old_slurm_origin; t_origin_delim := comma_nl;
       t_after_origins := slurm_close_more;
       t_before_keys := fun _ => slurm_bgpsec; t_key := slurm_key; t_key_delim := comma_nl;
       t_after_keys := slurm_close_last;
       t_before_aspas := fun _ => []; t_aspa := fun _ => []; t_aspa_delim := []; t_after_aspas := [];
       t_footer := slurm_footer |} all_out (witness_snap tal) 12 SHeader.

(* a TAL name holding a quote: the old json and slurm outputs are not JSON; the
   fixed ones are, and an ordinary name gives the same bytes before and after *)
Theorem unfixed_refuted :
  let tal := [97; 34; 98] in
  snap_wfb (witness_snap tal) = true
  /\ json_validb (old_json_bytes tal) = false /\ json_validb (old_slurm_bytes tal) = false
  /\ json_validb (model_bytes Json meta0 all_out (witness_snap tal)) = true
  /\ json_validb (model_bytes Slurm meta0 all_out (witness_snap tal)) = true
  /\ old_json_bytes [114; 105; 112; 101] = model_bytes Json meta0 all_out (witness_snap [114; 105; 112; 101]).
Proof. repeat split; vm_compute; reflexivity. Qed.
