(* C21: the property as an executable oracle and the case checker.  No proofs.

   What an output must be:
   - item level, all 13 formats: the items listed (as read back from the
     output by an independent reader) are exactly the items of the data set
     that the selection admits and whose type is enabled and carried by the
     format - in the data set's order, each once ([expected_listed]);
   - json, jsonext, slurm, slurm2: the bytes are one JSON document and that
     document is [doc_tree]: the value that lists exactly those items with
     their fields, TAL names and comments as JSON strings. *)
From Coq Require Import List NArith Bool.
From Coq Require String.
Import String.StringSyntax.
From RV Require Export Base.Json Base.ByteNames C21.Model.
Import ListNotations.
Local Open Scope N_scope.

(* ------------------------------------------------------------ the documented selection *)

Definition want_origins (f : format) (out : output) (snap : snapshot) : list origin :=
  if carries_origins f && out_origins out then filter (inc_origin out) (origins snap) else [].
Definition want_keys (f : format) (out : output) (snap : snapshot) : list rkey :=
  if carries_keys f && out_keys out then filter (inc_key out) (rkeys snap) else [].
Definition want_aspas (f : format) (out : output) (snap : snapshot) : list aspa :=
  if carries_aspas f && out_aspas out then filter (inc_aspa out) (aspas snap) else [].

(* ------------------------------------------------------------ listed items as a reader reports them *)

Inductive litem :=
| LO (asn : N) (v4 : bool) (bits len maxlen : N)
| LK (asn : N) (ski_hex info_b64 : list N)
| LA (cust : N) (provs : list N).

(* rpsl has no max-length field; every other format shows the resolved max length *)
Definition lo_of (f : format) (o : origin) : litem :=
  LO (o_asn o) (o_v4 o) (o_bits o) (o_len o) (match f with Rpsl => 0 | _ => rml o end).
Definition lk_of (k : rkey) : litem := LK (k_asn k) (k_ski_hex k) (k_info_b64 k).
Definition la_of (a : aspa) : litem := LA (a_cust a) (a_provs a).

Definition expected_listed (f : format) (out : output) (snap : snapshot) : list litem :=
  map (lo_of f) (want_origins f out snap) ++ map lk_of (want_keys f out snap) ++ map la_of (want_aspas f out snap).

Definition litem_of_event (f : format) (e : event) : litem :=
  match e with EvO o => lo_of f o | EvK k => lk_of k | EvA a => la_of a end.

Fixpoint nlist_eqb (a b : list N) : bool :=
  match a, b with
  | [], [] => true
  | x :: a', y :: b' => (x =? y) && nlist_eqb a' b'
  | _, _ => false
  end.

Definition litem_eqb (a b : litem) : bool :=
  match a, b with
  | LO a1 f1 b1 l1 m1, LO a2 f2 b2 l2 m2 => (a1 =? a2) && Bool.eqb f1 f2 && (b1 =? b2) && (l1 =? l2) && (m1 =? m2)
  | LK a1 s1 i1, LK a2 s2 i2 => (a1 =? a2) && list_eqb s1 s2 && list_eqb i1 i2
  | LA c1 p1, LA c2 p2 => (c1 =? c2) && nlist_eqb p1 p2
  | _, _ => false
  end.
Fixpoint litems_eqb (a b : list litem) : bool :=
  match a, b with
  | [], [] => true
  | x :: a', y :: b' => litem_eqb x y && litems_eqb a' b'
  | _, _ => false
  end.

(* ------------------------------------------------------------ the JSON documents *)

Definition K (s : String.string) : list N := bs s.
Arguments K s%string_scope.

Definition ta_member (s : list src) : list N * json := (K "ta", JStr (tal_name s)).

Definition origin_tree (o : origin) : json :=
  JObj [(K "asn", JStr (asn_txt (o_asn o))); (K "prefix", JStr (pfx_txt o));
        (K "maxLength", JNum (dec (rml o))); ta_member (o_src o)].
Definition key_tree (k : rkey) : json :=
  JObj [(K "asn", JStr (asn_txt (k_asn k))); (K "SKI", JStr (k_ski_hex k));
        (K "routerPublicKey", JStr (k_info_b64 k)); ta_member (k_src k)].
Definition providers_tree (ps : list N) : json := JArr (map (fun p => JStr (asn_txt p)) ps).
Definition aspa_tree (a : aspa) : json :=
  JObj [(K "customer", JStr (asn_txt (a_cust a))); (K "providers", providers_tree (a_provs a)); ta_member (a_src a)].

Definition opt_tree (o : option (list N)) : json := match o with Some s => JStr s | None => JNull end.
Definition validity_tree (nb na' : list N) : json := JObj [(K "notBefore", JStr nb); (K "notAfter", JStr na')].
Definition src_tree (ty : list N) (s : src) : json :=
  match s with
  | SrcPub tal uri nb na' cnb cna stale =>
      JObj [(K "type", JStr ty); (K "uri", opt_tree uri); (K "tal", JStr tal);
            (K "validity", validity_tree nb na'); (K "chainValidity", validity_tree cnb cna); (K "stale", JStr stale)]
  | SrcExc path comment =>
      JObj ([(K "type", JStr (K "exception")); (K "path", opt_tree path)]
            ++ match comment with Some c => [(K "comment", JStr c)] | None => [] end)
  end.
Definition source_member (ty : list N) (l : list src) : list N * json := (K "source", JArr (map (src_tree ty) l)).

Definition xorigin_tree (o : origin) : json :=
  JObj [(K "asn", JStr (asn_txt (o_asn o))); (K "prefix", JStr (pfx_txt o));
        (K "maxLength", JNum (dec (rml o))); source_member ty_roa (o_src o)].
Definition xkey_tree (k : rkey) : json :=
  JObj [(K "asn", JStr (asn_txt (k_asn k))); (K "SKI", JStr (k_ski_hex k));
        (K "routerPublicKey", JStr (k_info_b64 k)); source_member ty_cer (k_src k)].
Definition xaspa_tree (a : aspa) : json :=
  JObj [(K "customer", JStr (asn_txt (a_cust a))); (K "providers", providers_tree (a_provs a));
        source_member ty_aspa (a_src a)].

Definition sorigin_tree (o : origin) : json :=
  JObj ([(K "asn", JNum (dec (o_asn o))); (K "prefix", JStr (pfx_txt o))]
        ++ match o_maxlen o with Some m => [(K "maxPrefixLength", JNum (dec m))] | None => [] end
        ++ [(K "comment", JStr (tal_name (o_src o)))]).
Definition skey_tree (k : rkey) : json :=
  JObj [(K "asn", JNum (dec (k_asn k))); (K "SKI", JStr (k_ski_b64 k));
        (K "routerPublicKey", JStr (k_info_b64 k)); (K "comment", JStr (tal_name (k_src k)))].
Definition saspa_tree (a : aspa) : json :=
  JObj [(K "customerAsn", JNum (dec (a_cust a))); (K "providerAsns", JArr (map (fun p => JNum (dec p)) (a_provs a)));
        (K "comment", JStr (tal_name (a_src a)))].

Definition metadata_member (m : meta) : list N * json :=
  (K "metadata", JObj [(K "generated", JNum (dec (m_ts m))); (K "generatedTime", JStr (m_time m))]).

(* json / jsonext: a member per enabled payload type, listing the admitted items *)
Definition json_doc (to : origin -> json) (tk : rkey -> json) (ta : aspa -> json)
                    (m : meta) (out : output) (snap : snapshot) : json :=
  JObj ([metadata_member m]
        ++ (if out_origins out then [(K "roas", JArr (map to (filter (inc_origin out) (origins snap))))] else [])
        ++ (if out_keys out then [(K "routerKeys", JArr (map tk (filter (inc_key out) (rkeys snap))))] else [])
        ++ (if out_aspas out then [(K "aspas", JArr (map ta (filter (inc_aspa out) (aspas snap))))] else [])).

(* slurm / slurm2 (RFC 8416 and its ASPA extension): empty filters, the admitted items as assertions;
   a disabled type gives an empty assertion list *)
Definition slurm_doc (v2 : bool) (out : output) (snap : snapshot) : json :=
  JObj [(K "slurmVersion", JNum (if v2 then [50] else [49]));
        (K "validationOutputFilters",
           JObj ([(K "prefixFilters", JArr []); (K "bgpsecFilters", JArr [])]
                 ++ if v2 then [(K "aspaFilters", JArr [])] else []));
        (K "locallyAddedAssertions",
           JObj ([(K "prefixAssertions",
                     JArr (map sorigin_tree (if out_origins out then filter (inc_origin out) (origins snap) else [])));
                  (K "bgpsecAssertions",
                     JArr (map skey_tree (if out_keys out then filter (inc_key out) (rkeys snap) else [])))]
                 ++ if v2 then [(K "aspaAssertions",
                     JArr (map saspa_tree (if out_aspas out then filter (inc_aspa out) (aspas snap) else [])))]
                    else []))].

Definition doc_tree (f : format) (m : meta) (out : output) (snap : snapshot) : option json :=
  match f with
  | Json => Some (json_doc origin_tree key_tree aspa_tree m out snap)
  | ExtendedJson => Some (json_doc xorigin_tree xkey_tree xaspa_tree m out snap)
  | Slurm => Some (slurm_doc false out snap)
  | Slurm2 => Some (slurm_doc true out snap)
  | _ => None
  end.

(* structural equality of JSON values *)
Fixpoint json_eqb (a b : json) : bool :=
  match a, b with
  | JNull, JNull | JTrue, JTrue | JFalse, JFalse => true
  | JNum x, JNum y => list_eqb x y
  | JStr x, JStr y => list_eqb x y
  | JArr x, JArr y =>
      (fix go (x y : list json) : bool :=
         match x, y with
         | [], [] => true
         | a :: x', b :: y' => json_eqb a b && go x' y'
         | _, _ => false
         end) x y
  | JObj x, JObj y =>
      (fix go (x y : list (list N * json)) : bool :=
         match x, y with
         | [], [] => true
         | (k, a) :: x', (k', b) :: y' => list_eqb k k' && json_eqb a b && go x' y'
         | _, _ => false
         end) x y
  | _, _ => false
  end.

(* ------------------------------------------------------------ well-formed inputs *)

(* text written between quotes without escaping must not need escaping *)
Definition plainb (t : list N) : bool := forallb (fun b => negb (b =? 34) && negb (b =? 92) && negb (b <? 32)) t.
Definition oplainb (o : option (list N)) : bool := match o with Some t => plainb t | None => true end.

Definition src_wfb (s : src) : bool :=
  match s with
  | SrcPub _ uri nb na' cnb cna stale => oplainb uri && plainb nb && plainb na' && plainb cnb && plainb cna && plainb stale
  | SrcExc _ _ => true
  end.
Definition origin_wfb (o : origin) : bool := plainb (o_addr o) && forallb src_wfb (o_src o).
Definition key_wfb (k : rkey) : bool :=
  plainb (k_ski_hex k) && plainb (k_info_b64 k) && plainb (k_ski_b64 k) && forallb src_wfb (k_src k).
Definition aspa_wfb (a : aspa) : bool := forallb src_wfb (a_src a).
Definition snap_wfb (s : snapshot) : bool :=
  forallb origin_wfb (origins s) && forallb key_wfb (rkeys s) && forallb aspa_wfb (aspas s).
Definition meta_wfb (m : meta) : bool := plainb (m_time m).

(* ------------------------------------------------------------ oracle and case *)

Record obs := { o_bytes : list N; o_listed : list litem }.

Definition spec_okb (f : format) (m : meta) (out : output) (snap : snapshot) (o : obs) : bool :=
  litems_eqb (o_listed o) (expected_listed f out snap)
  && match doc_tree f m out snap with
     | Some t => match json_parse (o_bytes o) with Some v => json_eqb v t | None => false end
     | None => true
     end.

Definition model_obs (f : format) (m : meta) (out : output) (snap : snapshot) : option (list N) * list litem :=
  (render_bytes f m out snap, map (litem_of_event f) (listed f out snap)).

(* c_side: the harness's own checks agreed (serde_json accepted the JSON formats,
   LocalExceptions::from_json accepted the SLURM formats, line counts) *)
Record case := { c_fmt : format; c_meta : meta; c_out : output; c_snap : snapshot; c_impl : obs; c_side : bool }.

Definition check_case (c : case) : N :=
  if negb (snap_wfb (c_snap c) && meta_wfb (c_meta c)) then 9
  else if negb (spec_okb (c_fmt c) (c_meta c) (c_out c) (c_snap c) (c_impl c) && c_side c) then 2
  else
    let (mb, ml) := model_obs (c_fmt c) (c_meta c) (c_out c) (c_snap c) in
    if litems_eqb ml (o_listed (c_impl c))
       && match mb with Some b => list_eqb b (o_bytes (c_impl c)) | None => true end
    then 0 else 1.
