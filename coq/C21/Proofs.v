(* C21 proofs, part 1: integers as text, the selection predicates, and what
   each of the 13 formats lists. *)
From Coq Require Import List NArith Lia Bool.
From RV Require Import Base.Json Base.JsonDoc C21.Model C21.Spec.
Import ListNotations.
Local Open Scope N_scope.

(* ================================================================ dec *)

Lemma digit_of_mod n : is_digit (48 + n mod 10) = true.
Proof.
  unfold is_digit. assert (H : n mod 10 < 10) by (apply N.mod_lt; discriminate).
  revert H. generalize (n mod 10). intros m H. apply andb_true_iff; split; apply N.leb_le; lia.
Qed.

Lemma dec_digits_shape f : forall n acc, forallb is_digit acc = true -> 1 <= n ->
  exists d rest, dec_digits f n acc = d :: rest /\ is_digit d = true /\ d <> 48 /\ forallb is_digit rest = true.
Proof.
  induction f as [|f IH]; intros n acc Hacc Hn.
  - exists 49, acc. repeat split; [discriminate | exact Hacc].
  - cbn [dec_digits]. destruct (N.ltb_spec n 10) as [L|G].
    + exists (48 + n mod 10), acc. repeat split; [apply digit_of_mod | | exact Hacc].
      rewrite N.mod_small by lia. lia.
    + apply IH.
      * cbn [forallb]. rewrite digit_of_mod, Hacc. reflexivity.
      * apply N.div_le_lower_bound; lia.
Qed.

Lemma dec_shape n : exists d rest, dec n = d :: rest /\ is_digit d = true /\ (d <> 48 \/ rest = []) /\ forallb is_digit rest = true.
Proof.
  destruct (N.eq_dec n 0) as [->|Hn].
  - exists 48, []. repeat split. right; reflexivity.
  - destruct (dec_digits_shape (S (N.to_nat (N.log2 n))) n [] eq_refl) as (d & rest & E & Hd & H48 & Hr); [lia|].
    exists d, rest. unfold dec. rewrite E. repeat split; auto.
Qed.

Lemma is_digit_num_char c : is_digit c = true -> is_num_char c = true.
Proof. unfold is_num_char. intros ->. reflexivity. Qed.

Lemma dec_num_wfb n : num_wfb (dec n) = true.
Proof.
  destruct (dec_shape n) as (d & rest & -> & Hd & H48 & Hr).
  unfold num_wfb. apply andb_true_iff; split.
  - unfold num_okb.
    assert (d =? 45 = false) as ->.
    { unfold is_digit in Hd. apply andb_true_iff in Hd as [H1 _]. apply N.leb_le in H1. apply N.eqb_neq. lia. }
    rewrite (span_all is_digit (d :: rest)) by (cbn [forallb]; rewrite Hd, Hr; reflexivity).
    destruct H48 as [H48| ->].
    + apply N.eqb_neq in H48. rewrite H48. reflexivity.
    + cbn. rewrite orb_true_r. reflexivity.
  - cbn [forallb]. rewrite (is_digit_num_char _ Hd). cbn [andb].
    revert Hr. clear. induction rest as [|c r IH]; cbn [forallb]; [auto|].
    intros H. apply andb_true_iff in H as [Hc Hr]. rewrite (is_digit_num_char _ Hc), (IH Hr). reflexivity.
Qed.

Lemma is_digit_plain c : is_digit c = true -> negb (c =? 34) && negb (c =? 92) && negb (c <? 32) = true.
Proof.
  unfold is_digit. intros H. apply andb_true_iff in H as [H1 H2]. apply N.leb_le in H1, H2.
  destruct (N.eqb_spec c 34); [lia|]. destruct (N.eqb_spec c 92); [lia|]. destruct (N.ltb_spec c 32); [lia|]. reflexivity.
Qed.

Lemma dec_plain n : plainb (dec n) = true.
Proof.
  destruct (dec_shape n) as (d & rest & -> & Hd & _ & Hr). unfold plainb. cbn [forallb].
  rewrite (is_digit_plain _ Hd). cbn [andb].
  revert Hr. clear. induction rest as [|c r IH]; cbn [forallb]; [auto|].
  intros H. apply andb_true_iff in H as [Hc Hr]. rewrite (is_digit_plain _ Hc), (IH Hr). reflexivity.
Qed.

Lemma plainb_app a b : plainb (a ++ b) = plainb a && plainb b.
Proof. apply forallb_app. Qed.

Lemma asn_txt_plain a : plainb (asn_txt a) = true.
Proof. unfold asn_txt. rewrite plainb_app, dec_plain. reflexivity. Qed.

Lemma pfx_txt_plain o : plainb (o_addr o) = true -> plainb (pfx_txt o) = true.
Proof. intros H. unfold pfx_txt. rewrite !plainb_app, H, dec_plain. reflexivity. Qed.

(* ================================================================ selection *)

(* the documented meaning of a selection *)
Definition admits_origin (s : selection) (o : origin) : Prop :=
  exists r, In r (s_res s) /\
    match r with
    | SelAsn a => o_asn o = a
    | SelPrefix v4 bits len =>
        covers (o_v4 o) (o_bits o) (o_len o) v4 bits len = true          (* the VRP covers the given prefix *)
        \/ (s_more s = true /\ covers v4 bits len (o_v4 o) (o_bits o) (o_len o) = true)   (* or is more specific, on request *)
    end.
Definition admits_key (s : selection) (k : rkey) : Prop := In (SelAsn (k_asn k)) (s_res s).
Definition admits_aspa (s : selection) (a : aspa) : Prop := In (SelAsn (a_cust a)) (s_res s).

Lemma sel_origin_spec s o : sel_origin s o = true <-> admits_origin s o.
Proof.
  unfold sel_origin, admits_origin. rewrite existsb_exists. split; intros (r & Hin & H); exists r; split; auto.
  - destruct r as [a|v4 bits len]; cbn [res_origin] in H.
    + apply N.eqb_eq, H.
    + apply orb_true_iff in H as [H|H]; [left; exact H|]. apply andb_true_iff in H. right; exact H.
  - destruct r as [a|v4 bits len]; cbn [res_origin].
    + apply N.eqb_eq, H.
    + apply orb_true_iff. destruct H as [H|[H1 H2]]; [left; exact H|]. right. rewrite H1, H2. reflexivity.
Qed.

Lemma sel_key_spec s k : sel_key s k = true <-> admits_key s k.
Proof.
  unfold sel_key, admits_key. rewrite existsb_exists. split.
  - intros (r & Hin & H). destruct r as [a|]; cbn [res_key] in H; [|discriminate]. apply N.eqb_eq in H. subst. exact Hin.
  - intros H. exists (SelAsn (k_asn k)). split; [exact H|]. cbn. apply N.eqb_refl.
Qed.

Lemma sel_aspa_spec s a : sel_aspa s a = true <-> admits_aspa s a.
Proof.
  unfold sel_aspa, admits_aspa. rewrite existsb_exists. split.
  - intros (r & Hin & H). destruct r as [x|]; cbn [res_aspa] in H; [|discriminate]. apply N.eqb_eq in H. subst. exact Hin.
  - intros H. exists (SelAsn (a_cust a)). split; [exact H|]. cbn. apply N.eqb_refl.
Qed.

(* [covers]: same family, not longer, and the other prefix starts with the
   bits of this one *)
Lemma covers_inv v4 bits len v4' bits' len' :
  covers v4 bits len v4' bits' len' = true -> v4 = v4' /\ len <= len'.
Proof.
  unfold covers. destruct (Bool.eqb v4 v4') eqn:E; cbn [negb]; [|discriminate].
  apply eqb_prop in E. destruct (N.ltb_spec len' len); [discriminate|]. auto.
Qed.

Lemma covers_refl v4 bits len : len <= 128 -> bits = N.land bits (mask len) -> covers v4 bits len v4 bits len = true.
Proof.
  intros Hl Hb. unfold covers. rewrite eqb_reflx. cbn [negb]. rewrite N.ltb_irrefl.
  destruct ((len =? full_len v4) && (len =? full_len v4)); [apply N.eqb_refl|]. apply N.eqb_eq. exact Hb.
Qed.

(* ================================================================ what the formats list *)

Lemma sep_by_nil_singletons {A B} (g : A -> B) l : sep_by [] (map (fun x => [g x]) l) = map g l.
Proof.
  induction l as [|x [|y l] IH]; [reflexivity | reflexivity |].
  change (sep_by [] (map (fun x => [g x]) (x :: y :: l))) with ([g x] ++ [] ++ sep_by [] (map (fun x => [g x]) (y :: l))).
  rewrite IH. reflexivity.
Qed.

Lemma sep_by_nil_nils {A B} l : sep_by (@nil B) (map (fun _ : A => []) l) = [].
Proof.
  induction l as [|x [|y l] IH]; [reflexivity | reflexivity |].
  change (sep_by [] (map (fun _ : A => @nil B) (x :: y :: l))) with (@nil B ++ [] ++ sep_by [] (map (fun _ : A => @nil B) (y :: l))).
  rewrite IH. reflexivity.
Qed.

Lemma render_some {I B} (inc : I -> bool) (g : I -> B) l : render inc (fun x => [g x]) [] l = map g (filter inc l).
Proof. unfold render. apply sep_by_nil_singletons. Qed.
Lemma render_none {I B} (inc : I -> bool) l : render inc (fun _ => @nil B) [] l = [].
Proof. unfold render. apply sep_by_nil_nils. Qed.

(* For every format, data set, selection and exclusion: the items an output
   lists are exactly the items of the data set that the selection admits and
   whose type is enabled and carried by the format - in the data set's order,
   each once. *)
Theorem listed_exact f out snap :
  listed f out snap =
    map EvO (want_origins f out snap) ++ map EvK (want_keys f out snap) ++ map EvA (want_aspas f out snap).
Proof.
  unfold listed, want_origins, want_keys, want_aspas.
  destruct out as [sel fo fk fa].
  destruct f; destruct fo, fk, fa;
    cbn -[render filter inc_origin inc_key inc_aspa];
    rewrite ?render_some, ?render_none, ?app_nil_r; cbn [app]; rewrite ?app_nil_r; reflexivity.
Qed.

Corollary listed_litems f out snap :
  map (litem_of_event f) (listed f out snap) = expected_listed f out snap.
Proof.
  rewrite listed_exact. unfold expected_listed. rewrite !map_app, !map_map. reflexivity.
Qed.

(* membership form: an item is listed iff ... *)
Corollary listed_origin_iff f out snap o :
  In (EvO o) (listed f out snap) <->
  (carries_origins f = true /\ out_origins out = true /\ In o (origins snap) /\
   match out_sel out with Some s => admits_origin s o | None => True end).
Proof.
  rewrite listed_exact, !in_app_iff, !in_map_iff. unfold want_origins. split.
  - intros [(x & E & Hin)|[(x & E & _)|(x & E & _)]]; try discriminate. inversion E; subst x.
    destruct (carries_origins f), (out_origins out); cbn [andb] in Hin; try contradiction.
    apply filter_In in Hin as [Hin Hinc]. repeat split; auto.
    unfold inc_origin in Hinc. destruct (out_sel out); [apply sel_origin_spec, Hinc | exact I].
  - intros (Hc & Ho & Hin & Hs). left. exists o. split; [reflexivity|]. rewrite Hc, Ho. cbn [andb].
    apply filter_In. split; [exact Hin|]. unfold inc_origin. destruct (out_sel out); [apply sel_origin_spec, Hs | reflexivity].
Qed.
