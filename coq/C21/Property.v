(* C21 - Output formats list exactly the selected payload, well-formed.
   Only statements, [exact], [Check] pins. *)
From Coq Require Import List NArith Bool.
From RV Require Import Base.Json Base.JsonDoc C21.Model C21.Spec C21.Proofs C21.JsonProofs C21.SpecProofs.
Import ListNotations.
Local Open Scope N_scope.

(* the selection predicates mean what the documentation says *)
Theorem C21_select_origin : forall s o, sel_origin s o = true <-> admits_origin s o.
Proof. exact sel_origin_spec. Qed.
Theorem C21_select_router_key : forall s k, sel_key s k = true <-> In (SelAsn (k_asn k)) (s_res s).
Proof. exact sel_key_spec. Qed.
Theorem C21_select_aspa : forall s a, sel_aspa s a = true <-> In (SelAsn (a_cust a)) (s_res s).
Proof. exact sel_aspa_spec. Qed.

(* all 13 formats, every data set, selection and exclusion: the items listed
   are the filter of the data set - in its order, each once *)
Theorem C21_listed_exact : forall f out snap,
  listed f out snap =
    map EvO (if carries_origins f && out_origins out then filter (inc_origin out) (origins snap) else [])
    ++ map EvK (if carries_keys f && out_keys out then filter (inc_key out) (rkeys snap) else [])
    ++ map EvA (if carries_aspas f && out_aspas out then filter (inc_aspa out) (aspas snap) else []).
Proof. exact listed_exact. Qed.

Theorem C21_listed_origin_iff : forall f out snap o,
  In (EvO o) (listed f out snap) <->
  (carries_origins f = true /\ out_origins out = true /\ In o (origins snap) /\
   match out_sel out with Some s => admits_origin s o | None => True end).
Proof. exact listed_origin_iff. Qed.

(* json, jsonext, slurm, slurm2: the output is one JSON document - the one
   listing exactly the admitted items - for ANY TAL name, comment and path *)
Theorem C21_json_formats_parse : forall f m out snap t,
  meta_wfb m = true -> snap_wfb snap = true -> doc_tree f m out snap = Some t ->
  exists b, render_bytes f m out snap = Some b /\ json_parse b = Some t.
Proof. exact json_formats_parse. Qed.

(* integers are written as JSON numbers *)
Theorem C21_dec_is_number : forall n, num_wfb (dec n) = true.
Proof. exact dec_num_wfb. Qed.

(* the executable oracle holds of the model on every well-formed input *)
Theorem C21_model_satisfies_spec : forall f m out snap, meta_wfb m = true -> snap_wfb snap = true ->
  spec_okb f m out snap {| o_bytes := model_bytes f m out snap;
                           o_listed := map (litem_of_event f) (listed f out snap) |} = true.
Proof. exact model_satisfies_spec. Qed.

(* the code before the fix violated the property *)
Theorem C21_unfixed_refuted :
  let tal := [97; 34; 98] in
  snap_wfb (witness_snap tal) = true
  /\ json_validb (old_json_bytes tal) = false /\ json_validb (old_slurm_bytes tal) = false
  /\ json_validb (model_bytes Json meta0 all_out (witness_snap tal)) = true
  /\ json_validb (model_bytes Slurm meta0 all_out (witness_snap tal)) = true
  /\ old_json_bytes [114; 105; 112; 101] = model_bytes Json meta0 all_out (witness_snap [114; 105; 112; 101]).
Proof. exact unfixed_refuted. Qed.

(* non-vacuity: a selection by covering prefix with more specifics on a small
   data set with a quote in the TAL name *)
Example C21_nonvacuous :
  let tal := [97; 34; 98] in
  let o1 := witness_origin tal in                                           (* 192.0.2.0/24 *)
  let o2 := {| o_asn := 1; o_v4 := true; o_bits := 10 * 2 ^ 120; o_len := 8; o_maxlen := Some 16;
               o_addr := [49; 48; 46; 48; 46; 48; 46; 48]; o_src := [SrcExc None None] |} in   (* 10.0.0.0/8 *)
  let snap := {| origins := [o2; o1]; rkeys := []; aspas := [{| a_cust := 7; a_provs := [1; 2]; a_src := [SrcExc None (Some tal)] |}] |} in
  let sel := {| s_res := [SelPrefix true (192 * 2 ^ 120) 8]; s_more := true |} in           (* 192.0.0.0/8 + more specifics *)
  let out := {| out_sel := Some sel; out_origins := true; out_keys := false; out_aspas := true |} in
  snap_wfb snap = true
  /\ listed Json out snap = [EvO o1]
  /\ listed Slurm2 {| out_sel := None; out_origins := true; out_keys := true; out_aspas := true |} snap
       = [EvO o2; EvO o1; EvA {| a_cust := 7; a_provs := [1; 2]; a_src := [SrcExc None (Some tal)] |}]
  /\ listed Bird1 out snap = [EvO o1] /\ listed Summary out snap = []
  /\ (exists t, doc_tree Json meta0 out snap = Some t /\ json_parse (model_bytes Json meta0 out snap) = Some t)
  /\ sel_origin {| s_res := [SelPrefix true (192 * 2 ^ 120) 8]; s_more := false |} o1 = false.
Proof.
  repeat split; try (vm_compute; reflexivity).
  eexists; split; [reflexivity|]. vm_compute. reflexivity.
Qed.

Check C21_listed_exact : forall f out snap,
  listed f out snap =
    map EvO (if carries_origins f && out_origins out then filter (inc_origin out) (origins snap) else [])
    ++ map EvK (if carries_keys f && out_keys out then filter (inc_key out) (rkeys snap) else [])
    ++ map EvA (if carries_aspas f && out_aspas out then filter (inc_aspa out) (aspas snap) else []).
Check C21_json_formats_parse : forall f m out snap t,
  meta_wfb m = true -> snap_wfb snap = true -> doc_tree f m out snap = Some t ->
  exists b, render_bytes f m out snap = Some b /\ json_parse b = Some t.
Check C21_model_satisfies_spec : forall f m out snap, meta_wfb m = true -> snap_wfb snap = true ->
  spec_okb f m out snap {| o_bytes := model_bytes f m out snap;
                           o_listed := map (litem_of_event f) (listed f out snap) |} = true.
