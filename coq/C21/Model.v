(* C21 model: src/output.rs.  Executable definitions only.

     Selection / SelectResource::{include_origin, include_router_key,
       include_aspa}, rpki Prefix::covers            -> [covers], [sel_origin] ...
     Output::{include_origin, include_router_key, include_aspa}, flags
                                                     -> [inc_origin] ...
     OutputStream::write_next / Output::write        -> [run], generic in what a
       formatter writes ([texts W]) and in where it goes next ([shape])
     the 13 formatters: control flow                 -> [shape_of]
       what they list                                -> [ev_texts] (item level)
       their bytes (csv, csvcompat, json, jsonext, slurm, slurm2, openbgpd,
       bird1, bird2, none; TAL name / comment through json_str in the four
       JSON formats, i.e. the code as fixed for finding F6)
                                                     -> [byte_texts]
   Item fields whose text comes from outside this file (IP address display,
   hex / base64 of keys, ISO dates, rsync URIs) are carried pre-rendered in
   the items; integers are printed by [dec].  *)
From Coq Require Import List NArith Bool String Ascii.
From RV Require Export Base.Json.
Import ListNotations.
Local Open Scope N_scope.

(* ------------------------------------------------------------ text helpers *)

Definition bs (s : string) : list N := map (fun a => N_of_ascii a) (list_ascii_of_string s).

(* Display of an unsigned integer.  (The fuel is ample: one decimal digit
   consumes more than three bits; the fuel-exhausted branch is unreachable
   and only there to keep the function total.) *)
Fixpoint dec_digits (fuel : nat) (n : N) (acc : list N) : list N :=
  match fuel with
  | O => 49 :: acc
  | S f =>
    let acc' := (48 + n mod 10) :: acc in
    if n <? 10 then acc' else dec_digits f (n / 10) acc'
  end.
Definition dec (n : N) : list N := dec_digits (S (N.to_nat (N.log2 n))) n [].

(* ------------------------------------------------------------ data *)

(* PayloadInfo: a chain of sources *)
Inductive src :=
| SrcPub (tal : list N) (uri : option (list N)) (nb na cnb cna stale : list N)   (* PublishInfo, dates as ISO text *)
| SrcExc (path : option (list N)) (comment : option (list N)).                  (* ExceptionInfo *)

Record origin := { o_asn : N; o_v4 : bool; o_bits : N; o_len : N; o_maxlen : option N;
                   o_addr : list N;            (* Display of prefix.addr() *)
                   o_src : list src }.
Record rkey := { k_asn : N; k_ski_hex : list N; k_info_b64 : list N; k_ski_b64 : list N; k_src : list src }.
Record aspa := { a_cust : N; a_provs : list N; a_src : list src }.

Record snapshot := { origins : list origin; rkeys : list rkey; aspas : list aspa }.
Record meta := { m_ts : N; m_time : list N }.     (* metrics.time: Unix timestamp and ISO text *)

(* ------------------------------------------------------------ selection *)

Inductive selres := SelAsn (a : N) | SelPrefix (v4 : bool) (bits len : N).
Record selection := { s_res : list selres; s_more : bool }.
Record output := { out_sel : option selection; out_origins : bool; out_keys : bool; out_aspas : bool }.

(* rpki::resources::addr::Prefix::covers; bits are the address left-aligned in 128 bits *)
Definition full_len (v4 : bool) : N := if v4 then 32 else 128.
Definition mask (len : N) : N := 2 ^ 128 - 2 ^ (128 - len).      (* !(u128::MAX >> len) *)
Definition covers (v4 : bool) (bits len : N) (v4' : bool) (bits' len' : N) : bool :=
  if negb (Bool.eqb v4 v4') then false
  else if len' <? len then false
  else if (len =? full_len v4) && (len' =? full_len v4) then bits =? bits'
  else bits =? N.land bits' (mask len).

(* SelectResource::include_origin / include_router_key / include_aspa *)
Definition res_origin (more : bool) (r : selres) (o : origin) : bool :=
  match r with
  | SelAsn a => o_asn o =? a
  | SelPrefix v4 bits len =>
      covers (o_v4 o) (o_bits o) (o_len o) v4 bits len
      || (more && covers v4 bits len (o_v4 o) (o_bits o) (o_len o))
  end.
Definition res_key (r : selres) (k : rkey) : bool := match r with SelAsn a => k_asn k =? a | _ => false end.
Definition res_aspa (r : selres) (x : aspa) : bool := match r with SelAsn a => a_cust x =? a | _ => false end.

(* Selection::include_* : any rule *)
Definition sel_origin (s : selection) (o : origin) : bool := existsb (fun r => res_origin (s_more s) r o) (s_res s).
Definition sel_key (s : selection) (k : rkey) : bool := existsb (fun r => res_key r k) (s_res s).
Definition sel_aspa (s : selection) (x : aspa) : bool := existsb (fun r => res_aspa r x) (s_res s).

(* Output::include_* : no selection admits everything *)
Definition inc_origin (out : output) (o : origin) : bool := match out_sel out with Some s => sel_origin s o | None => true end.
Definition inc_key (out : output) (k : rkey) : bool := match out_sel out with Some s => sel_key s k | None => true end.
Definition inc_aspa (out : output) (x : aspa) : bool := match out_sel out with Some s => sel_aspa s x | None => true end.

(* ------------------------------------------------------------ OutputStream *)

Inductive sstate :=
| SHeader | SOriginBefore | SOrigin | SOriginAfter | SKeyBefore | SKey | SKeyAfter
| SAspaBefore | SAspa | SAspaAfter | SDone.

(* where each Formatter method goes next *)
Record shape := {
  sh_header : sstate;
  sh_before_origins : bool -> sstate; sh_after_origins : sstate;
  sh_before_keys : bool -> sstate; sh_after_keys : sstate;
  sh_before_aspas : bool -> sstate; sh_after_aspas : sstate }.

(* what each Formatter method writes *)
Record texts (W : Type) := {
  t_header : list W;
  t_before_origins : bool -> list W; t_origin : origin -> list W; t_origin_delim : list W; t_after_origins : list W;
  t_before_keys : bool -> list W; t_key : rkey -> list W; t_key_delim : list W; t_after_keys : list W;
  t_before_aspas : bool -> list W; t_aspa : aspa -> list W; t_aspa_delim : list W; t_after_aspas : list W;
  t_footer : list W }.
Arguments t_header {W}. Arguments t_before_origins {W}. Arguments t_origin {W}. Arguments t_origin_delim {W}.
Arguments t_after_origins {W}. Arguments t_before_keys {W}. Arguments t_key {W}. Arguments t_key_delim {W}.
Arguments t_after_keys {W}. Arguments t_before_aspas {W}. Arguments t_aspa {W}. Arguments t_aspa_delim {W}.
Arguments t_after_aspas {W}. Arguments t_footer {W}.

(* the default methods of trait Formatter *)
Definition default_shape : shape :=
  {| sh_header := SOriginBefore;
     sh_before_origins := fun _ => SOrigin; sh_after_origins := SKeyBefore;
     sh_before_keys := fun _ => SKey; sh_after_keys := SAspaBefore;
     sh_before_aspas := fun _ => SAspa; sh_after_aspas := SDone |}.

Section Run.
Context {W : Type}.
Variable sh : shape.
Variable tx : texts W.
Variable out : output.
Variable snap : snapshot.

(* the loop over one payload type: a delimiter before every included item but the first *)
Definition render {I} (inc : I -> bool) (item : I -> list W) (delim : list W) (l : list I) : list W :=
  sep_by delim (map item (filter inc l)).

(* OutputStream::write_next: what is written in state [st] and the next state *)
Definition step (st : sstate) : list W * sstate :=
  match st with
  | SHeader => (t_header tx, sh_header sh)
  | SOriginBefore => (t_before_origins tx (out_origins out), sh_before_origins sh (out_origins out))
  | SOrigin => (render (inc_origin out) (t_origin tx) (t_origin_delim tx) (origins snap), SOriginAfter)
  | SOriginAfter => (t_after_origins tx, sh_after_origins sh)
  | SKeyBefore => (t_before_keys tx (out_keys out), sh_before_keys sh (out_keys out))
  | SKey => (render (inc_key out) (t_key tx) (t_key_delim tx) (rkeys snap), SKeyAfter)
  | SKeyAfter => (t_after_keys tx, sh_after_keys sh)
  | SAspaBefore => (t_before_aspas tx (out_aspas out), sh_before_aspas sh (out_aspas out))
  | SAspa => (render (inc_aspa out) (t_aspa tx) (t_aspa_delim tx) (aspas snap), SAspaAfter)
  | SAspaAfter => (t_after_aspas tx, sh_after_aspas sh)
  | SDone => ([], SDone)
  end.

Definition is_done (st : sstate) : bool := match st with SDone => true | _ => false end.

(* Output::write: while stream.write_next(target)? { }.  The footer is written
   by the step that reaches Done.  Every formatter only moves forward through
   the eleven states, so twelve rounds are always enough. *)
Fixpoint run (fuel : nat) (st : sstate) : list W :=
  match fuel with
  | O => []
  | S f =>
    if is_done st then []
    else let (w, next) := step st in
         w ++ (if is_done next then t_footer tx else []) ++ run f next
  end.
End Run.

(* ------------------------------------------------------------ the 13 formatters *)

Inductive format :=
| Csv | CompatCsv | ExtendedCsv | Json | ExtendedJson | Slurm | Slurm2
| Openbgpd | Bird1 | Bird2 | Rpsl | Summary | NoOutput.

Definition flag_shape : shape :=        (* before_origins: true => Origin, false => OriginAfter; the rest default *)
  {| sh_header := SOriginBefore;
     sh_before_origins := fun b => if b then SOrigin else SOriginAfter; sh_after_origins := SKeyBefore;
     sh_before_keys := fun _ => SKey; sh_after_keys := SAspaBefore;
     sh_before_aspas := fun _ => SAspa; sh_after_aspas := SDone |}.

Definition shape_of (f : format) : shape :=
  match f with
  | Csv | CompatCsv | ExtendedCsv | Openbgpd | Bird1 | Bird2 | Rpsl => flag_shape
  | Json | ExtendedJson =>
    {| sh_header := SOriginBefore;
       sh_before_origins := fun b => if b then SOrigin else SKeyBefore; sh_after_origins := SKeyBefore;
       sh_before_keys := fun b => if b then SKey else SAspaBefore; sh_after_keys := SAspaBefore;
       sh_before_aspas := fun b => if b then SAspa else SDone; sh_after_aspas := SDone |}
  | Slurm =>
    {| sh_header := SOriginBefore;
       sh_before_origins := fun b => if b then SOrigin else SOriginAfter; sh_after_origins := SKeyBefore;
       sh_before_keys := fun b => if b then SKey else SKeyAfter; sh_after_keys := SDone;
       sh_before_aspas := fun _ => SAspa; sh_after_aspas := SDone |}
  | Slurm2 =>
    {| sh_header := SOriginBefore;
       sh_before_origins := fun b => if b then SOrigin else SOriginAfter; sh_after_origins := SKeyBefore;
       sh_before_keys := fun b => if b then SKey else SKeyAfter; sh_after_keys := SAspaBefore;
       sh_before_aspas := fun b => if b then SAspa else SAspaAfter; sh_after_aspas := SDone |}
  | Summary =>
    {| sh_header := SDone;
       sh_before_origins := fun _ => SOrigin; sh_after_origins := SKeyBefore;
       sh_before_keys := fun _ => SKey; sh_after_keys := SAspaBefore;
       sh_before_aspas := fun _ => SAspa; sh_after_aspas := SDone |}
  | NoOutput => default_shape
  end.

(* ---- item level: which items a format writes something for ---- *)

Inductive event := EvO (o : origin) | EvK (k : rkey) | EvA (a : aspa).

Definition carries_origins (f : format) : bool := match f with Summary | NoOutput => false | _ => true end.
Definition carries_keys (f : format) : bool := match f with Json | ExtendedJson | Slurm | Slurm2 => true | _ => false end.
Definition carries_aspas (f : format) : bool := match f with Json | ExtendedJson | Slurm2 => true | _ => false end.

Definition ev_texts (f : format) : texts event :=
  {| t_header := [];
     t_before_origins := fun _ => []; t_origin := fun o => if carries_origins f then [EvO o] else [];
     t_origin_delim := []; t_after_origins := [];
     t_before_keys := fun _ => []; t_key := fun k => if carries_keys f then [EvK k] else [];
     t_key_delim := []; t_after_keys := [];
     t_before_aspas := fun _ => []; t_aspa := fun a => if carries_aspas f then [EvA a] else [];
     t_aspa_delim := []; t_after_aspas := [];
     t_footer := [] |}.

(* the items an output lists, in the order it lists them *)
Definition listed (f : format) (out : output) (snap : snapshot) : list event :=
  run (shape_of f) (ev_texts f) out snap 12 SHeader.

(* ---- byte level ---- *)

Definition na : list N := Eval vm_compute in bs "N/A".
(* PayloadInfo::tal_name().unwrap_or("N/A"): the TAL of the first source if it is a published object *)
Definition tal_name (s : list src) : list N :=
  match s with SrcPub tal _ _ _ _ _ _ :: _ => tal | _ => na end.

Definition asn_txt (a : N) : list N := [65; 83] ++ dec a.                      (* Display of Asn *)
Definition pfx_txt (o : origin) : list N := o_addr o ++ [47] ++ dec (o_len o).  (* "{}/{}" addr, prefix_len *)
Definition rml (o : origin) : N := match o_maxlen o with Some m => m | None => o_len o end.  (* resolved_max_len *)

Definition nl : list N := [10].
Definition comma_nl : list N := [44; 10].

(* --- Csv / CompatCsv --- *)
Definition csv_header : list N := Eval vm_compute in bs "ASN,IP Prefix,Max Length,Trust Anchor" ++ nl.
Definition csv_origin (o : origin) : list N :=
  asn_txt (o_asn o) ++ [44] ++ pfx_txt o ++ [44] ++ dec (rml o) ++ [44] ++ tal_name (o_src o) ++ nl.
Definition csvc_header : list N :=
  Eval vm_compute in bs """ASN"",""IP Prefix"",""Max Length"",""Trust Anchor""" ++ nl.
Definition csvc_origin (o : origin) : list N :=
  [34] ++ asn_txt (o_asn o) ++ [34; 44; 34] ++ pfx_txt o ++ [34; 44; 34] ++ dec (rml o) ++ [34; 44; 34]
  ++ tal_name (o_src o) ++ [34] ++ nl.

(* --- Openbgpd / Bird --- *)
Definition obgpd_header : list N := Eval vm_compute in bs "roa-set {" ++ nl.
Definition obgpd_footer : list N := [125; 10].
Definition s_maxlen : list N := Eval vm_compute in bs " maxlen ".
Definition s_source_as : list N := Eval vm_compute in bs " source-as ".
Definition obgpd_origin (o : origin) : list N :=
  [32; 32; 32; 32] ++ pfx_txt o
  ++ (if o_len o <? rml o then s_maxlen ++ dec (rml o) else [])
  ++ s_source_as ++ dec (o_asn o) ++ nl.
Definition s_roa : list N := Eval vm_compute in bs "roa ".
Definition s_route : list N := Eval vm_compute in bs "route ".
Definition s_max : list N := Eval vm_compute in bs " max ".
Definition s_as : list N := Eval vm_compute in bs " as ".
Definition bird_origin (kw : list N) (o : origin) : list N :=
  kw ++ pfx_txt o ++ s_max ++ dec (rml o) ++ s_as ++ dec (o_asn o) ++ [59; 10].

(* --- Json (RIPE NCC validator format) --- *)
Definition json_header1 : list N := Eval vm_compute in
  [123; 10] ++ bs "  ""metadata"": {" ++ nl ++ bs "    ""generated"": ".
Definition json_header2 : list N := Eval vm_compute in [44; 10] ++ bs "    ""generatedTime"": """.
Definition json_header3 : list N := Eval vm_compute in [34; 10] ++ bs "  }".
Definition json_header (m : meta) : list N :=
  json_header1 ++ dec (m_ts m) ++ json_header2 ++ m_time m ++ json_header3.
Definition json_roas : list N := Eval vm_compute in [44; 10] ++ bs "  ""roas"": [" ++ nl.
Definition json_keys : list N := Eval vm_compute in [44; 10] ++ bs "  ""routerKeys"": [" ++ nl.
Definition json_aspas : list N := Eval vm_compute in [44; 10] ++ bs "  ""aspas"": [" ++ nl.
Definition json_close : list N := Eval vm_compute in nl ++ bs "  ]".
Definition json_footer : list N := [10; 125; 10].

Definition j_asn : list N := Eval vm_compute in bs "    { ""asn"": """.
Definition j_prefix : list N := Eval vm_compute in bs """, ""prefix"": """.
Definition j_maxlen : list N := Eval vm_compute in bs """, ""maxLength"": ".
Definition j_ta : list N := Eval vm_compute in bs ", ""ta"": """.
Definition j_end : list N := Eval vm_compute in bs """ }".
Definition j_ski : list N := Eval vm_compute in bs """, ""SKI"": """.
Definition j_rpk : list N := Eval vm_compute in bs """, ""routerPublicKey"": """.
Definition j_qta : list N := Eval vm_compute in bs """, ""ta"": """.
Definition j_customer : list N := Eval vm_compute in bs "    { ""customer"": """.
Definition j_providers : list N := Eval vm_compute in bs """, ""providers"": [".
Definition j_bta : list N := Eval vm_compute in bs "], ""ta"": """.

Definition json_origin (o : origin) : list N :=
  j_asn ++ asn_txt (o_asn o) ++ j_prefix ++ pfx_txt o ++ j_maxlen ++ dec (rml o) ++ j_ta
  ++ json_escape (tal_name (o_src o)) ++ j_end.
Definition json_key (k : rkey) : list N :=
  j_asn ++ asn_txt (k_asn k) ++ j_ski ++ k_ski_hex k ++ j_rpk ++ k_info_b64 k ++ j_qta
  ++ json_escape (tal_name (k_src k)) ++ j_end.
Definition json_provider (p : N) : list N := [34] ++ asn_txt p ++ [34].
Definition json_providers (ps : list N) : list N := sep_by [44; 32] (map json_provider ps).
Definition json_aspa (a : aspa) : list N :=
  j_customer ++ asn_txt (a_cust a) ++ j_providers ++ json_providers (a_provs a) ++ j_bta
  ++ json_escape (tal_name (a_src a)) ++ j_end.

(* --- ExtendedJson --- *)
Definition x_source : list N := Eval vm_compute in bs ", ""source"": [".
Definition x_qsource : list N := Eval vm_compute in bs """, ""source"": [".
Definition x_bsource : list N := Eval vm_compute in bs "], ""source"": [".
Definition x_end : list N := Eval vm_compute in bs "] }".
Definition x_type : list N := Eval vm_compute in bs " { ""type"": """.
Definition x_uri : list N := Eval vm_compute in bs """, ""uri"": ".
Definition s_null : list N := Eval vm_compute in bs "null".
Definition x_tal : list N := Eval vm_compute in bs ", ""tal"": """.
Definition x_validity : list N := Eval vm_compute in bs """, ""validity"": { ""notBefore"": """.
Definition x_notafter : list N := Eval vm_compute in bs """, ""notAfter"": """.
Definition x_chain : list N := Eval vm_compute in bs """ }, ""chainValidity"": { ""notBefore"": """.
Definition x_stale : list N := Eval vm_compute in bs """ }, ""stale"": """.
Definition x_pubend : list N := Eval vm_compute in bs """ }".
Definition x_exc : list N := Eval vm_compute in bs " { ""type"": ""exception"", ""path"": ".
Definition x_comment : list N := Eval vm_compute in bs ", ""comment"": """.
Definition x_excend : list N := Eval vm_compute in bs " }".

Definition opt_str (raw : bool) (o : option (list N)) : list N :=
  match o with
  | Some s => [34] ++ (if raw then s else json_escape s) ++ [34]
  | None => s_null
  end.

(* ExtendedJson::payload_info, one element of the chain *)
Definition xjson_src (ty : list N) (s : src) : list N :=
  match s with
  | SrcPub tal uri nb na' cnb cna stale =>
      x_type ++ ty ++ x_uri ++ opt_str true uri ++ x_tal ++ json_escape tal
      ++ x_validity ++ nb ++ x_notafter ++ na' ++ x_chain ++ cnb ++ x_notafter ++ cna ++ x_stale ++ stale ++ x_pubend
  | SrcExc path comment =>
      x_exc ++ opt_str false path
      ++ (match comment with Some c => x_comment ++ json_escape c ++ [34] | None => [] end)
      ++ x_excend
  end.
Definition xjson_srcs (ty : list N) (l : list src) : list N := sep_by [44; 32] (map (xjson_src ty) l).
Definition ty_roa : list N := Eval vm_compute in bs "roa".
Definition ty_cer : list N := Eval vm_compute in bs "cer".
Definition ty_aspa : list N := Eval vm_compute in bs "aspa".

Definition xjson_origin (o : origin) : list N :=
  j_asn ++ asn_txt (o_asn o) ++ j_prefix ++ pfx_txt o ++ j_maxlen ++ dec (rml o) ++ x_source
  ++ xjson_srcs ty_roa (o_src o) ++ x_end.
Definition xjson_key (k : rkey) : list N :=
  j_asn ++ asn_txt (k_asn k) ++ j_ski ++ k_ski_hex k ++ j_rpk ++ k_info_b64 k ++ x_qsource
  ++ xjson_srcs ty_cer (k_src k) ++ x_end.
Definition xjson_aspa (a : aspa) : list N :=
  j_customer ++ asn_txt (a_cust a) ++ j_providers ++ json_providers (a_provs a) ++ x_bsource
  ++ xjson_srcs ty_aspa (a_src a) ++ x_end.

(* --- Slurm / Slurm2 --- *)
Definition slurm_header : list N := Eval vm_compute in
  [123; 10] ++ bs "  ""slurmVersion"": 1," ++ nl ++ bs "  ""validationOutputFilters"": {" ++ nl
  ++ bs "    ""prefixFilters"": [ ]," ++ nl ++ bs "    ""bgpsecFilters"": [ ]" ++ nl ++ bs "  }," ++ nl
  ++ bs "  ""locallyAddedAssertions"": {" ++ nl.
Definition slurm2_header : list N := Eval vm_compute in
  [123; 10] ++ bs "  ""slurmVersion"": 2," ++ nl ++ bs "  ""validationOutputFilters"": {" ++ nl
  ++ bs "    ""prefixFilters"": [ ]," ++ nl ++ bs "    ""bgpsecFilters"": [ ]," ++ nl
  ++ bs "    ""aspaFilters"": [ ]" ++ nl ++ bs "  }," ++ nl
  ++ bs "  ""locallyAddedAssertions"": {" ++ nl.
Definition slurm_prefixes : list N := Eval vm_compute in bs "    ""prefixAssertions"": [" ++ nl.
Definition slurm_bgpsec : list N := Eval vm_compute in bs "    ""bgpsecAssertions"": [" ++ nl.
Definition slurm_aspas : list N := Eval vm_compute in bs "    ""aspaAssertions"": [" ++ nl.
Definition slurm_close_more : list N := Eval vm_compute in nl ++ bs "    ]," ++ nl.
Definition slurm_close_last : list N := Eval vm_compute in nl ++ bs "    ]" ++ nl.
Definition slurm_footer : list N := Eval vm_compute in bs "  }" ++ nl ++ bs "}" ++ nl.

Definition sl_open : list N := Eval vm_compute in bs "      {" ++ nl ++ bs "        ""asn"": ".
Definition sl_prefix : list N := Eval vm_compute in [44; 10] ++ bs "        ""prefix"": """.
Definition sl_prefix_end : list N := [34; 44; 10].
Definition sl_maxlen : list N := Eval vm_compute in bs "        ""maxPrefixLength"": ".
Definition sl_comment : list N := Eval vm_compute in bs "        ""comment"": """.
Definition sl_close : list N := Eval vm_compute in [34; 10] ++ bs "      }".
Definition sl_ski : list N := Eval vm_compute in [44; 10] ++ bs "        ""SKI"": """.
Definition sl_rpk : list N := Eval vm_compute in [34; 44; 10] ++ bs "        ""routerPublicKey"": """.
Definition sl_qcomment : list N := Eval vm_compute in [34; 44; 10] ++ bs "        ""comment"": """.

Definition slurm_origin (o : origin) : list N :=
  sl_open ++ dec (o_asn o) ++ sl_prefix ++ pfx_txt o ++ sl_prefix_end
  ++ (match o_maxlen o with Some m => sl_maxlen ++ dec m ++ comma_nl | None => [] end)
  ++ sl_comment ++ json_escape (tal_name (o_src o)) ++ sl_close.
Definition slurm_key (k : rkey) : list N :=
  sl_open ++ dec (k_asn k) ++ sl_ski ++ k_ski_b64 k ++ sl_rpk ++ k_info_b64 k ++ sl_qcomment
  ++ json_escape (tal_name (k_src k)) ++ sl_close.

Definition sa_open : list N := Eval vm_compute in bs "      { " ++ nl ++ bs "        ""customerAsn"": ".
Definition sa_providers : list N := Eval vm_compute in bs ", " ++ nl ++ bs "        ""providerAsns"": [".
Definition sa_first : list N := Eval vm_compute in nl ++ bs "          ".
Definition sa_next : list N := Eval vm_compute in bs ", " ++ nl ++ bs "          ".
Definition sa_close : list N := Eval vm_compute in nl ++ bs "        ]," ++ nl ++ bs "        ""comment"": """.
Definition slurm_providers (ps : list N) : list N :=
  match ps with
  | [] => []
  | _ => sa_first ++ sep_by sa_next (map dec ps)
  end.
Definition slurm_aspa (a : aspa) : list N :=
  sa_open ++ dec (a_cust a) ++ sa_providers ++ slurm_providers (a_provs a) ++ sa_close
  ++ json_escape (tal_name (a_src a)) ++ sl_close.

(* --- the table --- *)
Definition no_texts : texts N :=
  {| t_header := [];
     t_before_origins := fun _ => []; t_origin := fun _ => []; t_origin_delim := []; t_after_origins := [];
     t_before_keys := fun _ => []; t_key := fun _ => []; t_key_delim := []; t_after_keys := [];
     t_before_aspas := fun _ => []; t_aspa := fun _ => []; t_aspa_delim := []; t_after_aspas := [];
     t_footer := [] |}.

Definition line_texts (header : list N) (item : origin -> list N) (footer : list N) : texts N :=
  {| t_header := header;
     t_before_origins := fun _ => []; t_origin := item; t_origin_delim := []; t_after_origins := [];
     t_before_keys := fun _ => []; t_key := fun _ => []; t_key_delim := []; t_after_keys := [];
     t_before_aspas := fun _ => []; t_aspa := fun _ => []; t_aspa_delim := []; t_after_aspas := [];
     t_footer := footer |}.

Definition when (b : bool) (l : list N) : list N := if b then l else [].

Definition byte_texts (f : format) (m : meta) : option (texts N) :=
  match f with
  | Csv => Some (line_texts csv_header csv_origin [])
  | CompatCsv => Some (line_texts csvc_header csvc_origin [])
  | Openbgpd => Some (line_texts obgpd_header obgpd_origin obgpd_footer)
  | Bird1 => Some (line_texts [] (bird_origin s_roa) [])
  | Bird2 => Some (line_texts [] (bird_origin s_route) [])
  | NoOutput => Some no_texts
  | Json => Some
    {| t_header := json_header m;
       t_before_origins := fun b => when b json_roas; t_origin := json_origin; t_origin_delim := comma_nl;
       t_after_origins := json_close;
       t_before_keys := fun b => when b json_keys; t_key := json_key; t_key_delim := comma_nl;
       t_after_keys := json_close;
       t_before_aspas := fun b => when b json_aspas; t_aspa := json_aspa; t_aspa_delim := comma_nl;
       t_after_aspas := json_close;
       t_footer := json_footer |}
  | ExtendedJson => Some
    {| t_header := json_header m;
       t_before_origins := fun b => when b json_roas; t_origin := xjson_origin; t_origin_delim := comma_nl;
       t_after_origins := json_close;
       t_before_keys := fun b => when b json_keys; t_key := xjson_key; t_key_delim := comma_nl;
       t_after_keys := json_close;
       t_before_aspas := fun b => when b json_aspas; t_aspa := xjson_aspa; t_aspa_delim := comma_nl;
       t_after_aspas := json_close;
       t_footer := json_footer |}
  | Slurm => Some
    {| t_header := slurm_header;
       t_before_origins := fun _ => slurm_prefixes; t_origin := slurm_origin; t_origin_delim := comma_nl;
       t_after_origins := slurm_close_more;
       t_before_keys := fun _ => slurm_bgpsec; t_key := slurm_key; t_key_delim := comma_nl;
       t_after_keys := slurm_close_last;
       t_before_aspas := fun _ => []; t_aspa := fun _ => []; t_aspa_delim := []; t_after_aspas := [];
       t_footer := slurm_footer |}
  | Slurm2 => Some
    {| t_header := slurm2_header;
       t_before_origins := fun _ => slurm_prefixes; t_origin := slurm_origin; t_origin_delim := comma_nl;
       t_after_origins := slurm_close_more;
       t_before_keys := fun _ => slurm_bgpsec; t_key := slurm_key; t_key_delim := comma_nl;
       t_after_keys := slurm_close_more;
       t_before_aspas := fun _ => slurm_aspas; t_aspa := slurm_aspa; t_aspa_delim := comma_nl;
       t_after_aspas := slurm_close_last;
       t_footer := slurm_footer |}
  | ExtendedCsv | Rpsl | Summary => None       (* bytes not modelled (dates, current time, summary table) *)
  end.

Definition render_bytes (f : format) (m : meta) (out : output) (snap : snapshot) : option (list N) :=
  match byte_texts f m with
  | Some tx => Some (run (shape_of f) tx out snap 12 SHeader)
  | None => None
  end.
