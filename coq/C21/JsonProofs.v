(* C21 proofs, part 2: the json, jsonext, slurm and slurm2 outputs are JSON
   documents, for every data set, selection, exclusion, TAL name, comment and
   path: the bytes lex to the tokens of [doc_tree], hence parse to it. *)
From Coq Require Import List NArith Lia Bool.
From RV Require Import Base.Json Base.JsonDoc C21.Model C21.Spec C21.Proofs.
Import ListNotations.
Local Open Scope N_scope.

(* a string written raw between quotes *)
Lemma lexes_plain t l ts : plainb t = true -> lexes l ts -> lexes (34 :: t ++ 34 :: l) (TStr t :: ts).
Proof.
  intros Hp Hl. rewrite <- (json_escape_plain t) at 1; [apply lexes_escaped, Hl|]. exact Hp.
Qed.

Ltac norm_app := repeat first [rewrite <- app_assoc | progress cbn [app]].

(* one token at a time *)
Ltac lx1 :=
  match goal with
  | |- lexes [] [] => apply lexes_nil
  | |- lexes (32 :: _) _ => apply lexes_ws; [reflexivity|]
  | |- lexes (10 :: _) _ => apply lexes_ws; [reflexivity|]
  | |- lexes (123 :: _) _ => apply lexes_lbrace
  | |- lexes (125 :: _) _ => apply lexes_rbrace
  | |- lexes (91 :: _) _ => apply lexes_lbrack
  | |- lexes (93 :: _) _ => apply lexes_rbrack
  | |- lexes (58 :: _) _ => apply lexes_colon
  | |- lexes (44 :: _) _ => apply lexes_comma
  | |- lexes (34 :: json_escape _ ++ 34 :: _) _ => apply lexes_escaped
  | |- lexes (34 :: _ ++ 34 :: _) _ => apply lexes_plain; [solve [auto using asn_txt_plain, pfx_txt_plain, dec_plain] |]
  | |- lexes (34 :: _ :: _) _ => eapply lexes_string; [reflexivity|]
  | |- lexes (dec _ ++ _) _ => apply lexes_num; [apply dec_num_wfb | reflexivity |]
  | |- lexes (49 :: ?r) (TNum _ :: _) => apply (lexes_num [49] r); [reflexivity | reflexivity |]
  | |- lexes (50 :: ?r) (TNum _ :: _) => apply (lexes_num [50] r); [reflexivity | reflexivity |]
  | |- lexes (110 :: 117 :: 108 :: 108 :: _) _ => apply lexes_null
  end.
Ltac lx := repeat lx1.

Lemma comma_nl_end l : num_end (comma_nl ++ l).
Proof. reflexivity. Qed.
Lemma comma_nl_lexes l ts : lexes l ts -> lexes (comma_nl ++ l) (TComma :: ts).
Proof. intros H. unfold comma_nl. cbn [app]. lx. exact H. Qed.
Lemma comma_sp_end l : num_end ([44; 32] ++ l).
Proof. reflexivity. Qed.
Lemma comma_sp_lexes l ts : lexes l ts -> lexes ([44; 32] ++ l) (TComma :: ts).
Proof. intros H. cbn [app]. lx. exact H. Qed.

(* ---------------------------------------------------------------- json items *)

Lemma lexes_json_providers ps rest ts : lexes rest ts ->
  lexes (json_providers ps ++ rest) (tsep (map (fun p => [TStr (asn_txt p)]) ps) ++ ts).
Proof.
  intros Hl. unfold json_providers.
  apply (lexes_sep_by [44; 32] json_provider (fun p => [TStr (asn_txt p)]) ps);
    [exact comma_sp_end | exact comma_sp_lexes | | | exact Hl].
  - intros p _ r t _ H. unfold json_provider. norm_app. lx. exact H.
  - (* whatever follows a provider list is a bracket, handled by the caller *)
    destruct rest as [|c r]; [exact I|].
Abort.
