(* C21 proofs, part 2: the json, jsonext, slurm and slurm2 outputs are JSON
   documents, for every data set, selection, exclusion, TAL name, comment and
   path: the bytes lex to the tokens of [doc_tree], hence parse to it. *)
From Coq Require Import List NArith Lia Bool.
From RV Require Import Base.Json Base.JsonDoc C21.Model C21.Spec C21.Proofs.
Import ListNotations.
Local Open Scope N_scope.

(* a string written raw between quotes *)
Lemma lexes_plain t l ts : plainb t = true -> lexes l ts -> lexes (34 :: t ++ 34 :: l) (TStr t :: ts).
Proof.
  intros Hp Hl. rewrite <- (json_escape_plain t) at 1; [apply lexes_escaped, Hl|]. exact Hp.
Qed.

Ltac norm_app := repeat first [rewrite <- app_assoc | progress cbn [app]].

(* one token at a time *)
Ltac lx1 :=
  match goal with
  | |- lexes [] [] => apply lexes_nil
  | |- lexes (32 :: _) _ => apply lexes_ws; [reflexivity|]
  | |- lexes (10 :: _) _ => apply lexes_ws; [reflexivity|]
  | |- lexes (123 :: _) _ => apply lexes_lbrace
  | |- lexes (125 :: _) _ => apply lexes_rbrace
  | |- lexes (91 :: _) _ => apply lexes_lbrack
  | |- lexes (93 :: _) _ => apply lexes_rbrack
  | |- lexes (58 :: _) _ => apply lexes_colon
  | |- lexes (44 :: _) _ => apply lexes_comma
  | |- lexes (34 :: json_escape _ ++ 34 :: _) _ => apply lexes_escaped
  | |- lexes (34 :: _ ++ 34 :: _) _ => apply lexes_plain; [solve [auto using asn_txt_plain, pfx_txt_plain, dec_plain] |]
  | |- lexes (34 :: _ :: _) _ => eapply lexes_string; [reflexivity|]
  | |- lexes (dec _ ++ _) _ => apply lexes_num; [apply dec_num_wfb | reflexivity |]
  | |- lexes (49 :: ?r) (TNum _ :: _) => apply (lexes_num [49] r); [reflexivity | reflexivity |]
  | |- lexes (50 :: ?r) (TNum _ :: _) => apply (lexes_num [50] r); [reflexivity | reflexivity |]
  | |- lexes (110 :: 117 :: 108 :: 108 :: _) _ => apply lexes_null
  end.
Ltac lx := repeat lx1.

Lemma comma_nl_end l : num_end (comma_nl ++ l).
Proof. reflexivity. Qed.
Lemma comma_nl_lexes l ts : lexes l ts -> lexes (comma_nl ++ l) (TComma :: ts).
Proof. intros H. unfold comma_nl. cbn [app]. lx. exact H. Qed.
Lemma comma_sp_end l : num_end ([44; 32] ++ l).
Proof. reflexivity. Qed.
Lemma comma_sp_lexes l ts : lexes l ts -> lexes ([44; 32] ++ l) (TComma :: ts).
Proof. intros H. cbn [app]. lx. exact H. Qed.

(* the loop over one payload type, inside its brackets *)
Lemma lexes_render {I} (inc : I -> bool) (pf : I -> list N) (tf : I -> json) (wf : I -> bool) l tail tts :
  (forall x rest ts, wf x = true -> lexes rest ts -> lexes (pf x ++ rest) (toks (tf x) ++ ts)) ->
  forallb wf l = true -> num_end tail -> lexes tail tts ->
  lexes (render inc pf comma_nl l ++ tail) (tsep (map toks (map tf (filter inc l))) ++ tts).
Proof.
  intros Hitem Hwf He Hl. unfold render. rewrite map_map.
  apply (lexes_sep_by comma_nl pf (fun x => toks (tf x)) (filter inc l));
    [exact comma_nl_end | exact comma_nl_lexes | | exact He | exact Hl].
  intros x Hx rest ts _ Hr. apply Hitem; [|exact Hr].
  apply filter_In in Hx as [Hx _]. rewrite forallb_forall in Hwf. auto.
Qed.

Ltac split_wf H :=
  repeat match type of H with _ && _ = true => let H2 := fresh "Hw" in apply andb_true_iff in H as [H H2] end.

(* ---------------------------------------------------------------- json items *)

Lemma lexes_json_providers ps rest ts : num_end rest -> lexes rest ts ->
  lexes (json_providers ps ++ rest) (tsep (map toks (map (fun p => JStr (asn_txt p)) ps)) ++ ts).
Proof.
  intros He Hl. unfold json_providers. rewrite map_map.
  apply (lexes_sep_by [44; 32] json_provider (fun p => toks (JStr (asn_txt p))) ps);
    [exact comma_sp_end | exact comma_sp_lexes | | exact He | exact Hl].
  intros p _ r t _ H. unfold json_provider. cbn [toks]. norm_app. lx. exact H.
Qed.

Lemma lexes_json_origin o rest ts : origin_wfb o = true -> lexes rest ts ->
  lexes (json_origin o ++ rest) (toks (origin_tree o) ++ ts).
Proof.
  intros Hwf Hl. unfold origin_wfb in Hwf. split_wf Hwf.
  unfold json_origin, origin_tree, ta_member, j_asn, j_prefix, j_maxlen, j_ta, j_end.
  cbn [toks tsep map fst snd]. norm_app. lx. exact Hl.
Qed.

Lemma lexes_json_key k rest ts : key_wfb k = true -> lexes rest ts ->
  lexes (json_key k ++ rest) (toks (key_tree k) ++ ts).
Proof.
  intros Hwf Hl. unfold key_wfb in Hwf. split_wf Hwf.
  unfold json_key, key_tree, ta_member, j_asn, j_ski, j_rpk, j_qta, j_end.
  cbn [toks tsep map fst snd]. norm_app. lx. exact Hl.
Qed.

Lemma lexes_json_aspa a rest ts : aspa_wfb a = true -> lexes rest ts ->
  lexes (json_aspa a ++ rest) (toks (aspa_tree a) ++ ts).
Proof.
  intros _ Hl.
  unfold json_aspa, aspa_tree, providers_tree, ta_member, j_customer, j_providers, j_bta, j_end.
  cbn [toks tsep map fst snd]. norm_app. lx.
  apply lexes_json_providers; [reflexivity|]. lx. exact Hl.
Qed.

(* ---------------------------------------------------------------- jsonext items *)

Lemma lexes_xjson_src ty s rest ts : plainb ty = true -> src_wfb s = true -> lexes rest ts ->
  lexes (xjson_src ty s ++ rest) (toks (src_tree ty s) ++ ts).
Proof.
  intros Hty Hwf Hl. destruct s as [tal uri nb na' cnb cna stale | path comment].
  - cbn [src_wfb] in Hwf. split_wf Hwf.
    unfold xjson_src, src_tree, validity_tree, x_type, x_uri, x_tal, x_validity, x_notafter, x_chain, x_stale, x_pubend.
    destruct uri as [u|]; cbn [opt_str opt_tree oplainb] in *; unfold s_null;
      cbn [toks tsep map fst snd]; norm_app; lx; exact Hl.
  - unfold xjson_src, src_tree, x_exc, x_comment, x_excend.
    destruct path as [p|], comment as [c|]; cbn [opt_str opt_tree]; unfold s_null;
      cbn [toks tsep map fst snd app]; norm_app; lx; exact Hl.
Qed.

Lemma lexes_xjson_srcs ty l rest ts : plainb ty = true -> forallb src_wfb l = true -> num_end rest -> lexes rest ts ->
  lexes (xjson_srcs ty l ++ rest) (tsep (map toks (map (src_tree ty) l)) ++ ts).
Proof.
  intros Hty Hwf He Hl. unfold xjson_srcs. rewrite map_map.
  apply (lexes_sep_by [44; 32] (xjson_src ty) (fun s => toks (src_tree ty s)) l);
    [exact comma_sp_end | exact comma_sp_lexes | | exact He | exact Hl].
  intros s Hs r t _ H. apply lexes_xjson_src; auto. rewrite forallb_forall in Hwf. auto.
Qed.

Lemma lexes_xjson_origin o rest ts : origin_wfb o = true -> lexes rest ts ->
  lexes (xjson_origin o ++ rest) (toks (xorigin_tree o) ++ ts).
Proof.
  intros Hwf Hl. unfold origin_wfb in Hwf. split_wf Hwf.
  unfold xjson_origin, xorigin_tree, source_member, j_asn, j_prefix, j_maxlen, x_source, x_end.
  cbn [toks tsep map fst snd]. norm_app. lx.
  apply lexes_xjson_srcs; [reflexivity | assumption | reflexivity |]. lx. exact Hl.
Qed.

Lemma lexes_xjson_key k rest ts : key_wfb k = true -> lexes rest ts ->
  lexes (xjson_key k ++ rest) (toks (xkey_tree k) ++ ts).
Proof.
  intros Hwf Hl. unfold key_wfb in Hwf. split_wf Hwf.
  unfold xjson_key, xkey_tree, source_member, j_asn, j_ski, j_rpk, x_qsource, x_end.
  cbn [toks tsep map fst snd]. norm_app. lx.
  apply lexes_xjson_srcs; [reflexivity | assumption | reflexivity |]. lx. exact Hl.
Qed.

Lemma lexes_xjson_aspa a rest ts : aspa_wfb a = true -> lexes rest ts ->
  lexes (xjson_aspa a ++ rest) (toks (xaspa_tree a) ++ ts).
Proof.
  intros Hwf Hl. unfold aspa_wfb in Hwf.
  unfold xjson_aspa, xaspa_tree, providers_tree, source_member, j_customer, j_providers, x_bsource, x_end.
  cbn [toks tsep map fst snd]. norm_app. lx.
  apply lexes_json_providers; [reflexivity|]. lx.
  apply lexes_xjson_srcs; [reflexivity | assumption | reflexivity |]. lx. exact Hl.
Qed.

(* ---------------------------------------------------------------- slurm items *)

Lemma lexes_slurm_origin o rest ts : origin_wfb o = true -> lexes rest ts ->
  lexes (slurm_origin o ++ rest) (toks (sorigin_tree o) ++ ts).
Proof.
  intros Hwf Hl. unfold origin_wfb in Hwf. split_wf Hwf.
  unfold slurm_origin, sorigin_tree, sl_open, sl_prefix, sl_prefix_end, sl_maxlen, sl_comment, sl_close, comma_nl.
  destruct (o_maxlen o) as [m|]; cbn [toks tsep map fst snd app]; norm_app; lx; exact Hl.
Qed.

Lemma lexes_slurm_key k rest ts : key_wfb k = true -> lexes rest ts ->
  lexes (slurm_key k ++ rest) (toks (skey_tree k) ++ ts).
Proof.
  intros Hwf Hl. unfold key_wfb in Hwf. split_wf Hwf.
  unfold slurm_key, skey_tree, sl_open, sl_ski, sl_rpk, sl_qcomment, sl_close.
  cbn [toks tsep map fst snd]. norm_app. lx. exact Hl.
Qed.

Lemma sa_next_end l : num_end (sa_next ++ l).
Proof. reflexivity. Qed.
Lemma sa_next_lexes l ts : lexes l ts -> lexes (sa_next ++ l) (TComma :: ts).
Proof. intros H. unfold sa_next. cbn [app]. lx. exact H. Qed.

Lemma lexes_slurm_providers ps rest ts : num_end rest -> lexes rest ts ->
  lexes (slurm_providers ps ++ rest) (tsep (map toks (map (fun p => JNum (dec p)) ps)) ++ ts).
Proof.
  intros He Hl. destruct ps as [|p ps]; [exact Hl|].
  unfold slurm_providers, sa_first. norm_app. lx. rewrite map_map.
  apply (lexes_sep_by sa_next dec (fun p => toks (JNum (dec p))) (p :: ps));
    [exact sa_next_end | exact sa_next_lexes | | exact He | exact Hl].
  intros x _ r t Hr H. cbn [toks app]. apply lexes_num; [apply dec_num_wfb | exact Hr | exact H].
Qed.

Lemma lexes_slurm_aspa a rest ts : aspa_wfb a = true -> lexes rest ts ->
  lexes (slurm_aspa a ++ rest) (toks (saspa_tree a) ++ ts).
Proof.
  intros _ Hl.
  unfold slurm_aspa, saspa_tree, sa_open, sa_providers, sa_close, sl_close.
  cbn [toks tsep map fst snd]. norm_app. lx.
  apply lexes_slurm_providers; [reflexivity|]. lx. exact Hl.
Qed.

(* ---------------------------------------------------------------- whole documents *)

Lemma snap_wf_parts snap : snap_wfb snap = true ->
  forallb origin_wfb (origins snap) = true /\ forallb key_wfb (rkeys snap) = true /\ forallb aspa_wfb (aspas snap) = true.
Proof. unfold snap_wfb. rewrite !andb_true_iff. tauto. Qed.

Ltac lx_doc Ho Hk Ha Hwo Hwk Hwa :=
  repeat first
    [ lx1
    | apply (lexes_render _ _ _ origin_wfb); [exact Ho | exact Hwo | reflexivity |]
    | apply (lexes_render _ _ _ key_wfb); [exact Hk | exact Hwk | reflexivity |]
    | apply (lexes_render _ _ _ aspa_wfb); [exact Ha | exact Hwa | reflexivity |] ].

Section JsonLike.
(* json and jsonext share everything but the item writers *)
Variables (po : origin -> list N) (pk : rkey -> list N) (pa : aspa -> list N).
Variables (to : origin -> json) (tk : rkey -> json) (ta : aspa -> json).
Hypothesis Ho : forall o rest ts, origin_wfb o = true -> lexes rest ts -> lexes (po o ++ rest) (toks (to o) ++ ts).
Hypothesis Hk : forall k rest ts, key_wfb k = true -> lexes rest ts -> lexes (pk k ++ rest) (toks (tk k) ++ ts).
Hypothesis Ha : forall a rest ts, aspa_wfb a = true -> lexes rest ts -> lexes (pa a ++ rest) (toks (ta a) ++ ts).

Definition json_like_texts (m : meta) : texts N :=
  {| t_header := json_header m;
     t_before_origins := fun b => when b json_roas; t_origin := po; t_origin_delim := comma_nl;
     t_after_origins := json_close;
     t_before_keys := fun b => when b json_keys; t_key := pk; t_key_delim := comma_nl;
     t_after_keys := json_close;
     t_before_aspas := fun b => when b json_aspas; t_aspa := pa; t_aspa_delim := comma_nl;
     t_after_aspas := json_close;
     t_footer := json_footer |}.

Lemma json_like_lexes m out snap : meta_wfb m = true -> snap_wfb snap = true ->
  lexes (run (shape_of Json) (json_like_texts m) out snap 12 SHeader) (toks (json_doc to tk ta m out snap)).
Proof.
  intros Hm Hs. destruct (snap_wf_parts snap Hs) as (Hwo & Hwk & Hwa). unfold meta_wfb in Hm.
  destruct out as [sel fo fk fa]. unfold json_doc, metadata_member.
  destruct fo, fk, fa;
    cbn -[render filter inc_origin inc_key inc_aspa dec];
    unfold json_header, json_header1, json_header2, json_header3, json_roas, json_keys, json_aspas, json_close, json_footer;
    cbn [toks tsep map fst snd app]; norm_app;
    lx_doc Ho Hk Ha Hwo Hwk Hwa.
Qed.
End JsonLike.

Lemma json_lexes m out snap : meta_wfb m = true -> snap_wfb snap = true ->
  forall tx, byte_texts Json m = Some tx ->
  lexes (run (shape_of Json) tx out snap 12 SHeader) (toks (json_doc origin_tree key_tree aspa_tree m out snap)).
Proof.
  intros Hm Hs tx E. inversion E; subst tx.
  exact (json_like_lexes json_origin json_key json_aspa origin_tree key_tree aspa_tree
           lexes_json_origin lexes_json_key lexes_json_aspa m out snap Hm Hs).
Qed.

Lemma jsonext_lexes m out snap : meta_wfb m = true -> snap_wfb snap = true ->
  forall tx, byte_texts ExtendedJson m = Some tx ->
  lexes (run (shape_of ExtendedJson) tx out snap 12 SHeader) (toks (json_doc xorigin_tree xkey_tree xaspa_tree m out snap)).
Proof.
  intros Hm Hs tx E. inversion E; subst tx.
  exact (json_like_lexes xjson_origin xjson_key xjson_aspa xorigin_tree xkey_tree xaspa_tree
           lexes_xjson_origin lexes_xjson_key lexes_xjson_aspa m out snap Hm Hs).
Qed.

Lemma slurm_lexes m out snap : snap_wfb snap = true ->
  forall tx, byte_texts Slurm m = Some tx ->
  lexes (run (shape_of Slurm) tx out snap 12 SHeader) (toks (slurm_doc false out snap)).
Proof.
  intros Hs tx E. inversion E; subst tx. destruct (snap_wf_parts snap Hs) as (Hwo & Hwk & Hwa).
  destruct out as [sel fo fk fa]. unfold slurm_doc.
  destruct fo, fk, fa;
    cbn -[render filter inc_origin inc_key inc_aspa dec];
    unfold slurm_header, slurm_prefixes, slurm_bgpsec, slurm_close_more, slurm_close_last, slurm_footer;
    cbn [toks tsep map fst snd app]; norm_app;
    lx_doc lexes_slurm_origin lexes_slurm_key lexes_slurm_aspa Hwo Hwk Hwa.
Qed.

Lemma slurm2_lexes m out snap : snap_wfb snap = true ->
  forall tx, byte_texts Slurm2 m = Some tx ->
  lexes (run (shape_of Slurm2) tx out snap 12 SHeader) (toks (slurm_doc true out snap)).
Proof.
  intros Hs tx E. inversion E; subst tx. destruct (snap_wf_parts snap Hs) as (Hwo & Hwk & Hwa).
  destruct out as [sel fo fk fa]. unfold slurm_doc.
  destruct fo, fk, fa;
    cbn -[render filter inc_origin inc_key inc_aspa dec];
    unfold slurm2_header, slurm_prefixes, slurm_bgpsec, slurm_aspas, slurm_close_more, slurm_close_last, slurm_footer;
    cbn [toks tsep map fst snd app]; norm_app;
    lx_doc lexes_slurm_origin lexes_slurm_key lexes_slurm_aspa Hwo Hwk Hwa.
Qed.

(* For json, jsonext, slurm and slurm2: the output is one JSON document, and
   it is the document that lists exactly the admitted items - for any data,
   any TAL name, comment or path. *)
Theorem json_formats_parse f m out snap t :
  meta_wfb m = true -> snap_wfb snap = true -> doc_tree f m out snap = Some t ->
  exists b, render_bytes f m out snap = Some b /\ json_parse b = Some t.
Proof.
  intros Hm Hs Ht. unfold render_bytes.
  destruct f; cbn [doc_tree] in Ht; try discriminate; inversion Ht; subst t.
  - destruct (byte_texts Json m) as [tx|] eqn:E; [|discriminate E]. eexists; split; [reflexivity|].
    apply json_parse_of_lexes, json_lexes; assumption.
  - destruct (byte_texts ExtendedJson m) as [tx|] eqn:E; [|discriminate E]. eexists; split; [reflexivity|].
    apply json_parse_of_lexes, jsonext_lexes; assumption.
  - destruct (byte_texts Slurm m) as [tx|] eqn:E; [|discriminate E]. eexists; split; [reflexivity|].
    apply json_parse_of_lexes, (slurm_lexes m); assumption.
  - destruct (byte_texts Slurm2 m) as [tx|] eqn:E; [|discriminate E]. eexists; split; [reflexivity|].
    apply json_parse_of_lexes, (slurm2_lexes m); assumption.
Qed.
