(* C29: the documented fallback table as an executable oracle, and the case checkers of the two
   correspondence streams.  No proofs here. *)
From Coq Require Import List NArith ZArith Bool.
From RV Require Export C29.Model.
Import ListNotations.
Local Open Scope N_scope.

Definition policy_eqb (a b : policy) : bool :=
  match a, b with Never, Never | Stale, Stale | New, New => true | _, _ => false end.
Definition outcome_eqb (a b : outcome) : bool :=
  match a, b with Unavailable, Unavailable | OStale, OStale | Current, Current | Updated, Updated => true
  | _, _ => false end.
Definition transport_eqb (a b : transport) : bool :=
  match a, b with TNone, TNone | TRrdp, TRrdp | TRsync, TRsync | TError, TError => true | _, _ => false end.

(* The property text (and the manual page for --rrdp-fallback):
   for a CA announcing RRDP, rsync -- when enabled -- is used exactly when
     RRDP is disabled; or
     the RRDP update failed with no local copy and the policy is 'new' or 'stale'; or
     it failed with an expired local copy and the policy is 'stale'. *)
Definition wants_rsync (pol : policy) (rrdp_on : bool) (o : outcome) : bool :=
  negb rrdp_on
  || (outcome_eqb o Unavailable && (policy_eqb pol New || policy_eqb pol Stale))
  || (outcome_eqb o OStale && policy_eqb pol Stale).

(* the documented table *)
Definition spec_transport (pol : policy) (rrdp_on rsync_on has_notify : bool) (o : outcome) : transport :=
  if negb has_notify then
    (* a CA without an RRDP URI is fetched with rsync *)
    if rsync_on then TRsync else TNone
  else if rsync_on && wants_rsync pol rrdp_on o then TRsync
  else if rrdp_on && outcome_eqb o Updated then TRrdp     (* a successful RRDP update is always used *)
  else TNone.                                              (* no fallback: the stored data is used instead *)

(* ---- stream "table": Run::repository with an injected RRDP outcome ---- *)
Record obs := { o_transport : transport; o_rsync_run : bool; o_rrdp_asked : bool }.

Definition model_obs (pol : policy) (rrdp_on rsync_on has_notify : bool) (o : outcome) : obs :=
  {| o_transport := repository pol rrdp_on rsync_on has_notify o;
     o_rsync_run := rsync_run pol rrdp_on rsync_on has_notify o;
     o_rrdp_asked := rrdp_asked rrdp_on has_notify |}.

(* the oracle: the transport is the documented one, and the rsync command runs iff rsync is the transport *)
Definition spec_okb (pol : policy) (rrdp_on rsync_on has_notify : bool) (o : outcome) (ob : obs) : bool :=
  transport_eqb (o_transport ob) (spec_transport pol rrdp_on rsync_on has_notify o)
  && Bool.eqb (o_rsync_run ob) (transport_eqb (o_transport ob) TRsync).

Definition obs_eqb (a b : obs) : bool :=
  transport_eqb (o_transport a) (o_transport b) && Bool.eqb (o_rsync_run a) (o_rsync_run b)
  && Bool.eqb (o_rrdp_asked a) (o_rrdp_asked b).

Record case := { c_pol : policy; c_rrdp : bool; c_rsync : bool; c_notify : bool; c_out : outcome; c_impl : obs }.

(* 0 model = implementation and the table holds; 1 table holds but model differs; 2 table violated *)
Definition check_case (c : case) : N :=
  if negb (spec_okb (c_pol c) (c_rrdp c) (c_rsync c) (c_notify c) (c_out c) (c_impl c)) then 2
  else if obs_eqb (model_obs (c_pol c) (c_rrdp c) (c_rsync c) (c_notify c) (c_out c)) (c_impl c) then 0 else 1.

(* ---- stream "classify": end to end, RRDP enabled, CA with rpkiNotify, real update attempt ---- *)
Record kobs := { ko_transport : transport; ko_rsync_run : bool }.

Definition model_kobs (pol : policy) (rsync_on : bool) (copy : option Z) (update_ok : bool) : kobs :=
  let o := classify copy update_ok in
  {| ko_transport := repository pol true rsync_on true o;
     ko_rsync_run := rsync_run pol true rsync_on true o |}.

(* the property text in terms of the local copy: successful update -> RRDP; failed with a current copy ->
   no fallback; failed with an expired copy -> rsync iff policy stale; failed without copy -> rsync iff
   policy new or stale (rsync only when enabled) *)
Definition kspec_transport (pol : policy) (rsync_on : bool) (copy : option Z) (update_ok : bool) : transport :=
  if update_ok then TRrdp
  else match copy with
       | Some d =>
           if (0 <=? d)%Z then TNone
           else if rsync_on && policy_eqb pol Stale then TRsync else TNone
       | None => if rsync_on && (policy_eqb pol New || policy_eqb pol Stale) then TRsync else TNone
       end.

Definition kspec_okb (pol : policy) (rsync_on : bool) (copy : option Z) (update_ok : bool) (ob : kobs) : bool :=
  transport_eqb (ko_transport ob) (kspec_transport pol rsync_on copy update_ok)
  && Bool.eqb (ko_rsync_run ob) (transport_eqb (ko_transport ob) TRsync).

Definition kobs_eqb (a b : kobs) : bool :=
  transport_eqb (ko_transport a) (ko_transport b) && Bool.eqb (ko_rsync_run a) (ko_rsync_run b).

Record kcase := { k_pol : policy; k_rsync : bool; k_copy : option Z; k_server_ok : bool; k_impl : kobs }.

(* 9: a best-before time equal to "now" is outside the harness' precondition (clock race) *)
Definition check_kcase (c : kcase) : N :=
  if match k_copy c with Some 0%Z => true | _ => false end then 9
  else if negb (kspec_okb (k_pol c) (k_rsync c) (k_copy c) (k_server_ok c) (k_impl c)) then 2
  else if kobs_eqb (model_kobs (k_pol c) (k_rsync c) (k_copy c) (k_server_ok c)) (k_impl c) then 0 else 1.
