(* C29 -- RRDP-to-rsync fallback follows the documented policy table.
   Only statements, [exact], [Check] pins. *)
From Coq Require Import List NArith ZArith Bool.
From RV Require Import C29.Model C29.Spec C29.Proofs.
Import ListNotations.

(* the enumerated domain is the full product 3 x 4 x 2 x 2 x 2, without repetition *)
Theorem C29_domain_is_everything : length domain = 96 /\ NoDup domain /\ forall x : point, In x domain.
Proof. exact (conj domain_length (conj domain_nodup domain_complete)). Qed.

(* checked by computation on the whole domain ... *)
Theorem C29_table_on_domain :
  forallb (fun x => transport_eqb (repository (p_pol x) (p_rrdp x) (p_rsync x) (p_notify x) (p_out x))
                                  (spec_transport (p_pol x) (p_rrdp x) (p_rsync x) (p_notify x) (p_out x)))
          domain = true.
Proof. exact table_on_domain. Qed.

(* ... hence for every policy, every enabled/disabled combination, CA with/without rpkiNotify and every
   RRDP outcome the decision of Run::repository is the documented one (the bound is the whole domain) *)
Theorem C29_repository_is_table : forall pol rrdp_on rsync_on has_notify o,
  repository pol rrdp_on rsync_on has_notify o = spec_transport pol rrdp_on rsync_on has_notify o.
Proof. exact repository_is_table. Qed.

(* the sentences of the property *)
Theorem C29_no_notify_uses_rsync : forall pol rrdp_on rsync_on o,
  repository pol rrdp_on rsync_on false o = if rsync_on then TRsync else TNone.
Proof. exact no_notify_rsync. Qed.

Theorem C29_rsync_exactly_when : forall pol rrdp_on o,
  repository pol rrdp_on true true o = TRsync <->
  (rrdp_on = false
   \/ (o = Unavailable /\ (pol = New \/ pol = Stale))
   \/ (o = OStale /\ pol = Stale)).
Proof. exact rsync_exactly_when. Qed.

Theorem C29_rsync_disabled_never_rsync : forall pol rrdp_on has_notify o,
  repository pol rrdp_on false has_notify o <> TRsync.
Proof. exact rsync_disabled_never_rsync. Qed.

Theorem C29_updated_always_used : forall pol rsync_on, repository pol true rsync_on true Updated = TRrdp.
Proof. exact updated_always_used. Qed.

Theorem C29_current_never_falls_back : forall pol rsync_on, repository pol true rsync_on true Current = TNone.
Proof. exact current_never_falls_back. Qed.

Theorem C29_rrdp_only_after_update : forall pol rrdp_on rsync_on has_notify o,
  repository pol rrdp_on rsync_on has_notify o = TRrdp <-> (has_notify = true /\ rrdp_on = true /\ o = Updated).
Proof. exact rrdp_only_after_update. Qed.

(* with try_update's classification in front: for every age of the local copy *)
Theorem C29_end_to_end : forall pol rsync_on copy ok,
  repository pol true rsync_on true (classify copy ok) = kspec_transport pol rsync_on copy ok.
Proof. exact kmodel_is_kspec. Qed.

(* the executable oracles evaluated on the implementation's observations hold of the model on every input *)
Theorem C29_model_satisfies_spec : forall pol rrdp_on rsync_on has_notify o,
  spec_okb pol rrdp_on rsync_on has_notify o (model_obs pol rrdp_on rsync_on has_notify o) = true.
Proof. exact model_satisfies_spec. Qed.

Theorem C29_model_satisfies_kspec : forall pol rsync_on copy ok,
  kspec_okb pol rsync_on copy ok (model_kobs pol rsync_on copy ok) = true.
Proof. exact kmodel_satisfies_spec. Qed.

(* non-vacuity: the table distinguishes the three policies and all three results occur *)
Example C29_nonvacuous :
  repository Never true true true Unavailable = TNone /\
  repository New true true true Unavailable = TRsync /\
  repository New true true true OStale = TNone /\
  repository Stale true true true OStale = TRsync /\
  repository Stale true true true Updated = TRrdp /\
  repository Stale false true true Updated = TRsync /\
  check_case {| c_pol := Stale; c_rrdp := true; c_rsync := true; c_notify := true; c_out := Current;
                c_impl := {| o_transport := TRsync; o_rsync_run := true; o_rrdp_asked := true |} |} = 2%N /\
  check_case {| c_pol := Stale; c_rrdp := true; c_rsync := true; c_notify := true; c_out := Current;
                c_impl := {| o_transport := TNone; o_rsync_run := false; o_rrdp_asked := true |} |} = 0%N.
Proof. repeat split. Qed.

Check C29_repository_is_table : forall pol rrdp_on rsync_on has_notify o,
  repository pol rrdp_on rsync_on has_notify o = spec_transport pol rrdp_on rsync_on has_notify o.
Check C29_domain_is_everything : length domain = 96 /\ NoDup domain /\ forall x : point, In x domain.
Check C29_rsync_exactly_when : forall pol rrdp_on o,
  repository pol rrdp_on true true o = TRsync <->
  (rrdp_on = false \/ (o = Unavailable /\ (pol = New \/ pol = Stale)) \/ (o = OStale /\ pol = Stale)).
Check C29_model_satisfies_spec : forall pol rrdp_on rsync_on has_notify o,
  spec_okb pol rrdp_on rsync_on has_notify o (model_obs pol rrdp_on rsync_on has_notify o) = true.
Check C29_model_satisfies_kspec : forall pol rsync_on copy ok,
  kspec_okb pol rsync_on copy ok (model_kobs pol rsync_on copy ok) = true.
