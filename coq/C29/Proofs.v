(* C29 proofs.  The domain of the decision function is finite (96 points); the table is checked on the whole
   domain by computation ([forallb ... = true], vm_compute) and lifted with [forallb_forall] and the
   completeness of [domain]. *)
From Coq Require Import List NArith ZArith Bool Lia Arith.
From RV Require Import C29.Model C29.Spec.
Import ListNotations.

Lemma domain_length : length domain = 96.
Proof. reflexivity. Qed.

Lemma domain_complete : forall x : point, In x domain.
Proof.
  intros [pol a b c o]. unfold domain.
  assert (Hb : forall v : bool, In v all_bools) by (destruct v; cbn; tauto).
  apply in_flat_map. exists pol. split; [destruct pol; cbn; tauto|].
  apply in_flat_map. exists o. split; [destruct o; cbn; tauto|].
  apply in_flat_map. exists a. split; [apply Hb|].
  apply in_flat_map. exists b. split; [apply Hb|].
  apply in_map_iff. exists c. split; [reflexivity | apply Hb].
Qed.

(* no point is listed twice: injective code + boolean duplicate check by computation *)
Definition code (x : point) : nat :=
  let b (v : bool) := if v then 1 else 0 in
  (match p_pol x with Never => 0 | Stale => 1 | New => 2 end) * 32
  + (match p_out x with Unavailable => 0 | OStale => 1 | Current => 2 | Updated => 3 end) * 8
  + b (p_rrdp x) * 4 + b (p_rsync x) * 2 + b (p_notify x).

Fixpoint nodupb (l : list nat) : bool :=
  match l with
  | [] => true
  | x :: t => negb (existsb (Nat.eqb x) t) && nodupb t
  end.

Lemma nodupb_sound : forall l, nodupb l = true -> NoDup l.
Proof.
  induction l as [| x t IH]; cbn; intro H; [constructor|].
  apply andb_true_iff in H. destruct H as [H1 H2]. constructor; auto.
  intro Hin. apply negb_true_iff in H1.
  assert (existsb (Nat.eqb x) t = true) by (apply existsb_exists; exists x; split; auto; apply Nat.eqb_refl).
  congruence.
Qed.

Lemma domain_nodup : NoDup domain.
Proof. apply (NoDup_map_inv code). apply nodupb_sound. vm_compute. reflexivity. Qed.

Definition agree (x : point) : bool :=
  transport_eqb (repository (p_pol x) (p_rrdp x) (p_rsync x) (p_notify x) (p_out x))
                (spec_transport (p_pol x) (p_rrdp x) (p_rsync x) (p_notify x) (p_out x)).

Lemma table_on_domain : forallb agree domain = true.
Proof. vm_compute. reflexivity. Qed.

Lemma transport_eqb_eq : forall a b, transport_eqb a b = true <-> a = b.
Proof. destruct a, b; cbn; split; intro H; try reflexivity; try discriminate. Qed.

(* the bound is the whole domain: every (policy, rrdp_on, rsync_on, has_notify, outcome) *)
Lemma repository_is_table : forall pol rrdp_on rsync_on has_notify o,
  repository pol rrdp_on rsync_on has_notify o = spec_transport pol rrdp_on rsync_on has_notify o.
Proof.
  intros pol a b c o.
  pose proof (proj1 (forallb_forall agree domain) table_on_domain
                {| p_pol := pol; p_rrdp := a; p_rsync := b; p_notify := c; p_out := o |}
                (domain_complete _)) as H.
  apply transport_eqb_eq in H. exact H.
Qed.

(* sentence by sentence *)
Lemma no_notify_rsync : forall pol rrdp_on rsync_on o,
  repository pol rrdp_on rsync_on false o = if rsync_on then TRsync else TNone.
Proof. intros; rewrite repository_is_table; reflexivity. Qed.

Lemma rsync_exactly_when : forall pol rrdp_on o,
  repository pol rrdp_on true true o = TRsync <->
  (rrdp_on = false
   \/ (o = Unavailable /\ (pol = New \/ pol = Stale))
   \/ (o = OStale /\ pol = Stale)).
Proof.
  intros pol a o. destruct pol, a, o; cbn; split; intro H;
    try discriminate; try reflexivity; try tauto;
    repeat match goal with
           | H : _ \/ _ |- _ => destruct H
           | H : _ /\ _ |- _ => destruct H
           end; try discriminate; auto.
Qed.

Lemma rsync_disabled_never_rsync : forall pol rrdp_on has_notify o,
  repository pol rrdp_on false has_notify o <> TRsync.
Proof. intros pol a c o; destruct pol, a, c, o; cbn; discriminate. Qed.

Lemma updated_always_used : forall pol rsync_on,
  repository pol true rsync_on true Updated = TRrdp.
Proof. reflexivity. Qed.

Lemma current_never_falls_back : forall pol rsync_on,
  repository pol true rsync_on true Current = TNone.
Proof. reflexivity. Qed.

Lemma rrdp_only_after_update : forall pol rrdp_on rsync_on has_notify o,
  repository pol rrdp_on rsync_on has_notify o = TRrdp <-> (has_notify = true /\ rrdp_on = true /\ o = Updated).
Proof.
  intros pol a b c o; destruct pol, a, b, c, o; cbn; split; intro H; try discriminate; try tauto;
    destruct H as (? & ? & ?); discriminate.
Qed.

Lemma never_errors : forall pol rrdp_on rsync_on has_notify o,
  repository pol rrdp_on rsync_on has_notify o <> TError.
Proof. intros pol a b c o; destruct pol, a, b, c, o; cbn; discriminate. Qed.

Lemma model_satisfies_spec : forall pol rrdp_on rsync_on has_notify o,
  spec_okb pol rrdp_on rsync_on has_notify o (model_obs pol rrdp_on rsync_on has_notify o) = true.
Proof.
  intros pol a b c o. unfold spec_okb, model_obs, rsync_run; cbn [o_transport o_rsync_run].
  rewrite repository_is_table.
  destruct (spec_transport pol a b c o); reflexivity.
Qed.

(* classification + decision, over every age of the local copy (Z is unbounded: a real induction-free proof) *)
Lemma classify_cases : forall copy ok,
  classify copy ok =
    if ok then Updated
    else match copy with None => Unavailable | Some d => if (0 <=? d)%Z then Current else OStale end.
Proof. reflexivity. Qed.

Lemma kmodel_is_kspec : forall pol rsync_on copy ok,
  repository pol true rsync_on true (classify copy ok) = kspec_transport pol rsync_on copy ok.
Proof.
  intros pol b copy ok. unfold classify, kspec_transport.
  destruct ok; [reflexivity|].
  destruct copy as [d|]; [destruct (0 <=? d)%Z|]; destruct pol, b; reflexivity.
Qed.

Lemma kmodel_satisfies_spec : forall pol rsync_on copy ok,
  kspec_okb pol rsync_on copy ok (model_kobs pol rsync_on copy ok) = true.
Proof.
  intros pol b copy ok. unfold kspec_okb, model_kobs, rsync_run; cbn [ko_transport ko_rsync_run].
  rewrite kmodel_is_kspec.
  destruct (kspec_transport pol b copy ok); reflexivity.
Qed.
