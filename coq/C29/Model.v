(* C29 model: which transport the collector asks for a CA's objects.
   Executable definitions only (no proofs), transcribed from
     src/collector/base.rs       Run::repository            -> [repository], [rsync_run], [rrdp_asked]
     src/collector/rrdp/base.rs  RepositoryUpdate::try_update (classification of the update result)
                                                            -> [classify]
     src/config.rs               enum FallbackPolicy        -> [policy]
   The domain of [repository] is finite: 3 policies x 4 outcomes x 2 x 2 x 2 = 96 points. *)
From Coq Require Import List ZArith Bool.
Import ListNotations.

(* config.rs: FallbackPolicy *)
Inductive policy := Never | Stale | New.

(* rrdp/base.rs: LoadResult *)
Inductive outcome :=
| Unavailable   (* the update failed and there is no local copy *)
| OStale        (* the update failed and the local copy is expired *)
| Current       (* the update failed but the local copy is not expired *)
| Updated.      (* the repository was successfully updated *)

(* what Run::repository hands back: Ok(None), Ok(Some(Repository::rrdp)), Ok(Some(Repository::rsync));
   TError is never produced by the model (it stands for Err / panic / a failed side check in a case) *)
Inductive transport := TNone | TRrdp | TRsync | TError.

Definition is_never (p : policy) : bool := match p with Never => true | _ => false end.
Definition is_stale (p : policy) : bool := match p with Stale => true | _ => false end.

(* The tail of Run::repository ("Well, okay, then. How about rsync?"):
     if let Some(ref rsync) = self.rsync { rsync.load_module(..); return Ok(Some(Repository::rsync(rsync))) }
     Ok(None) *)
Definition try_rsync (rsync_on : bool) : transport := if rsync_on then TRsync else TNone.

(* Run::repository, literally.  [has_notify] = ca.rpki_notify().is_some(), [rrdp_on] = self.rrdp.is_some(),
   [rsync_on] = self.rsync.is_some(), [o] = what rrdp.load_repository returned. *)
Definition repository (pol : policy) (rrdp_on rsync_on has_notify : bool) (o : outcome) : transport :=
  if has_notify then
    if rrdp_on then
      match o with
      | Unavailable =>
          (* if matches!(fallback, Never) { return Ok(None) } *)
          if is_never pol then TNone else try_rsync rsync_on
      | OStale =>
          (* if !matches!(fallback, Stale) { return Ok(None) } *)
          if negb (is_stale pol) then TNone else try_rsync rsync_on
      | Current => TNone
      | Updated => TRrdp
      end
    else try_rsync rsync_on
  else try_rsync rsync_on.

(* side effects of the same call: rsync.load_module is run exactly on the path that returns the rsync
   repository; rrdp.load_repository is called iff the CA has an rpkiNotify URI and RRDP is enabled *)
Definition rsync_run (pol : policy) (rrdp_on rsync_on has_notify : bool) (o : outcome) : bool :=
  match repository pol rrdp_on rsync_on has_notify o with TRsync => true | _ => false end.
Definition rrdp_asked (rrdp_on has_notify : bool) : bool := has_notify && rrdp_on.

(* RepositoryUpdate::try_update: [copy] = Some d when an archive exists whose best-before time is d seconds
   after now (is_current = !is_expired() = !(now > best_before)), None when there is no archive;
   [update_ok] = what self.update(current) returned.
     if is_updated { Updated } else if is_current { Current }
     else if let Some(_) = best_before { Stale } else { Unavailable } *)
Definition classify (copy : option Z) (update_ok : bool) : outcome :=
  if update_ok then Updated
  else match copy with
       | Some d => if (0 <=? d)%Z then Current else OStale
       | None => Unavailable
       end.

(* ---- the whole domain ---- *)
Definition all_policies : list policy := [Never; Stale; New].
Definition all_outcomes : list outcome := [Unavailable; OStale; Current; Updated].
Definition all_bools : list bool := [false; true].

Record point := { p_pol : policy; p_rrdp : bool; p_rsync : bool; p_notify : bool; p_out : outcome }.

Definition domain : list point :=
  flat_map (fun pol => flat_map (fun o => flat_map (fun a => flat_map (fun b => map (fun c =>
    {| p_pol := pol; p_rrdp := a; p_rsync := b; p_notify := c; p_out := o |})
    all_bools) all_bools) all_bools) all_outcomes) all_policies.
