(* C33 — A failed run never changes the served data. *)
From Coq Require Import List NArith ZArith Bool.
From RV Require Import C11.Model C13.Model C15.Model C15.Proofs C15.Spec C15.SpecProofs C33.FaultModel C33.FaultProofs C33.FaultSpec.
Import ListNotations.
Local Open Scope N_scope.

(* a failed validation cycle leaves the whole served state (data set, serial/ETag, creation time,
   retained change sets, notification generation) exactly as it was *)
Theorem C33_failed_run_changes_nothing : forall s d t1 t2, cycle s d false t1 t2 = s.
Proof. exact failed_run_changes_nothing. Qed.

(* for every history of successful and failed runs the served state equals that of the history with
   the failed runs erased *)
Theorem C33_failures_erased : forall s rs, run_cycles s rs = run_cycles s (filter r_ok rs).
Proof. exact failures_erased. Qed.

(* the executable oracle of the shared server stream (C15/Spec.v) accepts what the model answers at
   every gap of every cycle of every schedule (see C15/SpecProofs.v for the hypothesis on probes) *)
Theorem C33_model_satisfies_spec : forall c, c_keep c < H31 -> N.of_nat (length (c_cycles c)) <= M32 ->
  inputs_ok c = true -> probes_ok (srv_init (c_keep c)) (c_cycles c) -> spec_okb (model_case c) = true.
Proof. exact model_satisfies_spec. Qed.

(* ---- the premise side: a run during which a fatal error occurs IS a run that fails ----
   Task loop of Run::process (coq/C33/FaultModel.v; one validation thread; which task fails is an input):
   for every forest of TAL and CA tasks and every choice of deferred children, the run's result is a
   failure exactly when some task of the run fails, and a successful run processed every publication point *)
Theorem C33_fatal_error_fails_run : forall q, run_result true q = (if qfail q then 2 else 0)%nat.
Proof. exact run_result_spec. Qed.

Theorem C33_successful_run_is_complete : forall q n',
  loop (S (qsize q)) true q false 0 = Some (false, n') -> qfail q = false /\ n' = qpoints q.
Proof. exact successful_run_is_complete. Qed.

(* the code before "fix: fail the run when a trust anchor cannot be loaded or stored": a trust anchor that
   cannot be loaded ends the run successfully without the remaining TALs *)
Theorem C33_old_tal_failure_refuted :
  let q := [TTal true None; TTal false (Some (CT false [(false, CT false [])]))] in
  run_result false q = 0%nat /\ loop (S (qsize q)) false q false 0 = Some (false, 0%nat) /\ qpoints q = 2%nat /\
  run_result true q = 2%nat.
Proof. exact old_code_refuted. Qed.

Example C33_nonvacuous :
  let a := {| origins := [(1, tt)]; rkeys := []; aspas := [] |} in
  let b := {| origins := [(2, tt)]; rkeys := []; aspas := [] |} in
  let rs := [ {| r_data := a; r_ok := true; r_tupd := 1%Z; r_tdone := 2%Z |};
              {| r_data := b; r_ok := false; r_tupd := 3%Z; r_tdone := 4%Z |} ] in
  respond (run_cycles (srv_init 2) rs) PFull = AFull 0 [(1, tt)] /\ ngen (run_cycles (srv_init 2) rs) = 1.
Proof. split; reflexivity. Qed.

Check C33_failures_erased : forall s rs, run_cycles s rs = run_cycles s (filter r_ok rs).
Check C33_fatal_error_fails_run : forall q, run_result true q = (if qfail q then 2 else 0)%nat.
