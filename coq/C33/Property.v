(* C33 — A failed run never changes the served data. *)
From Coq Require Import List NArith ZArith Bool.
From RV Require Import C11.Model C13.Model C15.Model C15.Proofs C15.Spec C15.SpecProofs.
Import ListNotations.
Local Open Scope N_scope.

(* a failed validation cycle leaves the whole served state (data set, serial/ETag, creation time,
   retained change sets, notification generation) exactly as it was *)
Theorem C33_failed_run_changes_nothing : forall s d t1 t2, cycle s d false t1 t2 = s.
Proof. exact failed_run_changes_nothing. Qed.

(* for every history of successful and failed runs the served state equals that of the history with
   the failed runs erased *)
Theorem C33_failures_erased : forall s rs, run_cycles s rs = run_cycles s (filter r_ok rs).
Proof. exact failures_erased. Qed.

(* the executable oracle of the shared server stream (C15/Spec.v) accepts what the model answers at
   every gap of every cycle of every schedule (see C15/SpecProofs.v for the hypothesis on probes) *)
Theorem C33_model_satisfies_spec : forall c, c_keep c < H31 -> N.of_nat (length (c_cycles c)) <= M32 ->
  inputs_ok c = true -> probes_ok (srv_init (c_keep c)) (c_cycles c) -> spec_okb (model_case c) = true.
Proof. exact model_satisfies_spec. Qed.

Example C33_nonvacuous :
  let a := {| origins := [(1, tt)]; rkeys := []; aspas := [] |} in
  let b := {| origins := [(2, tt)]; rkeys := []; aspas := [] |} in
  let rs := [ {| r_data := a; r_ok := true; r_tupd := 1%Z; r_tdone := 2%Z |};
              {| r_data := b; r_ok := false; r_tupd := 3%Z; r_tdone := 4%Z |} ] in
  respond (run_cycles (srv_init 2) rs) PFull = AFull 0 [(1, tt)] /\ ngen (run_cycles (srv_init 2) rs) = 1.
Proof. split; reflexivity. Qed.

Check C33_failures_erased : forall s rs, run_cycles s rs = run_cycles s (filter r_ok rs).
