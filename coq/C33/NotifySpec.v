(* C33, stream `notify`: the real Server::run in a child process with forced run outcomes and no TALs (the
   data set never changes after the first successful run); an RTR client inside the child synchronises
   (Reset Query ... End of Data) and counts the Serial Notify PDUs it receives afterwards.  Oracle only: the
   clause "a failed run leaves ... pending notifications exactly as they were" on the real server loop. *)
From Coq Require Import List NArith Bool.
From RV Require Export C32.Model.
Import ListNotations.
Local Open Scope N_scope.

Record ncase := {
  n_outcomes : list outcome;
  n_ended : bool;
  n_runs : N;
  n_synced : N;      (* 0: the client never got to End of Data; k+1: it did while k runs had been started *)
  n_notifs : N }.    (* Serial Notify PDUs received after End of Data *)

(* The validation thread is held after the first data set has been installed and before its notification is
   sent until the client is synchronised, so exactly one notification is due afterwards: the first run's.
   9: the client did not synchronise (nothing observed); 2: another number of notifications; 0 otherwise *)
Definition check_ncase (c : ncase) : N :=
  if negb (n_ended c) || (n_synced c =? 0) then 9
  else if n_notifs c =? 1 then 0 else 2.
