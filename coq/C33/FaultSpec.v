(* C33, stream `iofaults`: oracle and case checker.  One case = a generated repository, a first run that
   fills the cache, then one local I/O fault planted in the cache (a directory where a file is expected or
   the other way round) and a second run; a twin world went through the same two runs without the fault. *)
From Coq Require Import List NArith Bool Arith.
From RV Require Export C33.FaultModel.
Import ListNotations.
Local Open Scope N_scope.

Record fcase := {
  fc_tasks : list task;      (* the run's tasks, [fails] = the task touches the planted fault (by construction) *)
  fc_start_fails : bool;     (* the fault makes Store::start fail before any task *)
  fc_threads : N;
  fc_first_ok : bool;        (* both first runs succeeded *)
  fc_planted : bool;
  fc_result : N;             (* second run: 0 ok, 1 retryable failure, 2 fatal failure *)
  fc_twin : N;               (* the twin's second run *)
  fc_same : bool }.          (* payload of the second run = payload of the twin's second run *)

(* the property: a local I/O fault is not a filter.  Either the run fails - and then nothing it computed
   is served (main C33 theorems) - or its payload is the one of the run without the fault. *)
Definition fspec_okb (c : fcase) : bool := if fc_result c =? 0 then fc_same c else true.

Definition model_result (c : fcase) : N :=
  if fc_start_fails c then 2 else N.of_nat (run_result true (fc_tasks c)).

Definition check_fcase (c : fcase) : N :=
  if negb (fc_first_ok c && (fc_twin c =? 0)) then 9
  else if negb (fspec_okb c) then 2
  else if model_result c =? fc_result c then 0 else 1.
