(* C33, the premise side: a validation run during which a fatal error occurs is a run that fails.
   Model of the task loop of src/engine.rs (Run::process, process_task, process_tal_task,
   process_ca_task, run_failed) with ONE validation thread: a queue of tasks (one per TAL at the
   start), a CA task processes its publication point and then its child CAs - deferred children
   (another repository, not fetched yet) go to the back of the queue, the others are processed
   recursively -, a task that fails makes the thread stop, and the run's result is read from the
   had_err flag.  Which task fails is an input ([fails] flags): the fatal errors themselves (I/O errors
   of the store and collector, utils::fatal) are not modelled.
   [fixed = false] is the code before "fix: fail the run when a trust anchor cannot be loaded or
   stored": a failure of load_ta / process_ta stopped the thread without marking the run. *)
From Coq Require Import List Bool Arith.
Import ListNotations.

Inductive ctask := CT (fails : bool) (kids : list (bool * ctask)).    (* (deferred, child) *)
Inductive task := TTal (fails : bool) (root : option ctask) | TCa (t : ctask).

(* children of a point *)
Section Kids.
Variable rec : ctask -> bool -> list ctask -> nat -> bool * bool * list ctask * nat.
Fixpoint pkids (ks : list (bool * ctask)) (he : bool) (q : list ctask) (n : nat)
  : bool * bool * list ctask * nat :=
  match ks with
  | [] => (true, he, q, n)
  | (d, k) :: r =>
      if he then (false, he, q, n)                      (* `if self.had_err.load() { return Err(Failed) }` *)
      else if d then pkids r he (q ++ [k]) n            (* tasks.push(Task::Ca(task)) *)
      else let '(ok, he', q', n') := rec k he q n in
           if ok then pkids r he' q' n' else (false, he', q', n')
  end.
End Kids.

(* process_ca_task: (Ok?, had_err, deferred tasks pushed, points processed) *)
Fixpoint pca (t : ctask) (he : bool) (q : list ctask) (n : nat) {struct t} : bool * bool * list ctask * nat :=
  match t with
  | CT f ks => if f then (false, true, q, n)            (* run_failed(err); Err(Failed) *)
               else pkids pca ks he q (S n)
  end.

(* the validation thread: `while let Some(task) = tasks.pop() { if process_task(..).is_err() { break } }`;
   result: (had_err, points processed) *)
Fixpoint loop (fuel : nat) (fixed : bool) (q : list task) (he : bool) (n : nat) : option (bool * nat) :=
  match fuel with
  | O => None
  | S f =>
      match q with
      | [] => Some (he, n)
      | TTal tf root :: q' =>
          if tf then Some (if fixed then true else he, n)
          else match root with
               | None => loop f fixed q' he n            (* no valid trust anchor: a warning, next task *)
               | Some c => let '(ok, he', dq, n') := pca c he [] n in
                           if ok then loop f fixed (q' ++ map TCa dq) he' n' else Some (he', n')
               end
      | TCa c :: q' => let '(ok, he', dq, n') := pca c he [] n in
                       if ok then loop f fixed (q' ++ map TCa dq) he' n' else Some (he', n')
      end
  end.

Fixpoint csize (t : ctask) : nat := match t with CT _ ks => S (list_sum (map (fun dk => csize (snd dk)) ks)) end.
Definition tsize (t : task) : nat :=
  match t with TTal _ (Some c) => S (csize c) | TTal _ None => 1 | TCa c => csize c end.
Definition qsize (q : list task) : nat := list_sum (map tsize q).

Fixpoint any_fail (t : ctask) : bool := match t with CT f ks => f || existsb (fun dk => any_fail (snd dk)) ks end.
Definition tfail (t : task) : bool :=
  match t with TTal tf r => tf || match r with Some c => any_fail c | None => false end | TCa c => any_fail c end.
Definition points (t : task) : nat := match t with TTal _ (Some c) => csize c | TTal _ None => 0 | TCa c => csize c end.

(* Run::process: Err(fatal) = 2 if had_err (all modelled failures are fatal), Ok = 0; 3 = out of fuel *)
Definition run_result (fixed : bool) (q : list task) : nat :=
  match loop (S (qsize q)) fixed q false 0 with
  | Some (true, _) => 2
  | Some (false, _) => 0
  | None => 3
  end.
