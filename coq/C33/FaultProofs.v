(* C33/FaultModel.v: the run fails exactly when some task of the run fails, whatever the shape of the
   CA tree and whichever children are deferred; a successful run processed every publication point. *)
From Coq Require Import List Bool Arith Lia.
From RV Require Import C33.FaultModel.
Import ListNotations.

Section Ind.
Variable P : ctask -> Prop.
Hypothesis H : forall f ks, Forall (fun dk => P (snd dk)) ks -> P (CT f ks).
Fixpoint ctask_ind' (t : ctask) : P t :=
  match t with
  | CT f ks => H f ks ((fix go (ks : list (bool * ctask)) : Forall (fun dk => P (snd dk)) ks :=
                          match ks with [] => Forall_nil _ | dk :: r => Forall_cons _ (ctask_ind' (snd dk)) (go r) end) ks)
  end.
End Ind.

Definition dsize (q : list ctask) : nat := list_sum (map csize q).
Definition dfail (q : list ctask) : bool := existsb any_fail q.

Lemma dsize_app a b : dsize (a ++ b) = dsize a + dsize b.
Proof. unfold dsize. rewrite map_app, list_sum_app. reflexivity. Qed.
Lemma dfail_app a b : dfail (a ++ b) = dfail a || dfail b.
Proof. unfold dfail. apply existsb_app. Qed.

(* what a CA task does, starting with the run not yet marked as failed *)
Definition pca_spec (t : ctask) : Prop := forall q n,
  match pca t false q n with
  | (true, he', q', n') =>
      he' = false /\ exists dq, q' = q ++ dq /\ any_fail t = dfail dq /\ n' + dsize dq = n + csize t /\ n < n'
  | (false, he', _, _) => he' = true /\ any_fail t = true
  end.

Lemma pkids_spec ks : Forall (fun dk => pca_spec (snd dk)) ks -> forall q n,
  match pkids pca ks false q n with
  | (true, he', q', n') =>
      he' = false /\ exists dq, q' = q ++ dq /\
        existsb (fun dk => any_fail (snd dk)) ks = dfail dq /\
        n' + dsize dq = n + list_sum (map (fun dk => csize (snd dk)) ks) /\ n <= n'
  | (false, he', _, _) => he' = true /\ existsb (fun dk => any_fail (snd dk)) ks = true
  end.
Proof.
  induction ks as [|[d k] r IH]; intros F q n.
  - cbn [pkids existsb map]. unfold list_sum in *. cbn [fold_right]. split; [reflexivity|]. exists []. rewrite app_nil_r. split; [reflexivity|]. split; [reflexivity|]. unfold dsize. unfold list_sum in *. cbn [map fold_right] in *. lia.
  - inversion F as [|? ? Hk Fr]; subst. cbn [snd] in Hk. specialize (IH Fr).
    cbn [pkids existsb map snd]. unfold list_sum in *. cbn [fold_right]. destruct d.
    + (* deferred *)
      specialize (IH (q ++ [k]) n). destruct (pkids pca r false (q ++ [k]) n) as [[[ok he'] q'] n'].
      destruct ok.
      * destruct IH as (E & dq & Eq & Ef & En & Le). split; [exact E|]. exists (k :: dq).
        split; [rewrite Eq, <- app_assoc; reflexivity|]. split.
        -- cbn [dfail existsb]. fold (dfail dq). rewrite Ef. reflexivity.
        -- unfold dsize in *. unfold list_sum in *. cbn [map fold_right] in *. lia.
      * destruct IH as (E & Ef). split; [exact E|]. rewrite Ef. apply orb_true_r.
    + specialize (Hk q n). destruct (pca k false q n) as [[[ok he1] q1] n1]. destruct ok.
      * destruct Hk as (E1 & dq1 & Eq1 & Ef1 & En1 & Lt1). subst he1.
        specialize (IH q1 n1). destruct (pkids pca r false q1 n1) as [[[ok he'] q'] n']. destruct ok.
        -- destruct IH as (E & dq & Eq & Ef & En & Le). split; [exact E|]. exists (dq1 ++ dq).
           split; [rewrite Eq, Eq1, <- app_assoc; reflexivity|]. split.
           ++ rewrite dfail_app, Ef1, Ef. reflexivity.
           ++ rewrite dsize_app. lia.
        -- destruct IH as (E & Ef). split; [exact E|]. rewrite Ef. apply orb_true_r.
      * destruct Hk as (E1 & Ef1). split; [exact E1|]. rewrite Ef1. reflexivity.
Qed.

Lemma pca_ok t : pca_spec t.
Proof.
  induction t as [f ks IH] using ctask_ind'. intros q n. cbn [pca any_fail csize]. destruct f.
  - split; reflexivity.
  - pose proof (pkids_spec ks IH q (S n)) as K. destruct (pkids pca ks false q (S n)) as [[[ok he'] q'] n'].
    destruct ok.
    + destruct K as (E & dq & Eq & Ef & En & Le). split; [exact E|]. exists dq. split; [exact Eq|]. split; [exact Ef|lia].
    + destruct K as (E & Ef). split; [exact E|exact Ef].
Qed.

Definition qfail (q : list task) : bool := existsb tfail q.
Definition qpoints (q : list task) : nat := list_sum (map points q).

Lemma qsize_app a b : qsize (a ++ b) = qsize a + qsize b.
Proof. unfold qsize. rewrite map_app, list_sum_app. reflexivity. Qed.
Lemma qpoints_app a b : qpoints (a ++ b) = qpoints a + qpoints b.
Proof. unfold qpoints. rewrite map_app, list_sum_app. reflexivity. Qed.
Lemma qfail_app a b : qfail (a ++ b) = qfail a || qfail b.
Proof. apply existsb_app. Qed.
Lemma q_of_deferred dq : qsize (map TCa dq) = dsize dq /\ qpoints (map TCa dq) = dsize dq /\ qfail (map TCa dq) = dfail dq.
Proof.
  unfold qsize, qpoints, qfail, dsize, dfail. rewrite !map_map. cbn [tsize points].
  split; [reflexivity|]. split; [reflexivity|]. induction dq as [|c r IH]; [reflexivity|]. cbn [map existsb tfail]. rewrite IH. reflexivity.
Qed.

(* the fixed loop: fails iff some task of the run fails; when it does not, every point was processed *)
Theorem loop_spec fuel : forall q n, qsize q < fuel ->
  exists he n', loop fuel true q false n = Some (he, n') /\ he = qfail q /\ (he = false -> n' = n + qpoints q).
Proof.
  induction fuel as [|f IH]; intros q n L; [lia|]. destruct q as [|t q']; cbn [loop].
  - exists false, n. cbn. split; [reflexivity|]. split; [reflexivity|lia].
  - assert (forall c rest, tsize t = rest + csize c -> tfail t = any_fail c -> points t = csize c ->
              exists he n', (let '(ok, he', dq, n') := pca c false [] n in
                             if ok then loop f true (q' ++ map TCa dq) he' n' else Some (he', n')) = Some (he, n')
                            /\ he = qfail (t :: q') /\ (he = false -> n' = n + qpoints (t :: q'))) as CA.
    { intros c rest Es Ef Ep. pose proof (pca_ok c [] n) as S. destruct (pca c false [] n) as [[[ok he1] dq1] n1]. destruct ok.
      - destruct S as (E1 & dq & Eq & Efd & En & Lt). cbn [app] in Eq. subst dq1 he1.
        destruct (q_of_deferred dq) as (Qs & Qp & Qf).
        assert (qsize (q' ++ map TCa dq) < f) as L'.
        { rewrite qsize_app, Qs. assert (qsize (t :: q') = tsize t + qsize q') as Ex by reflexivity. rewrite Ex in L. lia. }
        destruct (IH (q' ++ map TCa dq) n1 L') as (he & n' & El & Eh & En').
        exists he, n'. split; [exact El|]. split.
        + rewrite Eh, qfail_app, Qf. unfold qfail. cbn [existsb]. rewrite Ef, Efd. apply orb_comm.
        + intros Z. rewrite (En' Z), qpoints_app, Qp. assert (qpoints (t :: q') = points t + qpoints q') as Ex by reflexivity. rewrite Ex, Ep. lia.
      - destruct S as (E1 & Efd). exists he1, n1. split; [reflexivity|]. split.
        + unfold qfail. cbn [existsb]. rewrite Ef, Efd, E1. reflexivity.
        + intros Z. congruence. }
    destruct t as [tf [c|]|c].
    + destruct tf.
      * exists true, n. split; [reflexivity|]. split; [reflexivity|discriminate].
      * apply (CA c 1); reflexivity.
    + destruct tf.
      * exists true, n. split; [reflexivity|]. split; [reflexivity|discriminate].
      * assert (qsize q' < f) as L'. { assert (qsize (TTal false None :: q') = 1 + qsize q') as Ex by reflexivity. rewrite Ex in L. lia. }
        destruct (IH q' n L') as (he & n' & El & Eh & En'). exists he, n'. split; [exact El|]. split.
        -- rewrite Eh. reflexivity.
        -- intros Z. rewrite (En' Z). reflexivity.
    + apply (CA c 0); reflexivity.
Qed.

Theorem run_result_spec q :
  run_result true q = (if qfail q then 2 else 0).
Proof.
  unfold run_result. destruct (loop_spec (S (qsize q)) q 0 (Nat.lt_succ_diag_r _)) as (he & n' & El & Eh & _).
  rewrite El, Eh. destruct (qfail q); reflexivity.
Qed.

Theorem successful_run_is_complete q n' :
  loop (S (qsize q)) true q false 0 = Some (false, n') -> qfail q = false /\ n' = qpoints q.
Proof.
  intros E. destruct (loop_spec (S (qsize q)) q 0 (Nat.lt_succ_diag_r _)) as (he & n2 & El & Eh & En).
  rewrite El in E. injection E as E1 E2. rewrite E1 in Eh, En. split; [symmetry; exact Eh|]. rewrite <- E2. rewrite (En eq_refl). reflexivity.
Qed.

(* before the fix: a trust anchor that cannot be loaded ends the thread, the run ends successfully and the
   other TAL's tree was never looked at *)
Theorem old_code_refuted :
  let q := [TTal true None; TTal false (Some (CT false [(false, CT false [])]))] in
  run_result false q = 0 /\ loop (S (qsize q)) false q false 0 = Some (false, 0) /\ qpoints q = 2 /\
  run_result true q = 2.
Proof. repeat split. Qed.
