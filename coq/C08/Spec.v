(* C08: unsafe-VRP policy.  The property as an executable oracle over the
   served route origins and the case checker of the correspondence stream.
   The model is the one of C09 (C09/Model.v: extend_from_cert, finalize,
   keep_prefix, process_origin).  No proofs here. *)
From Coq Require Import List NArith Bool.
From RV Require Export C09.Spec.
Import ListNotations.
Local Open Scope N_scope.

(* validated route origins that the other filters (prefix length limit,
   SLURM) let through: what the unsafe filter gets to decide about *)
Definition candidates (i : input) : list origin :=
  filter (fun o => negb (too_long i o) && negb (drop_origin (i_slurm i) o)) (validated_origins i).

(* [unsafe i p] (C09.Spec): p overlaps an address block, other than a /0
   block, of a CA whose publication point was rejected *)
Definition spec08_okb (i : input) (o : obs) : bool :=
  let served := s_origins (ob_snap o) in
  negb (ob_panic o)
  && match cf_policy (i_cfg i) with
     | Reject =>
         (* no served VRP overlaps rejected resources, unless it is a local (SLURM) assertion *)
         forallb (fun x => negb (unsafe i (o_pfx x)) || mem origin_eqb x (sl_origins (i_slurm i))) served
         (* and the filter removes nothing else *)
         && forallb (fun x => unsafe i (o_pfx x) || mem origin_eqb x served) (candidates i)
     | Warn | Accept =>
         (* the filter removes nothing *)
         forallb (fun x => mem origin_eqb x served) (candidates i)
     end.

(* Result codes as in C09.Spec.check_case. *)
Definition check_case08 (c : case) : N :=
  if negb (wf_inputb (c_in c)) then 9
  else if negb (spec08_okb (c_in c) (c_impl c)) then 2
  else if obs_eqb (model_obs (c_in c)) (c_impl c) then 0 else 1.
