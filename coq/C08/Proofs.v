(* C08: the unsafe-VRP filter of the model. *)
From Coq Require Import List NArith Bool Lia.
From RV Require Import Base.KMap C09.Model C09.Spec C09.Proofs C09.Ranges C08.Spec.
Import ListNotations.
Local Open Scope N_scope.

Lemma candidates_In i o :
  In o (candidates i) <-> In o (validated_origins i) /\ too_long i o = false /\ drop_origin (i_slurm i) o = false.
Proof.
  unfold candidates. rewrite filter_In, andb_true_iff, !negb_true_iff. tauto.
Qed.

(* reject: what is served does not overlap rejected resources, SLURM assertions excepted *)
Lemma reject_sound i o : cf_policy (i_cfg i) = Reject ->
  In o (s_origins (run i)) -> unsafe i (o_pfx o) = false \/ In o (sl_origins (i_slurm i)).
Proof.
  intros P H. apply origins_exact, expected_origins_In in H as [(_ & _ & U & _)|H]; auto.
Qed.

(* reject: nothing else is removed by this filter *)
Lemma reject_complete i o : In o (candidates i) -> unsafe i (o_pfx o) = false -> In o (s_origins (run i)).
Proof.
  intros H U. apply candidates_In in H as (H & W & D). apply origins_exact, expected_origins_In. left. auto.
Qed.

(* warn / accept: the filter removes nothing *)
Lemma lenient_complete i o : cf_policy (i_cfg i) <> Reject -> In o (candidates i) -> In o (s_origins (run i)).
Proof.
  intros P H. apply candidates_In in H as (H & W & D). apply origins_exact, expected_origins_In. left.
  repeat split; auto. intros E; contradiction.
Qed.

(* SLURM assertions are served whatever the rejected resources are *)
Lemma assertion_served i o : In o (sl_origins (i_slurm i)) -> In o (s_origins (run i)).
Proof. intros H. apply origins_exact, expected_origins_In. right; exact H. Qed.

(* warn / accept: the whole data set is the one of a run without rejected CAs *)
Definition without_rejected (i : input) : input :=
  {| i_cfg := i_cfg i; i_rejected := []; i_points := i_points i; i_slurm := i_slurm i |}.

Lemma okeep_lenient cf rj rj' sl o : cf_policy cf <> Reject -> okeep cf rj sl o = okeep cf rj' sl o.
Proof.
  intros P. unfold okeep, origin_keep. destruct (cf_policy cf); [| |contradiction]; cbn [is_reject];
    rewrite !andb_false_r; reflexivity.
Qed.

Lemma lenient_identity i : cf_policy (i_cfg i) <> Reject -> run i = run (without_rejected i).
Proof.
  intros P. unfold run. cbn [without_rejected i_cfg i_points i_slurm].
  rewrite !fold_process_pub_point. cbn [b_origins b_keys b_aspas empty_builder].
  f_equal. f_equal. f_equal. apply fold_left_ext. intros l o. unfold ostep.
  rewrite (okeep_lenient _ _ (rejected_of (without_rejected i)) _ _ P). reflexivity.
Qed.

(* what "overlaps the resources of a rejected CA" means *)
Lemma unsafe_iff i p :
  unsafe i p = true <->
  exists c b, In c (i_rejected i) /\ In b (if p_v4 p then rc_v4 c else rc_v6 c) /\ is_slash_zero b = false
              /\ intersects (block_range (p_v4 p) b) (pfx_lo p, pfx_hi p) = true.
Proof.
  unfold unsafe, rejected_blocks. rewrite existsb_exists. split.
  - intros (b & Hb & X). apply filter_In in Hb as [Hb Z]. apply in_flat_map in Hb as (c & Hc & Hb).
    exists c, b. apply negb_true_iff in Z. auto.
  - intros (c & b & Hc & Hb & Z & X). exists b. split; [|exact X]. apply filter_In. split.
    + apply in_flat_map. exists c. auto.
    + rewrite Z. reflexivity.
Qed.

(* ... in terms of addresses, for well-formed blocks *)
Lemma unsafe_common_address i p :
  (forall c, In c (i_rejected i) -> forallb (wf_blockb true) (rc_v4 c) = true /\ forallb (wf_blockb false) (rc_v6 c) = true) ->
  (unsafe i p = true <->
   exists c b x, In c (i_rejected i) /\ In b (if p_v4 p then rc_v4 c else rc_v6 c) /\ is_slash_zero b = false
                 /\ fst (block_range (p_v4 p) b) <= x <= snd (block_range (p_v4 p) b) /\ pfx_lo p <= x <= pfx_hi p).
Proof.
  intros W. rewrite unsafe_iff. split.
  - intros (c & b & Hc & Hb & Z & X). destruct (W c Hc) as [W4 W6].
    assert (Wb : wf_blockb (p_v4 p) b = true).
    { destruct (p_v4 p); [exact (proj1 (forallb_forall _ _) W4 b Hb) | exact (proj1 (forallb_forall _ _) W6 b Hb)]. }
    apply intersects_common in X as (x & H1 & H2); [|apply block_range_wf; exact Wb | apply pfx_lo_le_hi].
    exists c, b, x. cbn [fst snd] in H2. auto.
  - intros (c & b & x & Hc & Hb & Z & H1 & H2). destruct (W c Hc) as [W4 W6].
    assert (Wb : wf_blockb (p_v4 p) b = true).
    { destruct (p_v4 p); [exact (proj1 (forallb_forall _ _) W4 b Hb) | exact (proj1 (forallb_forall _ _) W6 b Hb)]. }
    exists c, b. repeat split; auto.
    apply intersects_common; [apply block_range_wf; exact Wb | apply pfx_lo_le_hi|]. exists x. cbn [fst snd]. auto.
Qed.

Theorem model_satisfies_spec08 i : spec08_okb i (model_obs i) = true.
Proof.
  unfold spec08_okb, model_obs. cbn [ob_panic ob_snap negb andb].
  destruct (cf_policy (i_cfg i)) eqn:P.
  - apply forallb_forall. intros o H. apply (mem_In origin_eqb origin_eqb_eq).
    apply lenient_complete; [congruence | exact H].
  - apply forallb_forall. intros o H. apply (mem_In origin_eqb origin_eqb_eq).
    apply lenient_complete; [congruence | exact H].
  - apply andb_true_iff. split; apply forallb_forall; intros o H.
    + destruct (reject_sound i o P H) as [U|A]; [rewrite U; reflexivity|].
      apply (mem_In origin_eqb origin_eqb_eq) in A. rewrite A. apply orb_true_r.
    + destruct (unsafe i (o_pfx o)) eqn:U; [reflexivity|]. cbn [orb].
      apply (mem_In origin_eqb origin_eqb_eq). apply reject_complete; assumption.
Qed.
