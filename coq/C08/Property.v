(* C08 — Unsafe-VRP policy filters exactly overlapping VRPs.
   Only statements, [exact], an [Example] and [Check] pins.
   [run i] is the model of ValidationReport::into_snapshot (C09/Model.v);
   [unsafe i p]: the prefix p overlaps an address block, other than a /0 block,
   of a CA whose publication point was rejected; [candidates i]: the validated
   route origins that the prefix length limits and the SLURM filters let through. *)
From Coq Require Import List NArith Bool.
From RV Require Import Base.KMap C09.Model C09.Spec C09.Proofs C09.Ranges C08.Spec C08.Proofs.
Import ListNotations.
Local Open Scope N_scope.

(* reject: no served VRP overlaps the (non-whole-family) resources of a rejected CA — except local SLURM
   assertions, which the code inserts after the filter (insert_assertions) *)
Theorem C08_reject_no_overlap : forall i o, cf_policy (i_cfg i) = Reject ->
  In o (s_origins (run i)) -> unsafe i (o_pfx o) = false \/ In o (sl_origins (i_slurm i)).
Proof. exact reject_sound. Qed.

(* reject: the filter removes only overlapping VRPs *)
Theorem C08_reject_removes_only_overlapping : forall i o,
  In o (candidates i) -> unsafe i (o_pfx o) = false -> In o (s_origins (run i)).
Proof. exact reject_complete. Qed.

(* warn / accept: the filter removes nothing ... *)
Theorem C08_lenient_removes_nothing : forall i o, cf_policy (i_cfg i) <> Reject ->
  In o (candidates i) -> In o (s_origins (run i)).
Proof. exact lenient_complete. Qed.

(* ... the whole data set is that of the same run with no CA rejected *)
Theorem C08_lenient_identity : forall i, cf_policy (i_cfg i) <> Reject -> run i = run (without_rejected i).
Proof. exact lenient_identity. Qed.

(* SLURM assertions are served under every policy, overlapping or not *)
Theorem C08_assertions_exempt : forall i o, In o (sl_origins (i_slurm i)) -> In o (s_origins (run i)).
Proof. exact assertion_served. Qed.

(* the filter of the code (extend_from_cert, finalize, keep_prefix) is the declarative overlap test *)
Theorem C08_keep_prefix : forall i p, keep_prefix (rejected_of i) p = negb (unsafe i p).
Proof. exact keep_prefix_unsafe. Qed.

(* overlap = a common address with a block that is not a /0 prefix, for well-formed blocks *)
Theorem C08_unsafe_is_common_address : forall i p,
  (forall c, In c (i_rejected i) -> forallb (wf_blockb true) (rc_v4 c) = true /\ forallb (wf_blockb false) (rc_v6 c) = true) ->
  (unsafe i p = true <->
   exists c b x, In c (i_rejected i) /\ In b (if p_v4 p then rc_v4 c else rc_v6 c) /\ is_slash_zero b = false
                 /\ fst (block_range (p_v4 p) b) <= x <= snd (block_range (p_v4 p) b) /\ pfx_lo p <= x <= pfx_hi p).
Proof. exact unsafe_common_address. Qed.

Theorem C08_candidates : forall i o,
  In o (candidates i) <-> In o (validated_origins i) /\ too_long i o = false /\ drop_origin (i_slurm i) o = false.
Proof. exact candidates_In. Qed.

(* the executable oracle used on the implementation's output holds of the model on every input *)
Theorem C08_model_satisfies_spec : forall i, spec08_okb i (model_obs i) = true.
Proof. exact model_satisfies_spec08. Qed.

(* non-vacuity: nested, adjacent, other-family and /0 blocks; an unsafe VRP that is also asserted *)
Example C08_nonvacuous :
  let p := Build_pfx true 167772160 16 in          (* 10.0.0.0/16 *)
  let adj := Build_pfx true 167837696 16 in        (* 10.1.0.0/16 *)
  let p6 := Build_pfx false 167772160 112 in       (* ::a00:0/112, the same numbers in IPv6 *)
  let roas := [Build_roa 64496 [Build_roa_entry p None; Build_roa_entry adj None; Build_roa_entry p6 None]] in
  let i pol := {|
    i_cfg := Build_config pol None None true true;
    i_rejected := [Build_rcert [BRange 167772161 167772170; BPrefix 0 0] [BPrefix 0 0]];
    i_points := [Build_pubpoint roas [] []];
    i_slurm := Build_slurm [] [] [] [] |} in
  wf_inputb (i Reject) = true /\
  s_origins (run (i Reject)) = [Build_origin p6 112 64496; Build_origin adj 16 64496] /\
  s_origins (run (i Warn)) = [Build_origin p6 112 64496; Build_origin adj 16 64496; Build_origin p 16 64496] /\
  run (i Accept) = run (i Warn).
Proof. repeat split; vm_compute; reflexivity. Qed.

Check C08_reject_no_overlap : forall i o, cf_policy (i_cfg i) = Reject ->
  In o (s_origins (run i)) -> unsafe i (o_pfx o) = false \/ In o (sl_origins (i_slurm i)).
Check C08_reject_removes_only_overlapping : forall i o,
  In o (candidates i) -> unsafe i (o_pfx o) = false -> In o (s_origins (run i)).
Check C08_lenient_identity : forall i, cf_policy (i_cfg i) <> Reject -> run i = run (without_rejected i).
Check C08_model_satisfies_spec : forall i, spec08_okb i (model_obs i) = true.
