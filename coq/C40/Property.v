(* C40 — Cleanup keeps everything still needed.
   Only statements, [exact], an [Example] of non-vacuity and [Check] pins. *)
From Coq Require Import List ZArith NArith Bool.
From RV Require Import C40.Model C40.Spec C40.Proofs.
Import ListNotations.

(* After a successful run without the dirty option, for every cache (any number of stored points in both store
   trees, any collector directories, any clock readings): *)

(* no stored publication point whose manifest certificate has not expired (at the moment cleanup looks at it) is
   removed - in the rsync tree and in the RRDP trees of the store *)
Theorem C40_keeps_unexpired_rsync_tree : forall ri s, ri_dirty ri = false ->
  forall f p, In f (st_rsync s) -> unexpired f = Some p -> In f (st_rsync (engine_cleanup ri s)).
Proof. exact keeps_unexpired_rsync_tree. Qed.
Theorem C40_keeps_unexpired_rrdp_tree : forall ri s, ri_dirty ri = false ->
  forall f p, In f (st_rrdp s) -> unexpired f = Some p -> In f (st_rrdp (engine_cleanup ri s)).
Proof. exact keeps_unexpired_rrdp_tree. Qed.

(* what survives in the store is exactly: loadable and accepted by StoredPoint::retain *)
Theorem C40_store_exact : forall ri s, ri_dirty ri = false -> forall f,
  In f (st_rsync (engine_cleanup ri s)) <->
  In f (st_rsync s) /\ exists p, sf_point f = Some p /\ retain (ri_started ri) p = true.
Proof. exact store_exact. Qed.

(* no rsync module is removed that this run tried to update or that an unexpired stored point (of either tree,
   without rpkiNotify) lives in *)
Theorem C40_keeps_needed_rsync : forall ri s, ri_dirty ri = false ->
  forall hm, In hm (modules (co_rsync s)) -> needed_rsync ri s hm = true ->
  In hm (modules (co_rsync (engine_cleanup ri s))).
Proof. exact keeps_needed_rsync. Qed.

(* no RRDP archive is removed whose repository this run tried to update or an unexpired stored point names *)
Theorem C40_keeps_needed_rrdp : forall ri s, ri_dirty ri = false ->
  forall i u, In (i, Some u) (archives (co_rrdp s)) -> needed_rrdp ri s u = true ->
  In (i, Some u) (archives (co_rrdp (engine_cleanup ri s))).
Proof. exact keeps_needed_rrdp. Qed.

(* cleanup creates nothing *)
Theorem C40_no_new : forall ri s, ri_dirty ri = false -> no_new s (engine_cleanup ri s) = true.
Proof. exact cleanup_no_new. Qed.

(* with the dirty option the cache is unchanged *)
Theorem C40_dirty_unchanged : forall ri s, ri_dirty ri = true -> engine_cleanup ri s = s.
Proof. exact dirty_unchanged. Qed.

(* after a failed run no cleanup happens *)
Theorem C40_failed_unchanged : forall ri s, finish_run false ri s = s.
Proof. exact failed_unchanged. Qed.

(* the executable oracle evaluated on the implementation's cache holds of the model on every input *)
Theorem C40_model_satisfies_spec : forall ok ri s, spec_okb ok ri s (model_obs ok ri s) = true.
Proof. exact model_satisfies_spec. Qed.

(* non-vacuity.  Store (rsync tree): point 1 of module (10,1) with a manifest valid for another hour; point 2 of
   module (10,2), manifest expired a second ago; point 3 of module (11,1) without a manifest, tried in this run;
   point 4 (module (11,2)) without a manifest, last tried an hour ago; file 5 is unreadable.  RRDP tree: point 6
   of repository 77 (unexpired).  Collector: modules (10,1) (10,2) (11,1) (11,2) (12,1), a stray file; this run
   updated (12,1) only.  RRDP archives of repositories 77 and 78. *)
Definition pt st mf nf h m : spoint :=
  {| sp_status := st; sp_manifest := mf; sp_notify := nf; sp_host := h; sp_module := m; sp_clock := 0 |}.
Definition ex_before : fs :=
  {| st_ta := [(1%N, true); (2%N, false)];
     st_rrdp := [ {| sf_id := 6; sf_point := Some (pt Success (Some 3600000%Z) (Some 77%N) 13 1) |} ];
     st_rsync := [ {| sf_id := 1; sf_point := Some (pt Success (Some 3600000%Z) None 10 1) |};
                   {| sf_id := 2; sf_point := Some (pt Success (Some (-1000)%Z) None 10 2) |};
                   {| sf_id := 3; sf_point := Some (pt (LastAttempt (-2000)%Z) None None 11 1) |};
                   {| sf_id := 4; sf_point := Some (pt (LastAttempt (-3600000)%Z) None None 11 2) |};
                   {| sf_id := 5; sf_point := None |} ];
     st_tmp := [9%N];
     co_rsync := [RHost 10 [1; 2]; RHost 11 [1; 2]; RHost 12 [1]; RFile 99]%N;
     co_rrdp := [RRTmp [5%N]; RRAuth 1%N [Archive 1%N (Some 77%N); Archive 2%N (Some 78%N); StrayDir 3%N]] |}.
Definition ex_ri (dirty : bool) : runinfo :=
  {| ri_dirty := dirty; ri_rsync := true; ri_rrdp := true; ri_started := (-2500)%Z;
     ri_upd_rsync := [(12, 1)]%N; ri_upd_rrdp := [] |}.

Example C40_nonvacuous :
  let after := engine_cleanup (ex_ri false) ex_before in
  ids (st_rsync after) = [1; 3]%N /\ ids (st_rrdp after) = [6%N] /\
  modules (co_rsync after) = [(10, 1); (11, 1); (12, 1)]%N /\ rfiles (co_rsync after) = [] /\
  archives (co_rrdp after) = [(1%N, Some 77%N)] /\ map fst (st_ta after) = [1%N] /\
  spec_okb true (ex_ri false) ex_before after = true /\
  (* losing the unexpired point 1, or the module (12,1) this run used, violates the property *)
  spec_okb true (ex_ri false) ex_before
    {| st_ta := st_ta after; st_rrdp := st_rrdp after; st_rsync := []; st_tmp := []; co_rsync := co_rsync after;
       co_rrdp := co_rrdp after |} = false /\
  spec_okb true (ex_ri false) ex_before
    {| st_ta := st_ta after; st_rrdp := st_rrdp after; st_rsync := st_rsync after; st_tmp := [];
       co_rsync := [RHost 10 [1]]%N; co_rrdp := co_rrdp after |} = false /\
  (* dirty / failed: anything removed violates it *)
  engine_cleanup (ex_ri true) ex_before = ex_before /\
  spec_okb true (ex_ri true) ex_before after = false /\ spec_okb false (ex_ri false) ex_before after = false.
Proof. vm_compute. repeat split. Qed.

Check C40_keeps_unexpired_rsync_tree : forall ri s, ri_dirty ri = false ->
  forall f p, In f (st_rsync s) -> unexpired f = Some p -> In f (st_rsync (engine_cleanup ri s)).
Check C40_keeps_needed_rsync : forall ri s, ri_dirty ri = false ->
  forall hm, In hm (modules (co_rsync s)) -> needed_rsync ri s hm = true ->
  In hm (modules (co_rsync (engine_cleanup ri s))).
Check C40_dirty_unchanged : forall ri s, ri_dirty ri = true -> engine_cleanup ri s = s.
Check C40_failed_unchanged : forall ri s, finish_run false ri s = s.
Check C40_model_satisfies_spec : forall ok ri s, spec_okb ok ri s (model_obs ok ri s) = true.
