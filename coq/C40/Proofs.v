(* C40 proofs. *)
From Coq Require Import List ZArith NArith Bool Lia.
From RV Require Import C40.Model C40.Spec.
Import ListNotations.

(* ---- membership tests ---------------------------------------------------------- *)
Lemma mem_n_in : forall x l, mem_n x l = true <-> In x l.
Proof.
  intros x l. unfold mem_n. rewrite existsb_exists. split.
  - intros (y & Hy & E). apply N.eqb_eq in E. now subst.
  - intros H. exists x. split; [exact H | apply N.eqb_refl].
Qed.

Lemma pair_eqb_eq : forall a b, pair_eqb a b = true <-> a = b.
Proof.
  intros [a1 a2] [b1 b2]. unfold pair_eqb. cbn [fst snd]. rewrite andb_true_iff, !N.eqb_eq. split.
  - intros [-> ->]. reflexivity.
  - intros E. injection E as -> ->. now split.
Qed.

Lemma mem_pair_in : forall x l, mem_pair x l = true <-> In x l.
Proof.
  intros x l. unfold mem_pair. rewrite existsb_exists. split.
  - intros (y & Hy & E). apply pair_eqb_eq in E. now subst.
  - intros H. exists x. split; [exact H | now apply pair_eqb_eq].
Qed.

Lemma subset_n_refl : forall a, subset_n a a = true.
Proof. intros a. apply forallb_forall. intros x Hx. now apply mem_n_in. Qed.
Lemma subset_p_refl : forall a, subset_p a a = true.
Proof. intros a. apply forallb_forall. intros x Hx. now apply mem_pair_in. Qed.
Lemma same_n_refl : forall a, same_n a a = true.
Proof. intros a. unfold same_n. now rewrite subset_n_refl. Qed.
Lemma same_p_refl : forall a, same_p a a = true.
Proof. intros a. unfold same_p. now rewrite subset_p_refl. Qed.

Lemma same_fs_refl : forall s, same_fs s s = true.
Proof. intros s. unfold same_fs. now rewrite !same_n_refl, !same_p_refl. Qed.

Lemma subset_n_incl : forall a b, (forall x, In x a -> In x b) -> subset_n a b = true.
Proof. intros a b H. apply forallb_forall. intros x Hx. apply mem_n_in. now apply H. Qed.
Lemma subset_p_incl : forall a b, (forall x, In x a -> In x b) -> subset_p a b = true.
Proof. intros a b H. apply forallb_forall. intros x Hx. apply mem_pair_in. now apply H. Qed.

(* ---- the store trees -------------------------------------------------------------- *)
Lemma cleanup_points_in : forall started files r f,
  In f (fst (cleanup_points started files r)) <->
  In f files /\ exists p, sf_point f = Some p /\ retain started p = true.
Proof.
  intros started. induction files as [|g t IH]; intros r f; cbn [cleanup_points].
  - cbn. split; [intros [] | intros [[] _]].
  - destruct (sf_point g) as [p|] eqn:Eg.
    + destruct (retain started p) eqn:Er.
      * destruct (cleanup_points started t (add_point r p)) as [kept r'] eqn:Ec. cbn [fst].
        specialize (IH (add_point r p) f). rewrite Ec in IH. cbn [fst] in IH. split.
        -- intros [<-|H]; [split; [now left | now exists p] |]. apply IH in H. destruct H as [H1 H2]. split; [now right | exact H2].
        -- intros [[<-|H] Hp]; [now left | right; apply IH; now split].
      * rewrite IH. split; [intros [H1 H2]; split; [now right | exact H2] |].
        intros [[<-|H] (q & Hq & Hr)]; [rewrite Eg in Hq; injection Hq as <-; congruence | split; [exact H | now exists q]].
    + rewrite IH. split; [intros [H1 H2]; split; [now right | exact H2] |].
      intros [[<-|H] (q & Hq & Hr)]; [rewrite Eg in Hq; discriminate | split; [exact H | now exists q]].
Qed.

Lemma add_point_rsync : forall r p hm, In hm (rs_rsync (add_point r p)) <->
  In hm (rs_rsync r) \/ (sp_notify p = None /\ hm = (sp_host p, sp_module p)).
Proof.
  intros r p hm. unfold add_point. destruct (sp_notify p); cbn [rs_rsync]; split.
  - intros H. now left.
  - intros [H|[H _]]; [exact H | discriminate].
  - intros [<-|H]; [right; now split | now left].
  - intros [H|[_ ->]]; [now right | now left].
Qed.

Lemma add_point_rrdp : forall r p u, In u (rs_rrdp (add_point r p)) <-> In u (rs_rrdp r) \/ sp_notify p = Some u.
Proof.
  intros r p u. unfold add_point. destruct (sp_notify p) as [v|]; cbn [rs_rrdp]; split.
  - intros [<-|H]; [now right | now left].
  - intros [H|H]; [now right | injection H as ->; now left].
  - intros H. now left.
  - intros [H|H]; [exact H | discriminate].
Qed.

(* generic: what cleanup_points adds to any monotone "view" of the retain set *)
Lemma cleanup_points_rset : forall (A : Type) (proj : rset -> list A) (adds : spoint -> A -> Prop),
  (forall r p x, In x (proj (add_point r p)) <-> In x (proj r) \/ adds p x) ->
  forall started files r x,
  In x (proj (snd (cleanup_points started files r))) <->
  In x (proj r) \/ exists f p, In f files /\ sf_point f = Some p /\ retain started p = true /\ adds p x.
Proof.
  intros A proj adds Hadd started. induction files as [|g t IH]; intros r x; cbn [cleanup_points].
  - cbn [snd]. split; [now left|]. intros [H|(f & p & Hf & _)]; [exact H | destruct Hf].
  - destruct (sf_point g) as [p|] eqn:Eg.
    + destruct (retain started p) eqn:Er.
      * destruct (cleanup_points started t (add_point r p)) as [kept r'] eqn:Ec. cbn [snd].
        specialize (IH (add_point r p) x). rewrite Ec in IH. cbn [snd] in IH. rewrite IH, Hadd. split.
        -- intros [[H|H]|(f & q & Hf & Hq & Hr & Ha)].
           ++ now left.
           ++ right. exists g, p. split; [now left|]. split; [exact Eg|]. split; [exact Er | exact H].
           ++ right. exists f, q. split; [now right|]. split; [exact Hq|]. split; [exact Hr | exact Ha].
        -- intros [H|(f & q & Hf & Hq & Hr & Ha)].
           ++ left. now left.
           ++ destruct Hf as [<-|Hf].
              ** rewrite Eg in Hq. injection Hq as <-. left. now right.
              ** right. exists f, q. split; [exact Hf|]. split; [exact Hq|]. split; [exact Hr | exact Ha].
      * rewrite IH. split.
        -- intros [H|(f & q & Hf & Hq)]; [now left|]. right. exists f, q. split; [now right | exact Hq].
        -- intros [H|(f & q & Hf & Hq & Hr & Ha)]; [now left|]. destruct Hf as [<-|Hf].
           ++ rewrite Eg in Hq. injection Hq as <-. congruence.
           ++ right. exists f, q. split; [exact Hf|]. split; [exact Hq|]. split; [exact Hr | exact Ha].
    + rewrite IH. split.
      -- intros [H|(f & q & Hf & Hq)]; [now left|]. right. exists f, q. split; [now right | exact Hq].
      -- intros [H|(f & q & Hf & Hq & Hr & Ha)]; [now left|]. destruct Hf as [<-|Hf].
         ++ rewrite Eg in Hq. discriminate.
         ++ right. exists f, q. split; [exact Hf|]. split; [exact Hq|]. split; [exact Hr | exact Ha].
Qed.

Lemma cleanup_points_rsync : forall started files r hm,
  In hm (rs_rsync (snd (cleanup_points started files r))) <->
  In hm (rs_rsync r) \/ exists f p, In f files /\ sf_point f = Some p /\ retain started p = true
                                   /\ (sp_notify p = None /\ hm = (sp_host p, sp_module p)).
Proof.
  intros. apply (cleanup_points_rset _ rs_rsync (fun p hm => sp_notify p = None /\ hm = (sp_host p, sp_module p))).
  intros r0 p x. apply add_point_rsync.
Qed.

Lemma cleanup_points_rrdp : forall started files r u,
  In u (rs_rrdp (snd (cleanup_points started files r))) <->
  In u (rs_rrdp r) \/ exists f p, In f files /\ sf_point f = Some p /\ retain started p = true /\ sp_notify p = Some u.
Proof.
  intros. apply (cleanup_points_rset _ rs_rrdp (fun p u => sp_notify p = Some u)).
  intros r0 p x. apply add_point_rrdp.
Qed.

(* ---- the rsync collector ------------------------------------------------------------ *)
Lemma rsync_cleanup_modules : forall retain dir hm,
  In hm (modules (rsync_cleanup retain dir)) <-> In hm (modules dir) /\ In hm retain.
Proof.
  intros retain. induction dir as [|e dir IH]; intros hm.
  - cbn. split; [intros [] | intros [[] _]].
  - unfold rsync_cleanup, modules in *. cbn [flat_map]. rewrite flat_map_app, !in_app_iff, IH. clear IH.
    destruct e as [n|h ms]; cbn [flat_map app].
    + cbn [In]. tauto.
    + assert (Hkey : In hm (flat_map (fun e => match e with RFile _ => [] | RHost h0 ms0 => map (fun m => (h0, m)) ms0 end)
                                   (if existsb (fun hm0 => (fst hm0 =? h)%N) retain
                                    then match filter (fun m => mem_pair (h, m) retain) ms with [] => [] | kept => [RHost h kept] end
                                    else []))
                     <-> In hm (map (fun m => (h, m)) ms) /\ In hm retain).
      { split.
        - intros H. destruct (existsb (fun hm0 => (fst hm0 =? h)%N) retain); [|destruct H].
          destruct (filter (fun m => mem_pair (h, m) retain) ms) as [|k ks] eqn:Ef; [destruct H|].
          cbn [flat_map] in H. rewrite app_nil_r in H. apply in_map_iff in H. destruct H as (m & <- & Hm).
          rewrite <- Ef in Hm. apply filter_In in Hm. destruct Hm as [Hm Hr]. split; [apply in_map_iff; now exists m | now apply mem_pair_in].
        - intros [H Hr]. apply in_map_iff in H. destruct H as (m & <- & Hm).
          assert (E : existsb (fun hm0 => (fst hm0 =? h)%N) retain = true).
          { apply existsb_exists. exists (h, m). split; [exact Hr | apply N.eqb_refl]. }
          rewrite E.
          assert (Hf : In m (filter (fun m => mem_pair (h, m) retain) ms)) by (apply filter_In; split; [exact Hm | now apply mem_pair_in]).
          destruct (filter (fun m => mem_pair (h, m) retain) ms) as [|k ks]; [destruct Hf|].
          cbn [flat_map]. rewrite app_nil_r. apply in_map_iff. now exists m. }
      rewrite Hkey. tauto.
Qed.

Lemma rsync_cleanup_files : forall retain dir, rfiles (rsync_cleanup retain dir) = [].
Proof.
  intros retain. induction dir as [|e dir IH]; [reflexivity|]. unfold rsync_cleanup, rfiles in *. cbn [flat_map].
  rewrite flat_map_app, IH, app_nil_r. destruct e as [n|h ms]; [reflexivity|].
  destruct (existsb _ retain); [|reflexivity]. now destruct (filter _ ms).
Qed.

(* ---- the RRDP collector ---------------------------------------------------------------- *)
Lemma rrdp_cleanup_archives : forall retain dir a,
  In a (archives (rrdp_cleanup retain dir)) <-> In a (archives dir) /\ exists uri, snd a = Some uri /\ In uri retain.
Proof.
  intros retain. induction dir as [|e dir IH]; intros a.
  - cbn. split; [intros [] | intros [[] _]].
  - unfold rrdp_cleanup, archives in *. cbn [flat_map]. rewrite flat_map_app, !in_app_iff, IH. clear IH.
    destruct e as [i|es|au es]; cbn [flat_map app].
    + cbn [In]. tauto.
    + cbn [In flat_map]. tauto.
    + rewrite app_nil_r.
      assert (Hkey : In a (flat_map (fun x => match x with Archive i n => [(i, n)] | StrayDir _ => [] end)
                             (filter (fun x => match x with
                                               | Archive _ (Some uri) => mem_n uri retain
                                               | Archive _ None => false
                                               | StrayDir _ => false
                                               end) es))
                     <-> In a (flat_map (fun x => match x with Archive i n => [(i, n)] | StrayDir _ => [] end) es)
                         /\ exists uri, snd a = Some uri /\ In uri retain).
      { rewrite !in_flat_map. split.
        - intros (x & Hx & Ha). apply filter_In in Hx. destruct Hx as [Hx Hk].
          destruct x as [i [u|]|i]; try discriminate. destruct Ha as [<-|[]]. split.
          + exists (Archive i (Some u)). split; [exact Hx | now left].
          + exists u. split; [reflexivity | now apply mem_n_in].
        - intros [(x & Hx & Ha) (u & Hu & Hr)]. exists x. split; [|exact Ha]. apply filter_In. split; [exact Hx|].
          destruct x as [i n|i]; [|destruct Ha]. destruct Ha as [<-|[]]. cbn [snd] in Hu. subst n. now apply mem_n_in. }
      rewrite Hkey. tauto.
Qed.

Lemma rrdp_cleanup_other : forall retain dir x, In x (rr_other (rrdp_cleanup retain dir)) -> In x (rr_other dir).
Proof.
  intros retain. induction dir as [|e dir IH]; intros x H; [exact H|].
  unfold rrdp_cleanup, rr_other in *. cbn [flat_map] in *. rewrite flat_map_app in H. apply in_app_or in H.
  apply in_or_app. destruct H as [H|H]; [|right; now apply IH]. left.
  destruct e as [i|es|au es]; cbn [flat_map app] in H; try destruct H.
  rewrite app_nil_r in H. apply in_flat_map in H. destruct H as (y & Hy & Hx). apply filter_In in Hy.
  destruct Hy as [Hy Hk]. destruct y as [i n|i]; [destruct Hx | discriminate].
Qed.

(* ---- the theorems --------------------------------------------------------------------- *)
Lemma unexpired_retain : forall started f p, unexpired f = Some p -> sf_point f = Some p /\ retain started p = true.
Proof.
  intros started f p H. unfold unexpired in H. destruct (sf_point f) as [q|]; [|discriminate].
  destruct (sp_manifest q) as [na|] eqn:Em; [|discriminate]. destruct (sp_clock q <? na)%Z eqn:Ec; [|discriminate].
  injection H as <-. split; [reflexivity|]. unfold retain. now rewrite Em.
Qed.

Section Clean.
Variable ri : runinfo.
Variable s : fs.
Hypothesis Hclean : ri_dirty ri = false.

Let r1 := snd (cleanup_points (ri_started ri) (st_rrdp s) {| rs_rrdp := []; rs_rsync := [] |}).
Let r2 := snd (cleanup_points (ri_started ri) (st_rsync s) r1).

Lemma engine_cleanup_eq : engine_cleanup ri s =
  {| st_ta := filter snd (st_ta s);
     st_rrdp := fst (cleanup_points (ri_started ri) (st_rrdp s) {| rs_rrdp := []; rs_rsync := [] |});
     st_rsync := fst (cleanup_points (ri_started ri) (st_rsync s) r1);
     st_tmp := [];
     co_rsync := if ri_rsync ri then rsync_cleanup (ri_upd_rsync ri ++ rs_rsync r2) (co_rsync s) else co_rsync s;
     co_rrdp := if ri_rrdp ri then rrdp_cleanup (ri_upd_rrdp ri ++ rs_rrdp r2) (co_rrdp s) else co_rrdp s |}.
Proof.
  unfold engine_cleanup, r2, r1. rewrite Hclean.
  destruct (cleanup_points (ri_started ri) (st_rrdp s) {| rs_rrdp := []; rs_rsync := [] |}) as [a b]. cbn [fst snd].
  destruct (cleanup_points (ri_started ri) (st_rsync s) b) as [c d]. reflexivity.
Qed.

(* no stored point with an unexpired manifest certificate is removed *)
Theorem keeps_unexpired_rsync_tree : forall f p, In f (st_rsync s) -> unexpired f = Some p ->
  In f (st_rsync (engine_cleanup ri s)).
Proof.
  intros f p Hf Hu. rewrite engine_cleanup_eq. cbn [st_rsync]. apply cleanup_points_in. split; [exact Hf|].
  exists p. now apply unexpired_retain.
Qed.

Theorem keeps_unexpired_rrdp_tree : forall f p, In f (st_rrdp s) -> unexpired f = Some p ->
  In f (st_rrdp (engine_cleanup ri s)).
Proof.
  intros f p Hf Hu. rewrite engine_cleanup_eq. cbn [st_rrdp]. apply cleanup_points_in. split; [exact Hf|].
  exists p. now apply unexpired_retain.
Qed.

(* exactly the loadable points that retain() accepts survive *)
Theorem store_exact : forall f,
  In f (st_rsync (engine_cleanup ri s)) <-> In f (st_rsync s) /\ exists p, sf_point f = Some p /\ retain (ri_started ri) p = true.
Proof. intros f. rewrite engine_cleanup_eq. cbn [st_rsync]. apply cleanup_points_in. Qed.

Lemma needed_rsync_retained : forall hm, needed_rsync ri s hm = true -> In hm (ri_upd_rsync ri ++ rs_rsync r2).
Proof.
  intros hm H. unfold needed_rsync in H. apply orb_true_iff in H. apply in_or_app. destruct H as [H|H].
  - left. now apply mem_pair_in.
  - right. apply existsb_exists in H. destruct H as (f & Hf & H). destruct (unexpired f) as [p|] eqn:Eu; [|discriminate].
    destruct (sp_notify p) eqn:En; [discriminate|]. apply pair_eqb_eq in H.
    destruct (unexpired_retain (ri_started ri) f p Eu) as [Hp Hr].
    unfold points in Hf. apply in_app_or in Hf. unfold r2. apply cleanup_points_rsync. destruct Hf as [Hf|Hf].
    + left. unfold r1. apply cleanup_points_rsync. right. now exists f, p.
    + right. now exists f, p.
Qed.

Lemma needed_rrdp_retained : forall u, needed_rrdp ri s u = true -> In u (ri_upd_rrdp ri ++ rs_rrdp r2).
Proof.
  intros u H. unfold needed_rrdp in H. apply orb_true_iff in H. apply in_or_app. destruct H as [H|H].
  - left. now apply mem_n_in.
  - right. apply existsb_exists in H. destruct H as (f & Hf & H). destruct (unexpired f) as [p|] eqn:Eu; [|discriminate].
    destruct (sp_notify p) as [v|] eqn:En; [|discriminate]. apply N.eqb_eq in H. subst v.
    destruct (unexpired_retain (ri_started ri) f p Eu) as [Hp Hr].
    unfold points in Hf. apply in_app_or in Hf. unfold r2. apply cleanup_points_rrdp. destruct Hf as [Hf|Hf].
    + left. unfold r1. apply cleanup_points_rrdp. right. now exists f, p.
    + right. now exists f, p.
Qed.

(* nor an rsync module this run used or an unexpired stored point (without rpkiNotify) refers to *)
Theorem keeps_needed_rsync : forall hm, In hm (modules (co_rsync s)) -> needed_rsync ri s hm = true ->
  In hm (modules (co_rsync (engine_cleanup ri s))).
Proof.
  intros hm Hin Hn. rewrite engine_cleanup_eq. cbn [co_rsync]. destruct (ri_rsync ri); [|exact Hin].
  apply rsync_cleanup_modules. split; [exact Hin | now apply needed_rsync_retained].
Qed.

(* nor an RRDP archive this run used or an unexpired stored point refers to *)
Theorem keeps_needed_rrdp : forall i u, In (i, Some u) (archives (co_rrdp s)) -> needed_rrdp ri s u = true ->
  In (i, Some u) (archives (co_rrdp (engine_cleanup ri s))).
Proof.
  intros i u Hin Hn. rewrite engine_cleanup_eq. cbn [co_rrdp]. destruct (ri_rrdp ri); [|exact Hin].
  apply rrdp_cleanup_archives. split; [exact Hin|]. exists u. split; [reflexivity | now apply needed_rrdp_retained].
Qed.

(* cleanup creates nothing *)
Theorem cleanup_no_new : no_new s (engine_cleanup ri s) = true.
Proof.
  rewrite engine_cleanup_eq. unfold no_new. cbn [st_ta st_rrdp st_rsync st_tmp co_rsync co_rrdp].
  repeat (apply andb_true_iff; split).
  - apply subset_n_incl. intros x Hx. apply in_map_iff in Hx. destruct Hx as (y & <- & Hy). apply filter_In in Hy.
    apply in_map. now destruct Hy.
  - apply subset_n_incl. intros x Hx. unfold ids in *. apply in_map_iff in Hx. destruct Hx as (y & <- & Hy).
    apply cleanup_points_in in Hy. apply in_map. now destruct Hy.
  - apply subset_n_incl. intros x Hx. unfold ids in *. apply in_map_iff in Hx. destruct Hx as (y & <- & Hy).
    apply cleanup_points_in in Hy. apply in_map. now destruct Hy.
  - reflexivity.
  - apply subset_p_incl. intros x Hx. destruct (ri_rsync ri); [|exact Hx]. apply rsync_cleanup_modules in Hx. now destruct Hx.
  - destruct (ri_rsync ri); [|apply subset_n_refl]. now rewrite rsync_cleanup_files.
  - apply subset_n_incl. intros x Hx. destruct (ri_rrdp ri); [|exact Hx]. apply in_map_iff in Hx.
    destruct Hx as (y & <- & Hy). apply rrdp_cleanup_archives in Hy. apply in_map. now destruct Hy.
  - apply subset_n_incl. intros x Hx. destruct (ri_rrdp ri); [|exact Hx]. now apply rrdp_cleanup_other in Hx.
Qed.
End Clean.

(* with the dirty option nothing is removed: the cache is literally unchanged *)
Theorem dirty_unchanged : forall ri s, ri_dirty ri = true -> engine_cleanup ri s = s.
Proof. intros ri s H. unfold engine_cleanup. now rewrite H. Qed.

(* after a failed run no cleanup happens *)
Theorem failed_unchanged : forall ri s, finish_run false ri s = s.
Proof. reflexivity. Qed.

Theorem model_satisfies_spec : forall ok ri s, spec_okb ok ri s (model_obs ok ri s) = true.
Proof.
  intros ok ri s. unfold spec_okb, model_obs, finish_run. destruct ok; cbn [negb orb].
  - destruct (ri_dirty ri) eqn:Ed.
    + rewrite dirty_unchanged by exact Ed. apply same_fs_refl.
    + rewrite (cleanup_no_new ri s Ed), andb_true_r. repeat (apply andb_true_iff; split).
      * apply forallb_forall. intros f Hf. destruct (unexpired f) as [p|] eqn:Eu; [|reflexivity].
        apply mem_n_in. unfold ids. apply in_map. now apply (keeps_unexpired_rrdp_tree ri s Ed f p).
      * apply forallb_forall. intros f Hf. destruct (unexpired f) as [p|] eqn:Eu; [|reflexivity].
        apply mem_n_in. unfold ids. apply in_map. now apply (keeps_unexpired_rsync_tree ri s Ed f p).
      * apply forallb_forall. intros hm Hhm. destruct (needed_rsync ri s hm) eqn:En; [|reflexivity]. cbn [negb orb].
        apply mem_pair_in. now apply keeps_needed_rsync.
      * apply forallb_forall. intros [i [u|]] Ha; [|reflexivity]. cbn [snd fst].
        destruct (needed_rrdp ri s u) eqn:En; [|reflexivity]. cbn [negb orb]. apply mem_n_in.
        change i with (fst (i, Some u)). apply in_map. now apply keeps_needed_rrdp.
  - apply same_fs_refl.
Qed.
