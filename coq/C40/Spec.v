(* C40: the property as an executable oracle over the cache before and after the cleanup step of a run, and
   the case checkers.  No proofs here. *)
From Coq Require Import List ZArith NArith Bool.
From RV Require Export C40.Model.
Import ListNotations.

(* ---- views of a cache ---------------------------------------------------------- *)
Definition ids (l : list sfile) : list N := map sf_id l.

(* the rsync modules (authority, module) present in the collector's directory *)
Definition modules (d : list rtop) : list (N * N) :=
  flat_map (fun e => match e with RFile _ => [] | RHost h ms => map (fun m => (h, m)) ms end) d.
Definition rfiles (d : list rtop) : list N :=
  flat_map (fun e => match e with RFile n => [n] | RHost _ _ => [] end) d.
Definition rhosts (d : list rtop) : list N :=
  flat_map (fun e => match e with RFile _ => [] | RHost h _ => [h] end) d.

(* the RRDP archives present: (file id, rpkiNotify if readable) *)
Definition archives (d : list rrtop) : list (N * option N) :=
  flat_map (fun e => match e with
                     | RRAuth _ es => flat_map (fun x => match x with Archive i n => [(i, n)] | StrayDir _ => [] end) es
                     | _ => []
                     end) d.
(* everything else in the RRDP directory, by id *)
Definition rr_other (d : list rrtop) : list N :=
  flat_map (fun e => match e with
                     | RRFile i => [i]
                     | RRTmp es => es
                     | RRAuth _ es => flat_map (fun x => match x with StrayDir i => [i] | Archive _ _ => [] end) es
                     end) d.

Definition subset_n (a b : list N) : bool := forallb (fun x => mem_n x b) a.
Definition same_n (a b : list N) : bool := subset_n a b && subset_n b a.
Definition subset_p (a b : list (N * N)) : bool := forallb (fun x => mem_pair x b) a.
Definition same_p (a b : list (N * N)) : bool := subset_p a b && subset_p b a.

(* the same set of files (the abstract listing of a cache, component by component) *)
Definition same_fs (a b : fs) : bool :=
  same_n (map fst (st_ta a)) (map fst (st_ta b)) && same_n (ids (st_rrdp a)) (ids (st_rrdp b))
  && same_n (ids (st_rsync a)) (ids (st_rsync b)) && same_n (st_tmp a) (st_tmp b)
  && same_p (modules (co_rsync a)) (modules (co_rsync b)) && same_n (rfiles (co_rsync a)) (rfiles (co_rsync b))
  && same_n (rhosts (co_rsync a)) (rhosts (co_rsync b))
  && same_n (map fst (archives (co_rrdp a))) (map fst (archives (co_rrdp b)))
  && same_n (rr_other (co_rrdp a)) (rr_other (co_rrdp b)).

(* nothing in [b] that is not in [a] *)
Definition no_new (a b : fs) : bool :=
  subset_n (map fst (st_ta b)) (map fst (st_ta a)) && subset_n (ids (st_rrdp b)) (ids (st_rrdp a))
  && subset_n (ids (st_rsync b)) (ids (st_rsync a)) && subset_n (st_tmp b) (st_tmp a)
  && subset_p (modules (co_rsync b)) (modules (co_rsync a)) && subset_n (rfiles (co_rsync b)) (rfiles (co_rsync a))
  && subset_n (map fst (archives (co_rrdp b))) (map fst (archives (co_rrdp a)))
  && subset_n (rr_other (co_rrdp b)) (rr_other (co_rrdp a)).

(* ---- the property ------------------------------------------------------------------ *)
(* a stored publication point whose manifest certificate has not expired (when cleanup looks at it) *)
Definition unexpired (f : sfile) : option spoint :=
  match sf_point f with
  | Some p => match sp_manifest p with
              | Some not_after => if (sp_clock p <? not_after)%Z then Some p else None
              | None => None
              end
  | None => None
  end.

Definition points (s : fs) : list sfile := st_rrdp s ++ st_rsync s.

(* the rsync module is used by this run or by an unexpired stored point *)
Definition needed_rsync (ri : runinfo) (s : fs) (hm : N * N) : bool :=
  mem_pair hm (ri_upd_rsync ri)
  || existsb (fun f => match unexpired f with
                       | Some p => match sp_notify p with None => pair_eqb hm (sp_host p, sp_module p) | Some _ => false end
                       | None => false
                       end) (points s).

Definition needed_rrdp (ri : runinfo) (s : fs) (uri : N) : bool :=
  mem_n uri (ri_upd_rrdp ri)
  || existsb (fun f => match unexpired f with
                       | Some p => match sp_notify p with Some u => (u =? uri)%N | None => false end
                       | None => false
                       end) (points s).

(* C40 on (was the run successful, the run's parameters, the cache when cleanup would start, the cache afterwards) *)
Definition spec_okb (ok : bool) (ri : runinfo) (before after : fs) : bool :=
  if negb ok || ri_dirty ri then same_fs before after          (* failed run / dirty: the file set is unchanged *)
  else
    (* no stored point with an unexpired manifest certificate is removed *)
    forallb (fun f => match unexpired f with Some _ => mem_n (sf_id f) (ids (st_rrdp after)) | None => true end) (st_rrdp before)
    && forallb (fun f => match unexpired f with Some _ => mem_n (sf_id f) (ids (st_rsync after)) | None => true end) (st_rsync before)
    (* nor a collector copy those points or this run use *)
    && forallb (fun hm => negb (needed_rsync ri before hm) || mem_pair hm (modules (co_rsync after))) (modules (co_rsync before))
    && forallb (fun a => match snd a with
                         | Some uri => negb (needed_rrdp ri before uri) || mem_n (fst a) (map fst (archives (co_rrdp after)))
                         | None => true
                         end) (archives (co_rrdp before))
    (* and cleanup creates nothing *)
    && no_new before after.

Definition model_obs (ok : bool) (ri : runinfo) (before : fs) : fs := finish_run ok ri before.

(* ---- precondition: ids identify files ------------------------------------------------ *)
Fixpoint nodup_n (l : list N) : bool :=
  match l with [] => true | x :: t => negb (mem_n x t) && nodup_n t end.

Definition wf (s : fs) : bool :=
  nodup_n (ids (st_rrdp s)) && nodup_n (ids (st_rsync s)) && nodup_n (map fst (archives (co_rrdp s))).

(* ---- stream "cleanup": the cache right before and right after engine::Run::cleanup of a real run -------- *)
Record case := { c_ok : bool; c_ri : runinfo; c_before : fs; c_after : fs }.

(* 0 oracle true and model = implementation; 1 oracle true, model differs; 2 oracle false; 9 ids not unique *)
Definition check_case (c : case) : N :=
  if negb (wf (c_before c)) then 9%N
  else if negb (spec_okb (c_ok c) (c_ri c) (c_before c) (c_after c)) then 2%N
  else if same_fs (model_obs (c_ok c) (c_ri c) (c_before c)) (c_after c) then 0%N else 1%N.

(* ---- stream "seq": the cache before and after a whole ValidationReport::process call --------------------
   The validation itself adds and replaces files, which this model does not describe; the only claim checked is
   that with dirty or after a failed run nothing that was there before is gone. *)
Definition kept_all (a b : fs) : bool :=
  subset_n (map fst (st_ta a)) (map fst (st_ta b)) && subset_n (ids (st_rrdp a)) (ids (st_rrdp b))
  && subset_n (ids (st_rsync a)) (ids (st_rsync b)) && subset_n (st_tmp a) (st_tmp b)
  && subset_p (modules (co_rsync a)) (modules (co_rsync b)) && subset_n (rfiles (co_rsync a)) (rfiles (co_rsync b))
  && subset_n (map fst (archives (co_rrdp a))) (map fst (archives (co_rrdp b)))
  && subset_n (rr_other (co_rrdp a)) (rr_other (co_rrdp b)).

Record seq_case := { q_ok : bool; q_dirty : bool; q_before : fs; q_after : fs }.

(* 0 claim holds (or no claim: successful run without dirty); 2 something disappeared *)
Definition check_seq (q : seq_case) : N :=
  if negb (q_ok q) || q_dirty q then (if kept_all (q_before q) (q_after q) then 0%N else 2%N) else 0%N.
