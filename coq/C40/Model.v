(* C40 model: what the cleanup after a validation run keeps.
   Hand transcription of
     /repo/src/payload/validation.rs  ValidationReport::process   (run.process()?; run.cleanup()?; run.done())
     /repo/src/engine.rs              Run::cleanup                (the dirty switch; store first, then the collector
                                                                   with the retain set the store filled in)
     /repo/src/store.rs               Run::cleanup, cleanup_points, cleanup_ta, cleanup_tmp, cleanup_dir_tree
                                      (a file is kept iff the closure says so), StoredPoint::load_quietly,
                                      StoredPoint::retain
     /repo/src/collector/base.rs      Cleanup::{add_rrdp_repository, add_rsync_module}, Run::cleanup
     /repo/src/collector/rsync.rs     Run::cleanup, cleanup_host, ModuleSet::add_from_uri
     /repo/src/collector/rrdp/base.rs Run::cleanup, cleanup_tmp, cleanup_authority, keep_repository
   Times are milliseconds relative to an arbitrary origin (Z): the times kept in files are whole seconds, the
   clock readings (Time::now()) are not.  Names (hosts, modules, rpkiNotify URIs, files) are numbers.
   Not modelled: directory pruning in the store trees (a directory disappears when nothing in it is kept),
   non-UTF-8 directory names (removed), I/O errors (abort the cleanup with a fatal error).  No proofs here. *)
From Coq Require Import List ZArith NArith Bool.
Import ListNotations.

(* store.rs UpdateStatus *)
Inductive status :=
| Success
| LastAttempt (when : Z).

(* a stored publication point file as StoredPoint::load_quietly returns it *)
Record spoint := {
  sp_status : status;           (* header.update_status *)
  sp_manifest : option Z;       (* Some not_after: the stored manifest (its EE certificate's notAfter) *)
  sp_notify : option N;         (* header.rpki_notify *)
  sp_host : N;                  (* canonical authority of header.manifest_uri *)
  sp_module : N;                (* module name of header.manifest_uri *)
  sp_clock : Z }.               (* Time::now() at the moment retain() looks at this point *)

(* a file in one of the store's point trees; sf_point = None: load_quietly fails *)
Record sfile := { sf_id : N; sf_point : option spoint }.

(* StoredPoint::retain(update_start) *)
Definition retain (started : Z) (p : spoint) : bool :=
  match sp_manifest p with
  | Some not_after => (sp_clock p <? not_after)%Z                  (* manifest.not_after > Time::now() *)
  | None =>
      match sp_status p with
      | LastAttempt when => (started <=? when)%Z                    (* when >= update_start *)
      | Success => false
      end
  end.

(* collector::Cleanup: the RRDP repositories and rsync modules (authority, module) to keep *)
Record rset := { rs_rrdp : list N; rs_rsync : list (N * N) }.

Definition add_point (r : rset) (p : spoint) : rset :=
  match sp_notify p with
  | Some uri => {| rs_rrdp := uri :: rs_rrdp r; rs_rsync := rs_rsync r |}           (* add_rrdp_repository *)
  | None => {| rs_rrdp := rs_rrdp r; rs_rsync := (sp_host p, sp_module p) :: rs_rsync r |}   (* add_rsync_module *)
  end.

(* store::Run::cleanup_points over one tree (the order of the directory walk is the order of the list) *)
Fixpoint cleanup_points (started : Z) (files : list sfile) (r : rset) : list sfile * rset :=
  match files with
  | [] => ([], r)
  | f :: t =>
      match sf_point f with
      | Some p =>
          if retain started p
          then let '(kept, r') := cleanup_points started t (add_point r p) in (f :: kept, r')
          else cleanup_points started t r
      | None => cleanup_points started t r
      end
  end.

(* the rsync collector's working directory: top-level entries *)
Inductive rtop :=
| RFile (name : N)                       (* a stray file *)
| RHost (host : N) (mods : list N).      (* a host directory with its entries (modules) *)

Definition pair_eqb (a b : N * N) : bool := (fst a =? fst b)%N && (snd a =? snd b)%N.
Definition mem_pair (x : N * N) (l : list (N * N)) : bool := existsb (pair_eqb x) l.
Definition mem_n (x : N) (l : list N) : bool := existsb (N.eqb x) l.

(* rsync::Run::cleanup + cleanup_host; [retain] already contains the modules updated in this run *)
Definition rsync_cleanup (retain : list (N * N)) (dir : list rtop) : list rtop :=
  flat_map (fun e => match e with
                     | RFile _ => []                                          (* cleanup_host removes a file *)
                     | RHost h mods =>
                         if existsb (fun hm => (fst hm =? h)%N) retain        (* retain.authorities.get(name) *)
                         then match filter (fun m => mem_pair (h, m) retain) mods with
                              | [] => []                                      (* keep_host = false *)
                              | kept => [RHost h kept]
                              end
                         else []
                     end) dir.

(* the RRDP collector's working directory *)
Inductive rrentry :=
| Archive (id : N) (notify : option N)   (* an archive file; None: cannot be opened / has no state *)
| StrayDir (id : N).
Inductive rrtop :=
| RRFile (id : N)                        (* a stray file *)
| RRTmp (entries : list N)               (* the directory "tmp" *)
| RRAuth (id : N) (entries : list rrentry).

(* rrdp::Run::cleanup, cleanup_tmp, cleanup_authority, keep_repository *)
Definition rrdp_cleanup (retain : list N) (dir : list rrtop) : list rrtop :=
  flat_map (fun e => match e with
                     | RRFile _ => []
                     | RRTmp _ => [RRTmp []]
                     | RRAuth a es =>
                         [RRAuth a (filter (fun x => match x with
                                                     | Archive _ (Some uri) => mem_n uri retain
                                                     | Archive _ None => false   (* RrdpArchive::open removed it *)
                                                     | StrayDir _ => false
                                                     end) es)]
                     end) dir.

(* the cache *)
Record fs := {
  st_ta : list (N * bool);      (* stored TA certificates; the flag: decodes and notAfter > now *)
  st_rrdp : list sfile;         (* <store>/rrdp/... *)
  st_rsync : list sfile;        (* <store>/rsync/... *)
  st_tmp : list N;              (* <store>/tmp/... *)
  co_rsync : list rtop;         (* <cache>/rsync *)
  co_rrdp : list rrtop }.       (* <cache>/rrdp *)

Record runinfo := {
  ri_dirty : bool;              (* config.dirty_repository *)
  ri_rsync : bool;              (* the engine has a collector with the rsync transport (a usable command) *)
  ri_rrdp : bool;               (* ... with the RRDP transport *)
  ri_started : Z;               (* store::Run::started *)
  ri_upd_rsync : list (N * N);  (* rsync::Run::updated: every module tried in this run *)
  ri_upd_rrdp : list N }.       (* keys of rrdp::Run::updated *)

(* engine::Run::cleanup *)
Definition engine_cleanup (ri : runinfo) (s : fs) : fs :=
  if ri_dirty ri then s
  else
    let ta := filter snd (st_ta s) in                                                  (* cleanup_ta *)
    let '(rrdp, r1) := cleanup_points (ri_started ri) (st_rrdp s) {| rs_rrdp := []; rs_rsync := [] |} in
    let '(rsync, r2) := cleanup_points (ri_started ri) (st_rsync s) r1 in
    {| st_ta := ta; st_rrdp := rrdp; st_rsync := rsync; st_tmp := [];                   (* cleanup_tmp *)
       co_rsync := if ri_rsync ri then rsync_cleanup (ri_upd_rsync ri ++ rs_rsync r2) (co_rsync s) else co_rsync s;
       co_rrdp := if ri_rrdp ri then rrdp_cleanup (ri_upd_rrdp ri ++ rs_rrdp r2) (co_rrdp s) else co_rrdp s |}.

(* ValidationReport::process after the engine was started: [ok] = run.process() succeeded; [s] = the cache at
   that moment *)
Definition finish_run (ok : bool) (ri : runinfo) (s : fs) : fs :=
  if ok then engine_cleanup ri s else s.
