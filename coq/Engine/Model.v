(* Engine/Model.v -- abstract model of Routinator's validation engine (Group E, DESIGN.md A.2).

   Transcribed from /repo/src/engine.rs (Run::process_tal_task, load_ta, process_ca_task,
   PubPoint::process, process_collected, validate_collected_manifest, validate_collected_crl,
   check_collected_is_newer, process_stored, validate_stored_manifest, process_object,
   process_cer, process_ca_cer, process_router_cert, process_roa, process_aspa, process_gbr,
   ValidPointManifest::check_crl, CaCert::chain, CaCert::check_loop) and
   /repo/src/payload/validation.rs (PubPointProcessor::{process_roa, process_aspa,
   process_router_cert, commit, cancel}, PubPoint::add_roa, RejectedResources::keep_prefix,
   SnapshotBuilder::process_origin) and the store operations of /repo/src/store.rs that the
   engine uses (StoredPoint::manifest / update / iteration).

   What the `rpki` crate decides (DER decoding, RFC 6487 / 6488 checks, signature verification,
   resource containment, validity periods) enters as *verdict bits* of the objects; the engine's own
   decisions are modelled with their control flow.  Definitions only, no proofs.

   Scope notes (see notes/C01.md):
   - one publication point is assumed to be visited at most once per run (trees, and graphs whose
     revisits are pruned by the loop check): every visit reads the store as it was at the start of
     the run; the updates of a run are applied afterwards;
   - the random order in which process_collected walks the manifest is the parameter [perm]
     (since fix F1/C03 it only determines the order of the stored objects);
   - the cached manifest number / thisUpdate of a stored point are taken to agree with the stored
     manifest (the engine writes them together), so the "stored point is broken" branch of
     check_collected_is_newer is not reachable;
   - SLURM, metrics and the thread pool are not modelled. *)
From Coq Require Import List NArith ZArith Bool.
Import ListNotations.
Local Open Scope N_scope.

(* ------------------------------------------------------------------------------------------ *)
(* Data                                                                                       *)

(* A certificate as the rpki crate judges it.  [c_key] identifies the subject public key (two
   certificates have the same subject key identifier iff their [c_key] agree); [c_subject] is the
   publication point the SIA of a CA / TA certificate names.
   c_sig_ok     : the signature is a correct signature by the key of the point that publishes it
                  (TA: by its own key);
   c_res_within : its resources are contained in the issuer's (Overclaim::Refuse);
   c_valid_now  : notBefore <= now <= notAfter;
   c_crl_uri_ok : the CRL distribution point is the CRL URI of the publishing point;
   c_ranges     : its (effective) address ranges (v4?, lo, hi) -- only used for the unsafe-VRP filter. *)
Record cert := {
  c_key : N; c_subject : N;
  c_decodes : bool; c_sig_ok : bool; c_res_within : bool; c_valid_now : bool; c_crl_uri_ok : bool;
  c_serial : N;
  c_ranges : list (bool * N * N) }.

(* A payload item.  Keys are identified by the index of the router key. *)
Inductive item :=
| IVrp (v4 : bool) (addr len maxlen asn : N)
| IKey (key asn : N)
| IAspa (customer : N) (providers : list N).

(* The file name extension decides how process_object treats a file. *)
Inductive ext := XCer | XRoa | XAsa | XGbr | XCrl | XOther.
Inductive skind := KRoa | KAspa | KGbr.

Inductive obj :=
| OCa (c : cert)
| ORouter (c : cert) (keys : list item)
| OSigned (k : skind) (decodes content_sig_ok : bool) (ee : cert) (items : list item)
| OOther.

(* One file of a publication point version.  [e_listed]: on the manifest; [e_present]: the
   collector has a file of that name; [e_hash_ok]: its hash is the listed one. *)
Record entry := {
  e_name : N; e_ext : ext; e_listed : bool; e_present : bool; e_hash_ok : bool; e_obj : obj }.

(* A version of a publication point: manifest, CRL and files.  Times are offsets from now.
   [v_id] identifies the manifest bytes (two versions are byte-identical manifests iff equal). *)
Record version := {
  v_id : N;
  m_present : bool; m_decodes : bool; m_content_sig_ok : bool; m_ee : cert;
  m_number : N; m_this : Z; m_next : Z;
  crl_listed : bool; crl_present : bool; crl_hash_ok : bool; crl_decodes : bool; crl_sig_ok : bool;
  crl_next : Z; crl_revoked : list N;
  entries : list entry }.

(* What the store holds for a point: the manifest+CRL it accepted and the objects it copied. *)
Record stored := { s_version : version; s_entries : list entry }.

Record ta_uri := { u_id : N; u_fetched : option cert }.
Record tal := { t_key : N; t_uris : list ta_uri }.

Record cfg := {
  stale_reject : bool;          (* stale = reject (warn and accept behave alike) *)
  unsafe_reject : bool;         (* unsafe-vrps = reject *)
  bgpsec : bool; aspa : bool;
  max_depth : nat;
  lim4 : option N; lim6 : option N }.

(* The state of the world during one run: the signing key of every point, what the collector
   holds for it after fetching, what the store holds from earlier runs. *)
Record world := {
  w_pkey : N -> N;
  w_collected : N -> option version;
  w_stored : N -> option stored;
  w_ta_stored : N -> option cert }.

Inductive res (A : Type) := Ok (a : A) | OutOfFuel.
Arguments Ok {A} a.
Arguments OutOfFuel {A}.

(* ------------------------------------------------------------------------------------------ *)
(* Per-object processing                                                                      *)

(* ValidPointManifest::check_crl, second half: crl.contains(serial) *)
Definition revoked (v : version) (c : cert) : bool := existsb (N.eqb (c_serial c)) (crl_revoked v).

(* Cert::validate_ca / validate_ee / validate_router against the issuer certificate [p] for an
   object published by the point signing with [pkey]: decodes, the issuer certificate carries the
   key the object was signed with, signature, resources, validity. *)
Definition cert_valid (p : cert) (pkey : N) (c : cert) : bool :=
  c_decodes c && (c_key p =? pkey) && c_sig_ok c && c_res_within c && c_valid_now c.

(* ValidPointManifest::check_crl *)
Definition check_crl (v : version) (c : cert) : bool := c_crl_uri_ok c && negb (revoked v c).

(* PubPoint::add_roa: the prefix length limits *)
Definition limit_ok (cf : cfg) (it : item) : bool :=
  match it with
  | IVrp v4 _ len _ _ =>
      match (if v4 then lim4 cf else lim6 cf) with Some l => negb (l <? len) | None => true end
  | _ => true
  end.

(* PubPointProcessor::process_roa / process_aspa / process_router_cert: feature switches *)
Definition item_enabled (cf : cfg) (it : item) : bool :=
  match it with IVrp _ _ _ _ _ => true | IKey _ _ => bgpsec cf | IAspa _ _ => aspa cf end.

Definition item_kept (cf : cfg) (it : item) : bool := item_enabled cf it && limit_ok cf it.

(* process_cer -> process_ca_cer: does a CA certificate become a child task?
   check_loop, validate_ca, check_crl, CaCert::chain (depth). *)
Definition child_ok (cf : cfg) (p : cert) (pkey : N) (v : version) (chain : list N) (depth : nat) (c : cert) : bool :=
  c_decodes c
  && negb (existsb (N.eqb (c_key c)) chain)
  && cert_valid p pkey c && check_crl v c
  && Nat.leb (S depth) (max_depth cf).

(* process_object: the payload items an entry contributes (after the processor's filters) *)
Definition entry_items (cf : cfg) (p : cert) (pkey : N) (v : version) (e : entry) : list item :=
  match e_ext e, e_obj e with
  | XCer, ORouter c keys =>
      if cert_valid p pkey c && check_crl v c then filter (item_kept cf) keys else []
  | XRoa, OSigned KRoa dec csig ee items
  | XAsa, OSigned KAspa dec csig ee items =>
      if dec && csig && cert_valid p pkey ee && check_crl v ee then filter (item_kept cf) items else []
  | _, _ => []
  end.

(* process_object: the child CA task an entry yields *)
Definition entry_children (cf : cfg) (p : cert) (pkey : N) (v : version) (chain : list N) (depth : nat) (e : entry) : list cert :=
  match e_ext e, e_obj e with
  | XCer, OCa c => if child_ok cf p pkey v chain depth c then [c] else []
  | _, _ => []
  end.

(* ------------------------------------------------------------------------------------------ *)
(* Manifest and CRL validation                                                                *)

(* Why a manifest was not accepted (only the fact matters for the payload; the codes document
   the order of the checks in the code). *)
Inductive mres := MOk | MErr (code : N).

(* validate_collected_crl *)
Definition validate_collected_crl (cf : cfg) (p : cert) (pkey : N) (v : version) : mres :=
  if negb (c_crl_uri_ok (m_ee v)) then MErr 10          (* missing / foreign / unlisted CRL URI *)
  else if negb (crl_listed v) then MErr 11              (* "CRL not listed on manifest" *)
  else if negb (crl_present v) then MErr 12             (* failed to load *)
  else if negb (crl_hash_ok v) then MErr 13             (* wrong hash *)
  else if negb (crl_decodes v) then MErr 14
  else if negb (crl_sig_ok v && (c_key p =? pkey)) then MErr 15
  else if stale_reject cf && (crl_next v <? 0)%Z then MErr 16
  else if revoked v (m_ee v) then MErr 17               (* manifest certificate revoked *)
  else MOk.

(* validate_collected_manifest *)
Definition validate_collected_manifest (cf : cfg) (p : cert) (pkey : N) (v : version) : mres :=
  if negb (m_decodes v) then MErr 1
  else if negb (m_content_sig_ok v && cert_valid p pkey (m_ee v)) then MErr 2     (* manifest.validate *)
  else if (0 <? m_this v)%Z then MErr 3                                           (* premature *)
  else if stale_reject cf && (m_next v <? 0)%Z then MErr 4                        (* stale, policy reject *)
  else validate_collected_crl cf p pkey v.

(* validate_stored_manifest: no premature check; the CRL comes with the stored manifest *)
Definition validate_stored_manifest (cf : cfg) (p : cert) (pkey : N) (v : version) : mres :=
  if negb (m_decodes v) then MErr 1
  else if negb (m_content_sig_ok v && cert_valid p pkey (m_ee v)) then MErr 2
  else if stale_reject cf && (m_next v <? 0)%Z then MErr 4
  else if negb (crl_decodes v) then MErr 14
  else if negb (crl_sig_ok v && (c_key p =? pkey)) then MErr 15
  else if stale_reject cf && (crl_next v <? 0)%Z then MErr 16
  else if revoked v (m_ee v) then MErr 17
  else MOk.

Definition is_ok (r : mres) : bool := match r with MOk => true | MErr _ => false end.

(* check_collected_is_newer (with consistent cached fields) *)
Definition is_newer (v : version) (st : option stored) : bool :=
  match st with
  | None => true
  | Some s => (m_number (s_version s) <? m_number v) && (m_this (s_version s) <? m_this v)%Z
  end.

(* "the stored and collected manifests are the same" *)
Definition same (v : version) (st : option stored) : bool :=
  match st with None => false | Some s => v_id (s_version s) =? v_id v end.

(* ------------------------------------------------------------------------------------------ *)
(* One publication point                                                                      *)

Definition listed (v : version) : list entry := filter e_listed (entries v).

(* the closure given to StoredPoint::update: objects in (permuted) manifest order; the first
   missing file or hash mismatch aborts the update.  What the processor collected up to then is
   dropped: PubPoint::process calls ProcessPubPoint::restart before it falls back to the stored
   point (fix F1/C03), and the child tasks collected so far are discarded with the closure. *)
Inductive walk_res := WDone (items : list item) (children : list cert) | WAbort.

Fixpoint walk (cf : cfg) (p : cert) (pkey : N) (v : version) (chain : list N) (depth : nat)
              (es : list entry) (items : list item) (children : list cert) : walk_res :=
  match es with
  | [] => WDone items children
  | e :: t =>
      if negb (e_present e) || negb (e_hash_ok e) then WAbort
      else walk cf p pkey v chain depth t
                (items ++ entry_items cf p pkey v e) (children ++ entry_children cf p pkey v chain depth e)
  end.

(* process_stored iterates over all stored objects *)
Definition all_items (cf : cfg) (p : cert) (pkey : N) (v : version) (es : list entry) : list item :=
  flat_map (entry_items cf p pkey v) es.
Definition all_children (cf : cfg) (p : cert) (pkey : N) (v : version) (chain : list N) (depth : nat) (es : list entry) : list cert :=
  flat_map (entry_children cf p pkey v chain depth) es.

Inductive point_res :=
| PAccepted (items : list item) (children : list cert) (update : option stored)
| PRejected.

(* process_stored *)
Definition process_stored (cf : cfg) (w : world) (p : cert) (chain : list N) (depth : nat) : point_res :=
  let pkey := w_pkey w (c_subject p) in
  match w_stored w (c_subject p) with
  | None => PRejected                                            (* "no valid manifest found" *)
  | Some s =>
      if is_ok (validate_stored_manifest cf p pkey (s_version s)) then
        PAccepted (all_items cf p pkey (s_version s) (s_entries s))
                  (all_children cf p pkey (s_version s) chain depth (s_entries s)) None
      else PRejected
  end.

(* PubPoint::process + process_collected *)
Definition process_point (cf : cfg) (perm : N -> list entry -> list entry) (w : world)
                         (p : cert) (chain : list N) (depth : nat) : point_res :=
  let id := c_subject p in
  let pkey := w_pkey w id in
  match w_collected w id with
  | None => process_stored cf w p chain depth
  | Some v =>
      if negb (m_present v) then process_stored cf w p chain depth          (* no manifest collected *)
      else if same v (w_stored w id) then process_stored cf w p chain depth
      else if negb (is_ok (validate_collected_manifest cf p pkey v)) then process_stored cf w p chain depth
      else if negb (is_newer v (w_stored w id)) then process_stored cf w p chain depth
      else
        match walk cf p pkey v chain depth (perm id (listed v)) [] [] with
        | WAbort => process_stored cf w p chain depth          (* restart(), then the stored point *)
        | WDone items children =>
            PAccepted items children (Some {| s_version := v; s_entries := perm id (listed v) |})
        end
  end.

(* ------------------------------------------------------------------------------------------ *)
(* The recursion over the graph                                                               *)

Record out := {
  o_items : list item;                       (* payload of committed points *)
  o_rejected : list (bool * N * N);          (* address ranges of cancelled points *)
  o_updates : list (N * stored) }.           (* store updates *)

Definition out_empty : out := {| o_items := []; o_rejected := []; o_updates := [] |}.
Definition out_app (a b : out) : out :=
  {| o_items := o_items a ++ o_items b; o_rejected := o_rejected a ++ o_rejected b;
     o_updates := o_updates a ++ o_updates b |}.

Fixpoint res_concat (l : list (res out)) : res out :=
  match l with
  | [] => Ok out_empty
  | r :: t => match r, res_concat t with Ok a, Ok b => Ok (out_app a b) | _, _ => OutOfFuel end
  end.

(* RejectedResourcesBuilder::extend_from_cert drops 0/0 blocks *)
Definition slash_zero (r : bool * N * N) : bool :=
  let '(v4, lo, hi) := r in (lo =? 0) && (hi =? (if v4 then 4294967295 else 340282366920938463463374607431768211455)).
Definition reject_ranges (p : cert) : list (bool * N * N) := filter (fun r => negb (slash_zero r)) (c_ranges p).

(* process_ca_task: the point, then its child tasks *)
Fixpoint visit (fuel : nat) (cf : cfg) (perm : N -> list entry -> list entry) (w : world)
               (p : cert) (chain : list N) (depth : nat) : res out :=
  match fuel with
  | O => OutOfFuel
  | S f =>
      match process_point cf perm w p chain depth with
      | PRejected => Ok {| o_items := []; o_rejected := reject_ranges p; o_updates := [] |}
      | PAccepted items children upd =>
          match res_concat (map (fun c => visit f cf perm w c (c_key c :: chain) (S depth)) children) with
          | Ok sub =>
              Ok (out_app {| o_items := items; o_rejected := [];
                             o_updates := match upd with Some s => [(c_subject p, s)] | None => [] end |} sub)
          | OutOfFuel => OutOfFuel
          end
      end
  end.

(* ------------------------------------------------------------------------------------------ *)
(* Trust anchors                                                                              *)

(* Run::load_ta: the fetched certificate if it decodes, else the stored copy *)
Definition load_ta (w : world) (u : ta_uri) : option cert :=
  match u_fetched u with
  | Some c => if c_decodes c then Some c else w_ta_stored w (u_id u)
  | None => w_ta_stored w (u_id u)
  end.

(* process_tal_task: the first URI whose certificate has the TAL's key and validates as a TA *)
Fixpoint select_ta (w : world) (tkey : N) (us : list ta_uri) : option cert :=
  match us with
  | [] => None
  | u :: t =>
      match load_ta w u with
      | Some c => if (c_key c =? tkey) && c_sig_ok c && c_valid_now c then Some c else select_ta w tkey t
      | None => select_ta w tkey t
      end
  end.

Definition visit_tal (fuel : nat) (cf : cfg) perm (w : world) (t : tal) : res out :=
  match select_ta w (t_key t) (t_uris t) with
  | Some c => visit fuel cf perm w c [c_key c] 0
  | None => Ok out_empty
  end.

(* ------------------------------------------------------------------------------------------ *)
(* The snapshot                                                                               *)

(* RejectedResources::keep_prefix *)
Definition vrp_range (v4 : bool) (addr len : N) : N * N :=
  let width := if v4 then 32 else 128 in
  (addr, addr + (2 ^ (width - len) - 1)).
Definition keep_unsafe (cf : cfg) (rej : list (bool * N * N)) (it : item) : bool :=
  match it with
  | IVrp v4 addr len _ _ =>
      if unsafe_reject cf then
        let '(lo, hi) := vrp_range v4 addr len in
        negb (existsb (fun r => let '(r4, a, b) := r in Bool.eqb r4 v4 && (a <=? hi) && (lo <=? b)) rej)
      else true
  | _ => true
  end.

Record report := { r_payload : list item; r_rejected : list (bool * N * N); r_updates : list (N * stored) }.

Definition run (fuel : nat) (cf : cfg) perm (w : world) (tals : list tal) : res report :=
  match res_concat (map (visit_tal fuel cf perm w) tals) with
  | Ok o => Ok {| r_payload := filter (keep_unsafe cf (o_rejected o)) (o_items o); r_rejected := o_rejected o;
                 r_updates := o_updates o |}
  | OutOfFuel => OutOfFuel
  end.

(* enough fuel for every graph: the depth check bounds the recursion *)
Definition fuel_for (cf : cfg) : nat := S (S (max_depth cf)).

(* ------------------------------------------------------------------------------------------ *)
(* Histories: runs thread the store                                                           *)

Definition store := list (N * stored).
Fixpoint store_get (st : store) (id : N) : option stored :=
  match st with [] => None | (k, s) :: t => if k =? id then Some s else store_get t id end.
(* later updates win *)
Definition store_apply (st : store) (ups : list (N * stored)) : store := rev ups ++ st.
