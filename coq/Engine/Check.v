(* Engine/Check.v -- the correspondence case of the engine family (C01, C02 share it): a history of
   runs (what the collector holds, what the TAL URIs serve), the configuration, and what the real
   engine produced (payload set and stored manifests after every run).  Definitions only. *)
From Coq Require Import List NArith ZArith Bool.
From RV Require Export Engine.Oracle.
Import ListNotations.
Local Open Scope N_scope.

Record run_obs := {
  ob_ok : bool;                       (* ValidationReport::process returned Ok *)
  ob_payload : list item;             (* the snapshot, as a set *)
  ob_store : list (N * N) }.          (* (point, v_id of the stored manifest) for every stored manifest *)

Record case := {
  k_cfg : cfg;
  k_pkeys : list (N * N);             (* signing key of every publication point *)
  k_runs : list run_in;
  k_obs : list run_obs }.

(* everything the model and the oracles say about one run *)
Record step_res := {
  sr_model : list item;               (* the model's payload *)
  sr_upper : list item;               (* C01 oracle: everything carried by usable versions *)
  sr_lower : list item;               (* C02 oracle: what the chosen versions carry, after the unsafe filter *)
  sr_store : store;
  sr_tast : list (N * cert) }.

Definition step (cf : cfg) (pkeys : list (N * N)) (ri : run_in) (st : store) (tast : list (N * cert)) : option step_res :=
  let w := mk_world pkeys ri st tast in
  let fuel := fuel_for cf in
  match run fuel cf perm_id w (ri_tals ri),
        run_gen (upper_point cf w) fuel w (ri_tals ri), run_gen (chosen_point cf w) fuel w (ri_tals ri) with
  | Ok rlo, Ok up, Ok ch =>
      Some {| sr_model := r_payload rlo;
              sr_upper := o_items up;
              sr_lower := filter (keep_unsafe cf (o_rejected ch)) (o_items ch);
              sr_store := store_apply st (r_updates rlo);
              sr_tast := rev (flat_map (fun t => ta_updates w (t_key t) (t_uris t)) (ri_tals ri)) ++ tast |}
  | _, _, _ => None
  end.

Definition opt_eqb (a b : option N) : bool :=
  match a, b with Some x, Some y => x =? y | None, None => true | _, _ => false end.

Definition store_matches (pkeys : list (N * N)) (st : store) (obs : list (N * N)) : bool :=
  forallb (fun pk => opt_eqb (option_map (fun s => v_id (s_version s)) (store_get st (fst pk))) (assoc_get obs (fst pk))) pkeys.

(* model = implementation for one run: the same payload set, the same stored manifests *)
Definition corresponds (pkeys : list (N * N)) (sr : step_res) (o : run_obs) : bool :=
  ob_ok o && inclb (sr_model sr) (ob_payload o) && inclb (ob_payload o) (sr_model sr)
  && store_matches pkeys (sr_store sr) (ob_store o).

(* precondition of the set view of ASPAs: one ASPA object per customer in a version *)
Fixpoint customers (l : list item) : list N :=
  match l with [] => [] | IAspa c _ :: t => c :: customers t | _ :: t => customers t end.
Fixpoint nodupb (l : list N) : bool :=
  match l with [] => true | x :: t => negb (existsb (N.eqb x) t) && nodupb t end.
Definition aspa_items (e : entry) : list item :=
  match e_obj e with OSigned KAspa _ _ _ items => items | _ => [] end.
Definition run_wf (ri : run_in) : bool :=
  nodupb (customers (flat_map (fun kv => flat_map aspa_items (entries (snd kv))) (ri_collected ri))).

(* [oracle] decides the property on one run; codes as in FRAMEWORK.md *)
Fixpoint check_runs (oracle : step_res -> run_obs -> bool) (cf : cfg) (pkeys : list (N * N))
                    (runs : list run_in) (obs : list run_obs) (st : store) (tast : list (N * cert)) : N :=
  match runs, obs with
  | [], [] => 0
  | ri :: runs', o :: obs' =>
      if negb (run_wf ri) then 9 else
      match step cf pkeys ri st tast with
      | None => 9
      | Some sr =>
          if negb (oracle sr o) then 2
          else if negb (corresponds pkeys sr o) then 1
          else check_runs oracle cf pkeys runs' obs' (sr_store sr) (sr_tast sr)
      end
  | _, _ => 9
  end.

Definition check_with (oracle : step_res -> run_obs -> bool) (c : case) : N :=
  check_runs oracle (k_cfg c) (k_pkeys c) (k_runs c) (k_obs c) [] [].
