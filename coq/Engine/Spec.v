(* Engine/Spec.v -- declarative reading of "validated along an unbroken chain" over the inputs of the
   engine model.  Definitions only. *)
From Coq Require Import List NArith ZArith Bool.
From RV Require Export Engine.Model.
Import ListNotations.
Local Open Scope N_scope.

Definition pkey_of (w : world) (p : cert) : N := w_pkey w (c_subject p).

(* A manifest version the engine may take objects of the point certified by [p] from, and the
   entries it looks at: the fetched version if the manifest and its CRL pass every check (entries:
   the listed files that are present with the listed hash), or the stored copy if that passes the
   checks for stored manifests (entries: the stored objects). *)
Inductive Usable (cf : cfg) (w : world) (p : cert) : version -> list entry -> Prop :=
| U_collected : forall v,
    w_collected w (c_subject p) = Some v -> m_present v = true ->
    is_ok (validate_collected_manifest cf p (pkey_of w p) v) = true ->
    Usable cf w p v (filter (fun e => e_present e && e_hash_ok e) (listed v))
| U_stored : forall s,
    w_stored w (c_subject p) = Some s ->
    is_ok (validate_stored_manifest cf p (pkey_of w p) (s_version s)) = true ->
    Usable cf w p (s_version s) (s_entries s).

(* [Justified p chain depth]: the CA certificate [p] is reached from a configured TAL by an unbroken
   chain: a trust anchor certificate selected for a TAL (key = TAL key, valid), or a CA certificate
   that is a good child (child_ok: decodes, signed by the issuer's key, resources within, valid now,
   right CRL, not revoked, key not yet on the chain, depth within the limit) listed with matching
   hash on a usable manifest version of a justified issuer. *)
Inductive Justified (cf : cfg) (w : world) (tals : list tal) : cert -> list N -> nat -> Prop :=
| J_ta : forall t c, In t tals -> select_ta w (t_key t) (t_uris t) = Some c -> Justified cf w tals c [c_key c] 0
| J_ca : forall p chain depth v es e c,
    Justified cf w tals p chain depth -> Usable cf w p v es -> In e es ->
    e_ext e = XCer -> e_obj e = OCa c ->
    child_ok cf p (pkey_of w p) v chain depth c = true ->
    Justified cf w tals c (c_key c :: chain) (S depth).

(* the item is carried by an object that validates under a justified CA *)
Definition Carried (cf : cfg) (w : world) (tals : list tal) (it : item) : Prop :=
  exists p chain depth v es e,
    Justified cf w tals p chain depth /\ Usable cf w p v es /\ In e es /\
    In it (entry_items cf p (pkey_of w p) v e).

(* ------------------------------------------------------------------------------------------ *)
(* C02: the version the engine is documented to use *)

Definition complete (v : version) : bool := forallb (fun e => e_present e && e_hash_ok e) (listed v).

(* the fetched version replaces the stored one: present, not byte-identical to the stored manifest,
   valid, strictly newer (number and thisUpdate), every listed file present with the listed hash *)
Definition ChosenCollected (cf : cfg) (w : world) (p : cert) (v : version) : Prop :=
  w_collected w (c_subject p) = Some v /\ m_present v = true /\
  same v (w_stored w (c_subject p)) = false /\
  is_ok (validate_collected_manifest cf p (pkey_of w p) v) = true /\
  is_newer v (w_stored w (c_subject p)) = true /\ complete v = true.

Inductive Chosen (cf : cfg) (w : world) (p : cert) : version -> list entry -> Prop :=
| Ch_collected : forall v, ChosenCollected cf w p v -> Chosen cf w p v (listed v)
| Ch_stored : forall s,
    w_stored w (c_subject p) = Some s ->
    is_ok (validate_stored_manifest cf p (pkey_of w p) (s_version s)) = true ->
    (forall v, ~ ChosenCollected cf w p v) ->
    Chosen cf w p (s_version s) (s_entries s).

(* the chain is published: every CA on it is a good child in the version chosen for its issuer *)
Inductive Published (cf : cfg) (w : world) (tals : list tal) : cert -> list N -> nat -> Prop :=
| P_ta : forall t c, In t tals -> select_ta w (t_key t) (t_uris t) = Some c -> Published cf w tals c [c_key c] 0
| P_ca : forall p chain depth v es e c,
    Published cf w tals p chain depth -> Chosen cf w p v es -> In e es ->
    e_ext e = XCer -> e_obj e = OCa c ->
    child_ok cf p (pkey_of w p) v chain depth c = true ->
    Published cf w tals c (c_key c :: chain) (S depth).

(* what a good object is, spelled out (for reading entry_items) *)
Definition cert_good (p : cert) (pkey : N) (v : version) (c : cert) : Prop :=
  c_decodes c = true /\ c_key p = pkey /\ c_sig_ok c = true /\ c_res_within c = true /\
  c_valid_now c = true /\ c_crl_uri_ok c = true /\ ~ In (c_serial c) (crl_revoked v).

(* store well-formedness: what the engine itself writes *)
Definition stored_wf (s : stored) : Prop :=
  forall e, In e (s_entries s) ->
    In e (entries (s_version s)) /\ e_listed e = true /\ e_present e = true /\ e_hash_ok e = true.
