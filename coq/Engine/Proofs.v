(* Engine/Proofs.v -- soundness (C01) and completeness (C02) of the engine model w.r.t. Engine/Spec.v,
   for every graph, every store, every configuration, every walk order; fuel sufficiency. *)
From Coq Require Import List NArith ZArith Bool Lia.
From RV Require Import Engine.Model Engine.Spec.
Import ListNotations.
Local Open Scope N_scope.

(* ------------------------------------------------------------------------------------------ *)
(* small facts *)

Lemma existsb_Neqb_In : forall x l, existsb (N.eqb x) l = true <-> In x l.
Proof.
  intros x l. rewrite existsb_exists. split.
  - intros [y [Hy He]]. apply N.eqb_eq in He. subst. exact Hy.
  - intro H. exists x. split; [exact H | apply N.eqb_refl].
Qed.

Lemma res_concat_items : forall l o it,
  res_concat l = Ok o -> In it (o_items o) -> exists o', In (Ok o') l /\ In it (o_items o').
Proof.
  induction l as [|r t IH]; intros o it H Hin.
  - cbn in H. inversion H. subst. cbn in Hin. contradiction.
  - cbn in H. destruct r as [a|]; [|discriminate]. destruct (res_concat t) as [b|] eqn:Eb; [|discriminate].
    inversion H. subst. cbn in Hin. apply in_app_or in Hin. destruct Hin as [Hi|Hi].
    + exists a. split; [left; reflexivity | exact Hi].
    + destruct (IH b it eq_refl Hi) as [o' [Ho' Hit]]. exists o'. split; [right; exact Ho' | exact Hit].
Qed.

Lemma res_concat_incl : forall l o o', res_concat l = Ok o -> In (Ok o') l -> incl (o_items o') (o_items o).
Proof.
  induction l as [|r t IH]; intros o o' H Hin.
  - contradiction.
  - cbn in H. destruct r as [a|]; [|discriminate]. destruct (res_concat t) as [b|] eqn:Eb; [|discriminate].
    inversion H. subst. cbn. destruct Hin as [He|Hi].
    + inversion He. subst. apply incl_appl. apply incl_refl.
    + apply incl_appr. eapply IH; [reflexivity | exact Hi].
Qed.

Lemma res_concat_all_ok : forall l o r, res_concat l = Ok o -> In r l -> exists o', r = Ok o'.
Proof.
  induction l as [|x t IH]; intros o r H Hin.
  - contradiction.
  - cbn in H. destruct x as [a|]; [|discriminate]. destruct (res_concat t) as [b|] eqn:Eb; [|discriminate].
    destruct Hin as [He|Hi]; [subst; eexists; reflexivity | eapply IH; [reflexivity | exact Hi]].
Qed.

Lemma res_concat_ok : forall l, (forall r, In r l -> exists o, r = Ok o) -> exists o, res_concat l = Ok o.
Proof.
  induction l as [|x t IH]; intro H.
  - eexists. reflexivity.
  - destruct (H x (or_introl eq_refl)) as [a Ha]. subst.
    destruct IH as [b Hb]. { intros r Hr. apply H. right. exact Hr. }
    cbn. rewrite Hb. eexists. reflexivity.
Qed.

(* ------------------------------------------------------------------------------------------ *)
(* reading the per-object functions *)

Lemma cert_valid_good : forall p pkey v c,
  cert_valid p pkey c = true -> check_crl v c = true -> cert_good p pkey v c.
Proof.
  intros p pkey v c Hv Hc. unfold cert_valid in Hv. unfold check_crl, revoked in Hc.
  repeat (apply andb_true_iff in Hv; destruct Hv as [Hv ?]).
  apply andb_true_iff in Hc. destruct Hc as [Hu Hr].
  apply negb_true_iff in Hr.
  repeat split; try assumption.
  - apply N.eqb_eq. assumption.
  - intro Hin. apply existsb_Neqb_In in Hin. rewrite Hin in Hr. discriminate.
Qed.

(* an item only comes from a router certificate, ROA or ASPA all of whose verdict bits are good,
   whose EE / router certificate is not revoked by the version's CRL, and survives the
   processor's documented filters *)
Lemma entry_items_good : forall cf p pkey v e it,
  In it (entry_items cf p pkey v e) ->
  item_kept cf it = true /\
  ((exists c keys, e_ext e = XCer /\ e_obj e = ORouter c keys /\ cert_good p pkey v c /\ In it keys) \/
   (exists k ee items, (e_ext e = XRoa /\ k = KRoa \/ e_ext e = XAsa /\ k = KAspa) /\
        e_obj e = OSigned k true true ee items /\ cert_good p pkey v ee /\ In it items)).
Proof.
  intros cf p pkey v e it Hin. unfold entry_items in Hin.
  destruct (e_ext e) eqn:Ex; destruct (e_obj e) as [c|c keys|k dec csig ee items|] eqn:Eo; try contradiction.
  - destruct (cert_valid p pkey c && check_crl v c) eqn:Hc; [|contradiction].
    apply filter_In in Hin. destruct Hin as [Hi Hk]. apply andb_true_iff in Hc. destruct Hc as [H1 H2].
    split; [exact Hk|]. left. exists c, keys. split; [reflexivity|]. split; [reflexivity|]. split; [apply cert_valid_good; assumption | exact Hi].
  - destruct k; try contradiction.
    destruct (dec && csig && cert_valid p pkey ee && check_crl v ee) eqn:Hc; [|contradiction].
    apply filter_In in Hin. destruct Hin as [Hi Hk].
    repeat (apply andb_true_iff in Hc; destruct Hc as [Hc ?]). subst.
    split; [exact Hk|]. right. exists KRoa, ee, items.
    split; [left; split; reflexivity|]. split; [reflexivity|]. split; [apply cert_valid_good; assumption | exact Hi].
  - destruct k; try contradiction.
    destruct (dec && csig && cert_valid p pkey ee && check_crl v ee) eqn:Hc; [|contradiction].
    apply filter_In in Hin. destruct Hin as [Hi Hk].
    repeat (apply andb_true_iff in Hc; destruct Hc as [Hc ?]). subst.
    split; [exact Hk|]. right. exists KAspa, ee, items.
    split; [right; split; reflexivity|]. split; [reflexivity|]. split; [apply cert_valid_good; assumption | exact Hi].
Qed.

Lemma entry_children_spec : forall cf p pkey v chain depth e c,
  In c (entry_children cf p pkey v chain depth e) <->
  e_ext e = XCer /\ e_obj e = OCa c /\ child_ok cf p pkey v chain depth c = true.
Proof.
  intros. unfold entry_children.
  destruct (e_ext e) eqn:Ex; destruct (e_obj e) as [c0|c0 keys|k dec csig ee items|] eqn:Eo;
    try (split; [intro H; contradiction | intros [H1 [H2 H3]]; congruence]).
  destruct (child_ok cf p pkey v chain depth c0) eqn:Hc.
  - split.
    + intros [He|[]]. subst. repeat split; assumption.
    + intros [_ [H2 _]]. inversion H2. left. reflexivity.
  - split; [intro H; contradiction|]. intros [_ [H2 H3]]. inversion H2. subst. congruence.
Qed.

Lemma child_ok_good : forall cf p pkey v chain depth c,
  child_ok cf p pkey v chain depth c = true ->
  cert_good p pkey v c /\ ~ In (c_key c) chain /\ (S depth <= max_depth cf)%nat.
Proof.
  intros cf p pkey v chain depth c H. unfold child_ok in H.
  repeat (apply andb_true_iff in H; destruct H as [H ?]).
  split; [|split].
  - apply cert_valid_good; assumption.
  - intro Hin. apply existsb_Neqb_In in Hin. match goal with X : negb _ = true |- _ => apply negb_true_iff in X; congruence end.
  - apply Nat.leb_le. assumption.
Qed.

(* ------------------------------------------------------------------------------------------ *)
(* the walk over the fetched manifest *)

Lemma walk_done : forall cf p pkey v chain depth es items children i c,
  walk cf p pkey v chain depth es items children = WDone i c ->
  i = items ++ all_items cf p pkey v es /\ c = children ++ all_children cf p pkey v chain depth es /\
  forallb (fun e => e_present e && e_hash_ok e) es = true.
Proof.
  induction es as [|e t IH]; intros items children i c H; cbn in H.
  - inversion H. subst. cbn. rewrite !app_nil_r. auto.
  - destruct (negb (e_present e) || negb (e_hash_ok e)) eqn:Hb; [discriminate|].
    apply orb_false_iff in Hb. destruct Hb as [H1 H2]. apply negb_false_iff in H1, H2.
    destruct (IH _ _ _ _ H) as [Hi [Hc Hf]]. subst. cbn. rewrite H1, H2, Hf. rewrite <- !app_assoc. auto.
Qed.

Lemma walk_complete : forall cf p pkey v chain depth es items children,
  forallb (fun e => e_present e && e_hash_ok e) es = true ->
  walk cf p pkey v chain depth es items children =
    WDone (items ++ all_items cf p pkey v es) (children ++ all_children cf p pkey v chain depth es).
Proof.
  induction es as [|e t IH]; intros items children H; cbn.
  - rewrite !app_nil_r. reflexivity.
  - cbn in H. apply andb_true_iff in H. destruct H as [He Ht]. apply andb_true_iff in He. destruct He as [H1 H2].
    rewrite H1, H2. cbn. rewrite IH by exact Ht. rewrite <- !app_assoc. reflexivity.
Qed.

(* what a completed walk collected comes from present files with the listed hash *)
Lemma walk_items_sound : forall cf p pkey v chain depth es items children l c,
  walk cf p pkey v chain depth es items children = WDone l c ->
  forall it, In it l -> In it items \/
     exists e, In e es /\ e_present e = true /\ e_hash_ok e = true /\ In it (entry_items cf p pkey v e).
Proof.
  induction es as [|e t IH]; intros items children l c H it Hin; cbn in H.
  - inversion H. subst. left. exact Hin.
  - destruct (negb (e_present e) || negb (e_hash_ok e)) eqn:Hb; [discriminate|].
    apply orb_false_iff in Hb. destruct Hb as [H1 H2]. apply negb_false_iff in H1, H2.
    destruct (IH _ _ _ _ H it Hin) as [Hi|[e' [He' Hr]]].
    + apply in_app_or in Hi. destruct Hi as [Hi|Hi]; [left; exact Hi|].
      right. exists e. repeat split; [left; reflexivity | assumption | assumption | exact Hi].
    + right. exists e'. split; [right; exact He' | exact Hr].
Qed.

Lemma all_items_In : forall cf p pkey v es it,
  In it (all_items cf p pkey v es) <-> exists e, In e es /\ In it (entry_items cf p pkey v e).
Proof. intros. unfold all_items. apply in_flat_map. Qed.

Lemma all_children_In : forall cf p pkey v chain depth es c,
  In c (all_children cf p pkey v chain depth es) <-> exists e, In e es /\ In c (entry_children cf p pkey v chain depth e).
Proof. intros. unfold all_children. apply in_flat_map. Qed.

(* ------------------------------------------------------------------------------------------ *)
Section WithPerm.

Variable perm : N -> list entry -> list entry.
(* the walk order is a rearrangement of the listed entries *)
Hypothesis perm_in : forall id l x, In x (perm id l) <-> In x l.

Lemma in_usable_filter : forall (l : list entry) e,
  In e l -> e_present e = true -> e_hash_ok e = true -> In e (filter (fun e => e_present e && e_hash_ok e) l).
Proof. intros l e H H1 H2. apply filter_In. split; [exact H | rewrite H1, H2; reflexivity]. Qed.

(* --- soundness of one point --- *)

Lemma process_stored_sound : forall cf w p chain depth items children upd,
  process_stored cf w p chain depth = PAccepted items children upd ->
  upd = None /\
  (forall it, In it items ->
     exists v es e, Usable cf w p v es /\ In e es /\ In it (entry_items cf p (pkey_of w p) v e)) /\
  (forall c, In c children ->
     exists v es e, Usable cf w p v es /\ In e es /\ In c (entry_children cf p (pkey_of w p) v chain depth e)).
Proof.
  intros cf w p chain depth items children upd H. unfold process_stored in H.
  destruct (w_stored w (c_subject p)) as [s|] eqn:Es; [|discriminate].
  destruct (is_ok (validate_stored_manifest cf p (w_pkey w (c_subject p)) (s_version s))) eqn:Hv; [|discriminate].
  inversion H. subst. split; [reflexivity|]. split.
  - intros it Hs. apply all_items_In in Hs. destruct Hs as [e [He Hi]].
    exists (s_version s), (s_entries s), e. split; [apply U_stored; assumption | split; assumption].
  - intros c Hin. apply all_children_In in Hin. destruct Hin as [e [He Hi]].
    exists (s_version s), (s_entries s), e. split; [apply U_stored; assumption | split; assumption].
Qed.

Lemma process_point_sound : forall cf w p chain depth items children upd,
  process_point cf perm w p chain depth = PAccepted items children upd ->
  (forall it, In it items ->
     exists v es e, Usable cf w p v es /\ In e es /\ In it (entry_items cf p (pkey_of w p) v e)) /\
  (forall c, In c children ->
     exists v es e, Usable cf w p v es /\ In e es /\ In c (entry_children cf p (pkey_of w p) v chain depth e)).
Proof.
  intros cf w p chain depth items children upd H. unfold process_point in H.
  assert (Hnil : forall r, process_stored cf w p chain depth = PAccepted items children r ->
      (forall it, In it items -> exists v es e, Usable cf w p v es /\ In e es /\ In it (entry_items cf p (pkey_of w p) v e)) /\
      (forall c, In c children -> exists v es e, Usable cf w p v es /\ In e es /\ In c (entry_children cf p (pkey_of w p) v chain depth e))).
  { intros r Hr. destruct (process_stored_sound _ _ _ _ _ _ _ _ Hr) as [_ Hic]. exact Hic. }
  destruct (w_collected w (c_subject p)) as [v|] eqn:Ec; [|eapply Hnil; exact H].
  destruct (negb (m_present v)) eqn:Hp; [eapply Hnil; exact H|]. apply negb_false_iff in Hp.
  destruct (same v (w_stored w (c_subject p))) eqn:Hs; [eapply Hnil; exact H|].
  destruct (negb (is_ok (validate_collected_manifest cf p (w_pkey w (c_subject p)) v))) eqn:Hv; [eapply Hnil; exact H|].
  apply negb_false_iff in Hv.
  destruct (negb (is_newer v (w_stored w (c_subject p)))) eqn:Hn; [eapply Hnil; exact H|].
  assert (HU : Usable cf w p v (filter (fun e => e_present e && e_hash_ok e) (listed v))) by (apply U_collected; assumption).
  destruct (walk cf p (w_pkey w (c_subject p)) v chain depth (perm (c_subject p) (listed v)) [] []) as [i c|] eqn:Hw;
    [|eapply Hnil; exact H].
  inversion H. subst. split.
  - intros it Hin.
    destruct (walk_items_sound _ _ _ _ _ _ _ _ _ _ _ Hw it Hin) as [[]|[e [He [H1 [H2 Hi]]]]].
    exists v, (filter (fun e => e_present e && e_hash_ok e) (listed v)), e.
    split; [exact HU|]. split; [|exact Hi]. apply in_usable_filter; try assumption. apply perm_in in He. exact He.
  - intros c Hin. destruct (walk_done _ _ _ _ _ _ _ _ _ _ _ Hw) as [_ [Hc Hf]]. subst. cbn in Hin.
    apply all_children_In in Hin. destruct Hin as [e [He Hi]].
    rewrite forallb_forall in Hf. specialize (Hf e He). apply andb_true_iff in Hf. destruct Hf as [H1 H2].
    exists v, (filter (fun e => e_present e && e_hash_ok e) (listed v)), e.
    split; [exact HU|]. split; [|exact Hi]. apply in_usable_filter; try assumption. apply perm_in in He. exact He.
Qed.

(* --- soundness of the recursion --- *)

Lemma visit_sound : forall cf w tals fuel p chain depth o,
  Justified cf w tals p chain depth ->
  visit fuel cf perm w p chain depth = Ok o ->
  forall it, In it (o_items o) -> Carried cf w tals it.
Proof.
  intros cf w tals. induction fuel as [|f IH]; intros p chain depth o HJ H it Hin; [discriminate|].
  cbn in H. destruct (process_point cf perm w p chain depth) as [items children upd|] eqn:Hp.
  - destruct (res_concat (map (fun c => visit f cf perm w c (c_key c :: chain) (S depth)) children)) as [sub|] eqn:Hs; [|discriminate].
    inversion H. subst. cbn in Hin. destruct (process_point_sound _ _ _ _ _ _ _ _ Hp) as [Hi Hc].
    apply in_app_or in Hin. destruct Hin as [Hown|Hsub].
    + destruct (Hi it Hown) as [v [es [e [HU [He Hit]]]]]. exists p, chain, depth, v, es, e. auto.
    + destruct (res_concat_items _ _ _ Hs Hsub) as [o' [Ho' Hit]].
      apply in_map_iff in Ho'. destruct Ho' as [c [Hvc Hcin]].
      destruct (Hc c Hcin) as [v [es [e [HU [He Hch]]]]].
      apply entry_children_spec in Hch. destruct Hch as [Hx [Ho Hok]].
      eapply IH; [|exact Hvc|exact Hit]. eapply J_ca; eassumption.
  - inversion H. subst. cbn in Hin. contradiction.
Qed.

Theorem run_sound : forall cf w tals fuel r,
  run fuel cf perm w tals = Ok r -> forall it, In it (r_payload r) -> Carried cf w tals it.
Proof.
  intros cf w tals fuel r H it Hin. unfold run in H.
  destruct (res_concat (map (visit_tal fuel cf perm w) tals)) as [o|] eqn:Ho; [|discriminate].
  inversion H. subst. cbn in Hin. apply filter_In in Hin. destruct Hin as [Hin _].
  destruct (res_concat_items _ _ _ Ho Hin) as [o' [Ho' Hit]].
  apply in_map_iff in Ho'. destruct Ho' as [t [Hvt Ht]]. unfold visit_tal in Hvt.
  destruct (select_ta w (t_key t) (t_uris t)) as [c|] eqn:Hsel.
  - eapply visit_sound; [|exact Hvt|exact Hit]. eapply J_ta; eassumption.
  - inversion Hvt. subst. contradiction.
Qed.

(* --- the trust anchor binding --- *)

Lemma select_ta_sound : forall w tkey us c,
  select_ta w tkey us = Some c ->
  c_key c = tkey /\ c_sig_ok c = true /\ c_valid_now c = true /\ exists u, In u us /\ load_ta w u = Some c.
Proof.
  induction us as [|u t IH]; intros c H; [discriminate|]. cbn in H.
  destruct (load_ta w u) as [c'|] eqn:Hl.
  - destruct ((c_key c' =? tkey) && c_sig_ok c' && c_valid_now c') eqn:Hc.
    + inversion H. subst. repeat (apply andb_true_iff in Hc; destruct Hc as [Hc ?]).
      apply N.eqb_eq in Hc. repeat split; try assumption. exists u. split; [left; reflexivity | exact Hl].
    + destruct (IH c H) as [H1 [H2 [H3 [u' [Hu Hl']]]]]. repeat split; try assumption. exists u'. split; [right; exact Hu | exact Hl'].
  - destruct (IH c H) as [H1 [H2 [H3 [u' [Hu Hl']]]]]. repeat split; try assumption. exists u'. split; [right; exact Hu | exact Hl'].
Qed.

(* --- completeness of one point --- *)

Lemma forallb_perm : forall id (l : list entry) f, forallb f l = true -> forallb f (perm id l) = true.
Proof. intros id l f H. rewrite forallb_forall in *. intros x Hx. apply H. apply perm_in in Hx. exact Hx. Qed.
Lemma forallb_perm_inv : forall id (l : list entry) f, forallb f (perm id l) = true -> forallb f l = true.
Proof. intros id l f H. rewrite forallb_forall in *. intros x Hx. apply H. apply perm_in. exact Hx. Qed.

Lemma process_point_chosen : forall cf w p chain depth v es,
  Chosen cf w p v es ->
  exists items children upd,
    process_point cf perm w p chain depth = PAccepted items children upd /\
    (forall e it, In e es -> In it (entry_items cf p (pkey_of w p) v e) -> In it items) /\
    (forall e c, In e es -> In c (entry_children cf p (pkey_of w p) v chain depth e) -> In c children).
Proof.
  intros cf w p chain depth v es HC. destruct HC as [v [Hc [Hp [Hs [Hv [Hn Hcm]]]]]|s Hst Hv Hno].
  - unfold process_point. rewrite Hc, Hp, Hs. cbn [negb]. unfold pkey_of in Hv. rewrite Hv, Hn. cbn [negb].
    rewrite walk_complete by (apply forallb_perm; exact Hcm). cbn [app].
    eexists _, _, _. split; [reflexivity|]. split.
    + intros e it He Hi. apply all_items_In. exists e. split; [apply perm_in; exact He | exact Hi].
    + intros e c He Hi. apply all_children_In. exists e. split; [apply perm_in; exact He | exact Hi].
  - assert (Hfall : exists items children upd,
        process_stored cf w p chain depth = PAccepted items children upd /\
        (forall e it, In e (s_entries s) -> In it (entry_items cf p (pkey_of w p) (s_version s) e) -> In it items) /\
        (forall e c, In e (s_entries s) -> In c (entry_children cf p (pkey_of w p) (s_version s) chain depth e) -> In c children)).
    { unfold process_stored. rewrite Hst. unfold pkey_of in Hv. rewrite Hv.
      eexists _, _, _. split; [reflexivity|]. split.
      - intros e it He Hi. apply all_items_In. exists e. split; assumption.
      - intros e c He Hi. apply all_children_In. exists e. split; assumption. }
    unfold process_point.
    destruct (w_collected w (c_subject p)) as [v|] eqn:Ec; [|apply Hfall].
    destruct (negb (m_present v)) eqn:Hp; [apply Hfall|]. apply negb_false_iff in Hp.
    destruct (same v (w_stored w (c_subject p))) eqn:Hs; [apply Hfall|].
    destruct (negb (is_ok (validate_collected_manifest cf p (w_pkey w (c_subject p)) v))) eqn:Hvc; [apply Hfall|].
    apply negb_false_iff in Hvc.
    destruct (negb (is_newer v (w_stored w (c_subject p)))) eqn:Hn; [apply Hfall|]. apply negb_false_iff in Hn.
    destruct (walk cf p (w_pkey w (c_subject p)) v chain depth (perm (c_subject p) (listed v)) [] []) as [i c|] eqn:Hw;
      [|apply Hfall].
    exfalso. apply (Hno v). destruct (walk_done _ _ _ _ _ _ _ _ _ _ _ Hw) as [_ [_ Hf]].
    unfold ChosenCollected, complete. repeat split; try assumption. eapply forallb_perm_inv. exact Hf.
Qed.

(* --- completeness of the recursion --- *)

Lemma visit_step : forall cf w fuel p chain depth o,
  visit fuel cf perm w p chain depth = Ok o ->
  exists f, fuel = S f /\
  match process_point cf perm w p chain depth with
  | PAccepted items children _ =>
      incl items (o_items o) /\
      forall c, In c children -> exists oc, visit f cf perm w c (c_key c :: chain) (S depth) = Ok oc /\ incl (o_items oc) (o_items o)
  | PRejected => True
  end.
Proof.
  intros cf w fuel p chain depth o H. destruct fuel as [|f]; [discriminate|]. exists f. split; [reflexivity|].
  cbn in H. destruct (process_point cf perm w p chain depth) as [items children upd|]; [|exact I].
  destruct (res_concat (map (fun c => visit f cf perm w c (c_key c :: chain) (S depth)) children)) as [sub|] eqn:Hs; [|discriminate].
  inversion H. subst. cbn. split; [apply incl_appl; apply incl_refl|].
  intros c Hc.
  assert (Hin : In (visit f cf perm w c (c_key c :: chain) (S depth)) (map (fun c => visit f cf perm w c (c_key c :: chain) (S depth)) children))
    by (apply in_map_iff; exists c; split; [reflexivity | exact Hc]).
  destruct (res_concat_all_ok _ _ _ Hs Hin) as [oc Hoc]. exists oc. split; [exact Hoc|].
  apply incl_appr. eapply res_concat_incl; [exact Hs|]. rewrite <- Hoc. exact Hin.
Qed.

Lemma published_visited : forall cf w tals fuel o,
  res_concat (map (visit_tal fuel cf perm w) tals) = Ok o ->
  forall p chain depth, Published cf w tals p chain depth ->
  exists f op, visit f cf perm w p chain depth = Ok op /\ incl (o_items op) (o_items o).
Proof.
  intros cf w tals fuel o Ho p chain depth HP. induction HP as [t c Ht Hsel | p chain depth v es e c HP IH HC He Hx Hobj Hok].
  - assert (Hin : In (visit_tal fuel cf perm w t) (map (visit_tal fuel cf perm w) tals))
      by (apply in_map_iff; exists t; split; [reflexivity | exact Ht]).
    destruct (res_concat_all_ok _ _ _ Ho Hin) as [ot Hot]. exists fuel, ot. split.
    + unfold visit_tal in Hot. rewrite Hsel in Hot. exact Hot.
    + eapply res_concat_incl; [exact Ho|]. rewrite <- Hot. exact Hin.
  - destruct IH as [f [op [Hv Hincl]]].
    destruct (visit_step _ _ _ _ _ _ _ Hv) as [f' [Hf Hm]].
    destruct (process_point_chosen cf w p chain depth v es HC) as [items [children [upd [Hpp [_ Hch]]]]].
    rewrite Hpp in Hm. destruct Hm as [_ Hkids].
    assert (Hc : In c children).
    { eapply Hch; [exact He|]. apply entry_children_spec. repeat split; assumption. }
    destruct (Hkids c Hc) as [oc [Hvc Hic]]. exists f', oc. split; [exact Hvc|].
    eapply incl_tran; eassumption.
Qed.

Theorem run_complete : forall cf w tals fuel r,
  run fuel cf perm w tals = Ok r ->
  forall p chain depth v es e it,
    Published cf w tals p chain depth -> Chosen cf w p v es -> In e es ->
    In it (entry_items cf p (pkey_of w p) v e) ->
    keep_unsafe cf (r_rejected r) it = true ->
    In it (r_payload r).
Proof.
  intros cf w tals fuel r H p chain depth v es e it HP HC He Hit Hk. unfold run in H.
  destruct (res_concat (map (visit_tal fuel cf perm w) tals)) as [o|] eqn:Ho; [|discriminate].
  inversion H. subst. cbn in *. apply filter_In. split; [|exact Hk].
  destruct (published_visited _ _ _ _ _ Ho _ _ _ HP) as [f [op [Hv Hincl]]].
  destruct (visit_step _ _ _ _ _ _ _ Hv) as [f' [Hf Hm]].
  destruct (process_point_chosen cf w p chain depth v es HC) as [items [children [upd [Hpp [Hi _]]]]].
  rewrite Hpp in Hm. destruct Hm as [Hown _].
  apply Hincl. apply Hown. eapply Hi; eassumption.
Qed.

(* --- fuel --- *)

Lemma process_point_children_depth : forall cf w p chain depth items children upd,
  process_point cf perm w p chain depth = PAccepted items children upd ->
  forall c, In c children -> (S depth <= max_depth cf)%nat.
Proof.
  intros cf w p chain depth items children upd H c Hc.
  destruct (process_point_sound _ _ _ _ _ _ _ _ H) as [_ Hch].
  destruct (Hch c Hc) as [v [es [e [_ [_ Hi]]]]].
  apply entry_children_spec in Hi. destruct Hi as [_ [_ Hok]]. apply child_ok_good in Hok. tauto.
Qed.

Lemma visit_fuel : forall cf w fuel p chain depth,
  (depth <= max_depth cf)%nat -> (max_depth cf - depth < fuel)%nat ->
  exists o, visit fuel cf perm w p chain depth = Ok o.
Proof.
  intros cf w. induction fuel as [|f IH]; intros p chain depth Hd Hf; [lia|].
  cbn. destruct (process_point cf perm w p chain depth) as [items children upd|] eqn:Hp; [|eexists; reflexivity].
  destruct (res_concat_ok (map (fun c => visit f cf perm w c (c_key c :: chain) (S depth)) children)) as [sub Hs].
  - intros r Hr. apply in_map_iff in Hr. destruct Hr as [c [Hc Hin]]. subst.
    pose proof (process_point_children_depth _ _ _ _ _ _ _ _ Hp c Hin) as Hle.
    apply IH; lia.
  - rewrite Hs. eexists. reflexivity.
Qed.

Theorem run_fuel : forall cf w tals, exists r, run (fuel_for cf) cf perm w tals = Ok r.
Proof.
  intros cf w tals. unfold run.
  destruct (res_concat_ok (map (visit_tal (fuel_for cf) cf perm w) tals)) as [o Ho].
  - intros r Hr. apply in_map_iff in Hr. destruct Hr as [t [Ht _]]. subst. unfold visit_tal.
    destruct (select_ta w (t_key t) (t_uris t)); [|eexists; reflexivity].
    apply visit_fuel; unfold fuel_for; lia.
  - rewrite Ho. eexists. reflexivity.
Qed.

(* more fuel does not change the result *)
Lemma visit_fuel_mono : forall cf w fuel p chain depth o,
  visit fuel cf perm w p chain depth = Ok o -> forall fuel', (fuel <= fuel')%nat -> visit fuel' cf perm w p chain depth = Ok o.
Proof.
  intros cf w. induction fuel as [|f IH]; intros p chain depth o H fuel' Hle; [discriminate|].
  destruct fuel' as [|f']; [lia|]. cbn in *.
  destruct (process_point cf perm w p chain depth) as [items children upd|]; [|exact H].
  assert (Hmap : forall l sub,
     res_concat (map (fun c => visit f cf perm w c (c_key c :: chain) (S depth)) l) = Ok sub ->
     res_concat (map (fun c => visit f' cf perm w c (c_key c :: chain) (S depth)) l) = Ok sub).
  { induction l as [|c t IHl]; intros sub Hs; [exact Hs|]. cbn in *.
    destruct (visit f cf perm w c (c_key c :: chain) (S depth)) as [a|] eqn:Ha; [|discriminate].
    rewrite (IH _ _ _ _ Ha f') by lia.
    destruct (res_concat (map (fun c => visit f cf perm w c (c_key c :: chain) (S depth)) t)) as [b|] eqn:Hb; [|discriminate].
    rewrite (IHl b eq_refl). exact Hs. }
  destruct (res_concat (map (fun c => visit f cf perm w c (c_key c :: chain) (S depth)) children)) as [sub|] eqn:Hs; [|discriminate].
  rewrite (Hmap _ _ Hs). exact H.
Qed.

(* --- the store stays well-formed --- *)

Lemma process_point_update_wf : forall cf w p chain depth items children s,
  process_point cf perm w p chain depth = PAccepted items children (Some s) -> stored_wf s.
Proof.
  intros cf w p chain depth items children s H. unfold process_point in H.
  assert (Hnil : process_stored cf w p chain depth = PAccepted items children (Some s) -> stored_wf s).
  { intros Hl. destruct (process_stored_sound _ _ _ _ _ _ _ _ Hl) as [Hn _]. discriminate. }
  destruct (w_collected w (c_subject p)) as [v|]; [|eapply Hnil; exact H].
  destruct (negb (m_present v)); [eapply Hnil; exact H|].
  destruct (same v (w_stored w (c_subject p))); [eapply Hnil; exact H|].
  destruct (negb (is_ok (validate_collected_manifest cf p (w_pkey w (c_subject p)) v))); [eapply Hnil; exact H|].
  destruct (negb (is_newer v (w_stored w (c_subject p)))); [eapply Hnil; exact H|].
  destruct (walk cf p (w_pkey w (c_subject p)) v chain depth (perm (c_subject p) (listed v)) [] []) as [i c|] eqn:Hw;
    [|eapply Hnil; exact H].
  inversion H. subst. intros e He. cbn in *.
  destruct (walk_done _ _ _ _ _ _ _ _ _ _ _ Hw) as [_ [_ Hf]].
  rewrite forallb_forall in Hf. specialize (Hf e He). apply andb_true_iff in Hf. destruct Hf as [H1 H2].
  apply perm_in in He. unfold listed in He. apply filter_In in He. destruct He as [Hin Hl]. auto.
Qed.

End WithPerm.
