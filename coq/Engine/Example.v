(* Engine/Example.v -- a small concrete world used by the non-vacuity examples of C01 and C02:
   TAL (key 0) -> point 0 (a ROA, a CA certificate for point 1) -> point 1 (an ASPA, a ROA whose EE
   certificate has a bad signature). *)
From Coq Require Import List NArith ZArith Bool.
From RV Require Import Engine.Model Engine.Spec Engine.Oracle.
Import ListNotations.
Local Open Scope N_scope.

Definition mkc (key subj serial : N) : cert := Build_cert key subj true true true true true serial [].
Definition bad_sig (c : cert) : cert :=
  Build_cert (c_key c) (c_subject c) (c_decodes c) false (c_res_within c) (c_valid_now c) (c_crl_uri_ok c) (c_serial c) (c_ranges c).

Definition vrp1 := IVrp true 167772160 16 24 64496.
Definition vrp2 := IVrp true 167837696 24 24 64497.
Definition aspa1 := IAspa 64500 [64501; 64502].

Definition mkv (id : N) (es : list entry) : version :=
  Build_version id true true true (mkc 12 0 (100 + id)) 1 (-7200)%Z 86400%Z true true true true true 86400%Z [] es.

Definition v0 : version := mkv 1
  [ Build_entry 0 XRoa true true true (OSigned KRoa true true (mkc 13 0 11) [vrp1]);
    Build_entry 1 XCer true true true (OCa (mkc 1 1 12)) ].
Definition v1 : version := mkv 2
  [ Build_entry 0 XAsa true true true (OSigned KAspa true true (mkc 14 0 21) [aspa1]);
    Build_entry 1 XRoa true true true (OSigned KRoa true true (bad_sig (mkc 15 0 22)) [vrp2]) ].

Definition ex_cfg : cfg := Build_cfg true false true true 32 None None.
Definition ex_tal : tal := Build_tal 0 [Build_ta_uri 1 (Some (mkc 0 0 1))].
Definition ex_world : world :=
  {| w_pkey := fun id => id;
     w_collected := fun id => if id =? 0 then Some v0 else if id =? 1 then Some v1 else None;
     w_stored := fun _ => None;
     w_ta_stored := fun _ => None |}.
