(* Engine/Oracle.v -- executable reference traversals used as property oracles, and histories.

   [visit_gen pp] is the recursion of the engine model over an arbitrary per-point function.
   Two instances serve as oracles:
   - [upper_point]: everything any usable version of a point (fetched *or* stored) carries -- the
     executable form of Spec.Carried (C01: nothing outside this set may be served);
   - [chosen_point]: exactly what the one version the engine is documented to use carries, decided
     by the conditions of Spec.ChosenCollected instead of by walking the manifest -- the executable
     form of Spec.Published/Chosen (C02: all of this must be served).
   Definitions only. *)
From Coq Require Import List NArith ZArith Bool.
From RV Require Export Engine.Model Engine.Spec.
Import ListNotations.
Local Open Scope N_scope.

Definition point_fn := cert -> list N -> nat -> point_res.

Fixpoint visit_gen (pp : point_fn) (fuel : nat) (p : cert) (chain : list N) (depth : nat) : res out :=
  match fuel with
  | O => OutOfFuel
  | S f =>
      match pp p chain depth with
      | PRejected => Ok {| o_items := []; o_rejected := reject_ranges p; o_updates := [] |}
      | PAccepted items children upd =>
          match res_concat (map (fun c => visit_gen pp f c (c_key c :: chain) (S depth)) children) with
          | Ok sub =>
              Ok (out_app {| o_items := items; o_rejected := [];
                             o_updates := match upd with Some s => [(c_subject p, s)] | None => [] end |} sub)
          | OutOfFuel => OutOfFuel
          end
      end
  end.

Definition visit_tal_gen (pp : point_fn) (fuel : nat) (w : world) (t : tal) : res out :=
  match select_ta w (t_key t) (t_uris t) with
  | Some c => visit_gen pp fuel c [c_key c] 0
  | None => Ok out_empty
  end.

Definition run_gen (pp : point_fn) (fuel : nat) (w : world) (tals : list tal) : res out :=
  res_concat (map (visit_tal_gen pp fuel w) tals).

(* --- C01 oracle: all usable versions --- *)
Definition ok_entries (v : version) : list entry := filter (fun e => e_present e && e_hash_ok e) (listed v).

Definition upper_point (cf : cfg) (w : world) : point_fn := fun p chain depth =>
  let pkey := pkey_of w p in
  let col :=
    match w_collected w (c_subject p) with
    | Some v => if m_present v && is_ok (validate_collected_manifest cf p pkey v) then Some (v, ok_entries v) else None
    | None => None
    end in
  let sto :=
    match w_stored w (c_subject p) with
    | Some s => if is_ok (validate_stored_manifest cf p pkey (s_version s)) then Some (s_version s, s_entries s) else None
    | None => None
    end in
  let part (x : option (version * list entry)) :=
    match x with
    | Some (v, es) => (all_items cf p pkey v es, all_children cf p pkey v chain depth es)
    | None => ([], [])
    end in
  PAccepted (fst (part col) ++ fst (part sto)) (snd (part col) ++ snd (part sto)) None.

(* --- C02 oracle: the documented choice --- *)
Definition chosen_collectedb (cf : cfg) (w : world) (p : cert) (v : version) : bool :=
  m_present v && negb (same v (w_stored w (c_subject p)))
  && is_ok (validate_collected_manifest cf p (pkey_of w p) v)
  && is_newer v (w_stored w (c_subject p)) && complete v.

Definition chosen_point (cf : cfg) (w : world) : point_fn := fun p chain depth =>
  let pkey := pkey_of w p in
  let from_store :=
    match w_stored w (c_subject p) with
    | Some s =>
        if is_ok (validate_stored_manifest cf p pkey (s_version s))
        then PAccepted (all_items cf p pkey (s_version s) (s_entries s))
                       (all_children cf p pkey (s_version s) chain depth (s_entries s)) None
        else PRejected
    | None => PRejected
    end in
  match w_collected w (c_subject p) with
  | Some v =>
      if chosen_collectedb cf w p v
      then PAccepted (all_items cf p pkey v (listed v)) (all_children cf p pkey v chain depth (listed v))
                     (Some {| s_version := v; s_entries := listed v |})
      else from_store
  | None => from_store
  end.

(* the walk order used when the model is evaluated (the payload does not depend on it) *)
Definition perm_id (_ : N) (l : list entry) : list entry := l.

(* ------------------------------------------------------------------------------------------ *)
(* Item equality, set comparison *)

Fixpoint nlist_eqb (a b : list N) : bool :=
  match a, b with
  | [], [] => true
  | x :: a', y :: b' => (x =? y) && nlist_eqb a' b'
  | _, _ => false
  end.

Definition item_eqb (a b : item) : bool :=
  match a, b with
  | IVrp v1 a1 l1 m1 s1, IVrp v2 a2 l2 m2 s2 => Bool.eqb v1 v2 && (a1 =? a2) && (l1 =? l2) && (m1 =? m2) && (s1 =? s2)
  | IKey k1 s1, IKey k2 s2 => (k1 =? k2) && (s1 =? s2)
  | IAspa c1 p1, IAspa c2 p2 => (c1 =? c2) && nlist_eqb p1 p2
  | _, _ => false
  end.

Definition memb (it : item) (l : list item) : bool := existsb (item_eqb it) l.
Definition inclb (a b : list item) : bool := forallb (fun it => memb it b) a.

(* ------------------------------------------------------------------------------------------ *)
(* Histories *)

Definition assoc_get {A} (l : list (N * A)) (id : N) : option A :=
  match find (fun x => fst x =? id) l with Some x => Some (snd x) | None => None end.

(* TA store after process_tal_task: every URI looked at whose fetched certificate decodes is stored *)
Fixpoint ta_updates (w : world) (tkey : N) (us : list ta_uri) : list (N * cert) :=
  match us with
  | [] => []
  | u :: t =>
      let upd := match u_fetched u with Some c => if c_decodes c then [(u_id u, c)] else [] | None => [] end in
      match load_ta w u with
      | Some c => if (c_key c =? tkey) && c_sig_ok c && c_valid_now c then upd else upd ++ ta_updates w tkey t
      | None => upd ++ ta_updates w tkey t
      end
  end.

Record run_in := {
  ri_collected : list (N * version);        (* what the collector holds per point after fetching *)
  ri_tals : list tal }.

Definition mk_world (pkeys : list (N * N)) (ri : run_in) (st : store) (tast : list (N * cert)) : world :=
  {| w_pkey := fun id => match assoc_get pkeys id with Some k => k | None => 0 end;
     w_collected := assoc_get (ri_collected ri);
     w_stored := store_get st;
     w_ta_stored := assoc_get tast |}.
