(* Engine/OracleProofs.v -- the executable oracles mean what Engine/Spec.v says, and the model
   satisfies them:
     upper traversal  = exactly the items Carried by usable versions (C01 oracle),
     chosen traversal = exactly the items carried by the Published / Chosen chain (C02 oracle),
     model payload is inside the first and contains the second (after the unsafe filter). *)
From Coq Require Import List NArith ZArith Bool Lia.
From RV Require Import Engine.Model Engine.Spec Engine.Proofs Engine.Oracle.
Import ListNotations.
Local Open Scope N_scope.

(* ------------------------------------------------------------------------------------------ *)
(* item equality *)

Lemma nlist_eqb_spec : forall a b, nlist_eqb a b = true <-> a = b.
Proof.
  induction a as [|x a IH]; destruct b as [|y b]; cbn; split; intro H; try reflexivity; try discriminate.
  - apply andb_true_iff in H. destruct H as [H1 H2]. apply N.eqb_eq in H1. apply IH in H2. subst. reflexivity.
  - inversion H. subst. rewrite N.eqb_refl. cbn. apply IH. reflexivity.
Qed.

Lemma item_eqb_spec : forall a b, item_eqb a b = true <-> a = b.
Proof.
  intros a b. split.
  - destruct a, b; cbn; intro H; try discriminate.
    + repeat (apply andb_true_iff in H; destruct H as [H ?]).
      apply eqb_prop in H. repeat match goal with X : (_ =? _) = true |- _ => apply N.eqb_eq in X end. subst. reflexivity.
    + apply andb_true_iff in H. destruct H as [H1 H2]. apply N.eqb_eq in H1, H2. subst. reflexivity.
    + apply andb_true_iff in H. destruct H as [H1 H2]. apply N.eqb_eq in H1. apply nlist_eqb_spec in H2. subst. reflexivity.
  - intro H. subst. destruct b; cbn.
    + rewrite eqb_reflx, !N.eqb_refl. reflexivity.
    + rewrite !N.eqb_refl. reflexivity.
    + rewrite N.eqb_refl. cbn. apply nlist_eqb_spec. reflexivity.
Qed.

Lemma memb_spec : forall it l, memb it l = true <-> In it l.
Proof.
  intros it l. unfold memb. rewrite existsb_exists. split.
  - intros [x [Hx He]]. apply item_eqb_spec in He. subst. exact Hx.
  - intro H. exists it. split; [exact H | apply item_eqb_spec; reflexivity].
Qed.

Lemma inclb_spec : forall a b, inclb a b = true <-> incl a b.
Proof.
  intros a b. unfold inclb. rewrite forallb_forall. split.
  - intros H x Hx. apply memb_spec. apply H. exact Hx.
  - intros H x Hx. apply memb_spec. apply H. exact Hx.
Qed.

(* ------------------------------------------------------------------------------------------ *)
(* facts about res_concat for the rejected ranges *)

Lemma res_concat_rej : forall l o r,
  res_concat l = Ok o -> In r (o_rejected o) -> exists o', In (Ok o') l /\ In r (o_rejected o').
Proof.
  induction l as [|x t IH]; intros o r H Hin.
  - cbn in H. inversion H. subst. cbn in Hin. contradiction.
  - cbn in H. destruct x as [a|]; [|discriminate]. destruct (res_concat t) as [b|] eqn:Eb; [|discriminate].
    inversion H. subst. cbn in Hin. apply in_app_or in Hin. destruct Hin as [Hi|Hi].
    + exists a. split; [left; reflexivity | exact Hi].
    + destruct (IH b r eq_refl Hi) as [o' [Ho' Hr]]. exists o'. split; [right; exact Ho' | exact Hr].
Qed.

Lemma res_concat_rej_incl : forall l o o', res_concat l = Ok o -> In (Ok o') l -> incl (o_rejected o') (o_rejected o).
Proof.
  induction l as [|x t IH]; intros o o' H Hin.
  - contradiction.
  - cbn in H. destruct x as [a|]; [|discriminate]. destruct (res_concat t) as [b|] eqn:Eb; [|discriminate].
    inversion H. subst. cbn. destruct Hin as [He|Hi].
    + inversion He. subst. apply incl_appl. apply incl_refl.
    + apply incl_appr. eapply IH; [reflexivity | exact Hi].
Qed.

(* ------------------------------------------------------------------------------------------ *)
(* the model is an instance of the generic recursion *)

Lemma map_ext_in' : forall {A B} (f g : A -> B) l, (forall x, In x l -> f x = g x) -> map f l = map g l.
Proof. intros. apply map_ext_in. assumption. Qed.

Lemma visit_is_gen : forall cf perm w fuel p chain depth,
  visit fuel cf perm w p chain depth = visit_gen (process_point cf perm w) fuel p chain depth.
Proof.
  intros cf perm w. induction fuel as [|f IH]; intros p chain depth; [reflexivity|].
  cbn. destruct (process_point cf perm w p chain depth) as [items children upd|]; [|reflexivity].
  rewrite (map_ext_in' (fun c => visit f cf perm w c (c_key c :: chain) (S depth))
                       (fun c => visit_gen (process_point cf perm w) f c (c_key c :: chain) (S depth))) by (intros; apply IH).
  reflexivity.
Qed.

Lemma run_is_gen : forall cf perm w tals fuel,
  run fuel cf perm w tals =
  match run_gen (process_point cf perm w) fuel w tals with
  | Ok o => Ok {| r_payload := filter (keep_unsafe cf (o_rejected o)) (o_items o); r_rejected := o_rejected o; r_updates := o_updates o |}
  | OutOfFuel => OutOfFuel
  end.
Proof.
  intros. unfold run, run_gen.
  rewrite (map_ext_in' (visit_tal fuel cf perm w) (visit_tal_gen (process_point cf perm w) fuel w)); [reflexivity|].
  intros t _. unfold visit_tal, visit_tal_gen. destruct (select_ta w (t_key t) (t_uris t)); [apply visit_is_gen | reflexivity].
Qed.

(* ------------------------------------------------------------------------------------------ *)
(* generic soundness / completeness of a traversal w.r.t. a "which version, which entries" relation *)

Section Generic.
Variable cf : cfg.
Variable w : world.
Variable tals : list tal.
Variable R : cert -> version -> list entry -> Prop.
Variable pp : point_fn.

Inductive ReachR : cert -> list N -> nat -> Prop :=
| RR_ta : forall t c, In t tals -> select_ta w (t_key t) (t_uris t) = Some c -> ReachR c [c_key c] 0
| RR_ca : forall p chain depth v es e c,
    ReachR p chain depth -> R p v es -> In e es -> e_ext e = XCer -> e_obj e = OCa c ->
    child_ok cf p (pkey_of w p) v chain depth c = true -> ReachR c (c_key c :: chain) (S depth).

Definition CarriedR (it : item) : Prop :=
  exists p chain depth v es e, ReachR p chain depth /\ R p v es /\ In e es /\ In it (entry_items cf p (pkey_of w p) v e).

Definition pp_sound : Prop := forall p chain depth items children upd,
  pp p chain depth = PAccepted items children upd ->
  (forall it, In it items -> exists v es e, R p v es /\ In e es /\ In it (entry_items cf p (pkey_of w p) v e)) /\
  (forall c, In c children -> exists v es e, R p v es /\ In e es /\ In c (entry_children cf p (pkey_of w p) v chain depth e)).

Definition pp_complete : Prop := forall p chain depth v es,
  R p v es -> exists items children upd,
    pp p chain depth = PAccepted items children upd /\
    (forall e it, In e es -> In it (entry_items cf p (pkey_of w p) v e) -> In it items) /\
    (forall e c, In e es -> In c (entry_children cf p (pkey_of w p) v chain depth e) -> In c children).

Lemma gen_visit_sound : pp_sound -> forall fuel p chain depth o,
  ReachR p chain depth -> visit_gen pp fuel p chain depth = Ok o -> forall it, In it (o_items o) -> CarriedR it.
Proof.
  intro Hs. induction fuel as [|f IH]; intros p chain depth o HJ H it Hin; [discriminate|].
  cbn in H. destruct (pp p chain depth) as [items children upd|] eqn:Hp.
  - destruct (res_concat (map (fun c => visit_gen pp f c (c_key c :: chain) (S depth)) children)) as [sub|] eqn:Hsub; [|discriminate].
    inversion H. subst. cbn in Hin. destruct (Hs _ _ _ _ _ _ Hp) as [Hi Hc].
    apply in_app_or in Hin. destruct Hin as [Hown|Hsubi].
    + destruct (Hi it Hown) as [v [es [e [HU [He Hit]]]]]. exists p, chain, depth, v, es, e. auto.
    + destruct (res_concat_items _ _ _ Hsub Hsubi) as [o' [Ho' Hit]].
      apply in_map_iff in Ho'. destruct Ho' as [c [Hvc Hcin]].
      destruct (Hc c Hcin) as [v [es [e [HU [He Hch]]]]].
      apply entry_children_spec in Hch. destruct Hch as [Hx [Ho Hok]].
      eapply IH; [|exact Hvc|exact Hit]. eapply RR_ca; eassumption.
  - inversion H. subst. cbn in Hin. contradiction.
Qed.

Lemma gen_run_sound : pp_sound -> forall fuel o,
  run_gen pp fuel w tals = Ok o -> forall it, In it (o_items o) -> CarriedR it.
Proof.
  intros Hs fuel o H it Hin. unfold run_gen in H.
  destruct (res_concat_items _ _ _ H Hin) as [o' [Ho' Hit]].
  apply in_map_iff in Ho'. destruct Ho' as [t [Hvt Ht]]. unfold visit_tal_gen in Hvt.
  destruct (select_ta w (t_key t) (t_uris t)) as [c|] eqn:Hsel.
  - eapply gen_visit_sound; [exact Hs| |exact Hvt|exact Hit]. eapply RR_ta; eassumption.
  - inversion Hvt. subst. contradiction.
Qed.

Lemma gen_visit_step : forall fuel p chain depth o,
  visit_gen pp fuel p chain depth = Ok o ->
  exists f, fuel = S f /\
  match pp p chain depth with
  | PAccepted items children _ =>
      incl items (o_items o) /\
      forall c, In c children -> exists oc, visit_gen pp f c (c_key c :: chain) (S depth) = Ok oc /\ incl (o_items oc) (o_items o)
  | PRejected => True
  end.
Proof.
  intros fuel p chain depth o H. destruct fuel as [|f]; [discriminate|]. exists f. split; [reflexivity|].
  cbn in H. destruct (pp p chain depth) as [items children upd|]; [|exact I].
  destruct (res_concat (map (fun c => visit_gen pp f c (c_key c :: chain) (S depth)) children)) as [sub|] eqn:Hs; [|discriminate].
  inversion H. subst. cbn. split; [apply incl_appl; apply incl_refl|].
  intros c Hc.
  assert (Hin : In (visit_gen pp f c (c_key c :: chain) (S depth)) (map (fun c => visit_gen pp f c (c_key c :: chain) (S depth)) children))
    by (apply in_map_iff; exists c; split; [reflexivity | exact Hc]).
  destruct (res_concat_all_ok _ _ _ Hs Hin) as [oc Hoc]. exists oc. split; [exact Hoc|].
  apply incl_appr. eapply res_concat_incl; [exact Hs|]. rewrite <- Hoc. exact Hin.
Qed.

Lemma gen_reach_visited : pp_complete -> forall fuel o,
  run_gen pp fuel w tals = Ok o ->
  forall p chain depth, ReachR p chain depth ->
  exists f op, visit_gen pp f p chain depth = Ok op /\ incl (o_items op) (o_items o).
Proof.
  intros Hc fuel o Ho p chain depth HP. unfold run_gen in Ho.
  induction HP as [t c Ht Hsel | p chain depth v es e c HP IH HR He Hx Hobj Hok].
  - assert (Hin : In (visit_tal_gen pp fuel w t) (map (visit_tal_gen pp fuel w) tals))
      by (apply in_map_iff; exists t; split; [reflexivity | exact Ht]).
    destruct (res_concat_all_ok _ _ _ Ho Hin) as [ot Hot]. exists fuel, ot. split.
    + unfold visit_tal_gen in Hot. rewrite Hsel in Hot. exact Hot.
    + eapply res_concat_incl; [exact Ho|]. rewrite <- Hot. exact Hin.
  - destruct IH as [f [op [Hv Hincl]]].
    destruct (gen_visit_step _ _ _ _ _ Hv) as [f' [Hf Hm]].
    destruct (Hc p chain depth v es HR) as [items [children [upd [Hpp [_ Hch]]]]].
    rewrite Hpp in Hm. destruct Hm as [_ Hkids].
    assert (Hcin : In c children).
    { eapply Hch; [exact He|]. apply entry_children_spec. repeat split; assumption. }
    destruct (Hkids c Hcin) as [oc [Hvc Hic]]. exists f', oc. split; [exact Hvc|].
    eapply incl_tran; eassumption.
Qed.

Lemma gen_run_complete : pp_complete -> forall fuel o,
  run_gen pp fuel w tals = Ok o -> forall it, CarriedR it -> In it (o_items o).
Proof.
  intros Hc fuel o Ho it [p [chain [depth [v [es [e [HP [HR [He Hit]]]]]]]]].
  destruct (gen_reach_visited Hc _ _ Ho _ _ _ HP) as [f [op [Hv Hincl]]].
  destruct (gen_visit_step _ _ _ _ _ Hv) as [f' [Hf Hm]].
  destruct (Hc p chain depth v es HR) as [items [children [upd [Hpp [Hi _]]]]].
  rewrite Hpp in Hm. destruct Hm as [Hown _].
  apply Hincl. apply Hown. eapply Hi; eassumption.
Qed.

(* fuel *)
Definition pp_depth : Prop := forall p chain depth items children upd,
  pp p chain depth = PAccepted items children upd -> forall c, In c children -> (S depth <= max_depth cf)%nat.

Lemma gen_visit_fuel : pp_depth -> forall fuel p chain depth,
  (depth <= max_depth cf)%nat -> (max_depth cf - depth < fuel)%nat -> exists o, visit_gen pp fuel p chain depth = Ok o.
Proof.
  intro Hd. induction fuel as [|f IH]; intros p chain depth Hle Hf; [lia|].
  cbn. destruct (pp p chain depth) as [items children upd|] eqn:Hp; [|eexists; reflexivity].
  destruct (res_concat_ok (map (fun c => visit_gen pp f c (c_key c :: chain) (S depth)) children)) as [sub Hs].
  - intros r Hr. apply in_map_iff in Hr. destruct Hr as [c [Hc Hin]]. subst.
    pose proof (Hd _ _ _ _ _ _ Hp c Hin). apply IH; lia.
  - rewrite Hs. eexists. reflexivity.
Qed.

Lemma gen_run_fuel : pp_depth -> exists o, run_gen pp (fuel_for cf) w tals = Ok o.
Proof.
  intro Hd. unfold run_gen. apply res_concat_ok. intros r Hr. apply in_map_iff in Hr. destruct Hr as [t [Ht _]]. subst.
  unfold visit_tal_gen. destruct (select_ta w (t_key t) (t_uris t)); [|eexists; reflexivity].
  apply gen_visit_fuel; [exact Hd | unfold fuel_for; lia | unfold fuel_for; lia].
Qed.

End Generic.

(* the two instances of ReachR are the predicates of Spec.v *)
Lemma reach_usable : forall cf w tals p chain depth,
  ReachR cf w tals (Usable cf w) p chain depth <-> Justified cf w tals p chain depth.
Proof.
  intros. split; intro H; induction H.
  - eapply J_ta; eassumption.
  - eapply J_ca; eassumption.
  - eapply RR_ta; eassumption.
  - eapply RR_ca; eassumption.
Qed.
Lemma reach_chosen : forall cf w tals p chain depth,
  ReachR cf w tals (Chosen cf w) p chain depth <-> Published cf w tals p chain depth.
Proof.
  intros. split; intro H; induction H.
  - eapply P_ta; eassumption.
  - eapply P_ca; eassumption.
  - eapply RR_ta; eassumption.
  - eapply RR_ca; eassumption.
Qed.
Lemma carried_usable : forall cf w tals it, CarriedR cf w tals (Usable cf w) it <-> Carried cf w tals it.
Proof.
  intros. unfold CarriedR, Carried. split; intros [p [chain [depth [v [es [e [H1 H2]]]]]]];
    exists p, chain, depth, v, es, e; (split; [apply reach_usable; exact H1 | exact H2]).
Qed.

(* ------------------------------------------------------------------------------------------ *)
(* upper_point: sound and complete w.r.t. Usable *)

Lemma upper_sound : forall cf w, pp_sound cf w (Usable cf w) (upper_point cf w).
Proof.
  intros cf w p chain depth items children upd H. unfold upper_point in H. inversion H. subst. clear H.
  assert (Hcol : forall v, w_collected w (c_subject p) = Some v ->
            m_present v && is_ok (validate_collected_manifest cf p (pkey_of w p) v) = true ->
            Usable cf w p v (ok_entries v)).
  { intros v Hc Hb. apply andb_true_iff in Hb. destruct Hb. apply U_collected; assumption. }
  split.
  - intros it Hin. apply in_app_or in Hin. destruct Hin as [Hin|Hin].
    + destruct (w_collected w (c_subject p)) as [v|] eqn:Ec; [|contradiction].
      destruct (m_present v && is_ok (validate_collected_manifest cf p (pkey_of w p) v)) eqn:Hb; [|contradiction].
      cbn in Hin. apply all_items_In in Hin. destruct Hin as [e [He Hi]].
      exists v, (ok_entries v), e. split; [apply Hcol; [reflexivity|exact Hb] | split; assumption].
    + destruct (w_stored w (c_subject p)) as [s|] eqn:Es; [|contradiction].
      destruct (is_ok (validate_stored_manifest cf p (pkey_of w p) (s_version s))) eqn:Hb; [|contradiction].
      cbn in Hin. apply all_items_In in Hin. destruct Hin as [e [He Hi]].
      exists (s_version s), (s_entries s), e. split; [apply U_stored; assumption | split; assumption].
  - intros c Hin. apply in_app_or in Hin. destruct Hin as [Hin|Hin].
    + destruct (w_collected w (c_subject p)) as [v|] eqn:Ec; [|contradiction].
      destruct (m_present v && is_ok (validate_collected_manifest cf p (pkey_of w p) v)) eqn:Hb; [|contradiction].
      cbn in Hin. apply all_children_In in Hin. destruct Hin as [e [He Hi]].
      exists v, (ok_entries v), e. split; [apply Hcol; [reflexivity|exact Hb] | split; assumption].
    + destruct (w_stored w (c_subject p)) as [s|] eqn:Es; [|contradiction].
      destruct (is_ok (validate_stored_manifest cf p (pkey_of w p) (s_version s))) eqn:Hb; [|contradiction].
      cbn in Hin. apply all_children_In in Hin. destruct Hin as [e [He Hi]].
      exists (s_version s), (s_entries s), e. split; [apply U_stored; assumption | split; assumption].
Qed.

Lemma upper_complete : forall cf w, pp_complete cf w (Usable cf w) (upper_point cf w).
Proof.
  intros cf w p chain depth v es HU. unfold upper_point. eexists _, _, _. split; [reflexivity|].
  destruct HU as [v Hc Hp Hv | s Hs Hv].
  - rewrite Hc, Hp, Hv. cbn [andb fst snd]. split.
    + intros e it He Hi. apply in_or_app. left. apply all_items_In. exists e. split; assumption.
    + intros e c He Hi. apply in_or_app. left. apply all_children_In. exists e. split; assumption.
  - rewrite Hs, Hv. split.
    + intros e it He Hi. apply in_or_app. right. cbn. apply all_items_In. exists e. split; assumption.
    + intros e c He Hi. apply in_or_app. right. cbn. apply all_children_In. exists e. split; assumption.
Qed.

Lemma upper_depth : forall cf w, pp_depth cf (upper_point cf w).
Proof.
  intros cf w p chain depth items children upd H c Hc.
  destruct (upper_sound cf w _ _ _ _ _ _ H) as [_ Hch]. destruct (Hch c Hc) as [v [es [e [_ [_ Hi]]]]].
  apply entry_children_spec in Hi. destruct Hi as [_ [_ Hok]]. apply child_ok_good in Hok. tauto.
Qed.

(* ------------------------------------------------------------------------------------------ *)
(* chosen_point: sound and complete w.r.t. Chosen *)

Lemma chosen_collectedb_spec : forall cf w p v,
  w_collected w (c_subject p) = Some v -> (chosen_collectedb cf w p v = true <-> ChosenCollected cf w p v).
Proof.
  intros cf w p v Hc. unfold chosen_collectedb, ChosenCollected. split.
  - intro H. repeat (apply andb_true_iff in H; destruct H as [H ?]).
    match goal with X : negb _ = true |- _ => apply negb_true_iff in X end. repeat split; assumption.
  - intros [_ [H1 [H2 [H3 [H4 H5]]]]]. rewrite H1, H2, H3, H4, H5. reflexivity.
Qed.

Lemma chosen_sound : forall cf w, pp_sound cf w (Chosen cf w) (chosen_point cf w).
Proof.
  intros cf w p chain depth items children upd H. unfold chosen_point in H.
  assert (Hst : forall r,
     match w_stored w (c_subject p) with
     | Some s => if is_ok (validate_stored_manifest cf p (pkey_of w p) (s_version s))
                 then PAccepted (all_items cf p (pkey_of w p) (s_version s) (s_entries s))
                                (all_children cf p (pkey_of w p) (s_version s) chain depth (s_entries s)) None
                 else PRejected
     | None => PRejected end = PAccepted items children r ->
     (forall v, ~ ChosenCollected cf w p v) ->
     (forall it, In it items -> exists v es e, Chosen cf w p v es /\ In e es /\ In it (entry_items cf p (pkey_of w p) v e)) /\
     (forall c, In c children -> exists v es e, Chosen cf w p v es /\ In e es /\ In c (entry_children cf p (pkey_of w p) v chain depth e))).
  { intros r Hr Hno. destruct (w_stored w (c_subject p)) as [s|] eqn:Es; [|discriminate].
    destruct (is_ok (validate_stored_manifest cf p (pkey_of w p) (s_version s))) eqn:Hv; [|discriminate].
    inversion Hr. subst. split.
    - intros it Hin. apply all_items_In in Hin. destruct Hin as [e [He Hi]].
      exists (s_version s), (s_entries s), e. split; [apply Ch_stored; assumption | split; assumption].
    - intros c Hin. apply all_children_In in Hin. destruct Hin as [e [He Hi]].
      exists (s_version s), (s_entries s), e. split; [apply Ch_stored; assumption | split; assumption]. }
  destruct (w_collected w (c_subject p)) as [v|] eqn:Ec.
  - destruct (chosen_collectedb cf w p v) eqn:Hb.
    + apply chosen_collectedb_spec in Hb; [|exact Ec]. inversion H. subst. split.
      * intros it Hin. apply all_items_In in Hin. destruct Hin as [e [He Hi]].
        exists v, (listed v), e. split; [apply Ch_collected; exact Hb | split; assumption].
      * intros c Hin. apply all_children_In in Hin. destruct Hin as [e [He Hi]].
        exists v, (listed v), e. split; [apply Ch_collected; exact Hb | split; assumption].
    + eapply Hst; [exact H|]. intros v' Hv'. pose proof Hv' as [Hc' _]. rewrite Ec in Hc'. inversion Hc'. subst.
      apply chosen_collectedb_spec in Hv'; [|exact Ec]. congruence.
  - eapply Hst; [exact H|]. intros v' [Hc' _]. rewrite Ec in Hc'. discriminate.
Qed.

Lemma chosen_complete : forall cf w, pp_complete cf w (Chosen cf w) (chosen_point cf w).
Proof.
  intros cf w p chain depth v es HC. unfold chosen_point. destruct HC as [v Hcc | s Hs Hv Hno].
  - pose proof Hcc as [Hc _]. rewrite Hc. apply chosen_collectedb_spec in Hcc; [|exact Hc]. rewrite Hcc.
    eexists _, _, _. split; [reflexivity|]. split.
    + intros e it He Hi. apply all_items_In. exists e. split; assumption.
    + intros e c He Hi. apply all_children_In. exists e. split; assumption.
  - assert (Hgoal : exists items children upd,
       match w_stored w (c_subject p) with
       | Some s0 => if is_ok (validate_stored_manifest cf p (pkey_of w p) (s_version s0))
                   then PAccepted (all_items cf p (pkey_of w p) (s_version s0) (s_entries s0))
                                  (all_children cf p (pkey_of w p) (s_version s0) chain depth (s_entries s0)) None
                   else PRejected
       | None => PRejected end = PAccepted items children upd /\
       (forall e it, In e (s_entries s) -> In it (entry_items cf p (pkey_of w p) (s_version s) e) -> In it items) /\
       (forall e c, In e (s_entries s) -> In c (entry_children cf p (pkey_of w p) (s_version s) chain depth e) -> In c children)).
    { rewrite Hs, Hv. eexists _, _, _. split; [reflexivity|]. split.
      - intros e it He Hi. apply all_items_In. exists e. split; assumption.
      - intros e c He Hi. apply all_children_In. exists e. split; assumption. }
    destruct (w_collected w (c_subject p)) as [v|] eqn:Ec; [|exact Hgoal].
    destruct (chosen_collectedb cf w p v) eqn:Hb; [|exact Hgoal].
    exfalso. apply (Hno v). apply chosen_collectedb_spec; assumption.
Qed.

Lemma chosen_depth : forall cf w, pp_depth cf (chosen_point cf w).
Proof.
  intros cf w p chain depth items children upd H c Hc.
  destruct (chosen_sound cf w _ _ _ _ _ _ H) as [_ Hch]. destruct (Hch c Hc) as [v [es [e [_ [_ Hi]]]]].
  apply entry_children_spec in Hi. destruct Hi as [_ [_ Hok]]. apply child_ok_good in Hok. tauto.
Qed.

(* ------------------------------------------------------------------------------------------ *)
(* rejected ranges: the model rejects nothing the chosen traversal does not reject *)

Section SimRej.
Variables (cf : cfg) (pp1 pp2 : point_fn).
(* pp1 rejects only where pp2 rejects; pp1's children are among pp2's *)
Hypothesis Hsim : forall p chain depth,
  match pp1 p chain depth with
  | PAccepted _ c1 _ => exists i2 c2 u2, pp2 p chain depth = PAccepted i2 c2 u2 /\ incl c1 c2
  | PRejected => pp2 p chain depth = PRejected
  end.

Lemma sim_rej_visit : forall fuel p chain depth o1 o2,
  visit_gen pp1 fuel p chain depth = Ok o1 -> visit_gen pp2 fuel p chain depth = Ok o2 ->
  incl (o_rejected o1) (o_rejected o2).
Proof.
  induction fuel as [|f IH]; intros p chain depth o1 o2 H1 H2; [discriminate|].
  cbn in H1, H2. pose proof (Hsim p chain depth) as Hs.
  destruct (pp1 p chain depth) as [i1 c1 u1|].
  - destruct Hs as [i2 [c2 [u2 [Hp2 Hinc]]]]. rewrite Hp2 in H2.
    destruct (res_concat (map (fun c => visit_gen pp1 f c (c_key c :: chain) (S depth)) c1)) as [s1|] eqn:Hs1; [|discriminate].
    destruct (res_concat (map (fun c => visit_gen pp2 f c (c_key c :: chain) (S depth)) c2)) as [s2|] eqn:Hs2; [|discriminate].
    inversion H1. inversion H2. subst. cbn. intros r Hr.
    destruct (res_concat_rej _ _ _ Hs1 Hr) as [o' [Ho' Hro']].
    apply in_map_iff in Ho'. destruct Ho' as [c [Hvc Hc]].
    assert (Hin2 : In (visit_gen pp2 f c (c_key c :: chain) (S depth)) (map (fun c => visit_gen pp2 f c (c_key c :: chain) (S depth)) c2))
      by (apply in_map_iff; exists c; split; [reflexivity | apply Hinc; exact Hc]).
    destruct (res_concat_all_ok _ _ _ Hs2 Hin2) as [o2' Ho2'].
    eapply res_concat_rej_incl; [exact Hs2 | rewrite <- Ho2'; exact Hin2 |].
    eapply IH; [exact Hvc | exact Ho2' | exact Hro'].
  - rewrite Hs in H2. inversion H1. inversion H2. subst. cbn. apply incl_refl.
Qed.

Lemma sim_rej_run : forall w tals fuel o1 o2,
  run_gen pp1 fuel w tals = Ok o1 -> run_gen pp2 fuel w tals = Ok o2 -> incl (o_rejected o1) (o_rejected o2).
Proof.
  intros w tals fuel o1 o2 H1 H2 r Hr. unfold run_gen in *.
  destruct (res_concat_rej _ _ _ H1 Hr) as [o' [Ho' Hro']].
  apply in_map_iff in Ho'. destruct Ho' as [t [Hvt Ht]].
  assert (Hin2 : In (visit_tal_gen pp2 fuel w t) (map (visit_tal_gen pp2 fuel w) tals))
    by (apply in_map_iff; exists t; split; [reflexivity | exact Ht]).
  destruct (res_concat_all_ok _ _ _ H2 Hin2) as [o2' Ho2'].
  eapply res_concat_rej_incl; [exact H2 | rewrite <- Ho2'; exact Hin2 |].
  unfold visit_tal_gen in *. destruct (select_ta w (t_key t) (t_uris t)).
  - eapply sim_rej_visit; eassumption.
  - inversion Hvt. subst. contradiction.
Qed.
End SimRej.

(* the unsafe filter is antitone in the rejected ranges *)
Lemma existsb_incl : forall {A} (f : A -> bool) l1 l2, incl l1 l2 -> existsb f l1 = true -> existsb f l2 = true.
Proof.
  intros A f l1 l2 Hinc H. apply existsb_exists in H. destruct H as [x [Hx Hb]].
  apply existsb_exists. exists x. split; [apply Hinc; exact Hx | exact Hb].
Qed.

Lemma keep_unsafe_antitone : forall cf r1 r2 it, incl r1 r2 -> keep_unsafe cf r2 it = true -> keep_unsafe cf r1 it = true.
Proof.
  intros cf r1 r2 it Hinc H. destruct it; try reflexivity.
  unfold keep_unsafe in *. destruct (unsafe_reject cf); [|reflexivity].
  destruct (vrp_range v4 addr len) as [lo hi]. apply negb_true_iff in H. apply negb_true_iff.
  match goal with |- existsb ?f r1 = false => destruct (existsb f r1) eqn:He; [|reflexivity];
    rewrite (existsb_incl f r1 r2 Hinc He) in H; discriminate end.
Qed.

Section WithPerm.
Variable perm : N -> list entry -> list entry.
Hypothesis perm_in : forall id l x, In x (perm id l) <-> In x l.

(* the model's point function against the chosen one: same accept/reject decision, children included *)
Lemma model_vs_chosen : forall cf w p chain depth,
  match process_point cf perm w p chain depth with
  | PAccepted _ c1 _ => exists i2 c2 u2, chosen_point cf w p chain depth = PAccepted i2 c2 u2 /\ incl c1 c2
  | PRejected => chosen_point cf w p chain depth = PRejected
  end.
Proof.
  intros cf w p chain depth. unfold process_point, chosen_point.
  set (from_store := match w_stored w (c_subject p) with
     | Some s => if is_ok (validate_stored_manifest cf p (pkey_of w p) (s_version s))
                 then PAccepted (all_items cf p (pkey_of w p) (s_version s) (s_entries s))
                                (all_children cf p (pkey_of w p) (s_version s) chain depth (s_entries s)) None
                 else PRejected
     | None => PRejected end).
  assert (Hfall :
     match process_stored cf w p chain depth with
     | PAccepted _ c1 _ => exists i2 c2 u2, from_store = PAccepted i2 c2 u2 /\ incl c1 c2
     | PRejected => from_store = PRejected end).
  { unfold process_stored, from_store, pkey_of.
    destruct (w_stored w (c_subject p)) as [s|]; [|reflexivity].
    destruct (is_ok (validate_stored_manifest cf p (w_pkey w (c_subject p)) (s_version s))); [|reflexivity].
    eexists _, _, _. split; [reflexivity | apply incl_refl]. }
  destruct (w_collected w (c_subject p)) as [v|] eqn:Ec; [|apply Hfall].
  unfold chosen_collectedb.
  destruct (m_present v) eqn:Hp; cbn [negb andb]; [|apply Hfall].
  destruct (same v (w_stored w (c_subject p))) eqn:Hs; cbn [negb andb]; [apply Hfall|].
  unfold pkey_of.
  destruct (is_ok (validate_collected_manifest cf p (w_pkey w (c_subject p)) v)) eqn:Hv; cbn [negb andb]; [|apply Hfall].
  destruct (is_newer v (w_stored w (c_subject p))) eqn:Hn; cbn [negb andb]; [|apply Hfall].
  destruct (walk cf p (w_pkey w (c_subject p)) v chain depth (perm (c_subject p) (listed v)) [] []) as [i c|] eqn:Hw.
  - destruct (walk_done _ _ _ _ _ _ _ _ _ _ _ Hw) as [_ [Hc Hf]]. subst.
    assert (Hcm : complete v = true) by (unfold complete; eapply (forallb_perm_inv perm perm_in); exact Hf).
    rewrite Hcm. eexists _, _, _. split; [reflexivity|]. cbn. intros x Hx.
    apply all_children_In in Hx. destruct Hx as [e [He Hi]]. apply all_children_In. exists e. split; [apply perm_in in He; exact He | exact Hi].
  - assert (Hcm : complete v = false).
    { destruct (complete v) eqn:Hcm; [|reflexivity]. unfold complete in Hcm.
      rewrite walk_complete in Hw by (apply (forallb_perm perm perm_in); exact Hcm). discriminate. }
    rewrite Hcm. apply Hfall.
Qed.

(* C01: the model's payload lies inside the upper traversal *)
Theorem model_within_upper : forall cf w tals r up,
  run (fuel_for cf) cf perm w tals = Ok r -> run_gen (upper_point cf w) (fuel_for cf) w tals = Ok up ->
  incl (r_payload r) (o_items up).
Proof.
  intros cf w tals r up Hr Hup it Hin.
  eapply gen_run_complete; [apply upper_complete | exact Hup |].
  apply carried_usable. eapply run_sound; eassumption.
Qed.

(* C02: everything the chosen traversal yields and the unsafe filter keeps is in the model's payload *)
Theorem model_contains_chosen : forall cf w tals r ch,
  run (fuel_for cf) cf perm w tals = Ok r -> run_gen (chosen_point cf w) (fuel_for cf) w tals = Ok ch ->
  incl (filter (keep_unsafe cf (o_rejected ch)) (o_items ch)) (r_payload r).
Proof.
  intros cf w tals r ch Hr Hch it Hin. apply filter_In in Hin. destruct Hin as [Hin Hk].
  destruct (gen_run_sound cf w tals (Chosen cf w) (chosen_point cf w) (chosen_sound cf w) _ _ Hch it Hin)
    as [p [chain [depth [v [es [e [HP [HC [He Hit]]]]]]]]].
  eapply run_complete; try eassumption.
  - apply reach_chosen. exact HP.
  - (* rejected ranges of the model are among those of the chosen traversal *)
    rewrite run_is_gen in Hr. destruct (run_gen (process_point cf perm w) (fuel_for cf) w tals) as [o|] eqn:Ho; [|discriminate].
    inversion Hr. subst. cbn.
    eapply keep_unsafe_antitone; [|exact Hk].
    eapply (sim_rej_run (process_point cf perm w) (chosen_point cf w) (model_vs_chosen cf w)); eassumption.
Qed.

End WithPerm.
