(* Proofs about C11/Model.v. *)
From Coq Require Import List NArith Bool Lia.
From RV Require Import Base.KMap C11.Model.
Import ListNotations.
Local Open Scope N_scope.

Lemma nlist_eqb_spec a b : reflect (a = b) (nlist_eqb a b).
Proof.
  revert b; induction a as [|x a IH]; intros [|y b]; cbn [nlist_eqb]; try (constructor; congruence).
  destruct (N.eqb_spec x y) as [->|Hne]; cbn [andb].
  - destruct (IH b) as [->|Hne]; constructor; congruence.
  - constructor; congruence.
Qed.

Lemma unit_eqb_spec a b : reflect (a = b) (unit_eqb a b).
Proof. destruct a, b; constructor; reflexivity. Qed.

Section DeltaProofs.
Context {V : Type}.
Variable veqb : V -> V -> bool.
Variable wv : V.
Hypothesis veqb_spec : forall a b, reflect (a = b) (veqb a b).

Notation construct := (@construct V veqb wv).
Notation merge := (@merge V veqb).
Notation fc := (@fc V veqb wv).
Notation fm := (@fm V veqb).

Lemma fj_fc o n : fj fc o n = fc o n.
Proof. destruct o, n; reflexivity. Qed.

Lemma fj_fm o n : fj fm o n = fm o n.
Proof. destruct o, n; reflexivity. Qed.

Lemma construct_sorted a b : ksorted a -> ksorted b -> ksorted (construct a b).
Proof. apply mjoin_sorted. Qed.

Lemma construct_lookup k a b : ksorted a -> ksorted b ->
  lookup k (construct a b) = fc (lookup k a) (lookup k b).
Proof. intros Ha Hb. unfold Model.construct. rewrite mjoin_lookup by assumption. apply fj_fc. Qed.

Lemma merge_sorted d1 d2 : ksorted d1 -> ksorted d2 -> ksorted (merge d1 d2).
Proof. apply mjoin_sorted. Qed.

Lemma merge_lookup k d1 d2 : ksorted d1 -> ksorted d2 ->
  lookup k (merge d1 d2) = fm (lookup k d1) (lookup k d2).
Proof. intros Ha Hb. unfold Model.merge. rewrite mjoin_lookup by assumption. apply fj_fm. Qed.

Lemma fc_none_iff o n : fc o n = None <-> o = n.
Proof.
  destruct o as [q|], n as [p|]; cbn [Model.fc]; try (split; congruence).
  destruct (veqb_spec q p) as [->|Hne]; split; congruence.
Qed.

(* empty exactly when equal *)
Lemma construct_nil_iff a b : ksorted a -> ksorted b -> (construct a b = [] <-> a = b).
Proof.
  intros Ha Hb. split.
  - intros E. apply ksorted_ext; [assumption..|]. intros k.
    apply fc_none_iff. rewrite <- construct_lookup by assumption. rewrite E. reflexivity.
  - intros <-. apply ksorted_ext; [apply construct_sorted; assumption | exact I |].
    intros k. rewrite construct_lookup by assumption. cbn [lookup]. apply fc_none_iff. reflexivity.
Qed.

(* applying a change set *)
Definition apply_spec (os : option V) (od : option (ditem V)) : option V :=
  match od with
  | None => os
  | Some (_, Withdraw _) => None
  | Some (v, _) => Some v
  end.

Lemma apply1_sorted (s : list (N * V)) (x : N * ditem V) : ksorted s -> ksorted (apply1 s x).
Proof.
  intros Hs. unfold apply1. destruct (snd (snd x)); [apply kinsert_sorted | apply kinsert_sorted | apply kremove_sorted]; exact Hs.
Qed.

Lemma apply_sorted (s : list (N * V)) (d : delta V) : ksorted s -> ksorted (apply s d).
Proof.
  unfold apply. revert s; induction d as [|x d IH]; intros s Hs; cbn [fold_left]; [exact Hs|].
  apply IH. apply apply1_sorted; exact Hs.
Qed.

Lemma apply_lookup k (s : list (N * V)) (d : delta V) : ksorted s -> ksorted d ->
  lookup k (apply s d) = apply_spec (lookup k s) (lookup k d).
Proof.
  unfold apply. revert s; induction d as [|[k0 [v a]] d IH]; intros s Hs Hd; cbn [fold_left lookup].
  - reflexivity.
  - destruct Hd as [Hl Hd]. rewrite IH by (try apply apply1_sorted; assumption).
    destruct (N.eqb_spec k k0) as [->|Hne].
    + rewrite (lookup_lb _ _ Hl). cbn [apply_spec]. unfold apply1; cbn [fst snd].
      destruct a; rewrite ?kinsert_lookup, ?kremove_lookup by exact Hs; rewrite N.eqb_refl; reflexivity.
    + f_equal. unfold apply1; cbn [fst snd].
      destruct a; rewrite ?kinsert_lookup, ?kremove_lookup by exact Hs;
        destruct (N.eqb_spec k k0); congruence.
Qed.

Lemma apply_construct a b : ksorted a -> ksorted b -> apply a (construct a b) = b.
Proof.
  intros Ha Hb. apply ksorted_ext; [apply apply_sorted; exact Ha | exact Hb |].
  intros k. rewrite apply_lookup by (try apply construct_sorted; assumption).
  rewrite construct_lookup by assumption.
  destruct (lookup k a) as [q|], (lookup k b) as [p|]; cbn [Model.fc apply_spec]; try reflexivity.
  destruct (veqb_spec q p) as [->|Hne]; reflexivity.
Qed.

(* exactness: which entries a change set lists *)
Lemma construct_In k v x a b : ksorted a -> ksorted b ->
  (In (k, (v, x)) (construct a b) <->
     match x with
     | Announce => lookup k a = None /\ lookup k b = Some v
     | Update q => lookup k a = Some q /\ lookup k b = Some v /\ q <> v
     | Withdraw q => lookup k a = Some q /\ lookup k b = None /\ v = wv
     end).
Proof.
  intros Ha Hb.
  assert (In (k, (v, x)) (construct a b) <-> lookup k (construct a b) = Some (v, x)) as ->.
  { split; [apply In_lookup; apply construct_sorted; assumption | apply lookup_In]. }
  rewrite construct_lookup by assumption.
  destruct (lookup k a) as [q|], (lookup k b) as [p|]; cbn [Model.fc];
    try destruct (veqb_spec q p) as [?|Hne]; subst; destruct x; intuition congruence.
Qed.

(* merging consecutive change sets *)
Lemma fm_fc (x y z : option V) : fm (fc x y) (fc y z) = fc x z.
Proof.
  destruct x as [x|], y as [y|], z as [z|]; cbn [Model.fc Model.fm Model.mtable];
    repeat match goal with
    | |- context [veqb ?a ?b] => destruct (veqb_spec a b) as [?|?]; subst
    end; cbn [Model.fc Model.fm Model.mtable]; try reflexivity; try congruence;
    repeat match goal with
    | |- context [veqb ?a ?b] => destruct (veqb_spec a b) as [?|?]; subst
    end; cbn [Model.fc Model.fm Model.mtable]; try reflexivity; try congruence.
Qed.

Lemma merge_construct a b c : ksorted a -> ksorted b -> ksorted c ->
  merge (construct a b) (construct b c) = construct a c.
Proof.
  intros Ha Hb Hc. apply ksorted_ext.
  - apply merge_sorted; apply construct_sorted; assumption.
  - apply construct_sorted; assumption.
  - intros k. rewrite merge_lookup by (apply construct_sorted; assumption).
    rewrite !construct_lookup by assumption. apply fm_fc.
Qed.

Lemma construct_same a : ksorted a -> construct a a = [].
Proof. intros Ha. apply construct_nil_iff; [assumption..|reflexivity]. Qed.

Lemma merge_nil_l d : merge [] d = only2 fm d.
Proof. reflexivity. Qed.

Lemma only2_fm_id d : only2 fm d = d.
Proof. induction d as [|[k x] d IH]; cbn [only2 Model.fm ocons]; [reflexivity|]. rewrite IH. reflexivity. Qed.

Lemma only1_fm_id d : only1 fm d = d.
Proof.
  induction d as [|[k [v x]] d IH]; cbn [only1 Model.fm ocons]; [reflexivity|]. rewrite IH. reflexivity.
Qed.

Lemma merge_nil_r d : merge d [] = d.
Proof. unfold Model.merge. rewrite mjoin_nil_r. apply only1_fm_id. Qed.

End DeltaProofs.

(* ---- chains of change sets (C12) ---- *)
Section Chain.
Context {V : Type}.
Variable veqb : V -> V -> bool.
Variable wv : V.
Hypothesis veqb_spec : forall a b, reflect (a = b) (veqb a b).
Notation construct := (@construct V veqb wv).
Notation merge := (@merge V veqb).

(* consecutive change sets of a sequence of data sets *)
Fixpoint steps (s0 : list (N * V)) (ss : list (list (N * V))) : list (delta V) :=
  match ss with
  | [] => []
  | s1 :: ss' => construct s0 s1 :: steps s1 ss'
  end.

Definition nonempty (d : delta V) : bool := match d with [] => false | _ => true end.

Lemma last_cons {A} (x d : A) l : last (x :: l) d = last l x.
Proof.
  revert x d; induction l as [|y l IH]; intros x d; [reflexivity|].
  change (last (x :: y :: l) d) with (last (y :: l) d).
  rewrite (IH y d), (IH y x). reflexivity.
Qed.

Lemma fold_merge_chain s0 s1 ss :
  ksorted s0 -> ksorted s1 -> Forall ksorted ss ->
  fold_left merge (steps s1 ss) (construct s0 s1) = construct s0 (last ss s1).
Proof.
  revert s1; induction ss as [|s2 ss IH]; intros s1 H0 H1 Hs; cbn [steps fold_left].
  - reflexivity.
  - inversion Hs as [|? ? H2 Hs']; subst.
    rewrite (merge_construct veqb wv veqb_spec) by assumption.
    rewrite IH by assumption. rewrite last_cons. reflexivity.
Qed.

Lemma fold_merge_skip_empty ds d :
  fold_left merge (filter nonempty ds) d = fold_left merge ds d.
Proof.
  revert d; induction ds as [|x ds IH]; intros d; cbn [filter fold_left]; [reflexivity|].
  destruct x as [|y x']; cbn [nonempty fold_left].
  - rewrite (merge_nil_r veqb). apply IH.
  - apply IH.
Qed.

End Chain.

(* ---- instances and the payload level ---- *)
Definition snap_sorted (s : snapshot) : Prop :=
  ksorted (origins s) /\ ksorted (rkeys s) /\ ksorted (aspas s).

Lemma snap_sortedb_spec s : snap_sortedb s = true <-> snap_sorted s.
Proof.
  unfold snap_sortedb, snap_sorted. rewrite !andb_true_iff, !ksortedb_spec. tauto.
Qed.

Lemma snapshot_eq s t :
  origins s = origins t -> rkeys s = rkeys t -> aspas s = aspas t -> s = t.
Proof. destruct s, t; cbn; intros; subst; reflexivity. Qed.

Lemma pconstruct_none_iff old new : snap_sorted old -> snap_sorted new ->
  (pconstruct old new = None <-> old = new).
Proof.
  intros (Ho1 & Ho2 & Ho3) (Hn1 & Hn2 & Hn3). unfold pconstruct, pd_is_empty, pconstruct_raw.
  cbn [d_origins d_rkeys d_aspas].
  pose proof (construct_nil_iff unit_eqb tt unit_eqb_spec _ _ Ho1 Hn1) as E1.
  pose proof (construct_nil_iff unit_eqb tt unit_eqb_spec _ _ Ho2 Hn2) as E2.
  pose proof (construct_nil_iff nlist_eqb [] nlist_eqb_spec _ _ Ho3 Hn3) as E3.
  fold sconstruct in E1, E2. fold aconstruct in E3.
  split.
  - intros H. apply snapshot_eq; [apply E1 | apply E2 | apply E3];
      destruct (sconstruct (origins old) (origins new)); try discriminate;
      destruct (sconstruct (rkeys old) (rkeys new)); try discriminate;
      destruct (aconstruct (aspas old) (aspas new)); try discriminate; reflexivity.
  - intros <-. rewrite (proj2 E1 eq_refl), (proj2 E2 eq_refl), (proj2 E3 eq_refl). reflexivity.
Qed.

Lemma papply_pconstruct old new : snap_sorted old -> snap_sorted new ->
  papply old (pconstruct_raw old new) = new.
Proof.
  intros (Ho1 & Ho2 & Ho3) (Hn1 & Hn2 & Hn3). unfold papply, pconstruct_raw.
  cbn [d_origins d_rkeys d_aspas]. unfold sconstruct, aconstruct.
  rewrite !(apply_construct unit_eqb tt unit_eqb_spec) by assumption.
  rewrite (apply_construct nlist_eqb [] nlist_eqb_spec) by assumption.
  destruct new; reflexivity.
Qed.

Lemma pmerge_pconstruct a b c : snap_sorted a -> snap_sorted b -> snap_sorted c ->
  pmerge (pconstruct_raw a b) (pconstruct_raw b c) = pconstruct_raw a c.
Proof.
  intros (A1 & A2 & A3) (B1 & B2 & B3) (C1 & C2 & C3). unfold pmerge, pconstruct_raw.
  cbn [d_origins d_rkeys d_aspas]. unfold smerge, amerge, sconstruct, aconstruct.
  rewrite !(merge_construct unit_eqb tt unit_eqb_spec) by assumption.
  rewrite (merge_construct nlist_eqb [] nlist_eqb_spec) by assumption. reflexivity.
Qed.

(* counts *)
Lemma filter_split_len {A} (p : A -> bool) (l : list A) :
  (length (filter p l) + length (filter (fun x => negb (p x)) l))%nat = length l.
Proof. induction l as [|x l IH]; cbn; [reflexivity|]. destruct (p x); cbn; lia. Qed.

Lemma counts_total {V} (d : delta V) :
  announce_len d + withdraw_len d = N.of_nat (length d).
Proof.
  unfold announce_len, withdraw_len.
  pose proof (filter_split_len (fun x : N * ditem V => is_withdraw (snd (snd x))) d) as H.
  cbv beta in H. rewrite <- H. rewrite Nat2N.inj_add. apply N.add_comm.
Qed.
