(* C11 — Deltas describe exactly the change between two data sets.
   Only statements, [exact], [Check] pins and [Print Assumptions]. *)
From Coq Require Import List NArith Bool.
From RV Require Import Base.KMap C11.Model C11.Proofs C11.Spec C11.SpecProofs.
Import ListNotations.
Local Open Scope N_scope.

(* empty exactly when the data sets are equal (PayloadDelta::construct returns None) *)
Theorem C11_empty_iff_equal : forall old new, snap_sorted old -> snap_sorted new ->
  (pconstruct old new = None <-> old = new).
Proof. exact pconstruct_none_iff. Qed.

(* applying the change set to the old data yields the new data *)
Theorem C11_apply : forall old new, snap_sorted old -> snap_sorted new ->
  papply old (pconstruct_raw old new) = new.
Proof. exact papply_pconstruct. Qed.

(* what is listed, exactly (route origins / router keys: V = unit) *)
Theorem C11_exact_std : forall k v x a b, ksorted a -> ksorted b ->
  (In (k, (v, x)) (sconstruct a b) <->
     match x with
     | Announce => lookup k a = None /\ lookup k b = Some v
     | Update q => lookup k a = Some q /\ lookup k b = Some v /\ q <> v
     | Withdraw q => lookup k a = Some q /\ lookup k b = None /\ v = tt
     end).
Proof. exact (construct_In unit_eqb tt unit_eqb_spec). Qed.

(* ASPAs: announced iff new customer or changed provider list; withdrawn (with no providers) iff customer gone *)
Theorem C11_exact_aspa : forall k v x a b, ksorted a -> ksorted b ->
  (In (k, (v, x)) (aconstruct a b) <->
     match x with
     | Announce => lookup k a = None /\ lookup k b = Some v
     | Update q => lookup k a = Some q /\ lookup k b = Some v /\ q <> v
     | Withdraw q => lookup k a = Some q /\ lookup k b = None /\ v = []
     end).
Proof. exact (construct_In nlist_eqb [] nlist_eqb_spec). Qed.

Theorem C11_sorted_std : forall a b, ksorted a -> ksorted b -> ksorted (sconstruct a b).
Proof. exact (construct_sorted unit_eqb tt). Qed.
Theorem C11_sorted_aspa : forall a b, ksorted a -> ksorted b -> ksorted (aconstruct a b).
Proof. exact (construct_sorted nlist_eqb []). Qed.

(* counts match the listed actions *)
Theorem C11_counts : forall V (d : delta V), announce_len d + withdraw_len d = N.of_nat (length d).
Proof. exact @counts_total. Qed.

(* the executable oracle used on the implementation's output is satisfied by the model on every input *)
Theorem C11_model_satisfies_spec : forall old new, snap_sorted old -> snap_sorted new ->
  spec_okb old new (model_obs old new) = true.
Proof. exact model_satisfies_spec. Qed.

(* premises are satisfiable, statement is not vacuous *)
Example C11_nonvacuous :
  let old := {| origins := [(1, tt); (4, tt)]; rkeys := [(2, tt)]; aspas := [(10, [1; 2]); (11, [3])] |} in
  let new := {| origins := [(1, tt); (3, tt)]; rkeys := []; aspas := [(10, [1; 5]); (12, [])] |} in
  snap_sorted old /\ snap_sorted new /\
  option_map pactions (pconstruct old new) =
    Some [(0, 3, [], false); (0, 4, [], true); (1, 2, [], true);
          (2, 10, [1; 5], false); (2, 11, [], true); (2, 12, [], false)].
Proof. split; [|split]; [apply snap_sortedb_spec; reflexivity | apply snap_sortedb_spec; reflexivity | reflexivity]. Qed.

Check C11_empty_iff_equal : forall old new, snap_sorted old -> snap_sorted new ->
  (pconstruct old new = None <-> old = new).
Check C11_apply : forall old new, snap_sorted old -> snap_sorted new ->
  papply old (pconstruct_raw old new) = new.
Check C11_model_satisfies_spec : forall old new, snap_sorted old -> snap_sorted new ->
  spec_okb old new (model_obs old new) = true.
