(* The model satisfies the executable oracle of C11 on every strictly
   sorted input (this ties the oracle evaluated on the implementation's
   output to the theorems). *)
From Coq Require Import List NArith Bool Lia.
From RV Require Import Base.KMap C11.Model C11.Proofs C11.Spec.
Import ListNotations.
Local Open Scope N_scope.

Section WireProofs.
Context {V : Type}.
Variable veqb : V -> V -> bool.
Variable wv : V.
Hypothesis veqb_spec : forall a b, reflect (a = b) (veqb a b).
Notation construct := (@construct V veqb wv).

Lemma kl_eqb_spec (a b : list (N * V)) : reflect (a = b) (kl_eqb veqb a b).
Proof.
  revert b; induction a as [|[k v] a IH]; intros [|[k' v'] b]; cbn [kl_eqb]; try (constructor; congruence).
  destruct (N.eqb_spec k k') as [->|Hne]; cbn [andb]; [|constructor; congruence].
  destruct (veqb_spec v v') as [->|Hne]; cbn [andb]; [|constructor; congruence].
  destruct (IH b) as [->|Hne]; constructor; congruence.
Qed.

Lemma oeqb_spec (a b : option V) : reflect (a = b) (oeqb veqb a b).
Proof.
  destruct a as [x|], b as [y|]; cbn [oeqb]; try (constructor; congruence).
  destruct (veqb_spec x y); constructor; congruence.
Qed.

Lemma wapply_wire (s : list (N * V)) (d : delta V) : wapply s (wire_of d) = apply s d.
Proof.
  unfold wapply, apply. revert s; induction d as [|[k [v x]] d IH]; intros s; cbn [wire_of map fold_left]; [reflexivity|].
  rewrite <- IH. f_equal. unfold wapply1, apply1; cbn [fst snd]. destruct x; reflexivity.
Qed.

Lemma keys_sortedb_wire (d : delta V) : ksorted d -> keys_sortedb (wire_of d) = true.
Proof.
  induction d as [|[k [v x]] d IH]; cbn [wire_of map keys_sortedb ksorted]; [reflexivity|].
  intros [Hl Hs]. destruct d as [|[k' [v' x']] d']; cbn [map fst snd]; [reflexivity|].
  apply andb_true_iff; split.
  - apply N.ltb_lt. apply (Hl k' (v', x')). left; reflexivity.
  - apply IH; exact Hs.
Qed.

Lemma In_wire k v wd (d : delta V) :
  In (k, v, wd) (wire_of d) -> exists x, In (k, (v, x)) d /\ wd = is_withdraw x.
Proof.
  unfold wire_of. rewrite in_map_iff. intros [[k' [v' x]] [E HI]]. cbn [fst snd] in E.
  inversion E; subst. exists x; split; [exact HI | reflexivity].
Qed.

Lemma actions_ok a b : ksorted a -> ksorted b ->
  forallb (action_ok veqb a b) (wire_of (construct a b)) = true.
Proof.
  intros Ha Hb. apply forallb_forall. intros [[k v] wd] HI.
  apply In_wire in HI as [x [HI ->]].
  apply (construct_In veqb wv veqb_spec k v x a b Ha Hb) in HI.
  unfold action_ok. destruct x; cbn [is_withdraw].
  - destruct HI as [H1 H2]. rewrite H1, H2. cbn [oeqb].
    destruct (veqb_spec v v); [reflexivity|congruence].
  - destruct HI as (H1 & H2 & H3). rewrite H1, H2. cbn [oeqb].
    destruct (veqb_spec v v); [|congruence]. destruct (veqb_spec old v); [congruence|reflexivity].
  - destruct HI as (H1 & H2 & H3). rewrite H1, H2. reflexivity.
Qed.

Lemma comp_ok_model a b : ksorted a -> ksorted b ->
  comp_ok veqb a b (wire_of (construct a b)) = true.
Proof.
  intros Ha Hb. unfold comp_ok. rewrite keys_sortedb_wire by (apply construct_sorted; assumption).
  rewrite actions_ok by assumption. rewrite wapply_wire.
  rewrite (apply_construct veqb wv veqb_spec) by assumption.
  destruct (kl_eqb_spec b b); [reflexivity|congruence].
Qed.

Lemma count_wd_false (d : delta V) : count_wd false (wire_of d) = announce_len d.
Proof.
  unfold count_wd, announce_len. f_equal.
  induction d as [|[k [v x]] d IH]; cbn [wire_of map filter fst snd]; [reflexivity|].
  fold (wire_of d). destruct x; cbn [is_withdraw negb Bool.eqb length]; rewrite IH; reflexivity.
Qed.

Lemma count_wd_true (d : delta V) : count_wd true (wire_of d) = withdraw_len d.
Proof.
  unfold count_wd, withdraw_len. f_equal.
  induction d as [|[k [v x]] d IH]; cbn [wire_of map filter fst snd]; [reflexivity|].
  fold (wire_of d). destruct x; cbn [is_withdraw negb Bool.eqb length]; rewrite IH; reflexivity.
Qed.

End WireProofs.

Lemma snap_eqb_spec a b : reflect (a = b) (snap_eqb a b).
Proof.
  unfold snap_eqb.
  destruct (kl_eqb_spec unit_eqb unit_eqb_spec (origins a) (origins b)) as [E1|N1]; cbn [andb];
    [|constructor; congruence].
  destruct (kl_eqb_spec unit_eqb unit_eqb_spec (rkeys a) (rkeys b)) as [E2|N2]; cbn [andb];
    [|constructor; congruence].
  destruct (kl_eqb_spec nlist_eqb nlist_eqb_spec (aspas a) (aspas b)) as [E3|N3];
    constructor; [apply snapshot_eq; assumption | congruence].
Qed.

Theorem model_satisfies_spec old new : snap_sorted old -> snap_sorted new ->
  spec_okb old new (model_obs old new) = true.
Proof.
  intros Ho Hn. pose proof Ho as (Ho1 & Ho2 & Ho3). pose proof Hn as (Hn1 & Hn2 & Hn3).
  pose proof (comp_ok_model unit_eqb tt unit_eqb_spec _ _ Ho1 Hn1) as C1.
  pose proof (comp_ok_model unit_eqb tt unit_eqb_spec _ _ Ho2 Hn2) as C2.
  pose proof (comp_ok_model nlist_eqb [] nlist_eqb_spec _ _ Ho3 Hn3) as C3.
  fold sconstruct in C1, C2. fold aconstruct in C3.
  pose proof (pconstruct_none_iff old new Ho Hn) as Hnone.
  unfold spec_okb, model_obs. unfold pconstruct in *. unfold pd_is_empty, pconstruct_raw in *.
  cbn [d_origins d_rkeys d_aspas] in *.
  destruct (sconstruct (origins old) (origins new)) as [|x1 l1] eqn:E1;
  [destruct (sconstruct (rkeys old) (rkeys new)) as [|x2 l2] eqn:E2;
   [destruct (aconstruct (aspas old) (aspas new)) as [|x3 l3] eqn:E3|]|].
  - (* all empty: None *)
    cbn [o_none o_origins o_rkeys o_aspas o_alen o_wlen].
    destruct (snap_eqb_spec old new) as [_|Hne]; [|exfalso; apply Hne; apply Hnone; reflexivity].
    cbn [Bool.eqb andb]. cbn [wire_of map] in C1, C2, C3. rewrite C1, C2, C3. reflexivity.
  - cbn [o_none o_origins o_rkeys o_aspas o_alen o_wlen d_origins d_rkeys d_aspas].
    destruct (snap_eqb_spec old new) as [Heq|_]; [apply Hnone in Heq; discriminate|].
    cbn [Bool.eqb andb]. rewrite C1, C2, C3. cbn [andb].
    unfold pannounce_len, pwithdraw_len. cbn [d_origins d_rkeys d_aspas].
    rewrite !count_wd_false, !count_wd_true, !N.eqb_refl. reflexivity.
  - cbn [o_none o_origins o_rkeys o_aspas o_alen o_wlen d_origins d_rkeys d_aspas].
    destruct (snap_eqb_spec old new) as [Heq|_]; [apply Hnone in Heq; discriminate|].
    cbn [Bool.eqb andb]. rewrite C1, C2, C3. cbn [andb].
    unfold pannounce_len, pwithdraw_len. cbn [d_origins d_rkeys d_aspas].
    rewrite !count_wd_false, !count_wd_true, !N.eqb_refl. reflexivity.
  - cbn [o_none o_origins o_rkeys o_aspas o_alen o_wlen d_origins d_rkeys d_aspas].
    destruct (snap_eqb_spec old new) as [Heq|_]; [apply Hnone in Heq; discriminate|].
    cbn [Bool.eqb andb]. rewrite C1, C2, C3. cbn [andb].
    unfold pannounce_len, pwithdraw_len. cbn [d_origins d_rkeys d_aspas].
    rewrite !count_wd_false, !count_wd_true, !N.eqb_refl. reflexivity.
Qed.
