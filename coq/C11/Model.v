(* C11/C12 model: change sets between two ordered data sets.
   Executable definitions only (no proofs), transcribed from
   src/payload/delta.rs:
     StandardDelta::construct / AspaDelta::construct  -> [construct]
     StandardDelta::merge     / AspaDelta::merge      -> [merge]
     PayloadDelta::{construct,merge,is_empty,actions,announce_len,withdraw_len}
   A data set component is an association list strictly sorted by key.
   For route origins and router keys the key is the whole item (its rank
   in the implementation's own [Ord]) and the value is [tt]; for ASPAs the
   key is the customer ASN and the value the provider list.  Both Rust
   loops are merge-joins (Base/KMap.mjoin) that differ only in their
   per-key decision table; [StandardDelta] is the [V = unit] instance of
   the ASPA table (Update never arises, the "same providers" test is
   always true).  *)
From Coq Require Import List NArith Bool.
From RV Require Import Base.KMap.
Import ListNotations.
Local Open Scope N_scope.

Section Delta.
Context {V : Type}.
Variable veqb : V -> V -> bool.
Variable wv : V.     (* payload carried by a withdrawal: Aspa::withdraw() has no providers *)

(* AspaAction *)
Inductive act := Announce | Update (old : V) | Withdraw (old : V).

Definition ditem : Type := V * act.
Definition delta : Type := list (N * ditem).

(* decision table of construct *)
Definition fc (o n : option V) : option ditem :=
  match o, n with
  | None, None => None
  | None, Some p => Some (p, Announce)
  | Some q, None => Some (wv, Withdraw q)
  | Some q, Some p => if veqb q p then None else Some (p, Update q)
  end.

Definition construct (old new : list (N * V)) : delta := mjoin fc old new.

(* decision table of merge, literally the nine cases of AspaDelta::merge *)
Definition mtable (a1 a2 : act) (newv : V) : option act :=
  match a1, a2 with
  | Announce, Announce => Some Announce
  | Announce, Update _ => Some Announce
  | Announce, Withdraw _ => None
  | Update p, Announce => Some (Update p)
  | Update p, Update _ => if veqb p newv then None else Some (Update p)
  | Update p, Withdraw _ => Some (Withdraw p)
  | Withdraw p, Announce => if veqb p newv then None else Some (Update p)
  | Withdraw p, Update _ => if veqb p newv then None else Some (Update p)
  | Withdraw p, Withdraw _ => Some (Withdraw p)
  end.

Definition fm (o n : option ditem) : option ditem :=
  match o, n with
  | None, r => r
  | l, None => l
  | Some (_, a1), Some (v2, a2) =>
      match mtable a1 a2 v2 with Some a => Some (v2, a) | None => None end
  end.

Definition merge (d1 d2 : delta) : delta := mjoin fm d1 d2.

(* What a client does with a change set. *)
Definition apply1 (s : list (N * V)) (x : N * ditem) : list (N * V) :=
  match snd (snd x) with
  | Withdraw _ => kremove (fst x) s
  | _ => kinsert (fst x) (fst (snd x)) s
  end.
Definition apply (s : list (N * V)) (d : delta) : list (N * V) := fold_left apply1 d s.

(* The wire view: Update is sent as an announcement. *)
Definition is_withdraw (a : act) : bool := match a with Withdraw _ => true | _ => false end.
Definition announce_len (d : delta) : N :=
  N.of_nat (length (filter (fun x => negb (is_withdraw (snd (snd x)))) d)).
Definition withdraw_len (d : delta) : N :=
  N.of_nat (length (filter (fun x => is_withdraw (snd (snd x))) d)).

End Delta.

Arguments act V : clear implicits.
Arguments Announce {V}.
Arguments Update {V} old.
Arguments Withdraw {V} old.
Arguments delta V : clear implicits.
Arguments ditem V : clear implicits.

(* ---- instances ---- *)
Definition unit_eqb (_ _ : unit) : bool := true.
Fixpoint nlist_eqb (a b : list N) : bool :=
  match a, b with
  | [], [] => true
  | x :: a', y :: b' => (x =? y) && nlist_eqb a' b'
  | _, _ => false
  end.

Definition sconstruct := @construct unit unit_eqb tt.
Definition smerge := @merge unit unit_eqb.
Definition aconstruct := @construct (list N) nlist_eqb [].
Definition amerge := @merge (list N) nlist_eqb.

(* ---- PayloadSnapshot / PayloadDelta ---- *)
Record snapshot := { origins : list (N * unit); rkeys : list (N * unit); aspas : list (N * list N) }.
Record pdelta := { d_origins : delta unit; d_rkeys : delta unit; d_aspas : delta (list N) }.

Definition pd_is_empty (d : pdelta) : bool :=
  match d_origins d, d_rkeys d, d_aspas d with [], [], [] => true | _, _, _ => false end.

Definition pconstruct_raw (old new : snapshot) : pdelta :=
  {| d_origins := sconstruct (origins old) (origins new);
     d_rkeys := sconstruct (rkeys old) (rkeys new);
     d_aspas := aconstruct (aspas old) (aspas new) |}.

Definition pconstruct (old new : snapshot) : option pdelta :=
  let r := pconstruct_raw old new in if pd_is_empty r then None else Some r.

Definition pmerge (d1 d2 : pdelta) : pdelta :=
  {| d_origins := smerge (d_origins d1) (d_origins d2);
     d_rkeys := smerge (d_rkeys d1) (d_rkeys d2);
     d_aspas := amerge (d_aspas d1) (d_aspas d2) |}.

Definition pd_empty : pdelta := {| d_origins := []; d_rkeys := []; d_aspas := [] |}.

Definition papply (s : snapshot) (d : pdelta) : snapshot :=
  {| origins := apply (origins s) (d_origins d);
     rkeys := apply (rkeys s) (d_rkeys d);
     aspas := apply (aspas s) (d_aspas d) |}.

(* actions(): (type tag, key, providers, is_withdraw) in wire order *)
Definition wire {V} (ty : N) (prov : V -> list N) (d : delta V) : list (N * N * list N * bool) :=
  map (fun x => (ty, fst x, prov (fst (snd x)), is_withdraw (snd (snd x)))) d.
Definition pactions (d : pdelta) : list (N * N * list N * bool) :=
  wire 0 (fun _ => []) (d_origins d) ++ wire 1 (fun _ => []) (d_rkeys d) ++ wire 2 (fun p => p) (d_aspas d).
Definition pannounce_len (d : pdelta) : N :=
  announce_len (d_origins d) + announce_len (d_rkeys d) + announce_len (d_aspas d).
Definition pwithdraw_len (d : pdelta) : N :=
  withdraw_len (d_origins d) + withdraw_len (d_rkeys d) + withdraw_len (d_aspas d).

Definition snap_sortedb (s : snapshot) : bool :=
  ksortedb (origins s) && ksortedb (rkeys s) && ksortedb (aspas s).
