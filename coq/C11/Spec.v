(* C11: the property as an executable oracle over the wire view of a
   change set (what a router or /json-delta client sees), and the case
   checker used by the correspondence run.  No proofs here. *)
From Coq Require Import List NArith Bool.
From RV Require Export Base.KMap C11.Model.
Import ListNotations.
Local Open Scope N_scope.

Section Wire.
Context {V : Type}.
Variable veqb : V -> V -> bool.

Definition waction : Type := N * V * bool.          (* key, payload, is_withdraw *)

Definition wire_of (d : delta V) : list waction :=
  map (fun x => (fst x, fst (snd x), is_withdraw (snd (snd x)))) d.

Definition wapply1 (s : list (N * V)) (a : waction) : list (N * V) :=
  let '(k, v, wd) := a in if wd then kremove k s else kinsert k v s.
Definition wapply (s : list (N * V)) (acts : list waction) : list (N * V) := fold_left wapply1 acts s.

Definition oeqb (a b : option V) : bool :=
  match a, b with
  | Some x, Some y => veqb x y
  | None, None => true
  | _, _ => false
  end.

Fixpoint kl_eqb (a b : list (N * V)) : bool :=
  match a, b with
  | [], [] => true
  | (k, v) :: a', (k', v') :: b' => (k =? k') && veqb v v' && kl_eqb a' b'
  | _, _ => false
  end.

Fixpoint keys_sortedb (l : list waction) : bool :=
  match l with
  | [] => true
  | (k, _, _) :: t => match t with [] => true | (k', _, _) :: _ => (k <? k') && keys_sortedb t end
  end.

(* an announcement lists an entry of [new] that [old] does not have in that
   form; a withdrawal lists a key of [old] absent from [new] *)
Definition action_ok (old new : list (N * V)) (a : waction) : bool :=
  let '(k, v, wd) := a in
  if wd then match lookup k old, lookup k new with Some _, None => true | _, _ => false end
  else oeqb (lookup k new) (Some v) && negb (oeqb (lookup k old) (Some v)).

Definition comp_ok (old new : list (N * V)) (acts : list waction) : bool :=
  keys_sortedb acts && forallb (action_ok old new) acts && kl_eqb (wapply old acts) new.

End Wire.

Definition snap_eqb (a b : snapshot) : bool :=
  kl_eqb unit_eqb (origins a) (origins b) && kl_eqb unit_eqb (rkeys a) (rkeys b)
  && kl_eqb nlist_eqb (aspas a) (aspas b).

(* The observation of one construct call, in wire form. *)
Record obs := {
  o_none : bool;
  o_origins : list (N * unit * bool);
  o_rkeys : list (N * unit * bool);
  o_aspas : list (N * list N * bool);
  o_alen : N;
  o_wlen : N }.

Definition count_wd {V} (wd : bool) (l : list (N * V * bool)) : N :=
  N.of_nat (length (filter (fun a => Bool.eqb (snd a) wd) l)).

Definition model_obs (old new : snapshot) : obs :=
  match pconstruct old new with
  | None => {| o_none := true; o_origins := []; o_rkeys := []; o_aspas := []; o_alen := 0; o_wlen := 0 |}
  | Some d => {| o_none := false;
                 o_origins := wire_of (d_origins d); o_rkeys := wire_of (d_rkeys d);
                 o_aspas := wire_of (d_aspas d);
                 o_alen := pannounce_len d; o_wlen := pwithdraw_len d |}
  end.

(* The property, executable: C11's statement on (old, new, observed change set). *)
Definition spec_okb (old new : snapshot) (o : obs) : bool :=
  Bool.eqb (o_none o) (snap_eqb old new)
  && (if o_none o then match o_origins o, o_rkeys o, o_aspas o with [], [], [] => true | _, _, _ => false end else true)
  && comp_ok unit_eqb (origins old) (origins new) (o_origins o)
  && comp_ok unit_eqb (rkeys old) (rkeys new) (o_rkeys o)
  && comp_ok nlist_eqb (aspas old) (aspas new) (o_aspas o)
  && (o_alen o =? count_wd false (o_origins o) + count_wd false (o_rkeys o) + count_wd false (o_aspas o))
  && (o_wlen o =? count_wd true (o_origins o) + count_wd true (o_rkeys o) + count_wd true (o_aspas o)).

Definition wl_eqb {V} (veqb : V -> V -> bool) (a b : list (N * V * bool)) : bool :=
  Nat.eqb (length a) (length b) &&
  forallb (fun p => let '((k, v, w), (k', v', w')) := p in (k =? k') && veqb v v' && Bool.eqb w w') (combine a b).

Definition obs_eqb (a b : obs) : bool :=
  Bool.eqb (o_none a) (o_none b) && wl_eqb unit_eqb (o_origins a) (o_origins b)
  && wl_eqb unit_eqb (o_rkeys a) (o_rkeys b) && wl_eqb nlist_eqb (o_aspas a) (o_aspas b)
  && (o_alen a =? o_alen b) && (o_wlen a =? o_wlen b).

(* One correspondence case: inputs as the implementation iterates them
   (items mapped to their rank) and what the implementation returned.
   Result codes: 0 model = impl and property holds on impl's output;
   1 property holds on impl's output but the model disagrees;
   2 the property fails on the implementation's output;
   9 the inputs violate the precondition (implementation's snapshot not strictly sorted). *)
Record case := { c_old : snapshot; c_new : snapshot; c_impl : obs }.

Definition check_case (c : case) : N :=
  if negb (snap_sortedb (c_old c) && snap_sortedb (c_new c)) then 9
  else if negb (spec_okb (c_old c) (c_new c) (c_impl c)) then 2
  else if obs_eqb (model_obs (c_old c) (c_new c)) (c_impl c) then 0 else 1.
