(* C01 -- only validated payload reaches routers: the executable oracle and the case checker.
   The oracle: every served item is carried by an object all of whose checks pass, listed with a
   matching hash on a usable (fetched or stored) manifest version of a CA reached by an unbroken
   chain from a TAL-matching trust anchor ([sr_upper], the executable form of Engine.Spec.Carried).
   No proofs here. *)
From Coq Require Import List NArith ZArith Bool.
From RV Require Export Engine.Check.
Import ListNotations.
Local Open Scope N_scope.

Definition oracle_c01 (sr : step_res) (o : run_obs) : bool := inclb (ob_payload o) (sr_upper sr).

(* 0 model = implementation and oracle true; 1 oracle true, model and implementation differ;
   2 oracle false (violation); 9 precondition of the model violated *)
Definition check_case (c : case) : N := check_with oracle_c01 c.

(* the oracle as a function of the engine's inputs for one run, and the model's observation *)
Definition spec_okb (cf : cfg) (w : world) (tals : list tal) (payload : list item) : bool :=
  match run_gen (upper_point cf w) (fuel_for cf) w tals with
  | Ok up => inclb payload (o_items up)
  | OutOfFuel => false
  end.

Definition model_obs (cf : cfg) (perm : N -> list entry -> list entry) (w : world) (tals : list tal) : list item :=
  match run (fuel_for cf) cf perm w tals with Ok r => r_payload r | OutOfFuel => [] end.
