(* C01 -- the oracle of C01/Spec.v is exactly Engine.Spec.Carried, and the model satisfies it. *)
From Coq Require Import List NArith ZArith Bool.
From RV Require Import Engine.Model Engine.Spec Engine.Proofs Engine.Oracle Engine.OracleProofs C01.Spec.
Import ListNotations.
Local Open Scope N_scope.

Definition perm_ok (perm : N -> list entry -> list entry) : Prop := forall id l x, In x (perm id l) <-> In x l.

Lemma perm_id_ok : perm_ok perm_id.
Proof. intros id l x. reflexivity. Qed.

(* the executable upper set is the set of carried items, no more, no less *)
Lemma upper_exact : forall cf w tals up,
  run_gen (upper_point cf w) (fuel_for cf) w tals = Ok up ->
  forall it, In it (o_items up) <-> Carried cf w tals it.
Proof.
  intros cf w tals up H it. split.
  - intro Hin. apply carried_usable. eapply gen_run_sound; [apply upper_sound | exact H | exact Hin].
  - intro Hc. eapply gen_run_complete; [apply upper_complete | exact H | apply carried_usable; exact Hc].
Qed.

Lemma upper_total : forall cf w tals, exists up, run_gen (upper_point cf w) (fuel_for cf) w tals = Ok up.
Proof. intros. apply gen_run_fuel. apply upper_depth. Qed.

(* the oracle holds of an observation iff every observed item is carried *)
Lemma spec_okb_iff : forall cf w tals payload,
  spec_okb cf w tals payload = true <-> forall it, In it payload -> Carried cf w tals it.
Proof.
  intros cf w tals payload. unfold spec_okb. destruct (upper_total cf w tals) as [up Hup]. rewrite Hup.
  rewrite inclb_spec. split.
  - intros H it Hin. apply (upper_exact _ _ _ _ Hup). apply H. exact Hin.
  - intros H it Hin. apply (upper_exact _ _ _ _ Hup). apply H. exact Hin.
Qed.

Lemma model_satisfies_spec : forall cf perm w tals, perm_ok perm ->
  spec_okb cf w tals (model_obs cf perm w tals) = true.
Proof.
  intros cf perm w tals Hp. apply spec_okb_iff. intros it Hin. unfold model_obs in Hin.
  destruct (run (fuel_for cf) cf perm w tals) as [r|] eqn:Hr; [|contradiction].
  eapply run_sound; eassumption.
Qed.
