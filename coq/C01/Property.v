(* C01 -- Only validated payload reaches routers.
   Only statements, [exact], [Check] pins.  Engine model: Engine/Model.v; declarative reading:
   Engine/Spec.v.  The verdicts of the rpki crate are inputs (the verdict bits of certificates and
   objects); everything the engine itself decides is modelled. *)
From Coq Require Import List NArith ZArith Bool.
From RV Require Import Engine.Model Engine.Spec Engine.Proofs Engine.Oracle Engine.OracleProofs Engine.Example
                       C01.Spec C01.Proofs.
Import ListNotations.
Local Open Scope N_scope.

(* Every served item is carried by an object that validates under a CA certificate reached from a
   configured TAL by an unbroken chain of good CA certificates, and is listed with a matching hash
   on a manifest version (fetched, or the stored copy) that passes every manifest and CRL check.
   For every graph (cyclic or not), store, configuration, walk order and fuel. *)
Theorem C01_sound : forall perm, perm_ok perm -> forall cf w tals fuel r,
  run fuel cf perm w tals = Ok r -> forall it, In it (r_payload r) -> Carried cf w tals it.
Proof. exact run_sound. Qed.

(* What "carried by an entry" means: the object is a router certificate, ROA or ASPA with all
   verdict bits good (decodes, signed by the key the issuer certificate carries, resources within,
   valid now, CRL URI right, serial not on the version's CRL); anything else contributes nothing. *)
Theorem C01_only_good_objects : forall cf p pkey v e it,
  In it (entry_items cf p pkey v e) ->
  item_kept cf it = true /\
  ((exists c keys, e_ext e = XCer /\ e_obj e = ORouter c keys /\ cert_good p pkey v c /\ In it keys) \/
   (exists k ee items, (e_ext e = XRoa /\ k = KRoa \/ e_ext e = XAsa /\ k = KAspa) /\
        e_obj e = OSigned k true true ee items /\ cert_good p pkey v ee /\ In it items)).
Proof. exact entry_items_good. Qed.

(* A CA certificate on the chain is a good one: all bits good, key not yet on the chain, depth within the limit *)
Theorem C01_chain_links_good : forall cf p pkey v chain depth c,
  child_ok cf p pkey v chain depth c = true ->
  cert_good p pkey v c /\ ~ In (c_key c) chain /\ (S depth <= max_depth cf)%nat.
Proof. exact child_ok_good. Qed.

(* The chain starts at a certificate with the TAL's key that validates as a trust anchor *)
Theorem C01_ta_binding : forall w tkey us c,
  select_ta w tkey us = Some c ->
  c_key c = tkey /\ c_sig_ok c = true /\ c_valid_now c = true /\ exists u, In u us /\ load_ta w u = Some c.
Proof. exact select_ta_sound. Qed.

(* The store only ever receives complete, verified versions *)
Theorem C01_store_wf : forall perm, perm_ok perm -> forall cf w p chain depth items children s,
  process_point cf perm w p chain depth = PAccepted items children (Some s) -> stored_wf s.
Proof. exact process_point_update_wf. Qed.

(* The run terminates on every graph with the fuel the checker uses; more fuel changes nothing *)
Theorem C01_total : forall perm, perm_ok perm -> forall cf w tals, exists r, run (fuel_for cf) cf perm w tals = Ok r.
Proof. exact run_fuel. Qed.

(* The executable oracle is the property: it holds of a payload iff every item is carried *)
Theorem C01_oracle_is_property : forall cf w tals payload,
  spec_okb cf w tals payload = true <-> forall it, In it payload -> Carried cf w tals it.
Proof. exact spec_okb_iff. Qed.

Theorem C01_model_satisfies_spec : forall cf perm w tals, perm_ok perm ->
  spec_okb cf w tals (model_obs cf perm w tals) = true.
Proof. exact model_satisfies_spec. Qed.

(* Non-vacuity: a two-level world yields exactly the good ROA and ASPA; the ROA whose EE certificate
   has a bad signature contributes nothing; the oracle rejects an observation containing it. *)
Example C01_nonvacuous :
  perm_ok perm_id /\
  model_obs ex_cfg perm_id ex_world [ex_tal] = [vrp1; aspa1] /\
  spec_okb ex_cfg ex_world [ex_tal] [vrp1; aspa1] = true /\
  spec_okb ex_cfg ex_world [ex_tal] [vrp1; vrp2] = false.
Proof. split; [exact perm_id_ok|]. split; [|split]; vm_compute; reflexivity. Qed.

Check C01_sound : forall perm, perm_ok perm -> forall cf w tals fuel r,
  run fuel cf perm w tals = Ok r -> forall it, In it (r_payload r) -> Carried cf w tals it.
Check C01_oracle_is_property : forall cf w tals payload,
  spec_okb cf w tals payload = true <-> forall it, In it payload -> Carried cf w tals it.
Check C01_model_satisfies_spec : forall cf perm w tals, perm_ok perm ->
  spec_okb cf w tals (model_obs cf perm w tals) = true.
