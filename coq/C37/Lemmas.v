(* C37: facts about the data structures of the model (sets, the running map,
   the held list, the log). *)
From Coq Require Import List NArith Bool Arith Lia.
From RV Require Import Base.Sched C37.Model.
Import ListNotations.
Local Open Scope N_scope.

Lemma memb_In : forall x l, memb x l = true <-> In x l.
Proof.
  intros x l. induction l as [| y t IH]; cbn [memb In].
  - split; [discriminate | tauto].
  - rewrite orb_true_iff, IH, N.eqb_eq. split; intros [H | H]; auto.
Qed.

Lemma memb_set_add : forall x k u, memb x (set_add k u) = (x =? k) || memb x u.
Proof.
  intros x k u. unfold set_add. destruct (memb k u) eqn:E; cbn [memb]; auto.
  destruct (N.eqb_spec x k) as [-> |]; cbn [orb]; auto.
Qed.

Lemma memb_set_add_mono : forall x k u, memb x u = true -> memb x (set_add k u) = true.
Proof. intros. rewrite memb_set_add, H. apply orb_true_r. Qed.

Lemma memb_set_add_same : forall k u, memb k (set_add k u) = true.
Proof. intros. rewrite memb_set_add, N.eqb_refl. reflexivity. Qed.

Lemma rlookup_rremove_neq : forall k k' r, k <> k' -> rlookup k (rremove k' r) = rlookup k r.
Proof.
  intros k k' r Hn. induction r as [| [k0 m] t IH]; cbn [rlookup rremove]; auto.
  destruct (N.eqb_spec k' k0) as [-> |].
  - destruct (N.eqb_spec k k0); [contradiction | exact IH].
  - cbn [rlookup]. destruct (N.eqb_spec k k0); auto.
Qed.

Lemma rlookup_cons_neq : forall k k' m r, k <> k' -> rlookup k ((k', m) :: r) = rlookup k r.
Proof. intros. cbn [rlookup]. destruct (N.eqb_spec k k'); [contradiction | reflexivity]. Qed.

Lemma rlookup_cons_eq : forall k m r, rlookup k ((k, m) :: r) = Some m.
Proof. intros. cbn [rlookup]. rewrite N.eqb_refl. reflexivity. Qed.

Lemma is_held_false : forall m h, is_held m h = false -> ~ In m (map fst h).
Proof.
  intros m h. induction h as [| [m' i] t IH]; cbn [is_held map In fst]; [tauto |].
  rewrite orb_false_iff, N.eqb_neq. intros [Hn Ht] [He | Hi]; [congruence | exact (IH Ht Hi)].
Qed.

Lemma is_held_In : forall m i h, In (m, i) h -> is_held m h = true.
Proof.
  intros m i h. induction h as [| [m' j] t IH]; cbn [is_held In]; [tauto |].
  intros [He | Hi]; [inversion He; subst; rewrite N.eqb_refl; reflexivity |].
  rewrite (IH Hi). apply orb_true_r.
Qed.

Lemma held_unique : forall (h : list (mid * nat)) m i j, NoDup (map fst h) -> In (m, i) h -> In (m, j) h -> i = j.
Proof.
  intros h m i j. induction h as [| [m' i'] t IH]; cbn [map fst In]; [tauto |].
  intros Hnd [H1 | H1] [H2 | H2]; inversion Hnd; subst.
  - congruence.
  - inversion H1; subst. exfalso. apply H3. apply (in_map fst) in H2. exact H2.
  - inversion H2; subst. exfalso. apply H3. apply (in_map fst) in H1. exact H1.
  - auto.
Qed.

Lemma release_In : forall m h x, In x (release m h) -> In x h.
Proof.
  intros m h x. induction h as [| [m' i] t IH]; cbn [release In]; [tauto |].
  destruct (m =? m'); cbn [In]; intuition.
Qed.

Lemma release_keeps : forall m h m' j, m' <> m -> In (m', j) h -> In (m', j) (release m h).
Proof.
  intros m h m' j Hn. induction h as [| [m0 i] t IH]; cbn [release In]; [tauto |].
  intros [He | Hi].
  - inversion He; subst. destruct (N.eqb_spec m m'); [congruence | left; reflexivity].
  - destruct (m =? m0); [| right]; auto.
Qed.

Lemma release_nodup : forall m h, NoDup (map fst h) -> NoDup (map fst (release m h)).
Proof.
  intros m h. induction h as [| [m' i] t IH]; cbn [release map fst]; auto.
  intros Hnd. inversion Hnd; subst. destruct (m =? m'); auto.
  cbn [map fst]. constructor; auto.
  intros Hin. apply H1. apply in_map_iff in Hin. destruct Hin as [[a b] [Hf Hx]]. cbn in Hf. subst a.
  apply release_In in Hx. apply (in_map fst) in Hx. exact Hx.
Qed.

Lemma has_end_cons : forall k e l, has_end k l = true -> has_end k (e :: l) = true.
Proof. intros k e l H. destruct e; cbn [has_end]; auto. rewrite H. apply orb_true_r. Qed.

Lemma has_end_here : forall k i l, has_end k (EEnd i k :: l) = true.
Proof. intros. cbn [has_end]. rewrite N.eqb_refl. reflexivity. Qed.

Definition is_start (e : event) : bool := match e with EStart _ _ => true | _ => false end.

Lemma starts_cons_other : forall k e l, is_start e = false -> starts k (e :: l) = starts k l.
Proof. intros k e l H. destruct e; cbn [starts]; auto. discriminate. Qed.

Lemma rets_ok_cons_other : forall dub e l, (forall i k, e <> ERet i k) -> rets_ok dub (e :: l) = rets_ok dub l.
Proof. intros dub e l H. destruct e; cbn [rets_ok]; auto. exfalso. eapply H. reflexivity. Qed.

(* [rets_ok] in words *)
Lemma rets_ok_spec : forall dub l, rets_ok dub l = true ->
  forall l1 i k l2, l = l1 ++ ERet i k :: l2 -> dub k = true \/ exists j, In (EEnd j k) l2.
Proof.
  intros dub l. induction l as [| e t IH]; intros H l1 i k l2 E.
  - destruct l1; discriminate.
  - destruct l1 as [| e1 l1]; cbn [app] in E; inversion E; subst.
    + cbn [rets_ok] in H. apply andb_true_iff in H. destruct H as [H _].
      apply orb_true_iff in H. destruct H as [H | H]; auto. right.
      clear - H. induction l2 as [| e t IH]; cbn [has_end] in H; [discriminate |].
      destruct e; try (destruct (IH H) as [j Hj]; exists j; right; exact Hj).
      apply orb_true_iff in H. destruct H as [H | H].
      * apply N.eqb_eq in H. subst. exists i. left. reflexivity.
      * destruct (IH H) as [j Hj]. exists j. right. exact Hj.
    + apply (IH) with (l1 := l1) (i := i); auto.
      destruct e1; cbn [rets_ok] in H; auto. apply andb_true_iff in H. tauto.
Qed.

Lemma starts_count : forall k l, starts k l = length (filter (fun e => match e with EStart _ k' => k =? k' | _ => false end) l).
Proof.
  intros k l. induction l as [| e t IH]; cbn [starts filter length]; auto.
  destruct e; auto. destruct (k =? k0); cbn [length]; auto.
Qed.
