(* C37: the invariant holds after every schedule; the statements of the
   property; the oracle holds of the model; the old order is refuted. *)
From Coq Require Import List NArith Bool Arith Lia.
From RV Require Import Base.Sched C37.Model C37.Lemmas C37.Proofs C37.Spec.
Import ListNotations.
Local Open Scope N_scope.

Lemma init_inv : forall dub todos, Inv dub (shared (init todos)) (locals (init todos)).
Proof.
  intros dub todos. constructor; cbn.
  - constructor.
  - discriminate.
  - reflexivity.
  - intros k. cbn. split; [lia | intros H; lia].
  - intros i t H. apply nth_error_In in H. apply in_map_iff in H. destruct H as [todo [<- _]].
    unfold tinv, thread0. cbn. destruct todo; exact I.
Qed.

Section Fixed.
Variable v : variant.
Variable dub : key -> bool.
Hypothesis Hv : old_order v = false.

Lemma run_inv : forall todos sched,
  Inv dub (shared (runs v dub sched (init todos))) (locals (runs v dub sched (init todos))).
Proof.
  intros todos sched. unfold runs.
  apply (run_invariant_steps mem thread (step v dub) (Inv dub)).
  - intros i g ls l g' l' HI Hn Hs. eapply step_inv; eauto.
  - apply init_inv.
Qed.

Lemma fetch_at_most_once : forall todos sched k,
  (starts k (log (shared (runs v dub sched (init todos)))) <= 1)%nat.
Proof. intros. destruct (inv_starts _ _ _ (run_inv todos sched) k). auto. Qed.

Lemma rets_ok_always : forall todos sched,
  rets_ok dub (log (shared (runs v dub sched (init todos)))) = true.
Proof. intros. apply (inv_rets _ _ _ (run_inv todos sched)). Qed.

Lemma no_return_before_fetch_end : forall todos sched l1 i k l2,
  log (shared (runs v dub sched (init todos))) = l1 ++ ERet i k :: l2 ->
  dub k = true \/ exists j, In (EEnd j k) l2.
Proof. intros. eapply rets_ok_spec; eauto. apply rets_ok_always. Qed.

(* at most one thread is between the failed second look and the insert, per key *)
Lemma one_updater : forall todos sched i j ti tj k ri rj,
  nth_error (locals (runs v dub sched (init todos))) i = Some ti ->
  nth_error (locals (runs v dub sched (init todos))) j = Some tj ->
  t_todo ti = k :: ri -> t_todo tj = k :: rj ->
  in_section (t_pc ti) = true -> in_section (t_pc tj) = true -> i = j.
Proof. intros. eapply section_unique; eauto. apply run_inv. Qed.

(* whoever is past the insert (or found the key under the mutex) sees the key in `updated` *)
Lemma updated_recorded : forall todos sched k,
  memb k (updated (shared (runs v dub sched (init todos)))) = true ->
  dub k = true \/ has_end k (log (shared (runs v dub sched (init todos)))) = true.
Proof. intros. apply (inv_upd _ _ _ (run_inv todos sched)). auto. Qed.

End Fixed.

(* ---- the oracle on the model's own observation --------------------------- *)

Lemma decode_event_code : forall e, decode (event_code e) = Some e.
Proof. destruct e; cbn; rewrite Nnat.Nat2N.id; reflexivity. Qed.

Lemma decode_all_codes : forall l acc, decode_all (map event_code l) acc = Some (rev l ++ acc).
Proof.
  induction l as [| e t IH]; intros acc; cbn [map decode_all rev app]; auto.
  rewrite decode_event_code, IH, <- app_assoc. reflexivity.
Qed.

Lemma log_okb_intro : forall dub l,
  (forall k, (starts k l <= 1)%nat) -> rets_ok dub l = true -> log_okb dub l = true.
Proof.
  intros dub l H1 H2. unfold log_okb. rewrite H2, andb_true_r.
  apply forallb_forall. intros e _. apply Nat.leb_le. apply H1.
Qed.

Lemma variant_of_fixed : forall rrdp, old_order (variant_of rrdp) = false.
Proof. destruct rrdp; reflexivity. Qed.

Lemma model_satisfies_spec : forall rrdp dubs todos sched,
  spec_okb rrdp dubs todos sched (model_obs rrdp dubs todos sched) = true.
Proof.
  intros. unfold spec_okb, model_obs, model_obs_v. cbn [o_log].
  rewrite decode_all_codes, rev_involutive, app_nil_r.
  apply log_okb_intro.
  - intros k. apply fetch_at_most_once. apply variant_of_fixed.
  - apply rets_ok_always. apply variant_of_fixed.
Qed.

(* the oracle means what it says *)
Lemma log_okb_starts : forall dub l, log_okb dub l = true -> forall k, (starts k l <= 1)%nat.
Proof.
  intros dub l H k. unfold log_okb in H. apply andb_true_iff in H. destruct H as [H _].
  rewrite forallb_forall in H.
  destruct (starts k l) as [| n] eqn:E; [lia |].
  assert (Hin : exists i, In (EStart i k) l).
  { clear H. induction l as [| e t IH]; cbn [starts] in E; [discriminate |].
    destruct e; try (destruct (IH E) as [i0 Hi]; exists i0; right; exact Hi).
    destruct (N.eqb_spec k k0) as [-> |].
    - exists i. left. reflexivity.
    - destruct (IH E) as [i0 Hi]. exists i0. right. exact Hi. }
  destruct Hin as [i Hi]. specialize (H _ Hi). cbn [event_key] in H. apply Nat.leb_le in H. lia.
Qed.

(* ---- the old order ------------------------------------------------------- *)

(* rsync `load_module` before the fix: thread 0 updates module 5 and removes it
   from `running`; before it inserts it into `updated`, thread 1 finds it in
   neither, makes a fresh mutex and runs rsync for module 5 again. *)
Definition old_todos : list (list key) := [[5]; [5]].
Definition old_sched : list nat := [0; 0; 0; 0; 0; 0; 0; 1; 1; 1; 1; 1]%nat.

Lemma old_order_refuted :
  starts 5 (log (shared (runs RsyncOld (fun _ => false) old_sched (init old_todos)))) = 2%nat.
Proof. vm_compute. reflexivity. Qed.

Lemma old_order_oracle_false :
  spec_okb false [] old_todos old_sched (model_obs_v RsyncOld [] old_todos old_sched) = false.
Proof. vm_compute. reflexivity. Qed.

Lemma fixed_order_same_schedule :
  starts 5 (log (shared (runs Rsync (fun _ => false) old_sched (init old_todos)))) = 1%nat.
Proof. vm_compute. reflexivity. Qed.
