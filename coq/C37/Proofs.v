(* C37: the invariant of the fixed orders ([Rsync], [Rrdp]) and its
   preservation by every atomic step of every thread. *)
From Coq Require Import List NArith Bool Arith Lia.
From RV Require Import Base.Sched C37.Model C37.Lemmas.
Import ListNotations.
Local Open Scope N_scope.

(* the thread is between the failed second look into `updated` and the insert *)
Definition in_section (p : pc) : bool :=
  match p with PUnchecked2 _ | PFetching _ | PFetched _ => true | _ => false end.

Definition fetching_pc (p : pc) : bool :=
  match p with PFetching _ | PFetched _ => true | _ => false end.

(* What is known about thread [i] at each place. *)
Definition tinv (g : mem) (i : nat) (t : thread) : Prop :=
  match t_todo t with
  | [] => True
  | k :: _ =>
    match t_pc t with
    | PStart | PChecked1 => True
    | PGot m => memb k (updated g) = false -> rlookup k (running g) = Some m
    | PLocked m => In (m, i) (held g) /\ (memb k (updated g) = false -> rlookup k (running g) = Some m)
    | PUnchecked2 m | PFetching m =>
        In (m, i) (held g) /\ memb k (updated g) = false /\ rlookup k (running g) = Some m
    | PFetched m =>
        In (m, i) (held g) /\ memb k (updated g) = false /\ rlookup k (running g) = Some m
        /\ has_end k (log g) = true
    | PInserted m | PRemoved m | PFound2 m | PRemoved2 m =>
        In (m, i) (held g) /\ memb k (updated g) = true
    end
  end.

(* a started fetch of a key not yet in `updated` belongs to a thread that is still at it *)
Definition starts_inv (g : mem) (ls : list thread) : Prop :=
  forall k, (starts k (log g) <= 1)%nat /\
    ((1 <= starts k (log g))%nat -> memb k (updated g) = true \/
       exists i t rest, nth_error ls i = Some t /\ t_todo t = k :: rest /\ fetching_pc (t_pc t) = true).

Section Fixed.
Variable v : variant.
Variable dub : key -> bool.
Hypothesis Hv : old_order v = false.

Record Inv (g : mem) (ls : list thread) : Prop := {
  inv_nodup : NoDup (map fst (held g));
  inv_upd : forall k, memb k (updated g) = true -> dub k = true \/ has_end k (log g) = true;
  inv_rets : rets_ok dub (log g) = true;
  inv_starts : starts_inv g ls;
  inv_thr : forall i t, nth_error ls i = Some t -> tinv g i t
}.

Lemma inv_build : forall g ls i t g' t',
  Inv g ls -> nth_error ls i = Some t ->
  NoDup (map fst (held g')) ->
  (forall k, memb k (updated g') = true -> dub k = true \/ has_end k (log g') = true) ->
  rets_ok dub (log g') = true ->
  starts_inv g' (upd i t' ls) ->
  tinv g' i t' ->
  (forall j tj, j <> i -> nth_error ls j = Some tj -> tinv g j tj -> tinv g' j tj) ->
  Inv g' (upd i t' ls).
Proof.
  intros g ls i t g' t' HI Hnth H1 H2 H3 H4 H5 H6. constructor; auto.
  intros j tj Hj. apply nth_error_upd in Hj. destruct Hj as [[-> [-> _]] | [Hn Hj]]; auto.
  apply H6; auto. apply (inv_thr _ _ HI); auto.
Qed.

(* ---- frame lemmas: what another thread knows survives a step ------------- *)

Ltac tinv_cases tj :=
  unfold tinv; destruct (t_todo tj) as [| kj rj]; [auto |]; destruct (t_pc tj); cbn; auto.

Lemma tinv_log : forall e g j tj, tinv g j tj -> tinv (add_log e g) j tj.
Proof.
  intros e g j tj. tinv_cases tj; auto.
  intros (A & B & C & D). repeat split; auto. apply has_end_cons. exact D.
Qed.

Lemma tinv_readers : forall l g j tj, tinv g j tj -> tinv (with_readers l g) j tj.
Proof. intros l g j tj. tinv_cases tj; auto. Qed.

Lemma tinv_lock : forall m i g j tj, tinv g j tj -> tinv (with_held ((m, i) :: held g) g) j tj.
Proof. intros m i g j tj. tinv_cases tj; cbn [In]; intuition. Qed.

Lemma tinv_release : forall m i g j tj,
  NoDup (map fst (held g)) -> In (m, i) (held g) -> j <> i ->
  tinv g j tj -> tinv (with_held (release m (held g)) g) j tj.
Proof.
  intros m i g j tj Hnd Hin Hne.
  assert (K : forall m', In (m', j) (held g) -> In (m', j) (release m (held g))).
  { intros m' H. apply release_keeps; auto. intros ->. apply Hne. eapply held_unique; eauto. }
  tinv_cases tj; intuition.
Qed.

Lemma tinv_alloc : forall k n n' g j tj,
  rlookup k (running g) = None ->
  tinv g j tj -> tinv (with_running ((k, n) :: running g) n' g) j tj.
Proof.
  intros k n n' g j tj Hnone.
  unfold tinv. destruct (t_todo tj) as [| kj rj]; [auto |].
  assert (K : forall m, rlookup kj (running g) = Some m -> rlookup kj ((k, n) :: running g) = Some m).
  { intros m H. destruct (N.eq_dec kj k) as [-> | Hn]; [congruence |]. rewrite rlookup_cons_neq; auto. }
  destruct (t_pc tj); cbn; intuition.
Qed.

Lemma tinv_remove : forall k g j tj,
  memb k (updated g) = true -> tinv g j tj -> tinv (do_remove k g) j tj.
Proof.
  intros k g j tj Hk. unfold tinv. destruct (t_todo tj) as [| kj rj]; [auto |].
  assert (K : forall m, memb kj (updated g) = false -> rlookup kj (running g) = Some m ->
                        rlookup kj (rremove k (running g)) = Some m).
  { intros m Hf H. rewrite rlookup_rremove_neq; auto. intros ->. congruence. }
  destruct (t_pc tj); cbn; intuition.
Qed.

Lemma tinv_insert : forall k g j tj,
  (forall r, t_todo tj = k :: r -> in_section (t_pc tj) = false) ->
  tinv g j tj -> tinv (with_updated (set_add k (updated g)) g) j tj.
Proof.
  intros k g j tj Hsec. unfold tinv. destruct (t_todo tj) as [| kj rj] eqn:Et; [auto |].
  assert (M : memb kj (updated g) = true -> memb kj (set_add k (updated g)) = true)
    by apply memb_set_add_mono.
  assert (F : memb kj (set_add k (updated g)) = false -> memb kj (updated g) = false).
  { intros H. destruct (memb kj (updated g)) eqn:E; auto. rewrite M in H; auto. }
  assert (S : in_section (t_pc tj) = true -> memb kj (updated g) = false ->
              memb kj (set_add k (updated g)) = false).
  { intros Hs Hf. rewrite memb_set_add, Hf. destruct (N.eqb_spec kj k) as [-> |]; auto.
    rewrite (Hsec rj) in Hs; [discriminate | reflexivity]. }
  destruct (t_pc tj); cbn in *; intuition.
Qed.

(* ---- the log part -------------------------------------------------------- *)

Lemma starts_keep : forall g ls i t g' t',
  starts_inv g ls -> nth_error ls i = Some t ->
  (forall k, starts k (log g') = starts k (log g)) ->
  (forall k, memb k (updated g) = true -> memb k (updated g') = true) ->
  (fetching_pc (t_pc t) = true ->
     (t_todo t' = t_todo t /\ fetching_pc (t_pc t') = true) \/
     (exists k rest, t_todo t = k :: rest /\ memb k (updated g') = true)) ->
  starts_inv g' (upd i t' ls).
Proof.
  intros g ls i t g' t' HS Hnth Hst Hup Hf k. destruct (HS k) as [Hle Hwit].
  rewrite Hst. split; auto. intros H1. destruct (Hwit H1) as [Hu | (i0 & t0 & rest & Hn0 & Ht0 & Hf0)].
  - left. auto.
  - destruct (Nat.eq_dec i0 i) as [-> | Hne].
    + assert (t0 = t) by congruence. subst t0.
      destruct (Hf Hf0) as [[Htd Hfp] | (k' & rest' & Htd & Hu)].
      * right. exists i, t', rest. split; [| split; [congruence | exact Hfp]].
        apply nth_error_upd_eq. apply nth_error_Some. congruence.
      * left. assert (k' = k) by congruence. subst. exact Hu.
    + right. exists i0, t0, rest. split; [| split; auto].
      rewrite nth_error_upd_neq; auto.
Qed.

Lemma upd_ok_log : forall g e,
  (forall k, memb k (updated g) = true -> dub k = true \/ has_end k (log g) = true) ->
  (forall k, memb k (updated (add_log e g)) = true -> dub k = true \/ has_end k (log (add_log e g)) = true).
Proof.
  intros g e H k Hk. cbn in *. destruct (H k Hk); auto. right. apply has_end_cons. auto.
Qed.

(* ---- who is in the section ----------------------------------------------- *)

Lemma section_facts : forall g i t k r,
  tinv g i t -> t_todo t = k :: r -> in_section (t_pc t) = true ->
  exists m, In (m, i) (held g) /\ memb k (updated g) = false /\ rlookup k (running g) = Some m.
Proof.
  intros g i t k r H Ht Hs. unfold tinv in H. rewrite Ht in H.
  destruct (t_pc t); cbn in Hs; try discriminate; exists m; intuition.
Qed.

Lemma section_unique : forall g ls i j ti tj k ri rj,
  Inv g ls -> nth_error ls i = Some ti -> nth_error ls j = Some tj ->
  t_todo ti = k :: ri -> t_todo tj = k :: rj ->
  in_section (t_pc ti) = true -> in_section (t_pc tj) = true -> i = j.
Proof.
  intros g ls i j ti tj k ri rj HI Hi Hj Hti Htj Hsi Hsj.
  destruct (section_facts g i ti k ri (inv_thr _ _ HI _ _ Hi) Hti Hsi) as (mi & A1 & _ & A3).
  destruct (section_facts g j tj k rj (inv_thr _ _ HI _ _ Hj) Htj Hsj) as (mj & B1 & _ & B3).
  assert (mi = mj) by congruence. subst.
  eapply held_unique; eauto. apply (inv_nodup _ _ HI).
Qed.

Lemma fetching_in_section : forall p, fetching_pc p = true -> in_section p = true.
Proof. destruct p; cbn; auto. Qed.

(* ---- the composite steps -------------------------------------------------- *)

(* return for a key that is in `updated` *)
Lemma return_inv : forall g ls i t k rest om,
  Inv g ls -> nth_error ls i = Some t -> t_todo t = k :: rest ->
  memb k (updated g) = true ->
  fetching_pc (t_pc t) = false ->
  (forall m, om = Some m -> In (m, i) (held g)) ->
  Inv (fst (do_return i k om g t)) (upd i (snd (do_return i k om g t)) ls).
Proof.
  intros g ls i t k rest om HI Hnth Ht Hk Hnf Hom. unfold do_return. cbn [fst snd].
  set (g1 := match om with Some m => with_held (release m (held g)) g | None => g end).
  assert (E1 : updated g1 = updated g /\ log g1 = log g /\ running g1 = running g).
  { unfold g1. destruct om; cbn; auto. }
  destruct E1 as (Eu & El & Er).
  apply (inv_build g ls i t); auto.
  - cbn. unfold g1. destruct om; cbn; [apply release_nodup |]; apply (inv_nodup _ _ HI).
  - apply upd_ok_log. rewrite Eu, El. apply (inv_upd _ _ HI).
  - cbn [add_log log rets_ok]. rewrite El, (inv_rets _ _ HI), andb_true_r.
    destruct (inv_upd _ _ HI k Hk) as [-> | ->]; auto. apply orb_true_r.
  - apply (starts_keep g ls i t); auto.
    + apply (inv_starts _ _ HI).
    + intros k0. cbn [add_log log]. rewrite El. apply starts_cons_other. reflexivity.
    + intros k0. cbn [add_log updated]. rewrite Eu. auto.
    + rewrite Hnf. discriminate.
  - unfold tinv, next_key. cbn. destruct (tl (t_todo t)); exact I.
  - intros j tj Hne Hj Htj. apply tinv_log. unfold g1. destruct om as [m |]; auto.
    apply (tinv_release m i); auto. apply (inv_nodup _ _ HI).
Qed.

(* `self.updated.write().insert(key)` by the thread that did the update *)
Lemma insert_inv : forall g ls i t k rest m g' t',
  Inv g ls -> nth_error ls i = Some t -> t_todo t = k :: rest ->
  in_section (t_pc t) = true ->
  (dub k = true \/ has_end k (log g) = true) ->
  do_insert k m g t = (g', t') ->
  (t_pc t = PUnchecked2 m \/ t_pc t = PFetched m) ->
  Inv g' (upd i t' ls).
Proof.
  intros g ls i t k rest m g' t' HI Hnth Ht Hs Hend Hstep Hpc. unfold do_insert in Hstep.
  destruct (readers g).
  2:{ inversion Hstep; subst. rewrite upd_same; auto. }
  inversion Hstep; subst g' t'; clear Hstep.
  destruct (section_facts g i t k rest (inv_thr _ _ HI _ _ Hnth) Ht Hs) as (m0 & A1 & A2 & A3).
  assert (Hm : m0 = m).
  { pose proof (inv_thr _ _ HI _ _ Hnth) as Hti. unfold tinv in Hti. rewrite Ht in Hti.
    destruct Hpc as [Hpc | Hpc]; rewrite Hpc in Hti;
      [destruct Hti as (B1 & _ & B3) | destruct Hti as (B1 & _ & B3 & _)]; congruence. }
  subst m0.
  apply (inv_build g ls i t); auto.
  - apply (inv_nodup _ _ HI).
  - intros k0. cbn [with_updated updated log]. rewrite memb_set_add. intros H.
    apply orb_true_iff in H. destruct H as [H | H].
    + apply N.eqb_eq in H. subst. exact Hend.
    + apply (inv_upd _ _ HI). exact H.
  - apply (inv_rets _ _ HI).
  - apply (starts_keep g ls i t); auto.
    + apply (inv_starts _ _ HI).
    + intros k0. cbn. apply memb_set_add_mono.
    + intros _. right. exists k, rest. split; auto. cbn. apply memb_set_add_same.
  - unfold tinv, set_pc. cbn. rewrite Ht. split; auto. apply memb_set_add_same.
  - intros j tj Hne Hj Htj. apply tinv_insert; auto.
    intros r Hr. destruct (in_section (t_pc tj)) eqn:E; auto. exfalso. apply Hne.
    eapply (section_unique g ls j i tj t k r rest); eauto.
Qed.

(* ---- every step preserves the invariant ---------------------------------- *)

(* a step that only moves the thread and adds nothing to the log *)
Lemma quiet_inv : forall g ls i t g' p,
  Inv g ls -> nth_error ls i = Some t ->
  fetching_pc (t_pc t) = false ->
  held g' = held g \/ (exists m, held g' = (m, i) :: held g /\ is_held m (held g) = false) ->
  updated g' = updated g -> log g' = log g ->
  tinv g' i (set_pc p t) ->
  (forall j tj, j <> i -> nth_error ls j = Some tj -> tinv g j tj -> tinv g' j tj) ->
  Inv g' (upd i (set_pc p t) ls).
Proof.
  intros g ls i t g' p HI Hnth Hnf Hh Hu Hl Hnew Hframe.
  apply (inv_build g ls i t _ _ HI Hnth); auto.
  - destruct Hh as [-> | (m & -> & Hm)]; [apply (inv_nodup _ _ HI) |].
    cbn. constructor; [apply is_held_false; auto | apply (inv_nodup _ _ HI)].
  - rewrite Hu, Hl. apply (inv_upd _ _ HI).
  - rewrite Hl. apply (inv_rets _ _ HI).
  - apply (starts_keep g ls i t); auto.
    + apply (inv_starts _ _ HI).
    + intros k. rewrite Hl. reflexivity.
    + intros k. rewrite Hu. auto.
    + rewrite Hnf. discriminate.
Qed.

Lemma step_inv : forall i g ls t g' t',
  Inv g ls -> nth_error ls i = Some t -> step v dub i g t = (g', t') -> Inv g' (upd i t' ls).
Proof.
  intros i g ls t g' t' HI Hnth Hstep. unfold step in Hstep.
  destruct (t_todo t) as [| k rest] eqn:Ht.
  { inversion Hstep; subst. rewrite upd_same; auto. }
  pose proof (inv_thr _ _ HI _ _ Hnth) as Hti. unfold tinv in Hti. rewrite Ht in Hti.
  destruct (t_pc t) eqn:Hpc.
  - (* PStart *)
    destruct (memb k (updated g)) eqn:Hk.
    + pose proof (return_inv g ls i t k rest None HI Hnth Ht Hk) as R.
      rewrite Hstep in R. cbn [fst snd] in R. apply R; [rewrite Hpc; reflexivity | discriminate].
    + inversion Hstep; subst g' t'; clear Hstep.
      apply (quiet_inv g ls i t); auto.
      * rewrite Hpc; reflexivity.
      * unfold tinv, set_pc. cbn. rewrite Ht. exact I.
  - (* PChecked1 *)
    destruct (rlookup k (running g)) as [m |] eqn:Hl.
    + inversion Hstep; subst g' t'; clear Hstep.
      apply (quiet_inv g ls i t); auto.
      * rewrite Hpc; reflexivity.
      * unfold tinv, set_pc. cbn. rewrite Ht. auto.
    + inversion Hstep; subst g' t'; clear Hstep.
      apply (quiet_inv g ls i t); auto.
      * rewrite Hpc; reflexivity.
      * unfold tinv, set_pc. cbn. rewrite Ht. intros _. rewrite N.eqb_refl. reflexivity.
      * intros j tj Hne Hj Htj. apply tinv_alloc; auto.
  - (* PGot *)
    destruct (is_held m (held g)) eqn:Hh.
    + inversion Hstep; subst. rewrite upd_same; auto.
    + inversion Hstep; subst g' t'; clear Hstep.
      apply (quiet_inv g ls i t); auto.
      * rewrite Hpc; reflexivity.
      * right. exists m. auto.
      * unfold tinv, set_pc. cbn. rewrite Ht. split; auto.
      * intros j tj Hne Hj Htj. apply tinv_lock; auto.
  - (* PLocked *)
    destruct Hti as [Hin Hrun].
    destruct (memb k (updated g)) eqn:Hk.
    + destruct (is_rrdp v).
      * inversion Hstep; subst g' t'; clear Hstep.
        apply (quiet_inv g ls i t); auto.
        -- rewrite Hpc; reflexivity.
        -- unfold tinv, set_pc. cbn. rewrite Ht. auto.
      * pose proof (return_inv g ls i t k rest (Some m) HI Hnth Ht Hk) as R.
        rewrite Hstep in R. cbn [fst snd] in R. apply R; [rewrite Hpc; reflexivity |].
        intros m0 E. inversion E; subst. exact Hin.
    + inversion Hstep; subst g' t'; clear Hstep.
      apply (quiet_inv g ls i t); auto.
      * rewrite Hpc; reflexivity.
      * unfold tinv, set_pc. cbn. rewrite Ht. auto.
  - (* PUnchecked2 *)
    destruct Hti as (Hin & Hk & Hrun).
    destruct (dub k) eqn:Hd.
    + unfold after_update in Hstep. rewrite Hv in Hstep.
      eapply (insert_inv g ls i t k rest m); eauto. rewrite Hpc; reflexivity.
    + inversion Hstep; subst g' t'; clear Hstep.
      (* no fetch of k has been started: its thread would hold the same mutex *)
      assert (Hz : starts k (log g) = 0%nat).
      { destruct (inv_starts _ _ HI k) as [Hle Hwit].
        destruct (starts k (log g)) as [| n] eqn:E; auto. exfalso.
        destruct Hwit as [Hu | (i0 & t0 & r0 & Hn0 & Ht0 & Hf0)]; [lia | congruence |].
        assert (i0 = i).
        { eapply (section_unique g ls i0 i t0 t k r0 rest); eauto.
          apply fetching_in_section; auto. rewrite Hpc; reflexivity. }
        subst i0. assert (t0 = t) by congruence. subst t0. rewrite Hpc in Hf0. discriminate. }
      apply (inv_build g ls i t _ _ HI Hnth).
      * apply (inv_nodup _ _ HI).
      * apply upd_ok_log. apply (inv_upd _ _ HI).
      * cbn [add_log log rets_ok]. apply (inv_rets _ _ HI).
      * intros k0. cbn [add_log log updated starts]. destruct (inv_starts _ _ HI k0) as [Hle Hwit].
        destruct (N.eqb_spec k0 k) as [-> | Hne].
        -- rewrite Hz. split; [lia |]. intros _. right. exists i, (set_pc (PFetching m) t), rest.
           split; [apply nth_error_upd_eq; apply nth_error_Some; congruence |]. cbn. auto.
        -- split; auto. intros H1. destruct (Hwit H1) as [Hu | (i0 & t0 & r0 & Hn0 & Ht0 & Hf0)]; auto.
           right. exists i0, t0, r0. split; [| split; auto].
           rewrite nth_error_upd_neq; auto. intros <-. congruence.
      * unfold tinv, set_pc. cbn. rewrite Ht. auto.
      * intros j tj Hne Hj Htj. apply tinv_log; auto.
  - (* PFetching *)
    destruct Hti as (Hin & Hk & Hrun).
    inversion Hstep; subst g' t'; clear Hstep.
    apply (inv_build g ls i t _ _ HI Hnth).
    + apply (inv_nodup _ _ HI).
    + apply upd_ok_log. apply (inv_upd _ _ HI).
    + cbn [add_log log rets_ok]. apply (inv_rets _ _ HI).
    + apply (starts_keep g ls i t); auto. apply (inv_starts _ _ HI).
    + unfold tinv, set_pc. cbn. rewrite Ht. repeat split; auto. rewrite N.eqb_refl. reflexivity.
    + intros j tj Hne Hj Htj. apply tinv_log; auto.
  - (* PFetched *)
    destruct Hti as (Hin & Hk & Hrun & Hend).
    unfold after_update in Hstep. rewrite Hv in Hstep.
    eapply (insert_inv g ls i t k rest m); eauto. rewrite Hpc; reflexivity.
  - (* PInserted *)
    destruct Hti as (Hin & Hk). rewrite Hv in Hstep.
    inversion Hstep; subst g' t'; clear Hstep.
    apply (quiet_inv g ls i t); auto.
    + rewrite Hpc; reflexivity.
    + unfold tinv, set_pc. cbn. rewrite Ht. auto.
    + intros j tj Hne Hj Htj. apply tinv_remove; auto.
  - (* PRemoved *)
    destruct Hti as (Hin & Hk). rewrite Hv in Hstep.
    pose proof (return_inv g ls i t k rest (Some m) HI Hnth Ht Hk) as R.
    rewrite Hstep in R. cbn [fst snd] in R. apply R; [rewrite Hpc; reflexivity |].
    intros m0 E. inversion E; subst. exact Hin.
  - (* PFound2 *)
    destruct Hti as (Hin & Hk).
    inversion Hstep; subst g' t'; clear Hstep.
    apply (quiet_inv g ls i t); auto.
    + rewrite Hpc; reflexivity.
    + unfold tinv, set_pc. cbn. rewrite Ht. auto.
    + intros j tj Hne Hj Htj. apply tinv_remove; auto.
  - (* PRemoved2 *)
    destruct Hti as (Hin & Hk).
    set (g1 := with_readers (drop_reader i (readers g)) g) in *.
    assert (HI1 : Inv g1 ls).
    { constructor.
      - apply (inv_nodup _ _ HI).
      - apply (inv_upd _ _ HI).
      - apply (inv_rets _ _ HI).
      - intros k0. destruct (inv_starts _ _ HI k0). split; auto.
      - intros j tj Hj. apply tinv_readers. apply (inv_thr _ _ HI); auto. }
    pose proof (return_inv g1 ls i t k rest (Some m) HI1 Hnth Ht Hk) as R.
    rewrite Hstep in R. cbn [fst snd] in R. apply R; [rewrite Hpc; reflexivity |].
    intros m0 E. inversion E; subst. exact Hin.
Qed.

End Fixed.
