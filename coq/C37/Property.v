(* C37 — each repository is fetched at most once per run, and every user
   waits until that single fetch has finished.
   Only statements, [exact], [Check] pins.

   Everything below is about `runs v dub sched (init todos)`: a fresh rsync
   (`v = Rsync`) or RRDP (`v = Rrdp`) collector run, any number of threads
   ([todos] gives, per thread, the keys = rsync modules / rpkiNotify URIs it
   calls `load_module` / `load_repository` for, one after the other), any set
   of dubious keys [dub], any schedule [sched] (the list of thread numbers
   stepped), each step being one of the atomic steps of C37/Model.v, written
   in the order of the code in /repo/src/collector/rsync.rs and
   /repo/src/collector/rrdp/base.rs.  The log records every fetch started,
   every fetch ended and every return from `load_*`, newest first.
   That these steps are atomic in the real code (std Mutex / RwLock) is the
   assumption this model rests on; it is not proved here (result: partial). *)
From Coq Require Import List NArith Bool.
From RV Require Import Base.Sched C37.Model C37.Lemmas C37.Proofs C37.Spec C37.Final.
Import ListNotations.
Local Open Scope N_scope.

(* the invariant, after every schedule *)
Theorem C37_invariant : forall v dub, old_order v = false -> forall todos sched,
  Inv dub (shared (runs v dub sched (init todos))) (locals (runs v dub sched (init todos))).
Proof. exact run_inv. Qed.

(* no key has two fetches started ... *)
Theorem C37_fetch_at_most_once : forall v dub, old_order v = false -> forall todos sched k,
  (starts k (log (shared (runs v dub sched (init todos)))) <= 1)%nat.
Proof. exact fetch_at_most_once. Qed.

(* ... ([starts] counts the EStart entries for the key) *)
Theorem C37_starts_counts : forall k l,
  starts k l = length (filter (fun e => match e with EStart _ k' => k =? k' | _ => false end) l).
Proof. exact starts_count. Qed.

(* ... and whenever a thread returns from load_* for a key, a fetch of that key
   has ended before (the log is newest first: [l2] is what happened earlier);
   for a dubious key nothing is fetched at all *)
Theorem C37_no_return_before_fetch_end : forall v dub, old_order v = false ->
  forall todos sched l1 i k l2,
  log (shared (runs v dub sched (init todos))) = l1 ++ ERet i k :: l2 ->
  dub k = true \/ exists j, In (EEnd j k) l2.
Proof. exact no_return_before_fetch_end. Qed.

(* per key at most one thread is between the second look into `updated` and the insert *)
Theorem C37_one_updater : forall v dub, old_order v = false -> forall todos sched i j ti tj k ri rj,
  nth_error (locals (runs v dub sched (init todos))) i = Some ti ->
  nth_error (locals (runs v dub sched (init todos))) j = Some tj ->
  t_todo ti = k :: ri -> t_todo tj = k :: rj ->
  in_section (t_pc ti) = true -> in_section (t_pc tj) = true -> i = j.
Proof. exact one_updater. Qed.

(* a key is in `updated` only after its fetch has ended *)
Theorem C37_updated_after_fetch : forall v dub, old_order v = false -> forall todos sched k,
  memb k (updated (shared (runs v dub sched (init todos)))) = true ->
  dub k = true \/ has_end k (log (shared (runs v dub sched (init todos)))) = true.
Proof. exact updated_recorded. Qed.

(* the executable oracle used on the implementation's observation holds of the model, for every input *)
Theorem C37_model_satisfies_spec : forall rrdp dubs todos sched,
  spec_okb rrdp dubs todos sched (model_obs rrdp dubs todos sched) = true.
Proof. exact model_satisfies_spec. Qed.

(* what the oracle's first half says *)
Theorem C37_oracle_means_once : forall dub l, log_okb dub l = true -> forall k, (starts k l <= 1)%nat.
Proof. exact log_okb_starts. Qed.

(* The order of the two last statements of rsync's load_module before the fix
   (`running.remove` first, then `updated.insert`) does not have the property:
   two threads, one module, rsync runs twice. *)
Theorem C37_old_order_refuted :
  starts 5 (log (shared (runs RsyncOld (fun _ => false) old_sched (init old_todos)))) = 2%nat.
Proof. exact old_order_refuted. Qed.

Theorem C37_old_order_oracle_false :
  spec_okb false [] old_todos old_sched (model_obs_v RsyncOld [] old_todos old_sched) = false.
Proof. exact old_order_oracle_false. Qed.

(* non-vacuity: three threads, two modules.  Thread 0 fetches module 5 while
   thread 1 waits for its mutex and thread 2 fetches module 9; thread 1 then
   finds 5 updated under the mutex, and later (having looked for 9 before it
   was updated) takes a fresh mutex for 9 and finds it updated under that;
   everybody returns after the one fetch of its module has ended.
   Log entries: (0 = fetch started | 1 = fetch ended | 2 = returned, thread, key). *)
Example C37_nonvacuous :
  let todos := [[5]; [5; 9]; [9]] in
  let sched := [0; 0; 1; 1; 0; 0; 0; 1; 2; 2; 2; 2; 2; 0; 0; 1; 0; 0; 1; 1; 1; 2; 2; 2; 2; 2; 1; 1; 1]%nat in
  let c := runs Rsync (fun _ => false) sched (init todos) in
  starts 5 (log (shared c)) = 1%nat /\ starts 9 (log (shared c)) = 1%nat /\
  all_finished c = true /\
  map event_code (rev (log (shared c))) =
    [(0, 0, 5); (0, 2, 9); (1, 0, 5); (2, 0, 5); (2, 1, 5); (1, 2, 9); (2, 2, 9); (2, 1, 9)].
Proof. vm_compute. repeat split. Qed.

Check C37_invariant : forall v dub, old_order v = false -> forall todos sched,
  Inv dub (shared (runs v dub sched (init todos))) (locals (runs v dub sched (init todos))).
Check C37_fetch_at_most_once : forall v dub, old_order v = false -> forall todos sched k,
  (starts k (log (shared (runs v dub sched (init todos)))) <= 1)%nat.
Check C37_no_return_before_fetch_end : forall v dub, old_order v = false ->
  forall todos sched l1 i k l2,
  log (shared (runs v dub sched (init todos))) = l1 ++ ERet i k :: l2 ->
  dub k = true \/ exists j, In (EEnd j k) l2.
Check C37_model_satisfies_spec : forall rrdp dubs todos sched,
  spec_okb rrdp dubs todos sched (model_obs rrdp dubs todos sched) = true.
Check C37_old_order_refuted :
  starts 5 (log (shared (runs RsyncOld (fun _ => false) old_sched (init old_todos)))) = 2%nat.
