(* C37: the property as an executable oracle over what is observed of a
   schedule-controlled run, and the case checker of the correspondence run.
   No proofs here. *)
From Coq Require Import List NArith Bool.
From RV Require Export C37.Model.
Import ListNotations.
Local Open Scope N_scope.

(* What is observed of one run.  [todos] = per thread the keys it loads one
   after the other, [sched] = the thread stepped at each moment. *)
Record obs := {
  o_trace : list (N * N * bool);   (* per schedule entry: where the stepped thread now is ([pc_code]); the mutex
                                      it took out of `running` (0 = none, otherwise an identity, compared up to
                                      renaming); whether that mutex is locked right now *)
  o_log : list (N * N * N);        (* oldest first: kind (0 fetch started, 1 fetch ended, 2 load_* returned),
                                      thread, key *)
  o_updated : list key;            (* `updated` at the end, sorted *)
  o_running : list (key * bool);   (* `running` at the end, sorted by key; is the mutex locked *)
  o_done : bool                    (* every thread has returned from all its calls *)
}.

Definition pc_code (p : pc) : N :=
  match p with
  | PStart => 0 | PChecked1 => 1 | PGot _ => 2 | PLocked _ => 3 | PUnchecked2 _ => 4
  | PFetching _ => 5 | PFetched _ => 6 | PInserted _ => 7 | PRemoved _ => 8
  | PFound2 _ => 9 | PRemoved2 _ => 10
  end.

Definition pc_mutex (p : pc) : option mid :=
  match p with
  | PStart | PChecked1 => None
  | PGot m | PLocked m | PUnchecked2 m | PFetching m | PFetched m
  | PInserted m | PRemoved m | PFound2 m | PRemoved2 m => Some m
  end.

(* ---- the model's observation ------------------------------------------- *)

Definition variant_of (rrdp : bool) : variant := if rrdp then Rrdp else Rsync.
Definition dub_of (dubs : list key) (k : key) : bool := memb k dubs.

Definition trace_entry (g : mem) (o : option thread) : N * N * bool :=
  match o with
  | None => (0, 0, false)
  | Some t =>
      match t_todo t with
      | [] => (0, 0, false)
      | _ :: _ =>
          match pc_mutex (t_pc t) with
          | None => (pc_code (t_pc t), 0, false)
          | Some m => (pc_code (t_pc t), m + 1, is_held m (held g))
          end
      end
  end.

Fixpoint trace (v : variant) (dub : key -> bool) (sched : list nat) (c : cfg) : list (N * N * bool) :=
  match sched with
  | [] => []
  | i :: rest =>
      let c' := step_thread mem thread (step v dub) i c in
      trace_entry (shared c') (nth_error (locals c') i) :: trace v dub rest c'
  end.

Definition event_code (e : event) : N * N * N :=
  match e with
  | EStart i k => (0, N.of_nat i, k)
  | EEnd i k => (1, N.of_nat i, k)
  | ERet i k => (2, N.of_nat i, k)
  end.

Fixpoint insert_sorted (x : N) (l : list N) : list N :=
  match l with
  | [] => [x]
  | y :: t => if x <=? y then x :: l else y :: insert_sorted x t
  end.
Definition sort (l : list N) : list N := fold_right insert_sorted [] l.

Fixpoint insert_sorted2 (x : N * bool) (l : list (N * bool)) : list (N * bool) :=
  match l with
  | [] => [x]
  | y :: t => if fst x <=? fst y then x :: l else y :: insert_sorted2 x t
  end.
Definition sort2 (l : list (N * bool)) : list (N * bool) := fold_right insert_sorted2 [] l.

Definition model_obs_v (v : variant) (dubs : list key) (todos : list (list key)) (sched : list nat) : obs :=
  let c := runs v (dub_of dubs) sched (init todos) in
  {| o_trace := trace v (dub_of dubs) sched (init todos);
     o_log := map event_code (rev (log (shared c)));
     o_updated := sort (updated (shared c));
     o_running := sort2 (map (fun x => (fst x, is_held (snd x) (held (shared c)))) (running (shared c)));
     o_done := all_finished c |}.

Definition model_obs (rrdp : bool) (dubs : list key) (todos : list (list key)) (sched : list nat) : obs :=
  model_obs_v (variant_of rrdp) dubs todos sched.

(* ---- the property, executable ------------------------------------------ *)

(* the observed log as events, newest first; None if an entry is not an event *)
Definition decode (x : N * N * N) : option event :=
  match x with
  | (0, i, k) => Some (EStart (N.to_nat i) k)
  | (1, i, k) => Some (EEnd (N.to_nat i) k)
  | (2, i, k) => Some (ERet (N.to_nat i) k)
  | _ => None
  end.

Fixpoint decode_all (l : list (N * N * N)) (acc : list event) : option (list event) :=
  match l with
  | [] => Some acc
  | x :: t => match decode x with Some e => decode_all t (e :: acc) | None => None end
  end.

Definition event_key (e : event) : key := match e with EStart _ k | EEnd _ k | ERet _ k => k end.

(* C37 on a log (newest first): no key has two fetches started, and every
   return for a key has the end of a fetch of that key before it (unless the
   key is dubious: then nothing is ever fetched for it). *)
Definition log_okb (dub : key -> bool) (l : list event) : bool :=
  forallb (fun e => Nat.leb (starts (event_key e) l) 1) l && rets_ok dub l.

Definition spec_okb (rrdp : bool) (dubs : list key) (todos : list (list key)) (sched : list nat) (o : obs) : bool :=
  match decode_all (o_log o) [] with
  | Some l => log_okb (dub_of dubs) l
  | None => false
  end.

(* ---- comparison of two observations (mutex identities up to renaming) --- *)

Fixpoint index_of (x : N) (l : list N) (k : N) : N :=
  match l with [] => k | y :: t => if x =? y then k else index_of x t (k + 1) end.
Definition canon (l : list N) : list N := map (fun x => index_of x l 0) l.

Fixpoint nlist_eqb (a b : list N) : bool :=
  match a, b with
  | [], [] => true
  | x :: a', y :: b' => (x =? y) && nlist_eqb a' b'
  | _, _ => false
  end.

Fixpoint trace_eqb (a b : list (N * N * bool)) : bool :=
  match a, b with
  | [], [] => true
  | (x, m, p) :: a', (y, n, q) :: b' =>
      (x =? y) && Bool.eqb (m =? 0) (n =? 0) && Bool.eqb p q && trace_eqb a' b'
  | _, _ => false
  end.

Fixpoint log_eqb (a b : list (N * N * N)) : bool :=
  match a, b with
  | [], [] => true
  | (x, i, k) :: a', (y, j, l) :: b' => (x =? y) && (i =? j) && (k =? l) && log_eqb a' b'
  | _, _ => false
  end.

Fixpoint running_eqb (a b : list (N * bool)) : bool :=
  match a, b with
  | [], [] => true
  | (k, p) :: a', (l, q) :: b' => (k =? l) && Bool.eqb p q && running_eqb a' b'
  | _, _ => false
  end.

Definition mutex_seq (o : obs) : list N := map (fun x => snd (fst x)) (o_trace o).

Definition obs_eqb (a b : obs) : bool :=
  trace_eqb (o_trace a) (o_trace b)
  && nlist_eqb (canon (mutex_seq a)) (canon (mutex_seq b))
  && log_eqb (o_log a) (o_log b)
  && nlist_eqb (o_updated a) (o_updated b)
  && running_eqb (o_running a) (o_running b)
  && Bool.eqb (o_done a) (o_done b).

(* One correspondence case.
   0 model = implementation and the property holds on the implementation's observation;
   1 the property holds on the observation but the model's observation differs;
   2 the property fails on the implementation's observation;
   9 the schedule names a thread that does not exist. *)
Record case := {
  c_rrdp : bool;                  (* false: rsync load_module, true: RRDP load_repository *)
  c_dubs : list key;              (* the keys whose host name is dubious (and filtered) *)
  c_todos : list (list key);
  c_sched : list nat;
  c_impl : obs
}.

Definition check_case (c : case) : N :=
  if negb (forallb (fun i => Nat.ltb i (length (c_todos c))) (c_sched c)) then 9
  else if negb (spec_okb (c_rrdp c) (c_dubs c) (c_todos c) (c_sched c) (c_impl c)) then 2
  else if obs_eqb (model_obs (c_rrdp c) (c_dubs c) (c_todos c) (c_sched c)) (c_impl c) then 0 else 1.
