(* C37, stream `stress`: real threads ask one collector run for the same fresh key at the same moment,
   key after key; only the number of fetches started per key is looked at.  Oracle only - the atomicity
   of a step between two rendezvous points is the schedules stream's assumption - no model, no theorem. *)
From Coq Require Import List NArith Bool.
Import ListNotations.
Local Open Scope N_scope.

Record scase := { s_threads : N; s_trials : N; i_counts : list N; i_metrics : N }.

(* every key was fetched exactly once and has one metrics entry *)
Definition check_scase (c : scase) : N :=
  if forallb (fun n => n =? 1) (i_counts c) && (N.of_nat (length (i_counts c)) =? s_trials c)
     && (i_metrics c =? s_trials c) then 0 else 2.
