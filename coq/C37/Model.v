(* C37 — each repository is fetched at most once per run, and every user
   waits until that single fetch has finished.

   Model of the once-per-run bookkeeping of
     /repo/src/collector/rsync.rs      `Run::load_module`      (variant [Rsync])
     /repo/src/collector/rrdp/base.rs  `Run::load_repository`  (variant [Rrdp])
   as threads of atomic steps over a shared state (Base/Sched.v): the
   `updated` set, the `running` map of per-key `Arc<Mutex<()>>`, which of
   these mutexes are locked and by whom, and a log of the fetches started,
   fetches ended and returns.  Any number of threads, each calling `load_*`
   for any sequence of keys (a key = an rsync module / an rpkiNotify URI).

   [RsyncOld] is `load_module` as it was before the fix
   (`running.remove` BEFORE `updated.insert`); it only serves the refutation.

   Assumed, not proved (named in the notes): `std::sync::Mutex` / `RwLock`
   make exactly these steps atomic, a lock attempt that cannot succeed is a
   stutter until it can, and every read sees the latest write.
   Executable definitions only. *)
From Coq Require Import List NArith Bool.
From RV Require Export Base.Sched.
Import ListNotations.
Local Open Scope N_scope.

Definition key := N.       (* rsync module / rpkiNotify URI *)
Definition mid := N.       (* identity of an Arc<Mutex<()>> allocation *)

Inductive variant := Rsync | Rrdp | RsyncOld.

Definition old_order (v : variant) : bool := match v with RsyncOld => true | _ => false end.
Definition is_rrdp (v : variant) : bool := match v with Rrdp => true | _ => false end.

(* What is logged: a fetch of key k was started / has ended in thread i,
   thread i returned from load_* for key k. *)
Inductive event :=
| EStart (i : nat) (k : key)
| EEnd (i : nat) (k : key)
| ERet (i : nat) (k : key).

(* Where a thread is inside load_module / load_repository.  One constructor
   per place between two atomic steps; the argument is the thread's local
   variable `mutex` (and `_lock`, where it holds it). *)
Inductive pc :=
| PStart                (* before `self.updated.read().contains(..)` (or finished, if nothing is left to do) *)
| PChecked1             (* not updated yet; about to `self.running.write().entry(..).or_default().clone()` *)
| PGot (m : mid)        (* has its clone of the mutex; about to `mutex.lock()` *)
| PLocked (m : mid)     (* holds the mutex; about to look into `updated` again *)
| PUnchecked2 (m : mid) (* still not updated: this thread does the update *)
| PFetching (m : mid)   (* the fetch (rsync command / RRDP update) has started *)
| PFetched (m : mid)    (* the fetch has ended *)
| PInserted (m : mid)   (* after `self.updated.write().insert(..)` *)
| PRemoved (m : mid)    (* after `self.running.write().remove(..)` *)
| PFound2 (m : mid)     (* RRDP: found under the mutex, holds the read guard of `updated`;
                           about to `self.running.write().remove(..)` *)
| PRemoved2 (m : mid).  (* RRDP: about to `return repo.read()` (drops the read guard and the mutex) *)

Record thread := {
  t_pc : pc;
  t_todo : list key                   (* keys still to load; head = current *)
}.

Record mem := {
  updated : list key;                 (* `updated` (a set; RRDP: the keys of the map) *)
  running : list (key * mid);         (* `running` *)
  held : list (mid * nat);            (* the locked mutexes and their holders *)
  readers : list nat;                 (* threads holding a read guard of `updated` across a step (RRDP) *)
  next : mid;                         (* allocation counter *)
  log : list event                    (* newest first *)
}.

Fixpoint memb (x : N) (l : list N) : bool :=
  match l with [] => false | y :: t => (x =? y) || memb x t end.

Fixpoint rlookup (k : key) (r : list (key * mid)) : option mid :=
  match r with
  | [] => None
  | (k', m) :: t => if k =? k' then Some m else rlookup k t
  end.

Fixpoint rremove (k : key) (r : list (key * mid)) : list (key * mid) :=
  match r with
  | [] => []
  | (k', m) :: t => if k =? k' then rremove k t else (k', m) :: rremove k t
  end.

Fixpoint is_held (m : mid) (h : list (mid * nat)) : bool :=
  match h with [] => false | (m', _) :: t => (m =? m') || is_held m t end.

Fixpoint release (m : mid) (h : list (mid * nat)) : list (mid * nat) :=
  match h with
  | [] => []
  | (m', i) :: t => if m =? m' then release m t else (m', i) :: release m t
  end.

Fixpoint drop_reader (i : nat) (l : list nat) : list nat :=
  match l with
  | [] => []
  | j :: t => if Nat.eqb i j then t else j :: drop_reader i t
  end.

Definition set_pc (p : pc) (t : thread) : thread := {| t_pc := p; t_todo := t_todo t |}.
Definition next_key (t : thread) : thread := {| t_pc := PStart; t_todo := tl (t_todo t) |}.

Definition with_updated (u : list key) (g : mem) : mem :=
  {| updated := u; running := running g; held := held g; readers := readers g; next := next g; log := log g |}.
Definition with_running (r : list (key * mid)) (n : mid) (g : mem) : mem :=
  {| updated := updated g; running := r; held := held g; readers := readers g; next := n; log := log g |}.
Definition with_held (h : list (mid * nat)) (g : mem) : mem :=
  {| updated := updated g; running := running g; held := h; readers := readers g; next := next g; log := log g |}.
Definition with_readers (l : list nat) (g : mem) : mem :=
  {| updated := updated g; running := running g; held := held g; readers := l; next := next g; log := log g |}.
Definition add_log (e : event) (g : mem) : mem :=
  {| updated := updated g; running := running g; held := held g; readers := readers g; next := next g;
     log := e :: log g |}.

(* return from load_*: the guard `_lock` (if any) is dropped, the caller goes on *)
Definition do_return (i : nat) (k : key) (om : option mid) (g : mem) (t : thread) : mem * thread :=
  let g1 := match om with Some m => with_held (release m (held g)) g | None => g end in
  (add_log (ERet i k) g1, next_key t).

Definition set_add (k : key) (u : list key) : list key := if memb k u then u else k :: u.

(* `self.updated.write().insert(key)`: waits while somebody holds a read guard *)
Definition do_insert (k : key) (m : mid) (g : mem) (t : thread) : mem * thread :=
  match readers g with
  | [] => (with_updated (set_add k (updated g)) g, set_pc (PInserted m) t)
  | _ :: _ => (g, t)
  end.

(* `self.running.write().remove(key)` *)
Definition do_remove (k : key) (g : mem) : mem := with_running (rremove k (running g)) (next g) g.

(* the two statements after the update, in the order of the variant *)
Definition after_update (v : variant) (k : key) (m : mid) (g : mem) (t : thread) : mem * thread :=
  if old_order v then (do_remove k g, set_pc (PRemoved m) t)
  else do_insert k m g t.

(* One atomic step of thread [i].  [dub k]: the key's host name is dubious
   and dubious hosts are filtered (then nothing is fetched).
   A finished thread and a thread waiting for a lock stutter. *)
Definition step (v : variant) (dub : key -> bool) (i : nat) (g : mem) (t : thread) : mem * thread :=
  match t_todo t with
  | [] => (g, t)
  | k :: _ =>
    match t_pc t with
    | PStart =>                                   (* if self.updated.read().contains(..) { return } *)
        if memb k (updated g) then do_return i k None g t
        else (g, set_pc PChecked1 t)
    | PChecked1 =>                                (* self.running.write().entry(..).or_default().clone() *)
        match rlookup k (running g) with
        | Some m => (g, set_pc (PGot m) t)
        | None => (with_running ((k, next g) :: running g) (next g + 1) g, set_pc (PGot (next g)) t)
        end
    | PGot m =>                                   (* let _lock = mutex.lock(); *)
        if is_held m (held g) then (g, t)
        else (with_held ((m, i) :: held g) g, set_pc (PLocked m) t)
    | PLocked m =>                                (* if self.updated.read().contains(..) / .get(..) *)
        if memb k (updated g) then
          if is_rrdp v then (with_readers (i :: readers g) g, set_pc (PFound2 m) t)
          else do_return i k (Some m) g t         (* rsync: return *)
        else (g, set_pc (PUnchecked2 m) t)
    | PFound2 m => (do_remove k g, set_pc (PRemoved2 m) t)
                                                  (* RRDP: self.running.write().remove(rpki_notify); *)
    | PRemoved2 m =>                              (* RRDP: return repo.read() *)
        do_return i k (Some m) (with_readers (drop_reader i (readers g)) g) t
    | PUnchecked2 m =>
        if dub k then after_update v k m g t      (* dubious host: no update, straight on *)
        else (add_log (EStart i k) g, set_pc (PFetching m) t)
                                                  (* command.update(..) / RepositoryUpdate::try_update starts *)
    | PFetching m => (add_log (EEnd i k) g, set_pc (PFetched m) t)     (* ... and ends *)
    | PFetched m => after_update v k m g t
    | PInserted m =>
        if old_order v then do_return i k (Some m) g t
        else (do_remove k g, set_pc (PRemoved m) t)
    | PRemoved m =>
        if old_order v then do_insert k m g t
        else do_return i k (Some m) g t
    end
  end.

Definition cfg := config mem thread.

Definition mem0 : mem := {| updated := []; running := []; held := []; readers := []; next := 0; log := [] |}.
Definition thread0 (todo : list key) : thread := {| t_pc := PStart; t_todo := todo |}.

(* a fresh Run, and one thread per given list of keys *)
Definition init (todos : list (list key)) : cfg :=
  {| shared := mem0; locals := map thread0 todos |}.

Definition runs (v : variant) (dub : key -> bool) (sched : list nat) (c : cfg) : cfg :=
  run mem thread (step v dub) sched c.

Definition finished (t : thread) : bool := match t_todo t with [] => true | _ => false end.
Definition all_finished (c : cfg) : bool := forallb finished (locals c).

(* ---- what the property is about: the log -------------------------------- *)

Fixpoint starts (k : key) (l : list event) : nat :=
  match l with
  | [] => O
  | EStart _ k' :: t => if k =? k' then S (starts k t) else starts k t
  | _ :: t => starts k t
  end.

Fixpoint has_end (k : key) (l : list event) : bool :=
  match l with
  | [] => false
  | EEnd _ k' :: t => (k =? k') || has_end k t
  | _ :: t => has_end k t
  end.

(* every return for a key comes after the end of a fetch of that key
   (the log is newest first: the tail is what happened before) *)
Fixpoint rets_ok (dub : key -> bool) (l : list event) : bool :=
  match l with
  | [] => true
  | ERet _ k :: t => (dub k || has_end k t) && rets_ok dub t
  | _ :: t => rets_ok dub t
  end.
