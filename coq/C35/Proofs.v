(* C35 proofs: for ANY table whose rows are coherent ([table_okb]), printing a
   configuration and reading the result back is the identity.  Nothing here
   depends on the concrete table. *)
From Coq Require Import List NArith ZArith Bool String Ascii Lia.
From RV Require Import C35.Model C35.Spec.
Import ListNotations.
Local Open Scope string_scope.
Local Open Scope N_scope.

Arguments rd_str : simpl never.
Arguments sat : simpl never.
Arguments parse_enum : simpl never.
Arguments pjoin : simpl never.
Arguments name_of : simpl never.
Arguments lower : simpl never.

(* ------------------------------------------------------------------ *)
(* association lists *)

Lemma lookup_app {A} k (a b : list (string * A)) :
  lookup k (a ++ b)%list = match lookup k a with Some v => Some v | None => lookup k b end.
Proof.
  induction a as [|[k' v] a IH]; simpl; [reflexivity|].
  destruct (String.eqb k k'); auto.
Qed.

Lemma lookup_remove_keys {A} k ks (d : list (string * A)) :
  lookup k (remove_keys ks d) = if smem k ks then None else lookup k d.
Proof.
  unfold remove_keys. induction d as [|[k' v] d IH]; simpl.
  - destruct (smem k ks); reflexivity.
  - destruct (smem k' ks) eqn:Hm; simpl.
    + rewrite IH. destruct (String.eqb_spec k k') as [->|Hne].
      * rewrite Hm. reflexivity.
      * reflexivity.
    + destruct (String.eqb_spec k k') as [->|Hne].
      * rewrite Hm. reflexivity.
      * exact IH.
Qed.

Lemma lookup_all_none_nil {A} (d : list (string * A)) : (forall k, lookup k d = None) -> d = [].
Proof.
  destruct d as [|[k v] d]; auto. intros H. specialize (H k). simpl in H.
  rewrite String.eqb_refl in H. discriminate.
Qed.

Lemma smem_app k a b : smem k (a ++ b)%list = smem k a || smem k b.
Proof. induction a as [|h a IH]; simpl; [reflexivity|]. rewrite IH, orb_assoc. reflexivity. Qed.

Lemma snodupb_app a b :
  snodupb (a ++ b)%list = true ->
  snodupb a = true /\ snodupb b = true /\ forall k, smem k a = true -> smem k b = false.
Proof.
  induction a as [|h a IH]; simpl.
  - intros H. repeat split; auto. discriminate.
  - intros H. apply andb_prop in H as [Hh Hn]. rewrite smem_app in Hh.
    apply negb_true_iff, orb_false_elim in Hh as [Hha Hhb].
    destruct (IH Hn) as (Ha & Hb & Hd). repeat split; auto.
    + rewrite Hha, Ha. reflexivity.
    + intros k Hk. apply orb_prop in Hk as [Hk|Hk]; [|auto].
      apply String.eqb_eq in Hk. subst k. exact Hhb.
Qed.

(* ------------------------------------------------------------------ *)
(* strings, numbers *)

Lemma pjoin_abs dir s : is_abs s = true -> pjoin dir s = s.
Proof. unfold pjoin. intros ->. reflexivity. Qed.

Lemma sat_small n : n <= i64max -> sat n = Z.of_N n.
Proof. intros H. unfold sat. rewrite N.min_l by exact H. reflexivity. Qed.

Lemma num_check n max : n <= max ->
  ((0 <=? Z.of_N n)%Z && (Z.to_N (Z.of_N n) <=? max)) = true.
Proof.
  intros H. rewrite N2Z.id. apply andb_true_intro. split.
  - apply Z.leb_le. lia.
  - apply N.leb_le. exact H.
Qed.

Lemma str_ok_weaken e abs cx join x s :
  implb join abs = true -> x_ok x cx = true -> str_ok e abs cx s = true -> str_ok e join x s = true.
Proof.
  unfold str_ok. intros Hj Hx H. apply andb_prop in H as [H1 H2]. apply andb_true_intro. split.
  - destruct join; [|reflexivity]. destruct abs; [exact H1|discriminate].
  - destruct x; [reflexivity| |]; destruct cx; simpl in Hx; try discriminate; exact H2.
Qed.

Lemma rd_str_ok e join x s :
  negb (join && negb (xkind_eqb x XNone)) = true -> str_ok e join x s = true -> rd_str e join x s = Some s.
Proof.
  unfold str_ok, rd_str. intros Hjx H. apply andb_prop in H as [H1 H2].
  destruct join; simpl in *.
  - rewrite (pjoin_abs _ _ H1). destruct x; simpl in Hjx; try discriminate. reflexivity.
  - destruct x; [reflexivity| |];
      (destruct (e_ext e _ s) as [s'|]; [|discriminate]; apply String.eqb_eq in H2; subst; reflexivity).
Qed.

Lemma map_opt_rd_str e join x l :
  negb (join && negb (xkind_eqb x XNone)) = true ->
  forallb (str_ok e join x) l = true -> map_opt (rd_str e join x) l = Some l.
Proof.
  intros Hjx. induction l as [|s l IH]; simpl; [reflexivity|].
  intros H. apply andb_prop in H as [Hs Hl]. rewrite (rd_str_ok _ _ _ _ Hjx Hs), (IH Hl). reflexivity.
Qed.

Lemma forallb_weaken {A} (f g : A -> bool) l :
  (forall a, f a = true -> g a = true) -> forallb f l = true -> forallb g l = true.
Proof.
  intros Hfg. induction l as [|a l IH]; simpl; [reflexivity|].
  intros H. apply andb_prop in H as [Ha Hl]. rewrite (Hfg _ Ha), (IH Hl). reflexivity.
Qed.

Lemma forallb_smem (f : string -> bool) l v : forallb f l = true -> smem v l = true -> f v = true.
Proof.
  induction l as [|h l IH]; simpl; [discriminate|].
  intros H Hm. apply andb_prop in H as [Hh Hl]. apply orb_prop in Hm as [Hm|Hm].
  - apply String.eqb_eq in Hm. subst. exact Hh.
  - auto.
Qed.

(* ------------------------------------------------------------------ *)
(* one row *)

Ltac dv v := destruct v as [ | ?b | ?n | [?n|] | ?s | [?s|] | ?l | [?l|] | [|?p ?m] | ?x | [?f|?f| |?p]].

(* the command line range lies within what the reader produces *)
Lemma cli_in_file e r v :
  row_okb false r = true -> cli_dom e r v = true -> val_small v = true -> file_dom e r v = true.
Proof.
  unfold row_okb, cli_dom, file_dom, eff.
  destruct (r_printer r); destruct (r_reader r); try discriminate;
    destruct (r_cli r); try discriminate; intros Hok Hc Hs;
    dv v; simpl in *; try discriminate; try reflexivity; try exact Hc;
    repeat match goal with
           | H : (_ && _) = true |- _ => apply andb_prop in H as [? ?]
           end;
    try discriminate;
    repeat match goal with
           | H : (_ <=? _) = true |- _ => apply N.leb_le in H
           end;
    try (apply N.leb_le; lia);
    try (apply andb_true_intro; split; apply N.leb_le; lia);
    try (eapply str_ok_weaken; eassumption);
    try (eapply forallb_weaken; [|eassumption]; intros; eapply str_ok_weaken; eassumption).
Qed.

Lemma enum_ok_parse names ci tbl v :
  enum_ok names ci tbl v = true -> parse_enum ci tbl (name_of names v) = Some v.
Proof.
  unfold enum_ok, name_of. destruct (lookup v names) as [txt|]; [|discriminate].
  destruct (parse_enum ci tbl txt) as [v'|]; [|discriminate].
  intros H. apply String.eqb_eq in H. subst. reflexivity.
Qed.

Lemma lookup1 {A} k k' (x : A) : lookup k [(k', x)] = if String.eqb k k' then Some x else None.
Proof. reflexivity. Qed.

(* a value the reader can produce is printed and read back unchanged;
   [get] only has to agree with the printed bindings on the row's own keys *)
Lemma row_roundtrip e r v (get : string -> option tval) :
  row_okb false r = true -> file_dom e r v = true ->
  (forall k, smem k (r_keys r) = true -> get k = lookup k (print_row r v)) ->
  read_row e r get = Some v.
Proof.
  unfold row_okb, file_dom, r_keys, print_row, read_row.
  destruct (r_printer r) eqn:HP; destruct (r_reader r) eqn:HR; try discriminate; intros Hok Hd Hget.
  - (* PNone / RIgnore *)
    dv v; try discriminate. rewrite (Hget (r_key r)) by (simpl; rewrite String.eqb_refl; reflexivity).
    reflexivity.
  - (* PBool / RBool *)
    dv v; try discriminate. rewrite (Hget (r_key r)) by (simpl; rewrite String.eqb_refl; reflexivity).
    simpl. rewrite String.eqb_refl. reflexivity.
  - (* PInt / RNum *)
    apply andb_prop in Hok as [Hmax _]. apply N.leb_le in Hmax.
    dv v; try discriminate. apply N.leb_le in Hd.
    rewrite (Hget (r_key r)) by (simpl; rewrite String.eqb_refl; reflexivity).
    simpl. rewrite String.eqb_refl. rewrite sat_small by lia. rewrite num_check by exact Hd.
    rewrite N2Z.id. reflexivity.
  - (* POptInt / ROptNum *)
    apply andb_prop in Hok as [Hmax _]. apply N.leb_le in Hmax.
    dv v; try discriminate; rewrite (Hget (r_key r)) by (simpl; rewrite String.eqb_refl; reflexivity); simpl.
    + apply N.leb_le in Hd. rewrite String.eqb_refl. rewrite sat_small by lia. rewrite num_check by exact Hd.
      rewrite N2Z.id. reflexivity.
    + reflexivity.
  - (* PZeroInt / RZeroNum *)
    apply andb_prop in Hok as [Hmax _]. apply N.leb_le in Hmax.
    dv v; try discriminate; rewrite (Hget (r_key r)) by (simpl; rewrite String.eqb_refl; reflexivity); simpl.
    + apply andb_prop in Hd as [H1 H2]. apply N.leb_le in H1, H2.
      rewrite String.eqb_refl. rewrite sat_small by lia. rewrite num_check by exact H2.
      rewrite N2Z.id. destruct (N.eqb_spec n 0); [lia|reflexivity].
    + rewrite String.eqb_refl. change (sat 0) with (Z.of_N 0). rewrite num_check by lia. reflexivity.
  - (* PStr / RStr *)
    dv v; try discriminate. rewrite (Hget (r_key r)) by (simpl; rewrite String.eqb_refl; reflexivity).
    simpl. rewrite String.eqb_refl.
    unfold str_ok in Hd. apply andb_prop in Hd as [Hd _].
    destruct join; [rewrite (pjoin_abs _ _ Hd)|]; reflexivity.
  - (* POptStr / ROptStr *)
    apply andb_prop in Hok as [Hjx _].
    dv v; try discriminate; rewrite (Hget (r_key r)) by (simpl; rewrite String.eqb_refl; reflexivity); simpl.
    + rewrite String.eqb_refl. rewrite (rd_str_ok _ _ _ _ Hjx Hd). reflexivity.
    + reflexivity.
  - (* PArr / RArr *)
    apply andb_prop in Hok as [Hjx _].
    dv v; try discriminate. rewrite (Hget (r_key r)) by (simpl; rewrite String.eqb_refl; reflexivity).
    simpl. rewrite String.eqb_refl. rewrite (map_opt_rd_str _ _ _ _ Hjx Hd). reflexivity.
  - (* POptArr / ROptArr *)
    dv v; try discriminate; rewrite (Hget (r_key r)) by (simpl; rewrite String.eqb_refl; reflexivity); simpl.
    + rewrite String.eqb_refl. reflexivity.
    + reflexivity.
  - (* PPairsNE / RPairs *)
    dv v; try discriminate; rewrite (Hget (r_key r)) by (simpl; rewrite String.eqb_refl; reflexivity); simpl.
    + reflexivity.
    + rewrite String.eqb_refl. rewrite Hd. reflexivity.
  - (* PEnum / REnum *)
    apply andb_prop in Hok as [_ Hall].
    dv v; try discriminate. rewrite (Hget (r_key r)) by (simpl; rewrite String.eqb_refl; reflexivity).
    simpl. rewrite String.eqb_refl.
    rewrite (enum_ok_parse _ _ _ _ (forallb_smem _ _ _ Hall Hd)). reflexivity.
  - (* PLog / RLog *)
    repeat match goal with H : (_ && _) = true |- _ => apply andb_prop in H as [H ?] end.
    match goal with H : String.eqb kfac kfac0 = true |- _ => apply String.eqb_eq in H; subst kfac0 end.
    match goal with H : String.eqb kfile kfile0 = true |- _ => apply String.eqb_eq in H; subst kfile0 end.
    match goal with H : snodupb _ = true |- _ => rename H into Hnd end.
    match goal with H : forallb _ _ = true |- _ => rename H into Hall end.
    match goal with H : match lookup "daemon" _ with _ => _ end = true |- _ => rename H into Hdm end.
    simpl in Hnd.
    rewrite !orb_false_r in Hnd.
    apply andb_prop in Hnd as [Hn1 Hn2]. apply negb_true_iff, orb_false_elim in Hn1 as [Hkf Hkl].
    apply andb_prop in Hn2 as [Hn2 _]. apply negb_true_iff in Hn2. rename Hn2 into Hfl.
    assert (Hfk : String.eqb kfac (r_key r) = false) by (rewrite String.eqb_sym; exact Hkf).
    assert (Hlk : String.eqb kfile (r_key r) = false) by (rewrite String.eqb_sym; exact Hkl).
    assert (Hlf : String.eqb kfile kfac = false) by (rewrite String.eqb_sym; exact Hfl).
    assert (M1 : smem (r_key r) [r_key r; kfac; kfile] = true)
      by (simpl; rewrite String.eqb_refl; reflexivity).
    assert (M2 : smem kfac [r_key r; kfac; kfile] = true)
      by (simpl; rewrite String.eqb_refl, orb_true_r; reflexivity).
    assert (M3 : smem kfile [r_key r; kfac; kfile] = true)
      by (simpl; rewrite String.eqb_refl, !orb_true_r; reflexivity).
    pose proof (Hget _ M1) as G1. pose proof (Hget _ M2) as G2. pose proof (Hget _ M3) as G3.
    clear Hget M1 M2 M3.
    dv v; try discriminate; simpl in G1, G2, G3;
      rewrite G1, G2, G3;
      rewrite ?String.eqb_refl, ?Hfk, ?Hlk, ?Hlf, ?Hkf, ?Hkl, ?Hfl; simpl in Hd |- *.
    + (* LDefault *)
      pose proof (enum_ok_parse _ _ _ _ (forallb_smem _ _ _ Hall Hd)) as Hp.
      unfold parse_enum in Hp. rewrite Hp. reflexivity.
    + (* LSyslog *)
      pose proof (enum_ok_parse _ _ _ _ (forallb_smem _ _ _ Hall Hd)) as Hp.
      unfold parse_enum in Hp. rewrite Hp. reflexivity.
    + (* LStderr *)
      change (lower "daemon") with "daemon".
      destruct (lookup "daemon" ftbl); [reflexivity|discriminate].
    + (* LFile *)
      change (lower "daemon") with "daemon".
      destruct (lookup "daemon" ftbl); [|discriminate].
      rewrite (pjoin_abs _ _ Hd). reflexivity.
Qed.

(* the bindings a row prints use the row's own keys only *)
Lemma print_row_keys r v k :
  row_okb false r = true -> smem k (r_keys r) = false -> lookup k (print_row r v) = None.
Proof.
  unfold row_okb, r_keys, print_row.
  destruct (r_printer r); destruct (r_reader r); try discriminate; intros Hok Hm;
    try (simpl in Hm; rewrite orb_false_r in Hm; dv v; simpl; rewrite ?Hm; reflexivity).
  repeat match goal with H : (_ && _) = true |- _ => apply andb_prop in H as [H ?] end.
  match goal with H : String.eqb kfac kfac0 = true |- _ => apply String.eqb_eq in H; subst kfac0 end.
  match goal with H : String.eqb kfile kfile0 = true |- _ => apply String.eqb_eq in H; subst kfile0 end.
  simpl in Hm. rewrite orb_false_r in Hm.
  apply orb_false_elim in Hm as [K1 Hm]. apply orb_false_elim in Hm as [K2 K3].
  dv v; simpl; rewrite ?K1, ?K2, ?K3; reflexivity.
Qed.

(* ------------------------------------------------------------------ *)
(* the table *)

Lemma print_rows_keys t :
  forallb (row_okb false) t = true ->
  forall vs k, smem k (table_keys t) = false -> lookup k (print_rows t vs) = None.
Proof.
  induction t as [|r t IH]; intros Hok vs k Hk; [destruct vs; reflexivity|].
  simpl in Hok. apply andb_prop in Hok as [Hr Ht].
  destruct vs as [|v vs]; [reflexivity|]. simpl.
  unfold table_keys in Hk. simpl in Hk. rewrite smem_app in Hk. apply orb_false_elim in Hk as [Hk1 Hk2].
  rewrite lookup_app, (print_row_keys _ _ _ Hr Hk1). apply IH; assumption.
Qed.

Lemma read_rows_print e t :
  forallb (row_okb false) t = true -> snodupb (table_keys t) = true ->
  forall vs d, conf_dom e t vs = true -> conf_small vs = true ->
  (forall k, lookup k d = lookup k (print_rows t vs)) ->
  exists d', read_rows e t d = Some (vs, d') /\ forall k, lookup k d' = None.
Proof.
  induction t as [|r t IH]; intros Hok Hnd vs d Hdom Hsm Hd.
  - destruct vs; [|discriminate]. exists d. split; [reflexivity|]. intros k. rewrite Hd. reflexivity.
  - destruct vs as [|v vs]; [discriminate|].
    simpl in Hok, Hdom, Hsm.
    apply andb_prop in Hok as [Hr Ht]. apply andb_prop in Hdom as [Hv Hvs]. apply andb_prop in Hsm as [Hsv Hsvs].
    unfold table_keys in Hnd. simpl in Hnd. apply snodupb_app in Hnd as (_ & Hndt & Hdisj).
    assert (Hfd : file_dom e r v = true).
    { unfold val_dom in Hv. apply orb_prop in Hv as [Hc|Hf]; [|exact Hf]. exact (cli_in_file _ _ _ Hr Hc Hsv). }
    simpl.
    rewrite (row_roundtrip e r v (fun k => lookup k d) Hr Hfd).
    2:{ intros k Hk. rewrite Hd. simpl. rewrite lookup_app.
        destruct (lookup k (print_row r v)); [reflexivity|].
        apply (print_rows_keys _ Ht). apply Hdisj. exact Hk. }
    destruct (IH Ht Hndt vs (remove_keys (r_keys r) d) Hvs Hsvs) as (d' & Hrd & Hnone).
    { intros k. rewrite lookup_remove_keys. destruct (smem k (r_keys r)) eqn:Hk.
      - symmetry. apply (print_rows_keys _ Ht). apply Hdisj. exact Hk.
      - rewrite Hd. simpl. rewrite lookup_app, (print_row_keys _ _ _ Hr Hk). reflexivity. }
    rewrite Hrd. exists d'. split; [reflexivity|exact Hnone].
Qed.

(* main theorem, for any coherent table *)
Theorem roundtrip e t vs :
  table_okb false t = true -> conf_dom e t vs = true -> conf_small vs = true ->
  read e t (print_rows t vs) = Some vs.
Proof.
  intros Hok Hdom Hsm. unfold table_okb in Hok. apply andb_prop in Hok as [Hrows Hnd].
  destruct (read_rows_print e t Hrows Hnd vs (print_rows t vs) Hdom Hsm (fun k => eq_refl)) as (d' & Hrd & Hnone).
  unfold read. rewrite Hrd. rewrite (lookup_all_none_nil _ Hnone). reflexivity.
Qed.

(* a strictly coherent table needs no exclusion of large numbers *)
Lemma eff_strict_le c : eff false c <= eff true c.
Proof. unfold eff. apply N.le_min_l. Qed.

Lemma row_okb_strict r : row_okb true r = true -> row_okb false r = true.
Proof.
  unfold row_okb. destruct (r_printer r); destruct (r_reader r); try discriminate; auto;
    destruct (r_cli r); auto; intros H; apply andb_prop in H as [H1 H2]; rewrite H1; simpl;
    unfold eff in *; apply N.leb_le in H2; apply N.leb_le; pose proof (N.le_min_l max0 i64max); lia.
Qed.

Lemma cli_small_strict e r v : row_okb true r = true -> cli_dom e r v = true -> val_small v = true.
Proof.
  unfold row_okb, cli_dom, val_small, eff.
  destruct (r_printer r); destruct (r_reader r); try discriminate;
    destruct (r_cli r); try discriminate; intros Hok Hc;
    dv v; simpl in *; try discriminate; try reflexivity;
    repeat match goal with H : (_ && _) = true |- _ => apply andb_prop in H as [? ?] end;
    repeat match goal with H : (_ <=? _) = true |- _ => apply N.leb_le in H end;
    apply N.leb_le; lia.
Qed.

Lemma file_small e r v : row_okb false r = true -> file_dom e r v = true -> val_small v = true.
Proof.
  unfold row_okb, file_dom, val_small.
  destruct (r_printer r); destruct (r_reader r); try discriminate; intros Hok Hc;
    dv v; simpl in *; try discriminate; try reflexivity;
    repeat match goal with H : (_ && _) = true |- _ => apply andb_prop in H as [? ?] end;
    repeat match goal with H : (_ <=? _) = true |- _ => apply N.leb_le in H end;
    apply N.leb_le; lia.
Qed.

Lemma conf_small_strict e t : forallb (row_okb true) t = true ->
  forall vs, conf_dom e t vs = true -> conf_small vs = true.
Proof.
  induction t as [|r t IH]; intros Hok vs Hd; destruct vs as [|v vs]; try discriminate; [reflexivity|].
  simpl in *. apply andb_prop in Hok as [Hr Ht]. apply andb_prop in Hd as [Hv Hvs].
  rewrite (IH Ht _ Hvs), andb_true_r. unfold val_dom in Hv. apply orb_prop in Hv as [Hc|Hf].
  - exact (cli_small_strict _ _ _ Hr Hc).
  - exact (file_small _ _ _ (row_okb_strict _ Hr) Hf).
Qed.

Theorem roundtrip_strict e t vs :
  table_okb true t = true -> conf_dom e t vs = true -> read e t (print_rows t vs) = Some vs.
Proof.
  intros Hok Hdom. unfold table_okb in Hok. apply andb_prop in Hok as [Hrows Hnd].
  apply roundtrip; [|exact Hdom|exact (conf_small_strict _ _ Hrows _ Hdom)].
  unfold table_okb. rewrite Hnd, andb_true_r.
  eapply forallb_weaken; [|exact Hrows]. exact row_okb_strict.
Qed.

(* ------------------------------------------------------------------ *)
(* the oracle *)

Lemma sl_eqb_refl l : sl_eqb l l = true.
Proof. induction l; simpl; [reflexivity|]. rewrite String.eqb_refl. exact IHl. Qed.
Lemma pl_eqb_refl l : pl_eqb l l = true.
Proof. induction l as [|[a b] l IH]; simpl; [reflexivity|]. rewrite !String.eqb_refl. exact IH. Qed.
Lemma val_eqb_refl v : val_eqb v v = true.
Proof.
  dv v; simpl; rewrite ?String.eqb_refl, ?N.eqb_refl, ?sl_eqb_refl, ?pl_eqb_refl; try reflexivity.
  - destruct b; reflexivity.
  - destruct p as [a b]. simpl. rewrite ?String.eqb_refl, ?pl_eqb_refl. reflexivity.
Qed.
Lemma vl_eqb_refl l : vl_eqb l l = true.
Proof. induction l; simpl; [reflexivity|]. rewrite val_eqb_refl. exact IHl. Qed.

Theorem model_satisfies_spec e t vs :
  table_okb false t = true -> conf_dom e t vs = true -> conf_small vs = true ->
  spec_okb vs (model_obs e t vs) = true.
Proof.
  intros Hok Hdom Hsm. unfold spec_okb, model_obs. simpl.
  rewrite (roundtrip e t vs Hok Hdom Hsm). simpl. rewrite vl_eqb_refl. reflexivity.
Qed.
